package main

// selfValidate is filled in by selfval_impl.go (thorough tier).
func selfValidate(prop, repo, verif string, res *Result) { runSelfValidation(prop, repo, verif, res) }
