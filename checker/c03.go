package main

// C03 — expressions evaluate per the documented operator semantics and precedence.

import (
	"fmt"
	"go/ast"
	"go/token"
	"go/types"
	"sort"
	"strings"

	"golang.org/x/tools/go/ssa"
)

func init() { register("C03", checkC03) }

// the precedence classes of the language reference (ecal.md), by node kind
var (
	c03Mul  = []string{"times", "div", "divint", "modint"}
	c03Add  = []string{"plus", "minus"}
	c03Cmp  = []string{">=", "<=", "!=", "==", ">", "<", "like", "in", "notin", "hasprefix", "hassuffix"}
	c03Pref = []string{"plus", "minus", "not"}
)

// expected operator closures: node kind -> helper -> normalised result expression
type opExpect struct {
	helper string
	expr   string
}

var c03Ops = map[string][]opExpect{
	"plus":      {{"numVal", "$1"}, {"numOp", "$1 + $2"}},
	"minus":     {{"numVal", "-$1"}, {"numOp", "$1 - $2"}},
	"times":     {{"numOp", "$1 * $2"}},
	"div":       {{"numOp", "$1 / $2"}},
	"divint":    {{"numOp", "math.Floor($1 / $2)"}},
	"modint":    {{"numOp", "float64(int64($1) % int64($2))"}},
	">=":        {{"numOp", "$1 >= $2"}, {"strOp", "$1 >= $2"}},
	"<=":        {{"numOp", "$1 <= $2"}, {"strOp", "$1 <= $2"}},
	">":         {{"numOp", "$1 > $2"}, {"strOp", "$1 > $2"}},
	"<":         {{"numOp", "$1 < $2"}, {"strOp", "$1 < $2"}},
	"==":        {{"genOp", "$1 == $2"}},
	"!=":        {{"genOp", "$1 != $2"}},
	"and":       {{"boolOp", "$1 && $2"}},
	"or":        {{"boolOp", "$1 || $2"}},
	"not":       {{"boolVal", "!$1"}},
	"hasprefix": {{"strOp", "strings.HasPrefix($1, $2)"}},
	"hassuffix": {{"strOp", "strings.HasSuffix($1, $2)"}},
	"in":        {{"listOp", "<in-loop>"}},
}

func checkC03(c *Ctx, r *Result, tier string) {
	r.Explanation = "Decides the part of C03 that is entirely a property of the repository's own tables and of three expressions, because the Pratt loop is generic: (R03a) the binding powers of the grammar table satisfy the relations of the language reference (multiplicative > additive > comparison/membership > and > or > assignment > 0, classes share one binding, infix operators use ldInfix, + - not use ndPrefix); " +
		"(R03b) the parser loop continues on a strict '<', ldInfix parses its right operand with exactly its own binding (left associativity), ndPrefix with binding+δ where additive+δ exceeds multiplicative and not.binding+δ lies in [and, comparison); " +
		"(R03c) providerMap maps every operator node to a runtime whose Eval calls the typed helper the reference implies with a closure computing exactly the expected Go operator on its parameters in order; (R03d) every operand type assertion in the helpers is comma-ok and its failure returns the matching kind error built from the same operand; (R03e) evaluation errors propagate (errpath, shared with C04)."
	r.RuleText = "R03a relations over the extracted astNodeMap; R03b shape of (*parser).run / ldInfix / ndPrefix in SSA; R03c closure matching on type-checked syntax against the expected operator table; R03d failure-edge analysis of operand assertions; R03e = R04a"
	r.NotCovered = "Float results (IEEE semantics of Go), number lexing, whitespace/newline layout, values of like/regexp."
	r.Assumptions = []string{"the operator/precedence tables of ecal.md, encoded once in the checker as the specification"}

	gr, err := ExtractGrammar(c)
	if err != nil {
		r.Undecide("R03a: %v", err)
		return
	}
	r.Floor("R03a-grammar-entries", len(gr.ByToken), 50)
	for _, p := range checkShapeTable(gr) {
		r.Undecide("shape table: %s", p)
	}

	// ---- R03a -----------------------------------------------------------------------------------
	bindingOf := func(kind string) (int64, bool) {
		e := gr.ByName[kind]
		if e == nil {
			r.Report(Finding{Rule: "R03a", Site: "grammar#" + kind, Msg: "operator node kind " + kind + " is missing from the grammar table astNodeMap"})
			return 0, false
		}
		return e.Binding, true
	}
	class := func(name string, kinds []string) (int64, bool) {
		var b int64
		ok := true
		for i, k := range kinds {
			v, found := bindingOf(k)
			if !found {
				ok = false
				continue
			}
			if i == 0 {
				b = v
			} else if v != b {
				ok = false
				r.Instance("R03a", "grammar#class:"+name, "", "finding", fmt.Sprintf("%s has binding %d, %s has %d", kinds[0], b, k, v), true)
				r.Report(Finding{Rule: "R03a", Site: "grammar#class:" + name + ":" + k,
					Msg: fmt.Sprintf("operators of the %s class must share one binding power: %s has %d, %s has %d — `a %s b %s c` no longer groups left to right", name, kinds[0], b, k, v, kinds[0], k)})
			}
			if e := gr.ByName[k]; e != nil && e.Ld != "ldInfix" {
				ok = false
				r.Report(Finding{Rule: "R03a", Site: "grammar#ld:" + k, Msg: fmt.Sprintf("operator %s has left denotation %q, expected ldInfix", k, e.Ld)})
			}
		}
		if ok {
			r.Instance("R03a", "grammar#class:"+name, "", "ok", fmt.Sprintf("%d operator(s) share binding %d, all ldInfix", len(kinds), b), true)
		}
		return b, ok
	}
	M, okM := class("multiplicative", c03Mul)
	A, okA := class("additive", c03Add)
	C, okC := class("comparison", c03Cmp)
	N, okN := class("and", []string{"and"})
	O, okO := class("or", []string{"or"})
	S, okS := class("assignment", []string{":="})
	if okM && okA && okC && okN && okO && okS {
		if M > A && A > C && C > N && N > O && O > S && S > 0 {
			r.Instance("R03a", "grammar#order", "", "ok", fmt.Sprintf("M=%d > A=%d > C=%d > and=%d > or=%d > assign=%d > 0", M, A, C, N, O, S), true)
		} else {
			r.Instance("R03a", "grammar#order", "", "finding", fmt.Sprintf("M=%d A=%d C=%d and=%d or=%d assign=%d", M, A, C, N, O, S), true)
			r.Report(Finding{Rule: "R03a", Site: "grammar#order",
				Msg: fmt.Sprintf("binding powers violate the documented precedence multiplicative > additive > comparison > and > or > assignment > 0: M=%d A=%d C=%d and=%d or=%d assign=%d", M, A, C, N, O, S)})
		}
	}
	for _, k := range c03Pref {
		if e := gr.ByName[k]; e != nil {
			if e.Nd == "ndPrefix" {
				r.Instance("R03a", "grammar#nd:"+k, "", "ok", "prefix use parsed by ndPrefix", true)
			} else {
				r.Instance("R03a", "grammar#nd:"+k, "", "finding", "null denotation "+e.Nd, true)
				r.Report(Finding{Rule: "R03a", Site: "grammar#nd:" + k, Msg: fmt.Sprintf("prefix operator %s has null denotation %q, expected ndPrefix", k, e.Nd)})
			}
		}
	}

	// ---- R03b -----------------------------------------------------------------------------------
	c03Pratt(c, r, gr, M, A, C, N)

	// ---- R03c -----------------------------------------------------------------------------------
	c03Operators(c, r)

	// ---- R03d -----------------------------------------------------------------------------------
	c03OperandErrors(c, r)

	// ---- R03e -----------------------------------------------------------------------------------
	checkErrorLoss(c, r, "R03e")
	c03Stateless(c, r, gr)
	c03DecimalLiterals(c, r)
	c03AssertionZeroValues(c, r)
}

func c03Pratt(c *Ctx, r *Result, gr *Grammar, M, A, C, N int64) {
	run := c.Method("parser", "parser", "run")
	ldInfix := c.Func("parser", "ldInfix")
	ndPrefix := c.Func("parser", "ndPrefix")
	fBinding := c.Field("parser", "ASTNode", "binding")
	if run == nil || ldInfix == nil || ndPrefix == nil || fBinding == nil {
		r.Undecide("R03b: (*parser).run / ldInfix / ndPrefix / ASTNode.binding not found")
		return
	}
	// loop condition: rightBinding < <node>.binding, strict
	found := false
	for _, b := range run.Blocks {
		ifi, ok := b.Instrs[len(b.Instrs)-1].(*ssa.If)
		if !ok {
			continue
		}
		bo, ok := ifi.Cond.(*ssa.BinOp)
		if !ok {
			continue
		}
		var param, fld ssa.Value
		op := bo.Op
		if p, isP := bo.X.(*ssa.Parameter); isP {
			param, fld = p, bo.Y
		} else if p, isP := bo.Y.(*ssa.Parameter); isP {
			param, fld = p, bo.X
			op = flipOp(op)
		}
		if param == nil || len(run.Params) < 2 || param != ssa.Value(run.Params[1]) {
			continue
		}
		ld, isLoad := fld.(*ssa.UnOp)
		if !isLoad || fieldVar(ld.X) != fBinding {
			continue
		}
		found = true
		pos := c.Pos(c.InstrPos(ifi))
		// the relation that holds on the edge that stays in the loop (the test may be written as the
		// loop condition, or inverted as `if binding <= rightBinding { break }`)
		contTrue := blockReach(b.Succs[0], true)[b]
		contFalse := blockReach(b.Succs[1], true)[b]
		inLoopBody := contTrue != contFalse
		if contFalse && !contTrue {
			op = negateOp(op)
		}
		if op == token.LSS && inLoopBody {
			r.Instance("R03b", "parser.(*parser).run#loop-cond", pos, "ok", "continues while rightBinding < next.binding (strict)", true)
		} else {
			r.Instance("R03b", "parser.(*parser).run#loop-cond", pos, "finding", "comparison "+op.String(), true)
			r.Report(Finding{Rule: "R03b", Site: "parser.(*parser).run#loop-cond", Pos: pos,
				Msg: "the Pratt loop does not continue exactly on the strict 'rightBinding < next.binding' (found '" + op.String() + "'): with '<=' operators of equal binding associate to the right — `10 - 4 - 3` evaluates to 9"})
		}
	}
	if !found {
		r.Undecide("R03b: the loop condition comparing the rightBinding parameter with a node's binding was not found in (*parser).run")
	}
	// argument of the recursive run call
	runArg := func(fn *ssa.Function) (int64, bool, string) {
		calls := callSites(fn, func(_ string, ci ssa.CallInstruction) bool { return ci.Common().StaticCallee() == run })
		if len(calls) != 1 {
			return 0, false, fmt.Sprintf("%d calls of run", len(calls))
		}
		arg := calls[0].Common().Args[1]
		t := termOf(arg)
		if t.V == nil {
			return 0, false, "argument is " + exprString(arg, 0)
		}
		ld, ok := t.V.(*ssa.UnOp)
		if !ok || fieldVar(ld.X) != fBinding {
			return 0, false, "argument is " + exprString(arg, 0)
		}
		// the node must be the function's own `self` parameter
		if len(fn.Params) < 2 || rootOf(ld.X) != ssa.Value(fn.Params[1]) {
			return 0, false, "binding of another node: " + exprString(arg, 0)
		}
		return t.Off, true, ""
	}
	off, ok, why := runArg(ldInfix)
	pos := c.Pos(ldInfix.Pos())
	switch {
	case !ok:
		r.Undecide("R03b: right operand of ldInfix: %s", why)
	case off != 0:
		r.Instance("R03b", "parser.ldInfix#right-operand", pos, "finding", fmt.Sprintf("binding%+d", off), true)
		r.Report(Finding{Rule: "R03b", Site: "parser.ldInfix#right-operand", Pos: pos,
			Msg: fmt.Sprintf("ldInfix parses its right operand with self.binding%+d instead of exactly self.binding: binary operators no longer associate to the left (or swallow tighter operators)", off)})
	default:
		r.Instance("R03b", "parser.ldInfix#right-operand", pos, "ok", "right operand parsed with exactly self.binding (left associativity)", true)
	}
	off, ok, why = runArg(ndPrefix)
	pos = c.Pos(ndPrefix.Pos())
	if !ok {
		r.Undecide("R03b: operand of ndPrefix: %s", why)
		return
	}
	notB := int64(-1)
	if e := gr.ByName["not"]; e != nil {
		notB = e.Binding
	}
	var bad []string
	if !(A+off > M) {
		bad = append(bad, fmt.Sprintf("additive+δ = %d does not exceed multiplicative %d: `-a * b` parses as -(a*b)", A+off, M))
	}
	if !(notB+off < C) {
		bad = append(bad, fmt.Sprintf("not+δ = %d is not below comparison %d: `not a == b` parses as (not a) == b", notB+off, C))
	}
	if !(notB+off >= N) {
		bad = append(bad, fmt.Sprintf("not+δ = %d is below and %d: `not a and b` parses as not (a and b)", notB+off, N))
	}
	if len(bad) == 0 {
		r.Instance("R03b", "parser.ndPrefix#operand", pos, "ok", fmt.Sprintf("operand parsed with binding+%d: additive+δ=%d > M=%d; and=%d ≤ not+δ=%d < C=%d", off, A+off, M, N, notB+off, C), true)
	} else {
		r.Instance("R03b", "parser.ndPrefix#operand", pos, "finding", strings.Join(bad, "; "), true)
		r.Report(Finding{Rule: "R03b", Site: "parser.ndPrefix#operand", Pos: pos, Msg: "prefix offset δ=" + fmt.Sprint(off) + ": " + strings.Join(bad, "; ")})
	}
}

// closureExpr normalises the value expression of a one-expression closure: parameters become $1, $2.
// Statements before the final return may only be guards returning something else (error values).
func closureExpr(p *types.Info, lit *ast.FuncLit) (string, bool) {
	if lit.Body == nil || len(lit.Body.List) == 0 {
		return "", false
	}
	var params []string
	for _, f := range lit.Type.Params.List {
		for _, n := range f.Names {
			params = append(params, n.Name)
		}
	}
	last, ok := lit.Body.List[len(lit.Body.List)-1].(*ast.ReturnStmt)
	if !ok || len(last.Results) != 1 {
		return "", false
	}
	for _, st := range lit.Body.List[:len(lit.Body.List)-1] {
		switch st.(type) {
		case *ast.IfStmt, *ast.RangeStmt:
		default:
			return "", false
		}
	}
	// the in-operator: for _, i := range $2 { if $1 == i { return true } } return false
	if len(lit.Body.List) >= 2 {
		if rs, ok := lit.Body.List[len(lit.Body.List)-2].(*ast.RangeStmt); ok && len(params) == 2 {
			if id, ok := rs.X.(*ast.Ident); ok && id.Name == params[1] {
				if lv, ok := last.Results[0].(*ast.Ident); ok && lv.Name == "false" {
					val, _ := rs.Value.(*ast.Ident)
					okLoop := false
					ast.Inspect(rs.Body, func(n ast.Node) bool {
						ifs, ok := n.(*ast.IfStmt)
						if !ok {
							return true
						}
						be, ok := ifs.Cond.(*ast.BinaryExpr)
						if !ok || be.Op != token.EQL || val == nil {
							return true
						}
						x, _ := be.X.(*ast.Ident)
						y, _ := be.Y.(*ast.Ident)
						if x != nil && y != nil && ((x.Name == params[0] && y.Name == val.Name) || (y.Name == params[0] && x.Name == val.Name)) {
							if len(ifs.Body.List) == 1 {
								if ret, ok := ifs.Body.List[0].(*ast.ReturnStmt); ok && len(ret.Results) == 1 {
									if t, ok := ret.Results[0].(*ast.Ident); ok && t.Name == "true" {
										okLoop = true
									}
								}
							}
						}
						return true
					})
					if okLoop {
						return "<in-loop>", true
					}
				}
			}
		}
	}
	s := types.ExprString(last.Results[0])
	// replace parameter identifiers (whole words)
	for i, pn := range params {
		s = replaceIdent(s, pn, fmt.Sprintf("$%d", i+1))
	}
	return s, true
}

func replaceIdent(s, name, with string) string {
	var out strings.Builder
	isIdent := func(b byte) bool {
		return b == '_' || (b >= '0' && b <= '9') || (b >= 'a' && b <= 'z') || (b >= 'A' && b <= 'Z')
	}
	for i := 0; i < len(s); {
		if strings.HasPrefix(s[i:], name) && (i == 0 || (!isIdent(s[i-1]) && s[i-1] != '.' && s[i-1] != '$')) && (i+len(name) == len(s) || !isIdent(s[i+len(name)])) {
			out.WriteString(with)
			i += len(name)
			continue
		}
		out.WriteByte(s[i])
		i++
	}
	return out.String()
}

func c03Operators(c *Ctx, r *Result) {
	pt, err := ExtractProviders(c)
	if err != nil {
		r.Undecide("R03c: %v", err)
		return
	}
	r.Floor("R03c-providers", len(pt.Kind2Ctor), 45)
	_ = c.byName["interpreter"]
	var kinds []string
	for k := range c03Ops {
		kinds = append(kinds, k)
	}
	sort.Strings(kinds)
	n := 0
	for _, kind := range kinds {
		rtT := pt.Kind2Type[kind]
		site := "interpreter.providerMap#" + kind
		if rtT == nil {
			r.Instance("R03c", site, "", "finding", "no runtime registered", true)
			r.Report(Finding{Rule: "R03c", Site: site, Msg: "operator node kind " + kind + " has no entry in providerMap: it evaluates through the invalid runtime"})
			continue
		}
		eval := c.Method("interpreter", rtT.Obj().Name(), "Eval")
		if eval == nil {
			r.Undecide("R03c: Eval of %s not found", rtT.Obj().Name())
			continue
		}
		// the typed helpers applied by this Eval (through intermediate functions), with the
		// normalised expression of the function each is handed
		got := map[string][]string{}
		for _, app := range c03Applications(c, eval) {
			got[app.helper] = append(got[app.helper], c03ExprOf(app))
		}
		for _, want := range c03Ops[kind] {
			n++
			s2 := site + ":" + want.helper
			pos := c.Pos(eval.Pos())
			exprs := got[want.helper]
			ok := false
			for _, e := range exprs {
				if e == want.expr {
					ok = true
				}
			}
			if ok && len(exprs) == 1 {
				r.Instance("R03c", s2, pos, "ok", fmt.Sprintf("%s → %s.Eval → %s(%s)", kind, rtT.Obj().Name(), want.helper, want.expr), true)
			} else {
				r.Instance("R03c", s2, pos, "finding", fmt.Sprintf("found %v", exprs), true)
				r.Report(Finding{Rule: "R03c", Site: s2, Pos: pos,
					Msg: fmt.Sprintf("operator `%s` (%s.Eval): expected one call %s(func(…) { return %s }), found %v — the operator computes something else than the language reference says", kind, rtT.Obj().Name(), want.helper, want.expr, exprs)})
			}
		}
		// no additional helper with an operator closure
		for h, exprs := range got {
			expected := false
			for _, want := range c03Ops[kind] {
				if want.helper == h {
					expected = true
				}
			}
			if !expected {
				r.Report(Finding{Rule: "R03c", Site: site + ":extra:" + h, Pos: c.Pos(eval.Pos()),
					Msg: fmt.Sprintf("operator `%s` calls the additional helper %s with %v, which the reference semantics does not imply", kind, h, exprs)})
			}
		}
	}
	// notin = ¬in
	if rtT := pt.Kind2Type["notin"]; rtT != nil {
		n++
		eval := c.Method("interpreter", rtT.Obj().Name(), "Eval")
		inT := pt.Kind2Type["in"]
		ok := false
		if eval != nil && inT != nil {
			inEval := c.Method("interpreter", inT.Obj().Name(), "Eval")
			allInstrs(eval, func(in ssa.Instruction) {
				u, isU := in.(*ssa.UnOp)
				if !isU || u.Op != token.NOT {
					return
				}
				ta, isTA := u.X.(*ssa.TypeAssert)
				if !isTA {
					return
				}
				if e, isE := unspill(ta.X).(*ssa.Extract); isE {
					if call, isC := e.Tuple.(*ssa.Call); isC && call.Call.StaticCallee() == inEval {
						ok = true
					}
				}
			})
		}
		if ok {
			r.Instance("R03c", "interpreter.providerMap#notin", c.Pos(eval.Pos()), "ok", "notin = ¬(in) through the embedded in-runtime", true)
		} else {
			r.Instance("R03c", "interpreter.providerMap#notin", "", "finding", "not the negation of in", true)
			r.Report(Finding{Rule: "R03c", Site: "interpreter.providerMap#notin", Msg: "operator `notin` is not computed as the negation of the `in` runtime's result"})
		}
	}
	r.Floor("R03c", n, 18)
}

// c03OperandErrors: R03d.
func c03OperandErrors(c *Ctx, r *Result) {
	kindErr := map[string]string{"float64": "ErrNotANumber", "bool": "ErrNotABoolean", "[]interface{}": "ErrNotAList", "[]any": "ErrNotAList"}
	n := 0
	for _, h := range []string{"numVal", "boolVal", "numOp", "boolOp", "listOp"} {
		fn := c.Method("interpreter", "operatorRuntime", h)
		if fn == nil {
			r.Undecide("R03d: operatorRuntime.%s not found", h)
			continue
		}
		key := c.FuncKey(fn)
		ord := newOrdinals()
		allInstrs(fn, func(in ssa.Instruction) {
			ta, ok := in.(*ssa.TypeAssert)
			if !ok {
				return
			}
			// operand = result of Children[k].Runtime.Eval
			e, isE := unspill(ta.X).(*ssa.Extract)
			if !isE {
				return
			}
			call, isC := e.Tuple.(*ssa.Call)
			if !isC || !call.Call.IsInvoke() || call.Call.Method.Name() != "Eval" {
				return
			}
			operand := accessPath(call.Call.Value) // …node.Children[k].Runtime
			n++
			site := ord.key(key, "operand-assert", operand)
			pos := c.Pos(c.InstrPos(in))
			if !ta.CommaOk {
				r.Instance("R03d", site, pos, "finding", "unchecked assertion", true)
				r.Report(Finding{Rule: "R03d", Site: site, Pos: pos,
					Msg: key + ": the operand " + operand + " is asserted without comma-ok: an operand of the wrong kind crashes the interpreter instead of yielding a runtime error"})
				return
			}
			wantErr := kindErr[types.TypeString(ta.AssertedType, nil)]
			// failure edge: the block taken when ok is false
			var okV ssa.Value
			for _, ref := range *ta.Referrers() {
				if ex, isEx := ref.(*ssa.Extract); isEx && ex.Index == 1 {
					okV = ex
				}
			}
			good, why := false, "no failure branch found"
			for _, b := range fn.Blocks {
				ifi, isIf := b.Instrs[len(b.Instrs)-1].(*ssa.If)
				if !isIf || unspill(ifi.Cond) != okV {
					continue
				}
				fail := b.Succs[1]
				// NewRuntimeError(util.ErrX, rt.errorDetailString(Children[k].Token, res), …) in the failure block
				for _, x := range fail.Instrs {
					ce, isCall := x.(*ssa.Call)
					if !isCall {
						continue
					}
					// the error is built by NewRuntimeError here, or by a helper of the same type that
					// builds it from its parameters (operandError(kind, operand, value, pos))
					sub := func(v ssa.Value) ssa.Value { return v }
					if !strings.HasSuffix(callName(ce), "NewRuntimeError") {
						h := ce.Call.StaticCallee()
						if h == nil || !c.inModule(h) || c.PkgOf(h) != "interpreter" || h == fn {
							continue
						}
						var inner *ssa.Call
						allInstrs(h, func(y ssa.Instruction) {
							if ic, ok := y.(*ssa.Call); ok && strings.HasSuffix(callName(ic), "NewRuntimeError") {
								inner = ic
							}
						})
						if inner == nil {
							continue
						}
						outer := ce
						sub = func(v ssa.Value) ssa.Value {
							for i, p := range h.Params {
								if unspill(v) == ssa.Value(p) && i < len(outer.Call.Args) {
									return outer.Call.Args[i]
								}
							}
							return v
						}
						ce = inner
					}
					args := ce.Call.Args
					et := ""
					if u, isU := sub(args[1]).(*ssa.UnOp); isU {
						if g, isG := u.X.(*ssa.Global); isG {
							et = g.Name()
						}
					}
					if et != wantErr {
						why = fmt.Sprintf("failure returns %s, expected %s", et, wantErr)
						continue
					}
					// detail built from the same operand
					det, isDet := args[2].(*ssa.Call)
					if !isDet || !strings.HasSuffix(callName(det), "errorDetailString") {
						why = "the error detail is not built by errorDetailString"
						continue
					}
					dargs := det.Call.Args
					tokPath := accessPath(dargs[1])
					// <param>.Token inside the helper: the token of the node handed in
					if ld, isLd := dargs[1].(*ssa.UnOp); isLd {
						if fa, isFA := ld.X.(*ssa.FieldAddr); isFA {
							if sv := sub(fa.X); sv != fa.X {
								tokPath = accessPath(sv) + ".Token"
							}
						}
					}
					sameTok := strings.HasPrefix(tokPath, strings.TrimSuffix(operand, ".Runtime")+".Token")
					sameVal := unspill(stripConv(sub(dargs[2]))) == ssa.Value(e)
					if sameTok && sameVal {
						good, why = true, "failure → NewRuntimeError("+et+", detail of the same operand)"
					} else {
						why = fmt.Sprintf("the error detail names another operand (token %s)", tokPath)
					}
				}
			}
			if good {
				r.Instance("R03d", site, pos, "ok", why, true)
			} else {
				r.Instance("R03d", site, pos, "finding", why, true)
				r.Report(Finding{Rule: "R03d", Site: site, Pos: pos, Msg: key + ": operand " + operand + ": " + why + " — the runtime error must be of the operand's kind and name the offending operand"})
			}
		})
	}
	r.Floor("R03d", n, 5)
}

// ---- R03f: operator runtimes are stateless -------------------------------------------------------

// c03Stateless: the value of an operator node is a function of its operands' values only. A
// necessary structural condition: the Eval of an operator runtime (and the helpers it calls
// statically) writes neither the runtime component / AST node it belongs to nor package-level
// state — otherwise the second evaluation of the same node (loop, function body) can depend on
// the first.
func c03Stateless(c *Ctx, r *Result, gr *Grammar) {
	pt, err := ExtractProviders(c)
	if err != nil {
		r.Undecide("R03f: %v", err)
		return
	}
	rtIface := c.Interface("parser", "Runtime")
	var kinds []string
	for name, e := range gr.ByName {
		if name != "" && (e.Ld == "ldInfix" || e.Nd == "ndPrefix") {
			kinds = append(kinds, name)
		}
	}
	sort.Strings(kinds)
	n := 0
	done := map[*types.Named]bool{}
	for _, kind := range kinds {
		rtT := pt.Kind2Type[kind]
		if rtT == nil || done[rtT] {
			continue
		}
		done[rtT] = true
		eval := c.Method("interpreter", rtT.Obj().Name(), "Eval")
		if eval == nil {
			continue
		}
		n++
		// Eval and its static callees in package interpreter (closures included)
		set := map[*ssa.Function]bool{}
		var order []*ssa.Function
		var add func(fn *ssa.Function)
		add = func(fn *ssa.Function) {
			if fn == nil || set[fn] || len(fn.Blocks) == 0 || c.PkgOf(fn) != "interpreter" {
				return
			}
			set[fn] = true
			order = append(order, fn)
			allInstrs(fn, func(in ssa.Instruction) {
				switch x := in.(type) {
				case *ssa.MakeClosure:
					if cf, ok := x.Fn.(*ssa.Function); ok {
						add(cf)
					}
				case ssa.CallInstruction:
					if f := x.Common().StaticCallee(); f != nil && c.modFuncSet[f] {
						add(f)
					}
				}
			})
		}
		add(eval)
		key := c.FuncKey(eval)
		bad := ""
		var badPos string
		for _, fn := range order {
			for _, w := range WritesOf(fn) {
				stateful := false
				switch w.Kind {
				case WGlobal:
					stateful = true
				case WParam:
					// memory of a runtime component (the node's evaluator); the debugger's and the
					// provider's own bookkeeping is not operator state (C15 / C12)
					if !w.Direct && fn.Signature.Recv() != nil && len(fn.Params) > 0 && w.Root == ssa.Value(fn.Params[0]) && rtIface != nil {
						if rn := namedOf(fn.Params[0].Type()); rn != nil && (types.Implements(types.NewPointer(rn), rtIface) || types.Implements(rn, rtIface)) {
							stateful = true
						}
					}
				}
				if stateful && bad == "" {
					bad = c.FuncKey(fn) + " writes " + accessPath(w.Target)
					badPos = c.Pos(c.InstrPos(w.Instr))
				}
			}
		}
		site := key + "#stateless"
		if bad != "" {
			r.Instance("R03f", site, badPos, "finding", bad, true)
			r.Report(Finding{Rule: "R03f", Site: site, Pos: badPos,
				Msg: fmt.Sprintf("the runtime of operator `%s` keeps state between evaluations (%s): the value of the expression then depends on earlier evaluations of the same node, not only on its operands", kind, bad)})
		} else {
			r.Instance("R03f", site, c.Pos(eval.Pos()), "ok", fmt.Sprintf("Eval and its %d static helper(s) write neither the component nor package state", len(order)-1), true)
		}
	}
	r.Floor("R03f", n, 15)
}
