package main

// Rules added after the third seeding round. Each is a structural necessary condition of one
// clause of a property, formulated so that the restructurings of refactors/ leave it alone.

import (
	"fmt"
	"go/token"
	"go/types"
	"strings"

	"golang.org/x/tools/go/ssa"
)

// ---- R03g: number literals are decimal ----------------------------------------------------------

// The value of a number literal is computed once, in Validate, from the token text. The language
// reference knows decimal literals only; the lexer lets digit strings with a leading zero through.
// Every conversion feeding numberValueRuntime.numValue must therefore be strconv.ParseFloat, or an
// integer parse with the constant base 10 (a base of 0 reads 010 as octal and 0x10 as hex).
func c03DecimalLiterals(c *Ctx, r *Result) {
	fNum := c.Field("interpreter", "numberValueRuntime", "numValue")
	if fNum == nil {
		r.Undecide("R03g: interpreter.numberValueRuntime.numValue not found")
		return
	}
	n := 0
	for _, fn := range c.ModFuncs() {
		if c.PkgOf(fn) != "interpreter" {
			continue
		}
		key := c.FuncKey(fn)
		allInstrs(fn, func(in ssa.Instruction) {
			st, ok := in.(*ssa.Store)
			if !ok || fieldVar(st.Addr) != fNum {
				return
			}
			n++
			site := fmt.Sprintf("%s#numValue#%d", key, n)
			pos := c.Pos(c.InstrPos(in))
			bad := ""
			var walk func(v ssa.Value, d int)
			seen := map[ssa.Value]bool{}
			walk = func(v ssa.Value, d int) {
				if v == nil || seen[v] || d > 8 || bad != "" {
					return
				}
				seen[v] = true
				switch x := v.(type) {
				case *ssa.Const:
					return
				case *ssa.Convert:
					walk(x.X, d+1)
				case *ssa.ChangeType:
					walk(x.X, d+1)
				case *ssa.Phi:
					for _, e := range x.Edges {
						walk(e, d+1)
					}
				case *ssa.Extract:
					walk(x.Tuple, d+1)
				case *ssa.Call:
					switch callName(x) {
					case "strconv.ParseFloat", "strconv.Atoi":
						return
					case "strconv.ParseInt", "strconv.ParseUint":
						if b, isC := constInt(x.Call.Args[1]); !isC || b != 10 {
							bad = fmt.Sprintf("%s is called with base %s: a literal with a leading 0 is read as octal (010 + 1 = 9), 0x… as hexadecimal", callName(x), exprString(x.Call.Args[1], 0))
						}
						return
					default:
						bad = "the value comes from " + accessPath(x) + ", not from a decimal conversion of the token text"
					}
				default:
					bad = "the value (" + accessPath(v) + ") is not a decimal conversion of the token text"
				}
			}
			walk(st.Val, 0)
			if bad == "" {
				r.Instance("R03g", site, pos, "ok", "the literal's value is a decimal conversion (ParseFloat / base-10 integer parse) of the token text", true)
			} else {
				r.Instance("R03g", site, pos, "finding", bad, true)
				r.Report(Finding{Rule: "R03g", Site: site, Pos: pos,
					Msg: key + ": the value of a number literal is not its decimal value: " + bad})
			}
		})
	}
	r.Floor("R03g", n, 1)
}

// ---- R03h: the zero value of a failed assertion is not data -------------------------------------

// `x, _ := v.(float64)` yields 0 when v is not a number. In the evaluator that 0 is then compared,
// added or returned like an operand — `0 in ["a"]` becomes true. Every comma-ok assertion to a
// basic type in package interpreter whose value is used must have its ok inspected.
func c03AssertionZeroValues(c *Ctx, r *Result) {
	n := 0
	for _, fn := range c.ModFuncs() {
		if c.PkgOf(fn) != "interpreter" {
			continue
		}
		key := c.FuncKey(fn)
		ord := newOrdinals()
		allInstrs(fn, func(in ssa.Instruction) {
			ta, ok := in.(*ssa.TypeAssert)
			if !ok || !ta.CommaOk {
				return
			}
			if _, isBasic := ta.AssertedType.Underlying().(*types.Basic); !isBasic {
				return
			}
			var val, okv *ssa.Extract
			for _, ref := range *ta.Referrers() {
				if e, isE := ref.(*ssa.Extract); isE {
					if e.Index == 0 {
						val = e
					} else {
						okv = e
					}
				}
			}
			used := func(e *ssa.Extract) bool {
				if e == nil || e.Referrers() == nil {
					return false
				}
				for _, ref := range *e.Referrers() {
					if _, isDbg := ref.(*ssa.DebugRef); !isDbg {
						return true
					}
				}
				return false
			}
			if !used(val) {
				return
			}
			n++
			site := ord.key(key, "assert-value", accessPath(ta.X)+".("+typeShort(ta.AssertedType)+")")
			pos := c.Pos(c.InstrPos(in))
			if used(okv) {
				r.Instance("R03h", site, pos, "ok", "the ok of the assertion is inspected", true)
				return
			}
			r.Instance("R03h", site, pos, "finding", "value of a comma-ok assertion used, ok discarded", true)
			r.Report(Finding{Rule: "R03h", Site: site, Pos: pos,
				Msg: fmt.Sprintf("%s: the value of %s.(%s) is used although its ok is discarded: for an operand of another kind it is the zero value, which is then treated as data (0 in [\"a\"] is true, \"\" == null …) instead of yielding a kind error or 'not equal'", key, accessPath(ta.X), typeShort(ta.AssertedType))})
		})
	}
	r.Floor("R03h", n, 5)
}

// ---- R08f: printed text is never a format string ------------------------------------------------

// The pretty printer and the format tool assemble program text. Text that came from the program
// (token values, already printed children) must be written, never interpreted: a call of a
// fmt formatting function in package parser or in cli/tool's format file whose format argument is
// not a constant turns every % of the program into a verb.
func c08ConstantFormats(c *Ctx, r *Result) {
	fmtIdx := map[string]int{"fmt.Sprintf": 0, "fmt.Printf": 0, "fmt.Errorf": 0, "fmt.Fprintf": 1, "fmt.Fscanf": 1, "fmt.Sscanf": 1}
	n := 0
	var entries []*ssa.Function
	for _, e := range []*ssa.Function{c.Func("parser", "PrettyPrint"), c.Func("cli/tool", "FormatFiles"), c.Func("cli/tool", "Format")} {
		if e != nil {
			entries = append(entries, e)
		}
	}
	if len(entries) < 2 {
		r.Undecide("R08f: parser.PrettyPrint / cli/tool.FormatFiles not found")
		return
	}
	reach := c.Reachable(entries, func(f *ssa.Function) bool { p := c.PkgOf(f); return p != "parser" && p != "cli/tool" })
	for _, fn := range reach.Order {
		pkg := c.PkgOf(fn)
		if !c.inModule(fn) || (pkg != "parser" && pkg != "cli/tool") {
			continue
		}
		key := c.FuncKey(fn)
		ord := newOrdinals()
		allInstrs(fn, func(in ssa.Instruction) {
			ci, ok := in.(ssa.CallInstruction)
			if !ok {
				return
			}
			idx, isFmt := fmtIdx[callName(in)]
			if !isFmt || idx >= len(ci.Common().Args) {
				return
			}
			n++
			f := ci.Common().Args[idx]
			site := ord.key(key, "format", callName(in))
			pos := c.Pos(c.InstrPos(in))
			if _, isC := f.(*ssa.Const); isC {
				r.Instance("R08f", site, pos, "ok", "constant format string", true)
				return
			}
			r.Instance("R08f", site, pos, "finding", "format string is computed", true)
			r.Report(Finding{Rule: "R08f", Site: site, Pos: pos,
				Msg: fmt.Sprintf("%s: %s is called with a computed format string (%s): program text that reaches it is interpreted — a %% in a string literal or the modulo operator becomes a verb (\"50%% done\" prints as \"50%%!d(MISSING)one\"), the printed program means something else or no longer parses", key, callName(in), accessPath(f))})
		})
	}
	r.Floor("R08f", n, 5)
}

// ---- R10g: who may change the fail-on-first-error setting ----------------------------------------

// The setting is part of the host's configuration: it is changed by its setter, with the value the
// host passes, and initialised by the constructor. Any other store (a Reset that "goes back to the
// defaults") silently turns the documented short-circuit off for every later cascade.
func c10SettingFrame(c *Ctx, r *Result) {
	f := c.Field("engine", "eventProcessor", "failOnFirstError")
	if f == nil {
		r.Undecide("R10g: engine.eventProcessor.failOnFirstError not found")
		return
	}
	n := 0
	for _, fn := range c.ModFuncs() {
		if c.PkgOf(fn) != "engine" {
			continue
		}
		key := c.FuncKey(fn)
		allInstrs(fn, func(in ssa.Instruction) {
			st, ok := in.(*ssa.Store)
			if !ok || fieldVar(st.Addr) != f {
				return
			}
			n++
			site := fmt.Sprintf("%s#failOnFirstError#%d", key, n)
			pos := c.Pos(c.InstrPos(in))
			fa := st.Addr.(*ssa.FieldAddr)
			if _, fresh := fa.X.(*ssa.Alloc); fresh {
				r.Instance("R10g", site, pos, "ok", "initialisation of a new processor", true)
				return
			}
			if p, isP := unspill(st.Val).(*ssa.Parameter); isP && p.Parent() == fn && fn.Parent() == nil {
				// … on every path: a setter that stores only in some state of the processor drops
				// the host's call silently (it has no way to report it)
				always := true
				allInstrs(fn, func(x ssa.Instruction) {
					if _, isRet := x.(*ssa.Return); isRet && x.Block() != fn.Recover && !dominates(in, x) {
						always = false
					}
				})
				if always {
					r.Instance("R10g", site, pos, "ok", "the setter stores the value its caller passes, on every path", true)
					return
				}
				r.Instance("R10g", site, pos, "finding", "the setter stores the value only on some paths", true)
				r.Report(Finding{Rule: "R10g", Site: site, Pos: pos,
					Msg: key + ": stores the fail-on-first-error setting only on some paths (under a condition): on the others the host's call is dropped without notice — after enabling it on a running processor the rules after a failing one still run"})
				return
			}
			r.Instance("R10g", site, pos, "finding", "the setting is overwritten outside its setter", true)
			r.Report(Finding{Rule: "R10g", Site: site, Pos: pos,
				Msg: key + ": overwrites the processor's fail-on-first-error setting with " + accessPath(st.Val) + " — the host's configuration (the ECAL runtime provider enables it once) is lost and later cascades run every rule after a failing one"})
		})
	}
	r.Floor("R10g", n, 1)
}

// ---- R05i: null is a value: presence of a variable is not decided by nil-ness ---------------------

// A scope stores null as the nil interface. Whether a name is defined in a scope is a property of
// the map (comma-ok), not of the stored value: a lookup in varsScope.storage whose plain value is
// compared with nil makes `let x := null` invisible and lets reads and writes fall through to an
// outer definition.
func c05NullIsAValue(c *Ctx, r *Result) {
	f := c.Field("scope", "varsScope", "storage")
	if f == nil {
		r.Undecide("R05i: scope.varsScope.storage not found")
		return
	}
	n := 0
	for _, fn := range c.ModFuncs() {
		if c.PkgOf(fn) != "scope" {
			continue
		}
		key := c.FuncKey(fn)
		ord := newOrdinals()
		allInstrs(fn, func(in ssa.Instruction) {
			lk, ok := in.(*ssa.Lookup)
			if !ok {
				return
			}
			ld, ok := lk.X.(*ssa.UnOp)
			if !ok || ld.Op != token.MUL || fieldVar(ld.X) != f {
				return
			}
			n++
			site := ord.key(key, "storage-lookup", accessPath(lk.Index))
			pos := c.Pos(c.InstrPos(in))
			var val ssa.Value = lk
			if lk.CommaOk {
				val = nil
				for _, ref := range *lk.Referrers() {
					if e, isE := ref.(*ssa.Extract); isE && e.Index == 0 {
						val = e
					}
				}
			}
			bad := false
			if val != nil && val.Referrers() != nil {
				for _, ref := range *val.Referrers() {
					if bo, isBO := ref.(*ssa.BinOp); isBO && (bo.Op == token.EQL || bo.Op == token.NEQ) && (isNilConst(bo.X) || isNilConst(bo.Y)) {
						// the comparison decides control flow?
						if bo.Referrers() != nil {
							for _, r2 := range *bo.Referrers() {
								switch r2.(type) {
								case *ssa.If, *ssa.Phi, *ssa.BinOp, *ssa.UnOp:
									bad = true
								}
							}
						}
					}
				}
			}
			if !bad {
				r.Instance("R05i", site, pos, "ok", "the stored value is not compared with nil to decide presence", true)
				return
			}
			r.Instance("R05i", site, pos, "finding", "presence decided by nil-ness of the stored value", true)
			r.Report(Finding{Rule: "R05i", Site: site, Pos: pos,
				Msg: key + ": the value read from the scope's storage is compared with nil to decide whether the name is defined here: a definition holding null (`let x := null`, a parameter without argument) is skipped and an outer definition of the same name is read or overwritten instead"})
		})
	}
	r.Floor("R05i", n, 3)
}

var _ = strings.HasPrefix

// ---- R13d: the runtime provider is shared by the parses that use it ------------------------------

// ParseWithRuntime calls rp.Runtime(node) for every node. One provider serves every parse of an
// interpreter (imports, sink threads parsing string interpolations, the CLI), so what Runtime and
// the component constructors it calls write into the provider is shared mutable state exactly like
// a package-level variable: a memo of "the last node kind" makes one parse build nodes with the
// other parse's constructor. No function on that path may write memory reached from a value of a
// type implementing parser.RuntimeProvider.
func c13SharedProvider(c *Ctx, r *Result) {
	iface := c.Interface("parser", "RuntimeProvider")
	if iface == nil {
		r.Undecide("R13d: parser.RuntimeProvider not found")
		return
	}
	impls := c.Implementations(iface, "Runtime")
	isProvider := func(t types.Type) bool {
		n := namedOf(t)
		if n == nil {
			return false
		}
		return types.Implements(types.NewPointer(n), iface) || types.Implements(n, iface)
	}
	n := 0
	for _, impl := range impls {
		if !c.inModule(impl) {
			continue
		}
		// the implementation, its static callees in its package, and the constructors of its table
		// (dynamic calls of functions taking the provider first)
		set := map[*ssa.Function]bool{}
		var order []*ssa.Function
		var add func(fn *ssa.Function, d int)
		add = func(fn *ssa.Function, d int) {
			if fn == nil || set[fn] || len(fn.Blocks) == 0 || !c.inModule(fn) || d > 4 {
				return
			}
			set[fn] = true
			order = append(order, fn)
			allInstrs(fn, func(in ssa.Instruction) {
				ci, ok := in.(ssa.CallInstruction)
				if !ok {
					return
				}
				if f := ci.Common().StaticCallee(); f != nil {
					add(f, d+1)
					return
				}
				if ci.Common().IsInvoke() {
					return
				}
				for _, f := range c.Callees(ci) {
					if len(f.Params) > 0 && isProvider(f.Params[0].Type()) {
						add(f, d+1)
					}
				}
			})
		}
		add(impl, 0)
		for _, fn := range order {
			key := c.FuncKey(fn)
			ord := newOrdinals()
			for _, w := range WritesOf(fn) {
				if w.Kind != WParam {
					continue
				}
				p, isP := w.Root.(*ssa.Parameter)
				if !isP || !isProvider(p.Type()) {
					continue
				}
				// memory behind the provider reached through a lock-protected table is C12's business;
				// here: any write into the provider object or what it points to
				site := ord.key(key, w.What, accessPath(w.Target))
				pos := c.Pos(c.InstrPos(w.Instr))
				n++
				r.Instance("R13d", site, pos, "finding", "write into the shared runtime provider on the parse path", true)
				r.Report(Finding{Rule: "R13d", Site: site, Pos: pos,
					Msg: fmt.Sprintf("%s: %s to %s, memory of the runtime provider, on the path ParseWithRuntime → RuntimeProvider.Runtime: the provider is shared by every parse of the interpreter (imports, interpolated strings on sink threads), overlapping parses race on it and build nodes from each other's state", key, w.What, accessPath(w.Target))})
			}
		}
		r.Instance("R13d", c.FuncKey(impl)+"#reach", c.Pos(impl.Pos()), "ok", fmt.Sprintf("%d function(s) on the provider path examined for writes into the provider", len(order)), true)
		r.Floor("R13d-functions", len(order), 40)
	}
}

// ---- R15h: a thread whose resume has been used up is examined again ------------------------------

// VisitState drops the interrogation state of a resumed thread when it reaches a node of another
// line. That node is an arrival at a new line like any other: the function must go on to decide
// the breakpoint question for it — by visiting the node again, or by reaching the test of the
// breakpoint table — on every path from the drop to its return.
func c15ReexamineAfterResume(c *Ctx, r *Result, dbgIface *types.Interface) {
	fStates := c.Field("interpreter", "ecalDebugger", "interrogationStates")
	fBreaks := c.Field("interpreter", "ecalDebugger", "breakPoints")
	if fStates == nil || fBreaks == nil {
		r.Undecide("R15h: ecalDebugger.interrogationStates / breakPoints not found")
		return
	}
	n := 0
	// the visit function and the same-package helpers it hands the visit to
	var visitFns []*ssa.Function
	isEntry := map[*ssa.Function]bool{}
	seenV := map[*ssa.Function]bool{}
	var addV func(fn *ssa.Function, d int)
	addV = func(fn *ssa.Function, d int) {
		if seenV[fn] || d > 2 || !c.inModule(fn) {
			return
		}
		seenV[fn] = true
		visitFns = append(visitFns, fn)
		for h := range staticCalleesIn(c, fn) {
			if c.PkgOf(h) == "interpreter" && h.Signature.Recv() != nil && namedOf(h.Signature.Recv().Type()) == namedOf(fn.Signature.Recv().Type()) {
				addV(h, d+1)
			}
		}
	}
	for _, fn := range c.Implementations(dbgIface, "VisitState") {
		if c.inModule(fn) && fn.Signature.Recv() != nil {
			isEntry[fn] = true
			addV(fn, 0)
		}
	}
	// repeatsOnTrue: every static call of h sits in a loop that is continued exactly when the
	// result is true — returning true from h means "visit this node again"
	repeatsOnTrue := func(h *ssa.Function) bool {
		node := c.CHA().Nodes[h]
		if node == nil || h.Signature.Results().Len() != 1 || h.Signature.Results().At(0).Type().String() != "bool" {
			return false
		}
		sites := 0
		for _, e := range node.In {
			if e.Site == nil || e.Site.Common().StaticCallee() != h {
				if e.Caller.Func.Synthetic != "" {
					continue
				}
				return false
			}
			call, ok := e.Site.(*ssa.Call)
			if !ok {
				return false
			}
			okSite := false
			for _, ref := range *call.Referrers() {
				ifi, isIf := ref.(*ssa.If)
				if !isIf || ifi.Cond != ssa.Value(call) {
					continue
				}
				b := ifi.Block()
				if blockReach(b.Succs[0], true)[call.Block()] && !blockReach(b.Succs[1], true)[call.Block()] {
					okSite = true
				}
			}
			if !okSite {
				return false
			}
			sites++
		}
		return sites > 0
	}
	for _, fn := range visitFns {
		key := c.FuncKey(fn)
		repeatFlag := !isEntry[fn] && repeatsOnTrue(fn)
		var drops []ssa.Instruction
		allInstrs(fn, func(in ssa.Instruction) {
			if isBuiltinCall(in, "delete") {
				args := in.(ssa.CallInstruction).Common().Args
				if ld, ok := args[0].(*ssa.UnOp); ok && fieldVar(ld.X) == fStates {
					drops = append(drops, in)
				}
			}
		})
		if len(drops) == 0 {
			continue
		}
		fromBreakTable := func(v ssa.Value) bool {
			found := false
			seen := map[ssa.Value]bool{}
			var walk func(v ssa.Value, d int)
			walk = func(v ssa.Value, d int) {
				if v == nil || seen[v] || d > 6 || found {
					return
				}
				seen[v] = true
				switch x := v.(type) {
				case *ssa.Extract:
					if lk, ok := x.Tuple.(*ssa.Lookup); ok {
						if ld, ok := lk.X.(*ssa.UnOp); ok && fieldVar(ld.X) == fBreaks {
							found = true
						}
					}
				case *ssa.Lookup:
					if ld, ok := x.X.(*ssa.UnOp); ok && fieldVar(ld.X) == fBreaks {
						found = true
					}
				case *ssa.Phi:
					for _, e := range x.Edges {
						walk(e, d+1)
					}
				case *ssa.BinOp:
					walk(x.X, d+1)
					walk(x.Y, d+1)
				case *ssa.UnOp:
					walk(x.X, d+1)
				}
			}
			walk(v, 0)
			return found
		}
		bad := map[ssa.Instruction]bool{}
		o := &PathOracle{MaxStates: 200000}
		o.Visit = func(st *PState, in ssa.Instruction) {
			for i, d := range drops {
				if in == d {
					st.Flags[fmt.Sprintf("dropped%d", i)] = true
				}
			}
			anyDropped := false
			for i := range drops {
				if st.Flags[fmt.Sprintf("dropped%d", i)] {
					anyDropped = true
				}
			}
			if !anyDropped {
				return
			}
			re := false
			switch x := in.(type) {
			case *ssa.If:
				re = fromBreakTable(x.Cond)
			case ssa.CallInstruction:
				if f := x.Common().StaticCallee(); f == fn || (f != nil && isEntry[f]) {
					re = true
				} else if x.Common().IsInvoke() && x.Common().Method.Name() == "VisitState" {
					re = true
				}
			case *ssa.Return:
				// `return true` of a helper whose callers repeat the visit while it returns true
				if repeatFlag && len(x.Results) == 1 {
					if cv, isC := st.canon(x.Results[0]).(*ssa.Const); isC && cv.Value != nil && cv.Value.String() == "true" {
						re = true
					}
				}
			}
			if re {
				for i := range drops {
					delete(st.Flags, fmt.Sprintf("dropped%d", i))
				}
			}
		}
		o.AtReturn = func(st *PState, ret *ssa.Return) {
			for i, d := range drops {
				if st.Flags[fmt.Sprintf("dropped%d", i)] {
					bad[d] = true
				}
			}
		}
		if !ExplorePaths(fn, o) {
			r.Undecide("R15h: path exploration of %s exceeded its bound", key)
			continue
		}
		for i, d := range drops {
			n++
			site := fmt.Sprintf("%s#drop#%d", key, i)
			pos := c.Pos(c.InstrPos(d))
			if bad[d] {
				r.Instance("R15h", site, pos, "finding", "the node is not examined for a breakpoint after the resume was used up", true)
				r.Report(Finding{Rule: "R15h", Site: site, Pos: pos,
					Msg: key + ": after the interrogation state of a resumed thread is dropped there is a path to the return that neither visits the node again nor reaches the test of the breakpoint table: an active breakpoint on the line just reached (the very next line after a resume) is skipped"})
			} else {
				r.Instance("R15h", site, pos, "ok", "every path from the drop re-visits the node or reaches the breakpoint test", true)
			}
		}
	}
	r.Floor("R15h", n, 1)
}

// ---- R15i: a continue command addressed to a suspended thread wakes it ---------------------------

// Continue looks the thread up; when it is there and not running, every path to the return must
// pass the wake-up (running = true and a Broadcast/Signal on its condition). An early return for
// one kind of command ("nothing to step out of") leaves a thread suspended that was told to go on.
func c15ContinueWakes(c *Ctx, r *Result, dbgIface *types.Interface) {
	fStates := c.Field("interpreter", "ecalDebugger", "interrogationStates")
	fRunning := c.Field("interpreter", "interrogationState", "running")
	if fStates == nil || fRunning == nil {
		r.Undecide("R15i: ecalDebugger.interrogationStates / interrogationState.running not found")
		return
	}
	n := 0
	for _, fn := range c.Implementations(dbgIface, "Continue") {
		if !c.inModule(fn) {
			continue
		}
		key := c.FuncKey(fn)
		var okV ssa.Value
		var runLoads []ssa.Value
		allInstrs(fn, func(in ssa.Instruction) {
			switch x := in.(type) {
			case *ssa.Extract:
				if lk, ok := x.Tuple.(*ssa.Lookup); ok && x.Index == 1 {
					if ld, ok := lk.X.(*ssa.UnOp); ok && fieldVar(ld.X) == fStates {
						okV = x
					}
				}
			case *ssa.UnOp:
				if x.Op == token.MUL && fieldVar(x.X) == fRunning {
					runLoads = append(runLoads, x)
				}
			}
		})
		// the lookup and the test of `running` may sit in a helper returning (state, found-and-suspended)
		var suspendedV ssa.Value
		if okV == nil {
			allInstrs(fn, func(in ssa.Instruction) {
				x, ok := in.(*ssa.Extract)
				if !ok || suspendedV != nil {
					return
				}
				call, ok := x.Tuple.(*ssa.Call)
				if !ok {
					return
				}
				if b, isB := x.Type().Underlying().(*types.Basic); !isB || b.Kind() != types.Bool {
					return
				}
				h := call.Call.StaticCallee()
				if h != nil && c.inModule(h) && c15TrueMeansSuspended(h, x.Index, fStates, fRunning) {
					suspendedV = x
				}
			})
		}
		if okV == nil && suspendedV == nil {
			continue
		}
		n++
		site := key + "#wake"
		pos := c.Pos(fn.Pos())
		bad := false
		exits := 0
		o := &PathOracle{}
		o.Visit = func(st *PState, in ssa.Instruction) {
			if op, ok := condOpOf(in); ok && (op.Kind == "Broadcast" || op.Kind == "Signal") {
				st.Flags["woke"] = true
			}
			// a helper that wakes on every path (is.wake())
			if ci, ok := in.(ssa.CallInstruction); ok {
				if g := ci.Common().StaticCallee(); g != nil && c.inModule(g) && alwaysWakes(g, 0) {
					st.Flags["woke"] = true
				}
			}
		}
		o.AtReturn = func(st *PState, ret *ssa.Return) {
			if suspendedV != nil {
				if st.Get(suspendedV, o) != AvNonNil {
					return
				}
				exits++
				if !st.Flags["woke"] {
					bad = true
				}
				return
			}
			if st.Get(okV, o) != AvNonNil {
				return
			}
			suspended := false
			for _, rl := range runLoads {
				if st.Get(rl, o) == AvNil {
					suspended = true
				}
			}
			if !suspended {
				return
			}
			exits++
			if !st.Flags["woke"] {
				bad = true
			}
		}
		if !ExplorePaths(fn, o) {
			r.Undecide("R15i: path exploration of %s exceeded its bound", key)
			continue
		}
		switch {
		case exits == 0:
			r.Undecide("R15i: no path of %s on which the thread is found suspended was explored", key)
		case bad:
			r.Instance("R15i", site, pos, "finding", "a path returns without waking the suspended thread", true)
			r.Report(Finding{Rule: "R15i", Site: site, Pos: pos,
				Msg: key + ": the thread is found suspended, yet a path returns without the wake-up (Broadcast/Signal on its condition): the continue command is dropped and the thread stays suspended although it was told to go on"})
		default:
			r.Instance("R15i", site, pos, "ok", fmt.Sprintf("all %d return paths on which the thread is found suspended pass the wake-up", exits), true)
		}
	}
	r.Floor("R15i", n, 1)
}

// c15TrueMeansSuspended: wherever the idx-th (boolean) result of h can be true, the thread was found in the
// table of interrogation states and its `running` flag was read as false.
func c15TrueMeansSuspended(h *ssa.Function, idx int, fStates, fRunning *types.Var) bool {
	var okV ssa.Value
	var runLoads []ssa.Value
	allInstrs(h, func(in ssa.Instruction) {
		switch x := in.(type) {
		case *ssa.Extract:
			if lk, ok := x.Tuple.(*ssa.Lookup); ok && x.Index == 1 {
				if ld, ok := lk.X.(*ssa.UnOp); ok && fieldVar(ld.X) == fStates {
					okV = x
				}
			}
		case *ssa.UnOp:
			if x.Op == token.MUL && fieldVar(x.X) == fRunning {
				runLoads = append(runLoads, x)
			}
		}
	})
	if okV == nil || len(runLoads) == 0 {
		return false
	}
	good, seen := true, 0
	o := &PathOracle{}
	o.AtReturn = func(st *PState, ret *ssa.Return) {
		if idx >= len(ret.Results) {
			good = false
			return
		}
		s2 := st.clone()
		if !s2.refineCond(ret.Results[idx], true, o) {
			return // false on this path
		}
		seen++
		if s2.Get(okV, o) != AvNonNil {
			good = false
		}
		susp := false
		for _, rl := range runLoads {
			if s2.Get(rl, o) == AvNil {
				susp = true
			}
		}
		if !susp {
			good = false
		}
	}
	return ExplorePaths(h, o) && good && seen > 0
}

// ---- R16h: the end of a scope chain is nil --------------------------------------------------------

// parser.Scope.Parent() returns nil at the root of a chain ("returns the parent scope or nil"), and
// chains do not all end in the global scope (a constructor's scope has no parent). In the code that
// answers debugger commands a method called on the result of Parent() must be reached only where
// that result was tested against nil on the path — otherwise `describe` on a thread suspended in
// such a scope is a nil dereference in the command handler.
func c16ScopeChainEnds(c *Ctx, r *Result, funcs []*ssa.Function) {
	scopeIface := c.Interface("parser", "Scope")
	if scopeIface == nil {
		r.Undecide("R16h: parser.Scope not found")
		return
	}
	isParentCall := func(v ssa.Value) bool {
		call, ok := v.(*ssa.Call)
		return ok && call.Call.IsInvoke() && call.Call.Method.Name() == "Parent" && types.Identical(call.Call.Value.Type().Underlying(), scopeIface)
	}
	n := 0
	for _, fn := range funcs {
		has := false
		allInstrs(fn, func(in ssa.Instruction) {
			if v, ok := in.(ssa.Value); ok && isParentCall(v) {
				has = true
			}
		})
		if !has {
			continue
		}
		key := c.FuncKey(fn)
		bad := map[ssa.Instruction]bool{}
		seen := map[ssa.Instruction]bool{}
		o := &PathOracle{NonNilParams: true}
		// Pre, not Visit: in a loop the receiver can be the previous execution's result of this
		// very call, whose refinements are dropped when the call is executed again
		o.Pre = func(st *PState, in ssa.Instruction) {
			ci, ok := in.(ssa.CallInstruction)
			if !ok || !ci.Common().IsInvoke() {
				return
			}
			recv := st.canon(ci.Common().Value)
			if !isParentCall(recv) {
				return
			}
			seen[in] = true
			if st.Get(ci.Common().Value, o) != AvNonNil && st.Get(recv, o) != AvNonNil {
				bad[in] = true
			}
		}
		if !ExplorePaths(fn, o) {
			r.Undecide("R16h: path exploration of %s exceeded its bound", key)
			continue
		}
		i := 0
		allInstrs(fn, func(in ssa.Instruction) {
			if !seen[in] {
				return
			}
			n++
			site := fmt.Sprintf("%s#parent-use#%d", key, i)
			i++
			pos := c.Pos(c.InstrPos(in))
			if bad[in] {
				r.Instance("R16h", site, pos, "finding", "method called on an untested Parent() result", true)
				r.Report(Finding{Rule: "R16h", Site: site, Pos: pos,
					Msg: key + ": calls " + in.(ssa.CallInstruction).Common().Method.Name() + "() on the result of Scope.Parent() on a path where it was not tested against nil: the chain of a constructor's scope (default parameter values of init) ends without reaching the global scope, and the command handler dereferences nil"})
			} else {
				r.Instance("R16h", site, pos, "ok", "reached only where the Parent() result is known non-nil", true)
			}
		})
	}
	r.Floor("R16h", n, 1)
}

// ---- R19e: plugin code runs under the bridge's recover -------------------------------------------

// A plugin function is foreign Go code: it may panic for some arguments (args[0].(string) given a
// number). The only recover in the project is the one of ECALFunctionAdapter.Run around the
// reflective call. Every call of util.ECALPluginFunction.Run must therefore sit in a function that
// registers a recovering defer itself, or in a function literal that is only ever handed to
// reflect.ValueOf (and so only runs through the adapter's reflective call, R19a).
func c19PluginUnderRecover(c *Ctx, r *Result) {
	iface := c.Interface("util", "ECALPluginFunction")
	if iface == nil {
		r.Undecide("R19e: util.ECALPluginFunction not found")
		return
	}
	n := 0
	for _, fn := range c.ModFuncs() {
		key := c.FuncKey(fn)
		ord := newOrdinals()
		allInstrs(fn, func(in ssa.Instruction) {
			ci, ok := in.(ssa.CallInstruction)
			if !ok || !ci.Common().IsInvoke() || ci.Common().Method.Name() != "Run" || !types.Identical(ci.Common().Value.Type().Underlying(), iface) {
				return
			}
			n++
			site := ord.key(key, "plugin-run", accessPath(ci.Common().Value))
			pos := c.Pos(c.InstrPos(in))
			if ok, _ := recoverCovers(fn, in); ok {
				r.Instance("R19e", site, pos, "ok", "under a recovering defer of the same function", true)
				return
			}
			// the function (a literal, or a method used as a method value) is only ever handed to
			// reflect.ValueOf: every function value made of it flows there, and nothing calls it directly
			{
				onlyReflect, uses := true, 0
				targets := map[*ssa.Function]bool{fn: true}
				if node := c.CHA().Nodes[fn]; node != nil {
					for _, e := range node.In {
						cf := e.Caller.Func
						if cf.Synthetic != "" && strings.HasSuffix(cf.Name(), "$bound") {
							targets[cf] = true
							continue
						}
						if e.Site != nil && e.Site.Common().StaticCallee() == fn {
							onlyReflect = false // called directly somewhere
						}
					}
				}
				var follow func(v ssa.Value, d int)
				follow = func(v ssa.Value, d int) {
					if v.Referrers() == nil || d > 3 {
						onlyReflect = false
						return
					}
					for _, ref := range *v.Referrers() {
						switch y := ref.(type) {
						case *ssa.DebugRef:
						case *ssa.MakeInterface:
							follow(y, d+1)
						case *ssa.Call:
							if callName(y) == "reflect.ValueOf" {
								uses++
							} else {
								onlyReflect = false
							}
						default:
							onlyReflect = false
						}
					}
				}
				for _, host := range c.ModFuncs() {
					allInstrs(host, func(x ssa.Instruction) {
						if mc, ok := x.(*ssa.MakeClosure); ok {
							if tf, ok := mc.Fn.(*ssa.Function); ok && targets[tf] {
								follow(mc, 0)
							}
						}
					})
				}
				if onlyReflect && uses > 0 {
					r.Instance("R19e", site, pos, "ok", "in a function that is only handed to reflect.ValueOf (as a literal or a method value): it runs through the adapter's reflective call, which is under the recover (R19a)", true)
					return
				}
			}
			r.Instance("R19e", site, pos, "finding", "plugin function called outside any recover", true)
			r.Report(Finding{Rule: "R19e", Site: site, Pos: pos,
				Msg: key + ": calls ECALPluginFunction.Run outside the scope of a recover: a plugin function that panics for some arguments (a failed type assertion on args[0], an index into an empty argument list) kills the interpreter instead of yielding an ECAL error"})
		})
	}
	r.Floor("R19e", n, 1)
}

// ---- R19f: an arity test against NumIn() knows about variadic functions ---------------------------

// reflect.Type.NumIn() counts the trailing ...T parameter. A lower bound on the number of given
// arguments derived from it (len(args) < NumIn()) rejects every valid call of a variadic function
// with an empty variadic part — and every plugin function goes through a func(...interface{})
// wrapper. Such an ordering comparison is only sound next to a test of IsVariadic().
func c19VariadicArity(c *Ctx, r *Result) {
	n := 0
	for _, fn := range c.ModFuncs() {
		if c.PkgOf(fn) != "stdlib" {
			continue
		}
		key := c.FuncKey(fn)
		ord := newOrdinals()
		isNumIn := func(v ssa.Value) bool {
			call, ok := stripNumConv(v).(*ssa.Call)
			return ok && call.Call.IsInvoke() && call.Call.Method.Name() == "NumIn"
		}
		variadicAware := false
		allInstrs(fn, func(in ssa.Instruction) {
			if ci, ok := in.(ssa.CallInstruction); ok && ci.Common().IsInvoke() && ci.Common().Method.Name() == "IsVariadic" {
				variadicAware = true
			}
		})
		allInstrs(fn, func(in ssa.Instruction) {
			bo, ok := in.(*ssa.BinOp)
			if !ok || (!isNumIn(bo.X) && !isNumIn(bo.Y)) {
				return
			}
			switch bo.Op {
			case token.EQL, token.NEQ, token.LSS, token.LEQ, token.GTR, token.GEQ:
			default:
				return
			}
			n++
			site := ord.key(key, "arity-test", bo.Op.String())
			pos := c.Pos(c.InstrPos(in))
			// a lower bound on the given arguments: given < NumIn, given <= NumIn-…, NumIn > given
			lower := false
			switch {
			case isNumIn(bo.Y) && (bo.Op == token.LSS || bo.Op == token.LEQ):
				lower = true
			case isNumIn(bo.X) && (bo.Op == token.GTR || bo.Op == token.GEQ):
				lower = true
			case bo.Op == token.NEQ:
				lower = true // given != NumIn rejects fewer as well
			}
			if !lower || variadicAware {
				r.Instance("R19f", site, pos, "ok", "not a lower bound on the number of arguments, or IsVariadic() is consulted", true)
				return
			}
			r.Instance("R19f", site, pos, "finding", "lower bound from NumIn() without IsVariadic()", true)
			r.Report(Finding{Rule: "R19f", Site: site, Pos: pos,
				Msg: key + ": requires at least NumIn() arguments without consulting IsVariadic(): NumIn counts the trailing variadic parameter, so a valid call of a variadic function with an empty variadic part (fmt.Sprint(), every plugin function called without arguments) is answered with 'too few parameters' instead of the function's result"})
		})
	}
	r.Floor("R19f", n, 1)
}

// ---- R01h: the scope walk is complete: the most specific definition decides -----------------------

// RuleScope.IsAllowed descends the definition tree along the dotted path and lets the last flag it
// meets decide. The answer is that of the most specific definition only if the descent is left for
// one of two reasons: the path is exhausted, or the next step has no entry. A return before the
// descent, or an exit of the loop for any other reason ("the root allows everything"), lets a
// broader definition overrule a more specific one.
func c01ScopeWalk(c *Ctx, r *Result) {
	fn := c.Method("engine", "RuleScope", "IsAllowed")
	if fn == nil {
		r.Undecide("R01h: engine.RuleScope.IsAllowed not found")
		return
	}
	key := c.FuncKey(fn)
	var loop map[*ssa.BasicBlock]bool
	allInstrs(fn, func(in ssa.Instruction) {
		if ta, ok := in.(*ssa.TypeAssert); ok {
			if _, isMap := ta.AssertedType.Underlying().(*types.Map); isMap {
				if scc := sccOf(in.Block()); scc != nil {
					loop = scc
				}
			}
		}
	})
	if loop == nil {
		// the descent written as recursion: a helper that steps into the sub-definition by calling itself
		if c01ScopeWalkRecursive(c, r, fn) {
			return
		}
		r.Undecide("R01h: the descent of %s (a loop or a recursion stepping into the sub-definitions) was not found", key)
		return
	}
	var header *ssa.BasicBlock
	for b := range loop {
		for _, p := range b.Preds {
			if !loop[p] && (header == nil || b.Index < header.Index) {
				header = b
			}
		}
	}
	if header == nil {
		r.Undecide("R01h: the descent loop of %s has no entry", key)
		return
	}
	var bad []string
	var badPos token.Pos
	n := 0
	// (1) no return before the descent
	allInstrs(fn, func(in ssa.Instruction) {
		ret, ok := in.(*ssa.Return)
		if !ok || in.Block() == fn.Recover {
			return
		}
		n++
		if !header.Dominates(in.Block()) && !loop[in.Block()] {
			bad = append(bad, "a return at "+c.Pos(ret.Pos())+" is reached without entering the descent")
			if !badPos.IsValid() {
				badPos = ret.Pos()
			}
		}
	})
	// (2) the descent is left only when the path is exhausted or a step has no entry
	isLenCmp := func(v ssa.Value) bool {
		bo, ok := v.(*ssa.BinOp)
		if !ok {
			return false
		}
		switch bo.Op {
		case token.LSS, token.LEQ, token.GTR, token.GEQ, token.EQL, token.NEQ:
		default:
			return false
		}
		return termOf(bo.X).isLen() || termOf(bo.Y).isLen()
	}
	isStepMiss := func(v ssa.Value, succIdx int) bool {
		neg := false
		if u, ok := v.(*ssa.UnOp); ok && u.Op == token.NOT {
			v, neg = u.X, true
		}
		e, ok := v.(*ssa.Extract)
		if !ok || e.Index != 1 {
			return false
		}
		switch t := e.Tuple.(type) {
		case *ssa.Lookup:
			if _, isConst := t.Index.(*ssa.Const); isConst {
				return false // the lookup of the allow flag, not of a step
			}
		case *ssa.Next:
		default:
			return false
		}
		// left on the edge where ok is false
		return (succIdx == 1) != neg
	}
	for b := range loop {
		for i, s := range b.Succs {
			if loop[s] {
				continue
			}
			n++
			ifi, ok := b.Instrs[len(b.Instrs)-1].(*ssa.If)
			if ok && (isLenCmp(ifi.Cond) || isStepMiss(ifi.Cond, i)) {
				continue
			}
			pos := token.NoPos
			if ok {
				pos = c.InstrPos(ifi)
			}
			bad = append(bad, "the descent is left at "+c.Pos(pos)+" for a reason other than 'path exhausted' or 'no entry for the next step'")
			if !badPos.IsValid() {
				badPos = pos
			}
		}
	}
	site := key + "#walk"
	if len(bad) > 0 {
		r.Instance("R01h", site, c.Pos(badPos), "finding", strings.Join(bad, "; "), true)
		r.Report(Finding{Rule: "R01h", Site: site, Pos: c.Pos(badPos),
			Msg: key + ": " + strings.Join(bad, "; ") + " — a broader definition then decides although a more specific one exists ({\"\": true, \"data.write\": false} allows data.write): rules whose scope is denied fire, and their suppression lists take effect"})
	} else {
		r.Instance("R01h", site, c.Pos(fn.Pos()), "ok", fmt.Sprintf("%d returns / loop exits: every return follows the descent, the descent ends only on an exhausted path or a missing step", n), true)
	}
	r.Floor("R01h", n, 2)
}

// ---- R02g: every item of a report owns its containers -------------------------------------------

// addEventAndWait turns the monitor's errors into a list of items, one per failing event, each with
// its own map of rule → error. A map that is allocated before the loop, filled inside it and stored
// into every item is one map shared by all items: every event is then blamed for every sink, and
// the entries of one event are overwritten by the next. Rule (package interpreter): a map or slice
// that is stored as a value into a container built inside a loop, and is written inside that loop,
// is allocated inside that loop.
func c02ItemsOwnContainers(c *Ctx, r *Result) {
	n := 0
	for _, fn := range c.ModFuncs() {
		if c.PkgOf(fn) != "interpreter" {
			continue
		}
		key := c.FuncKey(fn)
		ord := newOrdinals()
		alloc := func(v ssa.Value) ssa.Instruction {
			for d := 0; d < 4 && v != nil; d++ {
				switch x := v.(type) {
				case *ssa.MakeInterface:
					v = x.X
				case *ssa.ChangeType:
					v = x.X
				case *ssa.MakeMap:
					return x
				case *ssa.MakeSlice:
					return x
				default:
					return nil
				}
			}
			return nil
		}
		allInstrs(fn, func(in ssa.Instruction) {
			var stored ssa.Value
			switch x := in.(type) {
			case *ssa.MapUpdate:
				stored = x.Value
			case *ssa.Store:
				if _, isElem := x.Addr.(*ssa.IndexAddr); isElem {
					stored = x.Val
				}
			}
			if stored == nil {
				return
			}
			a := alloc(stored)
			if a == nil {
				return
			}
			loop := sccOf(in.Block())
			if loop == nil {
				return
			}
			n++
			site := ord.key(key, "item-container", accessPath(stored))
			pos := c.Pos(c.InstrPos(in))
			if loop[a.Block()] {
				r.Instance("R02g", site, pos, "ok", "the container stored into the item is allocated in the same loop (one per iteration)", true)
				return
			}
			written := false
			av := a.(ssa.Value)
			for _, ref := range *av.Referrers() {
				switch y := ref.(type) {
				case *ssa.MapUpdate:
					if y.Map == av && loop[y.Block()] {
						written = true
					}
				case *ssa.IndexAddr:
					if loop[y.Block()] {
						for _, r2 := range *y.Referrers() {
							if _, isSt := r2.(*ssa.Store); isSt {
								written = true
							}
						}
					}
				}
			}
			if !written {
				r.Instance("R02g", site, pos, "ok", "allocated before the loop but not written in it (a shared constant)", true)
				return
			}
			r.Instance("R02g", site, pos, "finding", "one container shared by the items of all iterations", true)
			r.Report(Finding{Rule: "R02g", Site: site, Pos: pos,
				Msg: fmt.Sprintf("%s: the container stored into each item of the loop (%s) is allocated once before the loop and filled inside it: all items share it — in the error report of addEventAndWait every failing event is blamed for the sinks of all events, and the error recorded for one event is overwritten by the next", key, c.Pos(c.InstrPos(a)))})
		})
	}
	r.Floor("R02g", n, 1)
}

// ---- R13e: an object goes back to a shared pool at most once -------------------------------------

// A sync.Pool shared by all parses is safe only while every object is owned by one parse at a time.
// An object that is put back twice (an explicit release on an early return plus the deferred one) is
// handed to two later parses at once: they then fill one another's look-ahead buffer. Typestate
// over each function on the parse path: on no path is a releasing call (sync.Pool.Put, or a module
// function that reaches it) made twice for the same value, counting deferred calls at the return.
func c13PoolReleasedOnce(c *Ctx, r *Result, funcs []*ssa.Function) {
	putters := map[*ssa.Function]bool{}
	isPoolPut := func(in ssa.Instruction) bool {
		return callName(in) == "sync.Pool.Put" || callName(in) == "(*sync.Pool).Put"
	}
	for changed := true; changed; {
		changed = false
		for _, fn := range c.ModFuncs() {
			if putters[fn] {
				continue
			}
			allInstrs(fn, func(in ssa.Instruction) {
				ci, ok := in.(ssa.CallInstruction)
				if !ok || putters[fn] {
					return
				}
				if isPoolPut(in) {
					putters[fn] = true
					changed = true
				} else if g := ci.Common().StaticCallee(); g != nil && putters[g] {
					putters[fn] = true
					changed = true
				}
			})
		}
	}
	r.Extra["pool_releasing_functions"] = len(putters)
	n := 0
	for _, fn := range funcs {
		var rel []ssa.Instruction
		allInstrs(fn, func(in ssa.Instruction) {
			ci, ok := in.(ssa.CallInstruction)
			if !ok {
				return
			}
			if isPoolPut(in) {
				rel = append(rel, in)
			} else if g := ci.Common().StaticCallee(); g != nil && putters[g] && g != fn {
				rel = append(rel, in)
			}
		})
		if len(rel) < 2 {
			continue
		}
		key := c.FuncKey(fn)
		isRel := map[ssa.Instruction]bool{}
		for _, x := range rel {
			isRel[x] = true
		}
		what := func(st *PState, in ssa.Instruction) string {
			args := callArgs(in.(ssa.CallInstruction).Common())
			if len(args) == 0 {
				return "?"
			}
			a := args[0]
			if isPoolPut(in) && len(args) > 1 {
				a = args[1]
			}
			return st.canon(a).Name()
		}
		var bad ssa.Instruction
		o := &PathOracle{}
		o.Visit = func(st *PState, in ssa.Instruction) {
			if !isRel[in] {
				return
			}
			w := what(st, in)
			if _, isDefer := in.(*ssa.Defer); isDefer {
				st.Flags["deferred:"+w] = true
				return
			}
			if st.Flags["released:"+w] && bad == nil {
				bad = in
			}
			st.Flags["released:"+w] = true
		}
		o.AtReturn = func(st *PState, ret *ssa.Return) {
			for f, on := range st.Flags {
				if on && strings.HasPrefix(f, "released:") && st.Flags["deferred:"+strings.TrimPrefix(f, "released:")] && bad == nil {
					bad = ret
				}
			}
		}
		if !ExplorePaths(fn, o) {
			r.Undecide("R13e: path exploration of %s exceeded its bound", key)
			continue
		}
		n++
		site := key + "#pool-release"
		if bad != nil {
			pos := c.Pos(c.InstrPos(bad))
			r.Instance("R13e", site, pos, "finding", "an object can be released to the shared pool twice on one path", true)
			r.Report(Finding{Rule: "R13e", Site: site, Pos: pos,
				Msg: key + ": on a path that ends here the same object is handed back to a sync.Pool twice (an explicit release and the deferred one): the pool then gives it to two later parses at once, which overwrite each other's look-ahead tokens — valid programs are rejected or parsed into a tree mixed with another program's tokens"})
		} else {
			r.Instance("R13e", site, c.Pos(fn.Pos()), "ok", "no path releases the same object twice", true)
		}
	}
	r.Extra["pool_release_functions_examined"] = n
}

// c01ScopeWalkRecursive: IsAllowed hands over to a helper that descends by calling itself. Every
// return of the helper either passes on the result of the recursive call, or is taken directly on
// the edge of a test for an exhausted path (a comparison with a length) or a missing step (the
// failed comma-ok of a lookup with a non-constant key).
func c01ScopeWalkRecursive(c *Ctx, r *Result, entry *ssa.Function) bool {
	var helper *ssa.Function
	for h := range staticCalleesIn(c, entry) {
		rec, steps := false, false
		allInstrs(h, func(in ssa.Instruction) {
			if call, ok := in.(*ssa.Call); ok && call.Call.StaticCallee() == h {
				rec = true
			}
			if ta, ok := in.(*ssa.TypeAssert); ok {
				if _, isMap := ta.AssertedType.Underlying().(*types.Map); isMap {
					steps = true
				}
			}
		})
		if rec && steps {
			helper = h
		}
	}
	if helper == nil {
		return false
	}
	key := c.FuncKey(helper)
	// the entry returns what the helper returns
	var bad []string
	var badPos token.Pos
	n := 0
	for _, rv := range returnedValues(entry, 0) {
		call, ok := unspill(rv).(*ssa.Call)
		if !ok || call.Call.StaticCallee() != helper {
			bad = append(bad, c.FuncKey(entry)+" returns a value that is not the result of the descent")
			badPos = entry.Pos()
		}
	}
	isLenCmp := func(v ssa.Value) bool {
		bo, ok := v.(*ssa.BinOp)
		if !ok {
			return false
		}
		switch bo.Op {
		case token.LSS, token.LEQ, token.GTR, token.GEQ, token.EQL, token.NEQ:
		default:
			return false
		}
		return termOf(bo.X).isLen() || termOf(bo.Y).isLen()
	}
	isStepMiss := func(v ssa.Value, succIdx int) bool {
		neg := false
		if u, ok := v.(*ssa.UnOp); ok && u.Op == token.NOT {
			v, neg = u.X, true
		}
		e, ok := v.(*ssa.Extract)
		if !ok || e.Index != 1 {
			return false
		}
		lk, ok := e.Tuple.(*ssa.Lookup)
		if !ok {
			return false
		}
		if _, isConst := lk.Index.(*ssa.Const); isConst {
			return false
		}
		return (succIdx == 1) != neg
	}
	allInstrs(helper, func(in ssa.Instruction) {
		ret, ok := in.(*ssa.Return)
		if !ok || in.Block() == helper.Recover || len(ret.Results) == 0 {
			return
		}
		n++
		if call, isCall := unspill(ret.Results[0]).(*ssa.Call); isCall && call.Call.StaticCallee() == helper {
			return // the answer of the deeper level
		}
		b := in.Block()
		okEdge := false
		if len(b.Preds) == 1 {
			p := b.Preds[0]
			if ifi, isIf := p.Instrs[len(p.Instrs)-1].(*ssa.If); isIf {
				idx := 0
				if p.Succs[1] == b {
					idx = 1
				}
				okEdge = isLenCmp(ifi.Cond) || isStepMiss(ifi.Cond, idx)
			}
		}
		if !okEdge {
			bad = append(bad, "the descent returns at "+c.Pos(ret.Pos())+" for a reason other than 'path exhausted' or 'no entry for the next step'")
			if !badPos.IsValid() {
				badPos = ret.Pos()
			}
		}
	})
	site := c.FuncKey(entry) + "#walk"
	if len(bad) > 0 {
		r.Instance("R01h", site, c.Pos(badPos), "finding", strings.Join(bad, "; "), true)
		r.Report(Finding{Rule: "R01h", Site: site, Pos: c.Pos(badPos),
			Msg: key + ": " + strings.Join(bad, "; ") + " — a broader definition then decides although a more specific one exists ({\"\": true, \"data.write\": false} allows data.write): rules whose scope is denied fire, and their suppression lists take effect"})
	} else {
		r.Instance("R01h", site, c.Pos(helper.Pos()), "ok", fmt.Sprintf("recursive descent in %s: %d returns, each the deeper level's answer or taken on an exhausted path / a missing step", key, n), true)
	}
	r.Floor("R01h", n, 2)
	return true
}

// alwaysWakes: a Broadcast/Signal (or a call of a function that always wakes) dominates every return.
func alwaysWakes(g *ssa.Function, depth int) bool {
	if len(g.Blocks) == 0 || depth > 2 {
		return false
	}
	var wakes, rets []ssa.Instruction
	allInstrs(g, func(in ssa.Instruction) {
		if _, isRet := in.(*ssa.Return); isRet && in.Block() != g.Recover {
			rets = append(rets, in)
		}
		if _, isDefer := in.(*ssa.Defer); isDefer {
			return
		}
		if op, ok := condOpOf(in); ok && (op.Kind == "Broadcast" || op.Kind == "Signal") {
			wakes = append(wakes, in)
		} else if ci, ok := in.(ssa.CallInstruction); ok {
			if h := ci.Common().StaticCallee(); h != nil && h != g && len(h.Blocks) > 0 && h.Pkg == g.Pkg && alwaysWakes(h, depth+1) {
				wakes = append(wakes, in)
			}
		}
	})
	if len(rets) == 0 {
		return false
	}
	for _, rt := range rets {
		ok := false
		for _, w := range wakes {
			if dominates(w, rt) {
				ok = true
			}
		}
		if !ok {
			return false
		}
	}
	return true
}
