package main

// lockflow: forward dataflow of possible hold counts per lock access path.
//
// State keys:  H:<path>  exclusive holds not yet covered by a registered deferred release
//              HD:<path> holds whose release is registered by defer
//              PD:<path> deferred releases registered before the acquisition
//              (R-prefixed variants for read locks)
// Values are bit masks over the hold counts {0,1,2+}; join = union.

import (
	"go/types"
	"sort"
	"strconv"
	"strings"

	"golang.org/x/tools/go/ssa"
)

const (
	c0 uint8 = 1
	c1 uint8 = 2
	c2 uint8 = 4
)

type LState map[string]uint8

func (s LState) get(k string) uint8 {
	if v, ok := s[k]; ok {
		return v
	}
	return c0
}

func (s LState) clone() LState {
	n := make(LState, len(s))
	for k, v := range s {
		n[k] = v
	}
	return n
}

func inc(m uint8) uint8 {
	var r uint8
	if m&c0 != 0 {
		r |= c1
	}
	if m&(c1|c2) != 0 {
		r |= c2
	}
	return r
}

func dec(m uint8) (r uint8, underflow bool) {
	if m&c0 != 0 {
		underflow = true
		r |= c0
	}
	if m&c1 != 0 {
		r |= c0
	}
	if m&c2 != 0 {
		r |= c1 | c2
	}
	return
}

func joinL(a, b LState) (LState, bool) {
	changed := false
	out := a
	for k, v := range b {
		old := a.get(k)
		if old|v != old {
			if !changed {
				out = a.clone()
				changed = true
			}
			out[k] = old | v
		}
	}
	for k, v := range a {
		if _, ok := b[k]; !ok && v|c0 != v {
			if !changed {
				out = a.clone()
				changed = true
			}
			out[k] = v | c0
		}
	}
	return out, changed
}

// LockOp is one lock operation in a function.
type LockOp struct {
	Instr    ssa.Instruction
	Kind     string // Lock Unlock RLock RUnlock
	Path     string
	Class    string
	Deferred bool
	Recv     ssa.Value
}

func (o LockOp) read() bool    { return o.Kind == "RLock" || o.Kind == "RUnlock" }
func (o LockOp) acquire() bool { return o.Kind == "Lock" || o.Kind == "RLock" }

// lockOpOf recognises sync.Mutex / sync.RWMutex / sync.Locker operations.
func lockOpOf(in ssa.Instruction) (LockOp, bool) {
	ci, ok := in.(ssa.CallInstruction)
	if !ok {
		return LockOp{}, false
	}
	o := calleeObj(ci.Common())
	if o == nil || o.Pkg() == nil || o.Pkg().Path() != "sync" {
		return LockOp{}, false
	}
	switch o.Name() {
	case "Lock", "Unlock", "RLock", "RUnlock":
	default:
		return LockOp{}, false
	}
	recv := o.Type().(*types.Signature).Recv()
	if recv == nil {
		return LockOp{}, false
	}
	rn := namedOf(recv.Type())
	if rn == nil {
		return LockOp{}, false
	}
	switch rn.Obj().Name() {
	case "Mutex", "RWMutex", "Locker":
	default:
		return LockOp{}, false
	}
	args := callArgs(ci.Common())
	if len(args) == 0 {
		return LockOp{}, false
	}
	_, isDefer := in.(*ssa.Defer)
	return LockOp{Instr: in, Kind: o.Name(), Path: accessPath(args[0]), Class: lockClass(args[0]), Deferred: isDefer, Recv: args[0]}, true
}

// lockClass names a lock by the identity of the field(s) holding it:
// "pool.ThreadPool.queueLock", "pool.ThreadPool.newTaskCond.L", "engine.midcounterLock".
func lockClass(v ssa.Value) string {
	chain := fieldChain(v)
	root := rootOf(v)
	if len(chain) == 0 {
		if g, ok := root.(*ssa.Global); ok {
			return g.Pkg.Pkg.Name() + "." + g.Name()
		}
		return "local:" + accessPath(v)
	}
	last := chain[len(chain)-1]
	name := fieldOwner(chain, len(chain)-1, v) + "." + last.Name()
	if last.Name() == "L" && len(chain) >= 2 && last.Pkg() != nil && last.Pkg().Path() == "sync" {
		prev := chain[len(chain)-2]
		name = fieldOwner(chain, len(chain)-2, v) + "." + prev.Name() + ".L"
	}
	return name
}

// fieldOwner finds the named struct type declaring chain[i].
func fieldOwner(chain []*types.Var, i int, v ssa.Value) string {
	f := chain[i]
	// search the value chain for the FieldAddr selecting f to get the struct type
	cur := v
	for d := 0; d < 32; d++ {
		switch x := cur.(type) {
		case *ssa.FieldAddr:
			if fieldVar(x) == f {
				if n := namedOf(x.X.Type()); n != nil {
					return pkgName(n) + "." + n.Obj().Name()
				}
				return "?"
			}
			cur = x.X
			continue
		case *ssa.Field:
			if fieldVar(x) == f {
				if n := namedOf(x.X.Type()); n != nil {
					return pkgName(n) + "." + n.Obj().Name()
				}
				return "?"
			}
			cur = x.X
			continue
		case *ssa.UnOp:
			cur = x.X
			continue
		case *ssa.MakeInterface:
			cur = x.X
			continue
		case *ssa.ChangeInterface:
			cur = x.X
			continue
		case *ssa.ChangeType:
			cur = x.X
			continue
		}
		break
	}
	return "?"
}

func pkgName(n *types.Named) string {
	if n.Obj().Pkg() == nil {
		return ""
	}
	return n.Obj().Pkg().Name()
}

// LockFlow is the result of the analysis of one function.
type LockFlow struct {
	Fn      *ssa.Function
	Ops     []LockOp
	Before  map[ssa.Instruction]LState // state before each instruction
	Exit    []exitState                // state at each return (after deferred releases accounted)
	ClassOf map[string]string          // path -> class
	Issues  []lockIssue                // underflows
	lfs     *LockFlows
}

type exitState struct {
	Instr ssa.Instruction
	State LState
}

type lockIssue struct {
	Instr ssa.Instruction
	Path  string
	What  string
}

// LockFlows caches per-function analyses and summaries.
type LockFlows struct {
	peMemo   map[*ssa.Function]map[string]paramEff
	c        *Ctx
	memo     map[*ssa.Function]*LockFlow
	busy     map[*ssa.Function]bool
	acquires map[*ssa.Function]map[string]bool
}

func NewLockFlows(c *Ctx) *LockFlows {
	return &LockFlows{c: c, memo: map[*ssa.Function]*LockFlow{}, busy: map[*ssa.Function]bool{},
		acquires: map[*ssa.Function]map[string]bool{}}
}

// closureEffect: net lock effect of a closure body, per path, when all exits agree.
func (lfs *LockFlows) closureEffect(fn *ssa.Function) (map[string]int, map[string]string, map[string]bool) {
	lf := lfs.Of(fn)
	if lf == nil {
		return nil, nil, nil
	}
	eff := map[string]int{}
	read := map[string]bool{}
	// count ops on straight semantics: use exit states. A path whose exit mask is
	// exactly {1} has net +1; a release shows up as an underflow issue (net -1).
	for _, is := range lf.Issues {
		if is.What == "release-not-held" {
			eff[is.Path] = -1
		}
		if is.What == "rrelease-not-held" {
			eff[is.Path] = -1
			read[is.Path] = true
		}
	}
	for _, ex := range lf.Exit {
		for k, m := range ex.State {
			if strings.HasPrefix(k, "H:") && m == c1 {
				eff[strings.TrimPrefix(k, "H:")] = 1
			}
			if strings.HasPrefix(k, "RH:") && m == c1 {
				eff[strings.TrimPrefix(k, "RH:")] = 1
				read[strings.TrimPrefix(k, "RH:")] = true
			}
		}
	}
	return eff, lf.ClassOf, read
}

// Of analyses one function.
func (lfs *LockFlows) Of(fn *ssa.Function) *LockFlow {
	if lf, ok := lfs.memo[fn]; ok {
		return lf
	}
	if fn.Blocks == nil || lfs.busy[fn] {
		return nil
	}
	lfs.busy[fn] = true
	defer delete(lfs.busy, fn)

	lf := &LockFlow{Fn: fn, Before: map[ssa.Instruction]LState{}, ClassOf: map[string]string{}, lfs: lfs}
	allInstrs(fn, func(in ssa.Instruction) {
		if op, ok := lockOpOf(in); ok {
			lf.Ops = append(lf.Ops, op)
			lf.ClassOf[op.Path] = op.Class
		}
	})

	in := map[*ssa.BasicBlock]LState{}
	if len(fn.Blocks) == 0 {
		lfs.memo[fn] = lf
		return lf
	}
	in[fn.Blocks[0]] = LState{}
	work := []*ssa.BasicBlock{fn.Blocks[0]}
	issues := map[string]lockIssue{}
	exits := map[ssa.Instruction]LState{}
	iter := 0
	for len(work) > 0 && iter < 20000 {
		iter++
		b := work[0]
		work = work[1:]
		st := in[b].clone()
		for _, instr := range b.Instrs {
			lf.Before[instr] = st.clone()
			lf.transfer(instr, st, issues)
			if _, ok := instr.(*ssa.Return); ok {
				exits[instr] = st.clone()
			}
			if _, ok := instr.(*ssa.Panic); ok {
				exits[instr] = st.clone()
			}
		}
		for _, s := range b.Succs {
			if old, ok := in[s]; !ok {
				in[s] = st.clone()
				work = append(work, s)
			} else if j, ch := joinL(old, st); ch {
				in[s] = j
				work = append(work, s)
			}
		}
	}
	for k, v := range exits {
		lf.Exit = append(lf.Exit, exitState{k, v})
	}
	sort.Slice(lf.Exit, func(i, j int) bool { return lf.Exit[i].Instr.Pos() < lf.Exit[j].Instr.Pos() })
	var keys []string
	for k := range issues {
		keys = append(keys, k)
	}
	sort.Strings(keys)
	for _, k := range keys {
		lf.Issues = append(lf.Issues, issues[k])
	}
	lfs.memo[fn] = lf
	return lf
}

func (lf *LockFlow) transfer(instr ssa.Instruction, st LState, issues map[string]lockIssue) {
	if op, ok := lockOpOf(instr); ok {
		lf.apply(op.Kind, op.Path, op.Deferred, instr, st, issues)
		return
	}
	// a module function (not a closure) that releases / acquires a lock reached from one of its
	// parameters: its net effect applies at the call site, on the argument's path
	if ci, ok := instr.(ssa.CallInstruction); ok {
		if _, isGo := instr.(*ssa.Go); !isGo {
			if f := ci.Common().StaticCallee(); f != nil && f.Parent() == nil && f != lf.Fn && lf.lfs.c.modFuncSet[f] && len(f.Blocks) > 0 {
				if eff := lf.lfs.paramEffect(f); len(eff) > 0 {
					args := callArgs(ci.Common())
					_, isDefer := instr.(*ssa.Defer)
					var ps []string
					for p := range eff {
						ps = append(ps, p)
					}
					sort.Strings(ps)
					for _, p := range ps {
						e := eff[p]
						if e.param >= len(args) {
							continue
						}
						cp := accessPath(args[e.param]) + e.rest
						if _, known := lf.ClassOf[cp]; !known {
							lf.ClassOf[cp] = e.class
						}
						k := "Lock"
						if e.n < 0 {
							k = "Unlock"
						}
						if e.read {
							k = "R" + k
						}
						if isDefer && e.n > 0 {
							continue
						}
						lf.apply(k, cp, isDefer, instr, st, issues)
					}
					return
				}
			}
		}
	}
	// deferred closure: apply its net releases as registered deferred releases
	if d, ok := instr.(*ssa.Defer); ok {
		if mc, ok := d.Call.Value.(*ssa.MakeClosure); ok {
			if cf, ok := mc.Fn.(*ssa.Function); ok {
				eff, classes, read := lf.lfs.closureEffect(cf)
				for p, n := range eff {
					if _, known := lf.ClassOf[p]; !known && classes != nil {
						lf.ClassOf[p] = classes[p]
					}
					if n < 0 {
						k := "Unlock"
						if read[p] {
							k = "RUnlock"
						}
						lf.apply(k, p, true, instr, st, issues)
					}
				}
			}
		}
		return
	}
	// direct call of a closure or module function with a net lock effect (wrapper)
	if ci, ok := instr.(*ssa.Call); ok {
		var callee *ssa.Function
		if mc, ok := ci.Call.Value.(*ssa.MakeClosure); ok {
			callee, _ = mc.Fn.(*ssa.Function)
		} else if f := ci.Call.StaticCallee(); f != nil && lf.lfs.c.modFuncSet[f] && f.Parent() != nil {
			callee = f
		}
		if callee != nil && callee != lf.Fn {
			eff, classes, read := lf.lfs.closureEffect(callee)
			for p, n := range eff {
				if _, known := lf.ClassOf[p]; !known && classes != nil {
					lf.ClassOf[p] = classes[p]
				}
				k := "Lock"
				if n < 0 {
					k = "Unlock"
				}
				if read[p] {
					k = "R" + k
				}
				lf.apply(k, p, false, instr, st, issues)
			}
		}
	}
}

func (lf *LockFlow) apply(kind, path string, deferred bool, instr ssa.Instruction, st LState, issues map[string]lockIssue) {
	pfx := ""
	if kind == "RLock" || kind == "RUnlock" {
		pfx = "R"
	}
	H, HD, PD := pfx+"H:"+path, pfx+"HD:"+path, pfx+"PD:"+path
	switch {
	case (kind == "Lock" || kind == "RLock") && !deferred:
		if pd := st.get(PD); pd&^c0 != 0 && pd&c0 == 0 {
			// a deferred release is already registered for this acquisition
			r, _ := dec(pd)
			st[PD] = r
			st[HD] = inc(st.get(HD))
		} else {
			st[H] = inc(st.get(H))
		}
	case (kind == "Unlock" || kind == "RUnlock") && !deferred:
		h := st.get(H)
		if h == c0 {
			// perhaps releasing a hold that has a deferred release registered (unlock/relock windows)
			hd := st.get(HD)
			if hd&^c0 != 0 {
				r, _ := dec(hd)
				st[HD] = r
				st[PD] = inc(st.get(PD))
				return
			}
			what := "release-not-held"
			if pfx == "R" {
				what = "rrelease-not-held"
			}
			issues[what+"|"+path+"|"+instrKey(instr)] = lockIssue{instr, path, what}
			return
		}
		r, _ := dec(h)
		st[H] = r
	case deferred && (kind == "Unlock" || kind == "RUnlock"):
		h := st.get(H)
		switch {
		case h == c0:
			st[PD] = inc(st.get(PD)) // registered before the acquisition
		case h&c0 == 0:
			r, _ := dec(h)
			st[H] = r
			st[HD] = inc(st.get(HD))
		default:
			// registered at a point where the lock may or may not be held
			r, _ := dec(h)
			st[H] = r
			st[HD] = st.get(HD) | inc(st.get(HD))
			st[PD] = st.get(PD) | inc(st.get(PD))
		}
	case deferred && (kind == "Lock" || kind == "RLock"):
		// defer mu.Lock(): ignored (does not occur)
	}
}

func instrKey(in ssa.Instruction) string {
	return in.Block().String() + ":" + strconv.Itoa(instrIndex(in))
}

// ---- queries -------------------------------------------------------------------------------------

// heldMask returns the mask of the total hold count (H+HD) for a path; excl only.
func heldMask(st LState, path string, includeRead bool) uint8 {
	m := combine(st.get("H:"+path), st.get("HD:"+path))
	if includeRead {
		m = combine(m, combine(st.get("RH:"+path), st.get("RHD:"+path)))
	}
	return m
}

// combine: mask of a+b for a∈A, b∈B (saturating at 2).
func combine(a, b uint8) uint8 {
	var r uint8
	for i := uint(0); i < 3; i++ {
		if a&(1<<i) == 0 {
			continue
		}
		for j := uint(0); j < 3; j++ {
			if b&(1<<j) == 0 {
				continue
			}
			s := i + j
			if s > 2 {
				s = 2
			}
			r |= 1 << s
		}
	}
	return r
}

// MustHoldPath: the lock at `path` is certainly held before instr.
func (lf *LockFlow) MustHoldPath(instr ssa.Instruction, path string, readOK bool) bool {
	st, ok := lf.Before[instr]
	if !ok {
		return false
	}
	m := heldMask(st, path, readOK)
	return m&c0 == 0
}

// MayHoldPath: the lock may be held before instr.
func (lf *LockFlow) MayHoldPath(instr ssa.Instruction, path string) bool {
	st, ok := lf.Before[instr]
	if !ok {
		return false
	}
	return heldMask(st, path, true)&^c0 != 0
}

// MustHoldClass: some lock of the class is certainly held before instr
// (exclusive unless readOK). Returns the path found.
func (lf *LockFlow) MustHoldClass(instr ssa.Instruction, class string, readOK bool) (string, bool) {
	var paths []string
	for p, c := range lf.ClassOf {
		if c == class {
			paths = append(paths, p)
		}
	}
	sort.Strings(paths)
	for _, p := range paths {
		if lf.MustHoldPath(instr, p, readOK) {
			return p, true
		}
	}
	return "", false
}

// MayHoldClasses lists the classes possibly held before instr.
func (lf *LockFlow) MayHoldClasses(instr ssa.Instruction) []string {
	set := map[string]bool{}
	for p, c := range lf.ClassOf {
		if lf.MayHoldPath(instr, p) {
			set[c] = true
		}
	}
	var out []string
	for c := range set {
		out = append(out, c)
	}
	sort.Strings(out)
	return out
}

// Acquires: lock classes a function may acquire, transitively over module callees (CHA).
func (lfs *LockFlows) Acquires(fn *ssa.Function) map[string]bool {
	if a, ok := lfs.acquires[fn]; ok {
		return a
	}
	a := map[string]bool{}
	lfs.acquires[fn] = a // cut recursion
	seen := map[*ssa.Function]bool{}
	var walk func(f *ssa.Function, d int)
	walk = func(f *ssa.Function, d int) {
		if seen[f] || f.Blocks == nil || d > 12 {
			return
		}
		seen[f] = true
		allInstrs(f, func(in ssa.Instruction) {
			if op, ok := lockOpOf(in); ok {
				if op.acquire() {
					a[op.Class] = true
				}
				return
			}
			if ci, ok := in.(ssa.CallInstruction); ok {
				if _, isGo := in.(*ssa.Go); isGo {
					return // a new goroutine does not acquire on behalf of the caller
				}
				for _, callee := range lfs.c.Callees(ci) {
					if lfs.c.modFuncSet[callee] {
						walk(callee, d+1)
					}
				}
				if mc, ok := ci.Common().Value.(*ssa.MakeClosure); ok {
					if cf, ok := mc.Fn.(*ssa.Function); ok {
						walk(cf, d+1)
					}
				}
			}
		})
	}
	walk(fn, 0)
	return a
}

// paramEffect: net lock effects of a top-level function on paths rooted at its parameters
// (excluding balanced uses). Keyed by the callee's own path.
type paramEff struct {
	param int
	rest  string
	n     int
	read  bool
	class string
}

func (lfs *LockFlows) paramEffect(fn *ssa.Function) map[string]paramEff {
	if lfs.peMemo == nil {
		lfs.peMemo = map[*ssa.Function]map[string]paramEff{}
	}
	if v, ok := lfs.peMemo[fn]; ok {
		return v
	}
	lfs.peMemo[fn] = nil
	eff, classes, read := lfs.closureEffect(fn)
	out := map[string]paramEff{}
	for p, n := range eff {
		root := p
		for i, ch := range p {
			if ch == '.' || ch == '[' {
				root = p[:i]
				break
			}
		}
		for i, prm := range fn.Params {
			// the receiver's own locks are the callee's business unless they are handed in from outside:
			// only non-receiver parameters, or a receiver that *is* the lock
			if prm.Name() != root {
				continue
			}
			if i == 0 && fn.Signature.Recv() != nil && root != p {
				continue
			}
			out[p] = paramEff{param: i, rest: p[len(root):], n: n, read: read[p], class: classes[p]}
		}
	}
	if len(out) == 0 {
		out = nil
	}
	lfs.peMemo[fn] = out
	return out
}
