package main

// oblig: enumeration of panic-capable instructions and their automatic discharge
// (DESIGN.md C06, Appendix B "Obligation discharge").

import (
	"fmt"
	"go/token"
	"go/types"
	"sort"
	"strings"

	"golang.org/x/tools/go/ssa"
)

// Obligation is one panic-capable construct.
type Obligation struct {
	Kind       string // index slice assert intdiv ifacecmp mapkey panicapi makeslice shift tokennil lazyfield
	Fn         *ssa.Function
	Instr      ssa.Instruction
	Site       string
	Pos        string
	Desc       string
	Discharged bool
	Why        string
}

// panicking APIs (full names) -> short description
var panicAPIs = map[string]string{
	"github.com/krotik/common/errorutil.AssertTrue": "asserts its condition (panics otherwise)",
	"github.com/krotik/common/errorutil.AssertOk":   "panics on a non-nil error",
	"regexp.MustCompile":                            "panics on an invalid pattern",
	"text/template.Must":                            "panics on a template error",
	"bytes.Buffer.Truncate":                         "panics when n is out of range",
	"strings.Repeat":                                "panics on a negative count or overflow",
	"os.Exit":                                       "terminates the process",
	"log.Fatal":                                     "terminates the process",
	"log.Fatalf":                                    "terminates the process",
	"log.Panic":                                     "panics",
	"log.Panicf":                                    "panics",
	"runtime.Goexit":                                "terminates the goroutine",
	"reflect.Value.Call":                            "panics on arity/kind mismatch",
	"reflect.Value.Int":                             "panics on a non-integer kind",
	"reflect.Value.Uint":                            "panics on a non-unsigned kind",
	"reflect.Value.Float":                           "panics on a non-float kind",
	"reflect.Value.Interface":                       "panics on unexported fields",
	"reflect.Value.Elem":                            "panics on a non-pointer/interface kind",
	"reflect.Value.Index":                           "panics when out of range",
	"reflect.Value.Len":                             "panics on a kind without length",
	"reflect.Value.MapKeys":                         "panics on a non-map kind",
	"reflect.Value.MapIndex":                        "panics on a non-map kind",
	"reflect.Value.Field":                           "panics on a non-struct kind",
	"reflect.Type.In":                               "panics when out of range",
	"reflect.Type.Out":                              "panics when out of range",
	"reflect.Type.NumIn":                            "panics on a non-func kind",
	"reflect.Type.Elem":                             "panics on a kind without element",
	"strings.Builder.Grow":                          "panics on a negative count",
	"bytes.Buffer.Grow":                             "panics on a negative count",
	"sync.WaitGroup.Done":                           "panics on a negative counter",
}

type obligCtx struct {
	pnnMemo map[string]bool
	c       *Ctx
	errCmp  *bool // memo: error interface values of the module are all comparable
	slotMem map[string][]types.Type
	retMem  map[*ssa.Function]map[int][]types.Type
	grammar *Grammar
	prov    *ProviderTable
	span    *spanInv
}

func newObligCtx(c *Ctx) *obligCtx {
	return &obligCtx{c: c, slotMem: map[string][]types.Type{}, retMem: map[*ssa.Function]map[int][]types.Type{}}
}

func isArrayLike(t types.Type) (int64, bool) {
	t = derefType(t)
	if a, ok := t.Underlying().(*types.Array); ok {
		return a.Len(), true
	}
	return 0, false
}

// rangeCounter: v = phi + k where the phi's other edges are v itself or constants >= -k.
func rangeCounter(v ssa.Value) bool {
	bo, ok := stripNumConv(v).(*ssa.BinOp)
	if !ok || bo.Op != token.ADD {
		return false
	}
	k, ok := constInt(bo.Y)
	if !ok || k < 1 {
		return false
	}
	phi, ok := bo.X.(*ssa.Phi)
	if !ok {
		return false
	}
	for _, e := range phi.Edges {
		if e == ssa.Value(bo) {
			continue
		}
		if c, ok := constInt(e); ok && c >= -k {
			continue
		}
		return false
	}
	return true
}

func (oc *obligCtx) nonNeg(f *Facts, v ssa.Value) bool {
	if rangeCounter(v) || f.nonNeg(v) {
		return true
	}
	if p, ok := stripNumConv(v).(*ssa.Parameter); ok {
		return oc.paramNonNeg(p, 0)
	}
	if bo, ok := stripNumConv(v).(*ssa.BinOp); ok && bo.Op == token.ADD {
		return oc.nonNeg(f, bo.X) && oc.nonNeg(f, bo.Y)
	}
	// a result of a module function that returns a non-negative value on every path (an index handed
	// back by a scan helper: 0, i+1, len(children))
	if ph, ok := stripNumConv(v).(*ssa.Phi); ok {
		for _, e := range ph.Edges {
			if _, isConst := e.(*ssa.Const); isConst {
				if k, ok := constInt(e); !ok || k < 0 {
					return false
				}
				continue
			}
			if !oc.resultNonNeg(e) && !f.nonNeg(e) && !(stripNumConv(e) != nil && oc.incOfPhi(stripNumConv(e), ph)) {
				return false
			}
		}
		return len(ph.Edges) > 0
	}
	return oc.resultNonNeg(v)
}

// incOfPhi: e is ph + k (k ≥ 0): the increment of the loop counter itself.
func (oc *obligCtx) incOfPhi(e ssa.Value, ph *ssa.Phi) bool {
	bo, ok := e.(*ssa.BinOp)
	if !ok || bo.Op != token.ADD {
		return false
	}
	k, isC := constInt(bo.Y)
	return isC && k >= 0 && bo.X == ssa.Value(ph)
}

func (oc *obligCtx) resultNonNeg(v ssa.Value) bool {
	idx := 0
	var call *ssa.Call
	switch x := stripNumConv(v).(type) {
	case *ssa.Extract:
		call, _ = x.Tuple.(*ssa.Call)
		idx = x.Index
	case *ssa.Call:
		call = x
	}
	if call == nil {
		return false
	}
	g := call.Call.StaticCallee()
	if g == nil || !oc.c.inModule(g) || len(g.Blocks) == 0 {
		return false
	}
	n := 0
	good := true
	allInstrs(g, func(in ssa.Instruction) {
		ret, ok := in.(*ssa.Return)
		if !ok || idx >= len(ret.Results) {
			return
		}
		n++
		rv := ret.Results[idx]
		if !rangeCounter(rv) && !FactsAt(ret).nonNeg(rv) {
			good = false
		}
	})
	return good && n > 0
}

// paramNonNeg: every call site of the function in the module passes a non-negative value
// for this parameter (co-inductively through recursion). Exported functions and functions
// whose value escapes are not covered.
func (oc *obligCtx) paramNonNeg(p *ssa.Parameter, depth int) bool {
	fn := p.Parent()
	key := oc.c.FuncKey(fn) + "|" + p.Name()
	if v, ok := oc.pnnMemo[key]; ok {
		return v
	}
	if oc.pnnMemo == nil {
		oc.pnnMemo = map[string]bool{}
	}
	oc.pnnMemo[key] = true // co-inductive assumption for recursion
	res := oc.paramNonNeg1(p, depth)
	oc.pnnMemo[key] = res
	return res
}

func (oc *obligCtx) paramNonNeg1(p *ssa.Parameter, depth int) bool {
	fn := p.Parent()
	if depth > 4 || fn.Parent() != nil {
		return false
	}
	if o := fn.Object(); o == nil || o.Exported() {
		return false
	}
	idx := paramIndex(fn, p)
	n := oc.c.CHA().Nodes[fn]
	if n == nil || len(n.In) == 0 || idx < 0 {
		return false
	}
	for _, e := range n.In {
		if e.Site == nil || !oc.c.modFuncSet[e.Caller.Func] {
			if e.Caller.Func.Synthetic != "" {
				continue // wrappers forward the arguments of module callers already seen through interfaces
			}
			return false
		}
		args := callArgs(e.Site.Common())
		if idx >= len(args) {
			return false
		}
		a := args[idx]
		in, _ := e.Site.(ssa.Instruction)
		f := FactsAt(in)
		if rangeCounter(a) || f.nonNeg(a) {
			continue
		}
		if ap, ok := stripNumConv(a).(*ssa.Parameter); ok && oc.paramNonNeg(ap, depth+1) {
			continue
		}
		// level+1 style: parameter plus a non-negative constant
		if bo, ok := stripNumConv(a).(*ssa.BinOp); ok && bo.Op == token.ADD {
			if k, isC := constInt(bo.Y); isC && k >= 0 {
				if ap, ok := stripNumConv(bo.X).(*ssa.Parameter); ok && oc.paramNonNeg(ap, depth+1) {
					continue
				}
			}
		}
		// a captured variable of the enclosing function: every value stored in its cell
		if oc.capturedNonNeg(a, depth) {
			continue
		}
		return false
	}
	return true
}

// paramLenFloor: the largest m ≤ 4 such that every call site of the (unexported, never escaping)
// function passes a slice of length ≥ m for this parameter.
func (oc *obligCtx) paramLenFloor(p *ssa.Parameter) int64 {
	return oc.paramLenFloorD(p, 0)
}

// paramLenFloorD: an argument that is itself an (unassigned) parameter of the calling helper takes the floor
// of that parameter (two levels: setValue → setContainerValue(cFields) → assignContainerField(cFields)).
func (oc *obligCtx) paramLenFloorD(p *ssa.Parameter, depth int) int64 {
	fn := p.Parent()
	if fn == nil || fn.Parent() != nil {
		return 0
	}
	if o := fn.Object(); o == nil || o.Exported() {
		return 0
	}
	idx := paramIndex(fn, p)
	n := oc.c.CHA().Nodes[fn]
	if n == nil || len(n.In) == 0 || idx < 0 {
		return 0
	}
	floor := int64(4)
	for _, e := range n.In {
		if e.Site == nil || !oc.c.modFuncSet[e.Caller.Func] || e.Site.Common().StaticCallee() != fn {
			if e.Caller.Func.Synthetic != "" {
				if wn := oc.c.CHA().Nodes[e.Caller.Func]; wn == nil || len(wn.In) == 0 {
					continue
				}
			}
			return 0
		}
		args := callArgs(e.Site.Common())
		if idx >= len(args) {
			return 0
		}
		in, _ := e.Site.(ssa.Instruction)
		f := FactsAt(in)
		m := int64(0)
		for k := int64(1); k <= floor; k++ {
			if f.lenAtLeast(args[idx], k) {
				m = k
			} else {
				break
			}
		}
		if ap, isParam := args[idx].(*ssa.Parameter); isParam && depth < 2 && m < floor {
			if up := oc.paramLenFloorD(ap, depth+1); up > m {
				m = up
			}
		}
		if m < floor {
			floor = m
		}
		if floor == 0 {
			return 0
		}
	}
	return floor
}

// capturedNonNeg: v is the load of a variable captured by a closure, and every value the enclosing
// function stores into that variable is non-negative there.
func (oc *obligCtx) capturedNonNeg(v ssa.Value, depth int) bool {
	ld, ok := stripNumConv(v).(*ssa.UnOp)
	if !ok || ld.Op != token.MUL {
		return false
	}
	fv, ok := ld.X.(*ssa.FreeVar)
	if !ok {
		return false
	}
	cf := fv.Parent()
	par := cf.Parent()
	if par == nil {
		return false
	}
	idx := -1
	for i, f := range cf.FreeVars {
		if f == fv {
			idx = i
		}
	}
	found, all := false, true
	allInstrs(par, func(in ssa.Instruction) {
		mc, isMC := in.(*ssa.MakeClosure)
		if !isMC || mc.Fn != ssa.Value(cf) || idx < 0 || idx >= len(mc.Bindings) {
			return
		}
		cell, isAlloc := mc.Bindings[idx].(*ssa.Alloc)
		if !isAlloc {
			all = false
			return
		}
		found = true
		for _, ref := range *cell.Referrers() {
			st, isSt := ref.(*ssa.Store)
			if !isSt || st.Addr != ssa.Value(cell) {
				continue
			}
			f := FactsAt(st)
			sv := st.Val
			switch {
			case rangeCounter(sv) || f.nonNeg(sv):
			default:
				okV := false
				if p, isP := stripNumConv(sv).(*ssa.Parameter); isP && oc.paramNonNeg(p, depth+1) {
					okV = true
				}
				if bo, isB := stripNumConv(sv).(*ssa.BinOp); isB && bo.Op == token.ADD {
					if k, isC := constInt(bo.Y); isC && k >= 0 {
						if p, isP := stripNumConv(bo.X).(*ssa.Parameter); isP && oc.paramNonNeg(p, depth+1) {
							okV = true
						}
					}
				}
				if !okV {
					all = false
				}
			}
		}
	})
	return found && all
}

// sortCallback: fn is Less or Swap of a type implementing sort.Interface: its index
// parameters are valid indexes by sort's contract.
func sortCallback(fn *ssa.Function) bool {
	if fn.Signature.Recv() == nil || (fn.Name() != "Less" && fn.Name() != "Swap") {
		return false
	}
	ms := types.NewMethodSet(fn.Signature.Recv().Type())
	return ms.Lookup(nil, "Len") != nil && ms.Lookup(nil, "Less") != nil && ms.Lookup(nil, "Swap") != nil
}

// sortSliceLess: fn is a closure used only as the less argument of sort.Slice / sort.SliceStable
// (sort.SliceIsSorted), X is a load of a captured variable, the slice handed to that call is a
// load of the same variable in the same block with no store in between, and the closure never
// assigns the variable — the indices sort passes are then within the slice X denotes.
func sortSliceLess(fn *ssa.Function, X ssa.Value) bool {
	if fn.Parent() == nil {
		return false
	}
	ld, ok := X.(*ssa.UnOp)
	if !ok || ld.Op != token.MUL {
		return false
	}
	fv, ok := ld.X.(*ssa.FreeVar)
	if !ok {
		return false
	}
	fvIdx := -1
	for i, v := range fn.FreeVars {
		if v == fv {
			fvIdx = i
		}
	}
	stored := false
	allInstrs(fn, func(in ssa.Instruction) {
		if st, ok := in.(*ssa.Store); ok && st.Addr == ssa.Value(fv) {
			stored = true
		}
	})
	if fvIdx < 0 || stored {
		return false
	}
	found, other := false, false
	allInstrs(fn.Parent(), func(in ssa.Instruction) {
		mc, ok := in.(*ssa.MakeClosure)
		if !ok || mc.Fn != ssa.Value(fn) {
			return
		}
		cell := mc.Bindings[fvIdx]
		refs := mc.Referrers()
		if refs == nil {
			other = true
			return
		}
		for _, u := range *refs {
			if _, isDbg := u.(*ssa.DebugRef); isDbg {
				continue
			}
			call, ok := u.(*ssa.Call)
			if !ok {
				other = true
				continue
			}
			cal := call.Call.StaticCallee()
			if cal == nil || cal.Pkg == nil || cal.Pkg.Pkg.Path() != "sort" || len(call.Call.Args) != 2 || call.Call.Args[1] != ssa.Value(mc) {
				other = true
				continue
			}
			switch cal.Name() {
			case "Slice", "SliceStable", "SliceIsSorted":
			default:
				other = true
				continue
			}
			mi, ok := call.Call.Args[0].(*ssa.MakeInterface)
			if !ok {
				other = true
				continue
			}
			arg, ok := mi.X.(*ssa.UnOp)
			if !ok || arg.Op != token.MUL || arg.X != cell || arg.Block() != call.Block() {
				other = true
				continue
			}
			// no store to the cell and no other call between the load and the sort call
			between, clean := false, true
			for _, bi := range call.Block().Instrs {
				if bi == ssa.Instruction(arg) {
					between = true
					continue
				}
				if bi == ssa.Instruction(call) {
					break
				}
				if !between {
					continue
				}
				switch y := bi.(type) {
				case *ssa.Store:
					if y.Addr == cell {
						clean = false
					}
				case *ssa.Call, *ssa.Go, *ssa.Defer:
					clean = false
				}
			}
			if !clean {
				other = true
				continue
			}
			found = true
		}
	})
	return found && !other
}

// enumerate lists the obligations of one function for the requested kinds (nil = all).
func (oc *obligCtx) enumerate(fn *ssa.Function, kinds map[string]bool) []Obligation {
	c := oc.c
	key := c.FuncKey(fn)
	ord := newOrdinals()
	var out []Obligation
	want := func(k string) bool { return kinds == nil || kinds[k] }
	add := func(kind string, in ssa.Instruction, desc string, ok bool, why string) {
		out = append(out, Obligation{Kind: kind, Fn: fn, Instr: in, Site: ord.key(key, kind, desc), Pos: c.Pos(c.InstrPos(in)), Desc: desc, Discharged: ok, Why: why})
	}
	allInstrs(fn, func(in ssa.Instruction) {
		switch x := in.(type) {
		case *ssa.IndexAddr:
			if want("index") {
				oc.indexOb(fn, in, x.X, x.Index, add)
			}
		case *ssa.Index:
			if want("index") {
				oc.indexOb(fn, in, x.X, x.Index, add)
			}
		case *ssa.Lookup:
			if _, isMap := x.X.Type().Underlying().(*types.Map); isMap {
				if want("mapkey") {
					oc.mapKeyOb(in, x.X, x.Index, "lookup", add)
				}
			} else if want("index") {
				oc.indexOb(fn, in, x.X, x.Index, add) // string index
			}
		case *ssa.MapUpdate:
			if want("mapkey") {
				oc.mapKeyOb(in, x.Map, x.Key, "update", add)
			}
		case *ssa.Slice:
			if want("slice") {
				oc.sliceOb(in, x, add)
			}
		case *ssa.TypeAssert:
			if !x.CommaOk && want("assert") {
				oc.assertOb(in, x, add)
			}
		case *ssa.BinOp:
			switch x.Op {
			case token.QUO, token.REM:
				if isIntegerType(x.X.Type()) && want("intdiv") {
					if k, isC := constInt(x.Y); isC && k != 0 {
						return
					}
					f := FactsAt(in)
					desc := x.Op.String() + ":" + exprString(x.Y, 0)
					if f.nonZero(x.Y) {
						add("intdiv", in, desc, true, "divisor dominated by a non-zero test")
					} else {
						add("intdiv", in, desc, false, "integer "+x.Op.String()+" by "+exprString(x.Y, 0)+" with no dominating non-zero test (integer divide by zero panics)")
					}
				}
			case token.SHL, token.SHR:
				if want("shift") && !isUnsignedType(x.Y.Type()) {
					if _, isC := constInt(x.Y); isC {
						return
					}
					f := FactsAt(in)
					if oc.nonNeg(f, x.Y) {
						add("shift", in, exprString(x.Y, 0), true, "shift count non-negative")
					} else {
						add("shift", in, exprString(x.Y, 0), false, "signed shift count may be negative (panics)")
					}
				}
			case token.EQL, token.NEQ:
				if want("ifacecmp") && types.IsInterface(x.X.Type()) && types.IsInterface(x.Y.Type()) {
					oc.ifaceCmpOb(in, x, add)
				}
			}
		case *ssa.MakeSlice:
			if want("makeslice") {
				for _, n := range []ssa.Value{x.Len, x.Cap} {
					if _, isC := constInt(n); isC {
						continue
					}
					f := FactsAt(in)
					if oc.nonNeg(f, n) {
						add("makeslice", in, exprString(n, 0), true, "length is non-negative by construction")
					} else {
						add("makeslice", in, exprString(n, 0), false, "make with a length that may be negative")
					}
				}
			}
		case *ssa.Panic:
			if want("panicapi") {
				add("panicapi", in, "panic", false, "explicit panic")
			}
		case ssa.CallInstruction:
			if isBuiltinCall(in, "delete") {
				if want("mapkey") {
					oc.mapKeyOb(in, x.Common().Args[0], x.Common().Args[1], "delete", add)
				}
				return
			}
			if want("nilerrtype") {
				name := callName(in)
				if strings.HasSuffix(name, "ECALRuntimeProvider.NewRuntimeError") || strings.HasSuffix(name, "util.NewRuntimeError") {
					args := callArgs(x.Common())
					if len(args) > 1 {
						t := args[1]
						desc := "NewRuntimeError:" + exprString(t, 0)
						if nonNilError(t, fn, 0) || oc.paramErrNonNil(t, fn) {
							add("nilerrtype", in, desc, true, "the error type is a package-level error value, a fresh error or a forwarded parameter whose call sites are obligations themselves")
						} else if FactsAt(in).NonNil[accessPath(t)] {
							add("nilerrtype", in, desc, true, "dominated by a non-nil test of the error type")
						} else {
							add("nilerrtype", in, desc, false, "a runtime error is created with an error type that may be nil ("+exprString(t, 0)+"): reading its type (try/except, sinks, String) is a nil dereference")
						}
					}
				}
			}
			if want("panicapi") {
				name := callName(in)
				if why, ok := panicAPIs[name]; ok {
					short := name[strings.LastIndex(name, "/")+1:]
					desc := short
					if strings.HasSuffix(name, "AssertTrue") && len(x.Common().Args) > 0 {
						desc += ":" + exprString(x.Common().Args[0], 0)
						if ok, w := oc.assertByShape(fn, in, x.Common().Args[0]); ok {
							add("panicapi", in, desc, true, w)
							return
						}
					}
					add("panicapi", in, desc, false, "call of "+short+", which "+why)
				}
			}
		}
	})
	return out
}

// parallelAppended: the slices a and b have the same length at `at`: both start empty (nil), every
// extension of either is an append of exactly one element, the appends pair up one to one inside
// the same basic blocks, and `at` lies in none of those blocks.
func parallelAppended(a, b ssa.Value, at ssa.Instruction) bool {
	aApps, aBases := sliceAppends(a)
	bApps, bBases := sliceAppends(b)
	if len(aApps) == 0 || len(aApps) != len(bApps) {
		return false
	}
	for _, base := range append(append([]ssa.Value{}, aBases...), bBases...) {
		if !isNilConst(base) {
			return false
		}
	}
	byBlock := map[*ssa.BasicBlock]int{}
	for _, ap := range aApps {
		if len(appendedElems(ap)) != 1 || ap.Block() == at.Block() {
			return false
		}
		byBlock[ap.Block()]++
	}
	for _, bp := range bApps {
		if len(appendedElems(bp)) != 1 || bp.Block() == at.Block() {
			return false
		}
		byBlock[bp.Block()]--
	}
	for _, d := range byBlock {
		if d != 0 {
			return false
		}
	}
	return true
}

// rangeCounterOver: idx is the counter of a `for i := range Y` loop (go/ssa: phi(-1, i+1) compared
// with len(Y)); returns Y.
func rangeCounterOver(idx ssa.Value) (bool, ssa.Value) {
	bo, ok := stripNumConv(idx).(*ssa.BinOp)
	if !ok || bo.Op != token.ADD {
		return false, nil
	}
	ph, ok := bo.X.(*ssa.Phi)
	if !ok {
		return false, nil
	}
	if refs := bo.Referrers(); refs != nil {
		for _, ref := range *refs {
			cmp, ok := ref.(*ssa.BinOp)
			if !ok || cmp.Op != token.LSS || cmp.X != ssa.Value(bo) {
				continue
			}
			if t := termOf(cmp.Y); t.isLen() && t.Off == 0 {
				_ = ph
				return true, t.LenVal
			}
		}
	}
	return false, nil
}

type addFn func(kind string, in ssa.Instruction, desc string, ok bool, why string)

func (oc *obligCtx) indexOb(fn *ssa.Function, in ssa.Instruction, X, idx ssa.Value, add addFn) {
	desc := accessPath(X) + "[" + exprString(idx, 0) + "]"
	if n, isArr := isArrayLike(X.Type()); isArr {
		if k, isC := constInt(idx); isC && k >= 0 && k < n {
			return // checked by the compiler
		}
	}
	f := FactsAt(in)
	if _, isC := constInt(idx); !isC {
		oc.addParamFloor(f, X)
	}
	if p, isP := stripNumConv(idx).(*ssa.Parameter); isP && sortCallback(fn) && rootOf(X) == ssa.Value(fn.Params[0]) {
		_ = p
		add("index", in, desc, true, "index parameter of a sort.Interface callback: valid by sort's contract")
		return
	}
	if _, isP := stripNumConv(idx).(*ssa.Parameter); isP && sortSliceLess(fn, X) {
		add("index", in, desc, true, "index parameter of the less function of sort.Slice, into the slice being sorted: valid by sort's contract")
		return
	}
	if k, isC := constInt(idx); isC {
		// a slice parameter of an unexported function: what every call site knows about its length
		if p, isP := X.(*ssa.Parameter); isP && k >= 0 {
			if fl := oc.paramLenFloor(p); fl > 0 {
				f.Cmps = append(f.Cmps, Cmp{L: Term{LenPath: accessPath(X), LenVal: X}, Op: token.GEQ, R: Term{IsConst: true, K: fl}})
			}
		}
		if k >= 0 && f.lenAtLeast(X, k+1) {
			add("index", in, desc, true, fmt.Sprintf("len(%s) > %d established by a dominating condition or by construction", accessPath(X), k))
			return
		}
		if oc.shapeLen(fn, X) > k {
			add("index", in, desc, true, fmt.Sprintf("AST shape: every node kind evaluated by this runtime has more than %d children", k))
			return
		}
		add("index", in, desc, false, fmt.Sprintf("index %d into %s with no dominating proof that its length exceeds %d", k, accessPath(X), k))
		return
	}
	// x[len(x)-k] with len(x) ≥ k by the AST shape
	if t := termOf(idx); t.isLen() && t.Off < 0 && (t.LenVal == X || t.LenPath == accessPath(X)) && oc.shapeLen(fn, X) >= -t.Off {
		add("index", in, desc, true, fmt.Sprintf("AST shape: the node has at least %d child(ren)", -t.Off))
		return
	}
	lo := oc.nonNeg(f, idx)
	hi := f.ltLen(idx, X)
	if n, isArr := isArrayLike(X.Type()); isArr && !hi {
		hi = f.upperBound(idx, n)
	}
	if !hi {
		// idx < len(Y) is known and Y grows in step with X (each is only ever extended by one
		// element, pairwise in the same basic block, from empty): len(X) = len(Y) here
		for _, cm := range f.Cmps {
			l, op, r := cm.L, cm.Op, cm.R
			if l.isLen() {
				l, r = r, l
				op = flipOp(op)
			}
			if op != token.LSS || !r.isLen() || r.Off != 0 || l.V == nil || l.Off != 0 || !sameTerm(Term{V: l.V}, Term{V: stripNumConv(idx)}) {
				continue
			}
			if r.LenVal != X && parallelAppended(X, r.LenVal, in) {
				hi = true
			}
		}
		if rc, Y := rangeCounterOver(idx); rc && Y != nil && Y != X && parallelAppended(X, Y, in) {
			hi = true
		}
	}
	switch {
	case lo && hi:
		add("index", in, desc, true, "0 ≤ index < len established (range loop or dominating conditions)")
	case hi && !lo:
		add("index", in, desc, false, fmt.Sprintf("index %s is checked against the length but never against 0 (a negative index panics)", exprString(idx, 0)))
	case lo && !hi:
		add("index", in, desc, false, fmt.Sprintf("index %s into %s has no dominating upper-bound check", exprString(idx, 0), accessPath(X)))
	default:
		add("index", in, desc, false, fmt.Sprintf("index %s into %s is unchecked", exprString(idx, 0), accessPath(X)))
	}
}

func (oc *obligCtx) sliceOb(in ssa.Instruction, x *ssa.Slice, add addFn) {
	if x.Low == nil && x.High == nil && x.Max == nil {
		return
	}
	f := FactsAt(in)
	oc.addParamFloor(f, x.X)
	desc := accessPath(x.X) + "[" + optExpr(x.Low) + ":" + optExpr(x.High) + "]"
	// Children[k:] with at least k children by the AST shape
	if x.High == nil && x.Max == nil {
		if k, isC := constInt(x.Low); isC && k >= 0 && oc.shapeLen(in.Parent(), x.X) >= k {
			add("slice", in, desc, true, fmt.Sprintf("AST shape: the node has at least %d child(ren)", k))
			return
		}
	}
	var fails []string
	// upper bound
	if x.High != nil {
		ok := false
		if n, isArr := isArrayLike(x.X.Type()); isArr {
			if k, isC := constInt(x.High); isC && k <= n {
				ok = true
			}
		}
		if !ok && !f.leLen(x.High, x.X) && !linLeq(f, linVal(x.High), linLen(x.X)) {
			fails = append(fails, "high ≤ len")
		}
	}
	// lower bound non-negative
	if x.Low != nil && !oc.nonNeg(f, x.Low) && !linLeq(f, linConst(0), linVal(x.Low)) {
		fails = append(fails, "0 ≤ low")
	}
	if x.Low == nil && x.High != nil && !oc.nonNeg(f, x.High) && !linLeq(f, linConst(0), linVal(x.High)) {
		fails = append(fails, "0 ≤ high")
	}
	// low ≤ high
	if x.Low != nil {
		if x.High == nil {
			ok := f.leLen(x.Low, x.X) || linLeq(f, linVal(x.Low), linLen(x.X))
			if n, isArr := isArrayLike(x.X.Type()); isArr && !ok {
				if k, isC := constInt(x.Low); isC && k <= n {
					ok = true
				}
			}
			if !ok {
				fails = append(fails, "low ≤ len")
			}
		} else if !leqValues(f, oc, x.Low, x.High) && !linLeq(f, linVal(x.Low), linVal(x.High)) {
			fails = append(fails, "low ≤ high")
		}
	}
	if len(fails) == 0 {
		add("slice", in, desc, true, "0 ≤ low ≤ high ≤ len established")
		return
	}
	if ok, why := oc.spanDischarge(in, x); ok {
		add("slice", in, desc, true, why)
		return
	} else if why != "" {
		add("slice", in, desc, false, "slice expression "+desc+": the lexer's span invariant would cover it, but its frame condition fails: "+why)
		return
	}
	add("slice", in, desc, false, "slice expression "+desc+" with no dominating proof of "+strings.Join(fails, ", "))
}

func optExpr(v ssa.Value) string {
	if v == nil {
		return ""
	}
	return exprString(v, 0)
}

// leqValues: a ≤ b provable.
func leqValues(f *Facts, oc *obligCtx, a, b ssa.Value) bool {
	ta, tb := termOf(a), termOf(b)
	if ta.IsConst && tb.IsConst {
		return ta.K <= tb.K
	}
	if !ta.IsConst && !tb.IsConst && sameTermBase(ta, tb) {
		return ta.Off <= tb.Off
	}
	// b = a' + e with a' == a and e ≥ 0
	if bo, ok := stripNumConv(b).(*ssa.BinOp); ok && bo.Op == token.ADD {
		if sameTermFull(termOf(bo.X), ta) && oc.nonNeg(f, bo.Y) {
			return true
		}
		if sameTermFull(termOf(bo.Y), ta) && oc.nonNeg(f, bo.X) {
			return true
		}
	}
	if ta.IsConst && ta.K <= 0 && oc.nonNeg(f, b) {
		return true
	}
	for _, c := range f.Cmps {
		l, op, r := c.L, c.Op, c.R
		if sameTermFull(l, tb) && sameTermFull(r, ta) {
			l, r = r, l
			op = flipOp(op)
		}
		if sameTermFull(l, ta) && sameTermFull(r, tb) && (op == token.LEQ || op == token.LSS || op == token.EQL) {
			return true
		}
	}
	return false
}

func sameTermBase(a, b Term) bool {
	x, y := a, b
	x.Off, y.Off = 0, 0
	return sameTerm(x, y)
}

func sameTermFull(a, b Term) bool {
	return a.Off == b.Off && (sameTermBase(a, b) || (a.IsConst && b.IsConst && a.K == b.K))
}

func (oc *obligCtx) assertOb(in ssa.Instruction, x *ssa.TypeAssert, add addFn) {
	at := types.TypeString(x.AssertedType, nil)
	short := typeShort(derefType(x.AssertedType))
	if _, isPtr := x.AssertedType.(*types.Pointer); isPtr {
		short = "*" + short
	}
	desc := accessPath(x.X) + ".(" + short + ")"
	f := FactsAt(in)
	for _, t := range f.TypeIs[accessPath(x.X)] {
		if t == at {
			add("assert", in, desc, true, "dominated by a successful comma-ok assertion / type switch on the same value")
			return
		}
	}
	// callee result typing
	if ts := oc.resultTypes(x.X); len(ts) > 0 {
		all := true
		for _, t := range ts {
			if !types.Identical(t, x.AssertedType) && !(types.IsInterface(x.AssertedType) && types.Implements(t, x.AssertedType.Underlying().(*types.Interface))) {
				all = false
			}
		}
		if all {
			add("assert", in, desc, true, "every return of the callee makes this concrete type")
			return
		}
	}
	// slot typing of instance-state maps with a constant key
	if lk, ok := unspill(x.X).(*ssa.Lookup); ok {
		if ks, isC := constString(lk.Index); isC {
			ts := oc.slotTypes(ks, lk.X.Type())
			if len(ts) > 0 {
				all := true
				for _, t := range ts {
					if !types.Identical(t, x.AssertedType) && !(types.IsInterface(x.AssertedType) && types.Implements(t, x.AssertedType.Underlying().(*types.Interface))) {
						all = false
					}
				}
				if all {
					add("assert", in, desc, true, fmt.Sprintf("slot typing: every store to key %q of such a map in the module stores this type (%d store(s))", ks, len(ts)))
					return
				}
			}
		}
	}
	add("assert", in, desc, false, "unchecked type assertion "+desc+" (panics when the dynamic type differs or the value is nil)")
}

// resultTypes: concrete types a call result can have (all returns of all callees), nil if unknown.
func (oc *obligCtx) resultTypes(v ssa.Value) []types.Type {
	v = unspill(v)
	idx := 0
	var call *ssa.Call
	switch x := v.(type) {
	case *ssa.Call:
		call = x
	case *ssa.Extract:
		c, ok := x.Tuple.(*ssa.Call)
		if !ok {
			return nil
		}
		call, idx = c, x.Index
	default:
		return nil
	}
	callees := oc.c.Callees(call)
	if len(callees) == 0 {
		return nil
	}
	var out []types.Type
	for _, cal := range callees {
		if !oc.c.modFuncSet[cal] {
			return nil
		}
		ts := oc.returnTypes(cal, idx, 0)
		if ts == nil {
			return nil
		}
		out = append(out, ts...)
	}
	return out
}

func (oc *obligCtx) returnTypes(fn *ssa.Function, idx, depth int) []types.Type {
	if m, ok := oc.retMem[fn]; ok {
		if ts, ok := m[idx]; ok {
			return ts
		}
	} else {
		oc.retMem[fn] = map[int][]types.Type{}
	}
	oc.retMem[fn][idx] = nil
	var out []types.Type
	for _, rv := range returnedValues(fn, idx) {
		rv = stripConvKeepIface(rv)
		switch x := rv.(type) {
		case *ssa.MakeInterface:
			out = append(out, x.X.Type())
		case *ssa.Const:
			if x.Value == nil {
				return nil // can return nil: an assertion on it panics
			}
			return nil
		case *ssa.Call, *ssa.Extract:
			if depth > 3 {
				return nil
			}
			ts := oc.resultTypes(rv)
			if ts == nil {
				return nil
			}
			out = append(out, ts...)
		default:
			return nil
		}
	}
	oc.retMem[fn][idx] = out
	return out
}

// slotTypes: types stored under constant key k in maps of type mt anywhere in the module.
func (oc *obligCtx) slotTypes(k string, mt types.Type) []types.Type {
	mk := k + "|" + mt.String()
	if ts, ok := oc.slotMem[mk]; ok {
		return ts
	}
	var out []types.Type
	bad := false
	for _, fn := range oc.c.ModFuncs() {
		allInstrs(fn, func(in ssa.Instruction) {
			mu, ok := in.(*ssa.MapUpdate)
			if !ok || !types.Identical(mu.Map.Type(), mt) {
				return
			}
			ks, isC := constString(mu.Key)
			if !isC {
				return // non-constant keys of instance-state maps are built with a prefix of the instance id: distinct from the constant slots
			}
			if ks != k {
				return
			}
			if mi, ok := mu.Value.(*ssa.MakeInterface); ok {
				out = append(out, mi.X.Type())
			} else {
				bad = true
			}
		})
	}
	if bad {
		out = nil
	}
	oc.slotMem[mk] = out
	return out
}

func comparableConcrete(t types.Type) bool {
	if types.IsInterface(t) {
		return false
	}
	return types.Comparable(t)
}

func (oc *obligCtx) ifaceCmpOb(in ssa.Instruction, x *ssa.BinOp, add addFn) {
	if _, isC := x.X.(*ssa.Const); isC {
		return
	}
	if _, isC := x.Y.(*ssa.Const); isC {
		return
	}
	desc := accessPath(x.X) + x.Op.String() + accessPath(x.Y)
	for _, v := range []ssa.Value{x.X, x.Y} {
		if mi, ok := stripConvKeepIface(v).(*ssa.MakeInterface); ok && comparableConcrete(mi.X.Type()) {
			add("ifacecmp", in, desc, true, "one operand holds a comparable concrete type ("+mi.X.Type().String()+"): Go compares unequal types as unequal")
			return
		}
		if g, ok := stripConvKeepIface(v).(*ssa.UnOp); ok {
			if gl, ok := g.X.(*ssa.Global); ok && types.Identical(gl.Type().(*types.Pointer).Elem(), types.Universe.Lookup("error").Type()) {
				add("ifacecmp", in, desc, true, "compared with a package-level error value (pointer from errors.New)")
				return
			}
		}
	}
	// dominated by a successful comparability test of exactly these two operands
	f := FactsAt(in)
	for v := range f.TrueV {
		call, ok := v.(*ssa.Call)
		if !ok {
			continue
		}
		cf := call.Call.StaticCallee()
		if cf == nil || !oc.c.modFuncSet[cf] || len(call.Call.Args) != 2 {
			continue
		}
		a0, a1 := unspill(call.Call.Args[0]), unspill(call.Call.Args[1])
		if !((a0 == unspill(x.X) && a1 == unspill(x.Y)) || (a0 == unspill(x.Y) && a1 == unspill(x.X))) {
			continue
		}
		tests := false
		allInstrs(cf, func(ci ssa.Instruction) {
			if c2, ok := ci.(ssa.CallInstruction); ok && c2.Common().IsInvoke() && c2.Common().Method.Name() == "Comparable" {
				tests = true
			}
		})
		if tests {
			add("ifacecmp", in, desc, true, "dominated by a successful comparability test ("+cf.Name()+") of exactly these operands")
			return
		}
	}
	// interfaces with methods whose module implementations are all comparable
	for _, v := range []ssa.Value{x.X, x.Y} {
		it, _ := v.Type().Underlying().(*types.Interface)
		if it != nil && it.NumMethods() > 0 && oc.implsComparable(it) {
			add("ifacecmp", in, desc, true, "static type "+typeShort(v.Type())+": every implementation in the module is a pointer or comparable type")
			return
		}
	}
	add("ifacecmp", in, desc, false, "== / != on two interface values whose dynamic types may be uncomparable (lists, maps): comparing two values of the same uncomparable type panics")
}

func (oc *obligCtx) implsComparable(it *types.Interface) bool {
	for _, p := range oc.c.Pkgs {
		sc := p.Types.Scope()
		for _, n := range sc.Names() {
			tn, ok := sc.Lookup(n).(*types.TypeName)
			if !ok || tn.IsAlias() || types.IsInterface(tn.Type()) {
				continue
			}
			if types.Implements(tn.Type(), it) && !types.Comparable(tn.Type()) {
				return false // a value type implementing the interface is not comparable
			}
		}
	}
	return true
}

func (oc *obligCtx) mapKeyOb(in ssa.Instruction, m, key ssa.Value, what string, add addFn) {
	mt, ok := m.Type().Underlying().(*types.Map)
	if !ok || !types.IsInterface(mt.Key()) {
		return
	}
	desc := what + ":" + accessPath(m) + "[" + exprString(key, 0) + "]"
	if hashable(key, 0) {
		add("mapkey", in, desc, true, "key is a constant, a comparable concrete type or came out of a map")
		return
	}
	if hashableOnAllPaths(in, key) {
		add("mapkey", in, desc, true, "on every path here the key is nil or reflect.TypeOf(key).Comparable() was observed true")
		return
	}
	add("mapkey", in, desc, false, "map "+what+" with an interface-typed key whose dynamic type may be unhashable (a list or map as key panics: "+desc+")")
}

func hashable(v ssa.Value, d int) bool {
	if d > 6 {
		return false
	}
	v = stripConvKeepIface(v)
	switch x := v.(type) {
	case *ssa.Const:
		return true
	case *ssa.MakeInterface:
		return comparableConcrete(x.X.Type())
	case *ssa.Extract:
		if n, ok := x.Tuple.(*ssa.Next); ok && x.Index == 1 && !n.IsString {
			return true // key produced by ranging over a map
		}
	case *ssa.Phi:
		for _, e := range x.Edges {
			if !hashable(e, d+1) {
				return false
			}
		}
		return true
	case *ssa.UnOp:
		if a, ok := x.X.(*ssa.Alloc); ok && x.Op == token.MUL {
			srcs := cellSources(a)
			if len(srcs) == 0 {
				return false
			}
			for _, s := range srcs {
				if !hashable(s, d+1) {
					return false
				}
			}
			return true
		}
	}
	return false
}

// shapeLen: minimum number of children of rt.node for the runtime type owning fn, when X is
// the Children slice of the runtime's own node (AST-shape invariant); -1 if not applicable.
func (oc *obligCtx) shapeLen(fn *ssa.Function, X ssa.Value) int64 {
	owner := childrenOwner(X)
	if owner == nil {
		return -1
	}
	var f *Facts
	if in, ok := X.(ssa.Instruction); ok {
		f = FactsAt(in)
	}
	return oc.minChildren(fn, owner, f)
}

// sortObligations orders by site.
func sortObligations(obs []Obligation) {
	sort.SliceStable(obs, func(i, j int) bool { return obs[i].Site < obs[j].Site })
}

// boundsObligations: index and slice obligations of one function (used by C14 R14b).
func boundsObligations(c *Ctx, fn *ssa.Function) []Obligation {
	oc := newObligCtx(c)
	obs := oc.enumerate(fn, map[string]bool{"index": true, "slice": true})
	sortObligations(obs)
	return obs
}

// tokenObligations: dereferences of N.Token where N may be a node the parser constructs
// itself (statements, funccall, compaccess, params, guard, the `true` of an else branch):
// such nodes have a nil Token.
func (oc *obligCtx) tokenObligations(fn *ssa.Function) []Obligation {
	c := oc.c
	fTok := c.Field("parser", "ASTNode", "Token")
	if fTok == nil || c.PkgOf(fn) == "parser" && !strings.HasPrefix(fn.Name(), "pp") && !strings.Contains(c.FuncKey(fn), "PrettyPrint") {
		// inside the parser proper every node at hand was instanced from a token by next()
		return nil
	}
	key := c.FuncKey(fn)
	ord := newOrdinals()
	var out []Obligation
	seen := map[string]bool{}
	allInstrs(fn, func(in ssa.Instruction) {
		fa, ok := in.(*ssa.FieldAddr)
		if !ok {
			return
		}
		ld, ok := fa.X.(*ssa.UnOp)
		if !ok || fieldVar(ld.X) != fTok {
			return
		}
		nodeV := ld.X.(*ssa.FieldAddr).X
		np := accessPath(nodeV)
		desc := np + ".Token." + fieldName(fa.X.Type(), fa.Field)
		// one obligation per (node path, block): several fields of the same token are one dereference
		k := np + "|" + fmt.Sprint(fa.Block().Index)
		if seen[k] {
			return
		}
		seen[k] = true
		f := FactsAt(in)
		ob := Obligation{Kind: "tokennil", Fn: fn, Instr: in, Site: ord.key(key, "tokennil", np), Pos: c.Pos(c.InstrPos(in)), Desc: desc}
		switch {
		case f.NonNil[np+".Token"]:
			ob.Discharged, ob.Why = true, "dominated by a Token != nil test"
		case oc.kindsCarryToken(f.NameIs[np+".Name"]):
			ob.Discharged, ob.Why = true, "under a test of the node's kind ("+strings.Join(f.NameIs[np+".Name"], "/")+"), which always carries a token"
		case oc.ownNodeCarriesToken(fn, np):
			ob.Discharged, ob.Why = true, "the runtime's own node: every node kind evaluated by this runtime type is instanced from a token"
		case oc.kindsCarryToken(oc.kindSet(fn, nodeV, f, 0)):
			ob.Discharged, ob.Why = true, "AST shape: every node kind possible at this position ("+strings.Join(oc.kindSet(fn, nodeV, f, 0), "/")+") is instanced from a token"
		case oc.paramTokenNonNil(nodeV, fn):
			ob.Discharged, ob.Why = true, "the node is a parameter of an unexported function and every call site passes a node whose Token it has tested against nil"
		default:
			ob.Why = "dereference of " + np + ".Token — a node constructed by the parser (statements, funccall, compaccess, params, guard, else-true) has a nil token"
		}
		out = append(out, ob)
	})
	return out
}

func (oc *obligCtx) kindsCarryToken(kinds []string) bool {
	if len(kinds) == 0 {
		return false
	}
	for _, k := range kinds {
		sh, ok := nodeShapes[k]
		if !ok || !sh.Token {
			return false
		}
	}
	return true
}

func (oc *obligCtx) ownNodeCarriesToken(fn *ssa.Function, np string) bool {
	if oc.prov == nil || !strings.HasSuffix(np, ".node") || strings.Contains(np, "Children") {
		return false
	}
	root := fn
	for root.Parent() != nil {
		root = root.Parent()
	}
	recv := root.Signature.Recv()
	if recv == nil || !strings.HasPrefix(np, root.Params[0].Name()+".") {
		return false
	}
	rn := namedOf(recv.Type())
	if rn == nil {
		return false
	}
	kinds := oc.prov.KindsOf(rn)
	return oc.kindsCarryToken(kinds)
}

// assertByShape: AssertTrue(len(<recv>.node.Children) == k) in a method of a runtime type or of a
// base type embedded by runtime types: holds when every node kind whose runtime reaches this
// assertion has exactly k children by the shape table — directly (own Eval) or at every call
// site of the helper (kinds of the calling runtime type, narrowed by the facts at the call).
func (oc *obligCtx) assertByShape(fn *ssa.Function, in ssa.Instruction, cond ssa.Value) (bool, string) {
	if oc.prov == nil {
		return false, ""
	}
	bo, ok := unspill(cond).(*ssa.BinOp)
	if !ok || bo.Op != token.EQL {
		return false, ""
	}
	k, isC := constInt(bo.Y)
	t := termOf(bo.X)
	if !isC || !t.isLen() || t.Off != 0 || !strings.HasSuffix(t.LenPath, ".node.Children") || fn.Signature.Recv() == nil {
		return false, ""
	}
	recvT := namedOf(fn.Signature.Recv().Type())
	if recvT == nil || rootOf(t.LenVal) != ssa.Value(fn.Params[0]) {
		return false, ""
	}
	// exact: for every kind, the child counts allowed by the shape table and by the facts are {k}
	exact := func(kinds []string, allowed func(n int64) bool) bool {
		if len(kinds) == 0 {
			return false
		}
		for _, kd := range kinds {
			sh, ok := nodeShapes[kd]
			if !ok {
				return false
			}
			mx := int64(sh.Max)
			if mx < 0 {
				mx = int64(sh.Min) + 12 // unbounded: probe a window; any count ≠ k in it refutes
			}
			for n := int64(sh.Min); n <= mx; n++ {
				if allowed(n) && n != k {
					return false
				}
			}
		}
		return true
	}
	// the function is itself an Eval/Validate of a concrete runtime type
	if _, direct := oc.prov.typeIsRuntime(recvT); direct {
		if exact(oc.prov.KindsOf(recvT), func(int64) bool { return true }) {
			return true, fmt.Sprintf("AST shape: every node kind of %s has exactly %d children", recvT.Obj().Name(), k)
		}
		return false, ""
	}
	// helper of an embedded base type: check every call site; a call site in another helper of the
	// same base type (on the same receiver) stands for that helper's call sites, with the
	// constraints known at both calls
	type cc struct {
		op token.Token
		k  int64
	}
	sites := 0
	var collect func(h *ssa.Function, inherited []cc, depth int) bool
	collect = func(h *ssa.Function, inherited []cc, depth int) bool {
		n := oc.c.CHA().Nodes[h]
		if n == nil || len(n.In) == 0 || depth > 4 {
			return false
		}
		for _, e := range n.In {
			caller := e.Caller.Func
			if caller.Synthetic != "" && !oc.c.modFuncSet[caller] {
				// promotion wrapper of an embedding type: reachable only through method values /
				// interfaces the module does not use for these helpers; its own callers are checked
				if wn := oc.c.CHA().Nodes[caller]; wn == nil || len(wn.In) == 0 {
					continue
				}
				return false
			}
			if !oc.c.modFuncSet[caller] || e.Site == nil {
				return false
			}
			root := caller
			for root.Parent() != nil {
				root = root.Parent()
			}
			if root.Signature.Recv() == nil {
				return false
			}
			ct := namedOf(root.Signature.Recv().Type())
			if ct == nil {
				return false
			}
			// narrow by facts at the call: comparisons of len(<recv>.node.Children) with constants
			ci, _ := e.Site.(ssa.Instruction)
			f := FactsAt(ci)
			cons := append([]cc{}, inherited...)
			for _, cm := range f.Cmps {
				l, op, r := cm.L, cm.Op, cm.R
				if r.isLen() && l.IsConst {
					l, r = r, l
					op = flipOp(op)
				}
				if !l.isLen() || !r.IsConst || !strings.HasSuffix(l.LenPath, ".node.Children") || strings.Contains(l.LenPath, "Children[") {
					continue
				}
				cons = append(cons, cc{op, r.K - l.Off})
			}
			if _, isRT := oc.prov.typeIsRuntime(ct); !isRT {
				args := e.Site.Common().Args
				// (a receiver captured by a closure of the helper is read back from its cell)
				if ct == recvT && caller == root && len(args) > 0 && len(caller.Params) > 0 && unspill(args[0]) == ssa.Value(caller.Params[0]) {
					if !collect(caller, cons, depth+1) {
						return false
					}
					continue
				}
				return false
			}
			allowed := func(n int64) bool {
				for _, x := range cons {
					switch x.op {
					case token.EQL:
						if n != x.k {
							return false
						}
					case token.NEQ:
						if n == x.k {
							return false
						}
					case token.GTR:
						if !(n > x.k) {
							return false
						}
					case token.GEQ:
						if !(n >= x.k) {
							return false
						}
					case token.LSS:
						if !(n < x.k) {
							return false
						}
					case token.LEQ:
						if !(n <= x.k) {
							return false
						}
					}
				}
				return true
			}
			if !exact(oc.prov.KindsOf(ct), allowed) {
				return false
			}
			sites++
		}
		return true
	}
	if !collect(fn, nil, 0) {
		return false, ""
	}
	return true, fmt.Sprintf("AST shape: at all %d call sites the calling runtime's node kinds have exactly %d children", sites, k)
}

// kindSet: the node kinds the *ASTNode value v can have (nil = unknown), derived from the
// runtime's own node (providerMap), child positions (childKinds) and kind tests in the facts.
func (oc *obligCtx) kindSet(fn *ssa.Function, v ssa.Value, f *Facts, depth int) []string {
	if oc.prov == nil || depth > 6 {
		return nil
	}
	v = unspill(v)
	np := accessPath(v)
	narrow := func(ks []string) []string {
		if f == nil || ks == nil {
			return ks
		}
		if is := f.NameIs[np+".Name"]; len(is) > 0 {
			// a successful equality test fixes the kind (switch cases arrive as single equalities)
			return is
		}
		if nots := f.NameNot[np+".Name"]; len(nots) > 0 {
			var out []string
			for _, k := range ks {
				drop := false
				for _, n := range nots {
					if n == k {
						drop = true
					}
				}
				if !drop {
					out = append(out, k)
				}
			}
			return out
		}
		return ks
	}
	if f != nil {
		if is := f.NameIs[np+".Name"]; len(is) > 0 {
			return is
		}
	}
	// the runtime's own node
	if strings.HasSuffix(np, ".node") && !strings.Contains(np, "Children") {
		root := fn
		for root.Parent() != nil {
			root = root.Parent()
		}
		if recv := root.Signature.Recv(); recv != nil && len(root.Params) > 0 && strings.HasPrefix(np, root.Params[0].Name()+".") {
			if rn := namedOf(recv.Type()); rn != nil {
				return narrow(oc.prov.KindsOf(rn))
			}
		}
		return nil
	}
	// a child: *(&X.Children[k])
	ld, ok := v.(*ssa.UnOp)
	if !ok {
		return nil
	}
	var parent ssa.Value
	pos := -1
	switch ia := ld.X.(type) {
	case *ssa.IndexAddr:
		sl := ia.X
		if s2, isSl := sl.(*ssa.Slice); isSl {
			sl = s2.X // Children[1:] … positions shift: any position
		} else if k, isC := constInt(ia.Index); isC {
			pos = int(k)
		}
		chl, isLoad := sl.(*ssa.UnOp)
		if !isLoad {
			return nil
		}
		fa, isFA := chl.X.(*ssa.FieldAddr)
		if !isFA || fieldName(fa.X.Type(), fa.Field) != "Children" {
			return nil
		}
		parent = fa.X
	default:
		return nil
	}
	pk := oc.kindSet(fn, parent, FactsAtValue(parent, ld), depth+1)
	if pk == nil {
		return nil
	}
	set := map[string]bool{}
	for _, k := range pk {
		cks := childKinds(k, pos)
		if cks == nil {
			return nil
		}
		for _, ck := range cks {
			set[ck] = true
		}
	}
	var out []string
	for k := range set {
		out = append(out, k)
	}
	sort.Strings(out)
	return narrow(out)
}

// FactsAtValue: facts at the instruction using v (falls back to the definition of v).
func FactsAtValue(v ssa.Value, at ssa.Instruction) *Facts {
	if at != nil {
		return FactsAt(at)
	}
	if in, ok := v.(ssa.Instruction); ok {
		return FactsAt(in)
	}
	return nil
}

// minChildren: a lower bound on len(N.Children) for the node value N by the shape table.
func (oc *obligCtx) minChildren(fn *ssa.Function, node ssa.Value, f *Facts) int64 {
	ks := oc.kindSet(fn, node, f, 0)
	if len(ks) == 0 {
		return -1
	}
	min := int64(1 << 30)
	for _, k := range ks {
		sh, ok := nodeShapes[k]
		if !ok {
			return -1
		}
		if int64(sh.Min) < min {
			min = int64(sh.Min)
		}
	}
	return min
}

// childrenOwner: if X is <node>.Children, the node value.
func childrenOwner(X ssa.Value) ssa.Value {
	ld, ok := X.(*ssa.UnOp)
	if !ok {
		return nil
	}
	fa, ok := ld.X.(*ssa.FieldAddr)
	if !ok || fieldName(fa.X.Type(), fa.Field) != "Children" {
		return nil
	}
	return fa.X
}

// hashableOnAllPaths: in every abstract state reaching `in`, the key is nil or a call
// reflect.TypeOf(key).Comparable() has been observed true.
func hashableOnAllPaths(in ssa.Instruction, key ssa.Value) bool {
	fn := in.Parent()
	// candidate comparability tests on this key
	var tests []*ssa.Call
	allInstrs(fn, func(x ssa.Instruction) {
		call, ok := x.(*ssa.Call)
		if !ok || !call.Call.IsInvoke() || call.Call.Method.Name() != "Comparable" {
			return
		}
		tof, ok := call.Call.Value.(*ssa.Call)
		if !ok || callName(tof) != "reflect.TypeOf" {
			return
		}
		if unspill(stripConv(tof.Call.Args[0])) == unspill(stripConv(key)) || accessPath(tof.Call.Args[0]) == accessPath(key) && isPathLike(key) {
			tests = append(tests, call)
		}
	})
	if len(tests) == 0 {
		return false
	}
	ok, reached := true, false
	o := &PathOracle{MaxStates: 40000}
	o.Visit = func(st *PState, x ssa.Instruction) {
		if x != in {
			return
		}
		reached = true
		if st.Get(key, o) == AvNil {
			return
		}
		for _, t := range tests {
			if st.Get(t, o) == AvNonNil {
				return
			}
		}
		ok = false
	}
	if !ExplorePaths(fn, o) {
		return false
	}
	return ok && reached
}

// nonNilError: the value is certainly a non-nil error: a package-level error variable, a
// fresh error (fmt.Errorf, errors.New, a composite), a phi of such, or a parameter of the
// forwarding constructor (its callers are checked at their own call sites).
// paramTokenNonNil: nodeV is a *ASTNode parameter of an unexported, statically called function and
// at every call site the argument's Token is known non-nil.
func (oc *obligCtx) paramTokenNonNil(nodeV ssa.Value, fn *ssa.Function) bool {
	p, ok := unspill(nodeV).(*ssa.Parameter)
	if !ok || p.Parent() != fn || fn.Parent() != nil {
		return false
	}
	if o := fn.Object(); o == nil || o.Exported() {
		return false
	}
	idx := paramIndex(fn, p)
	n := oc.c.CHA().Nodes[fn]
	if n == nil || idx < 0 {
		return false
	}
	sites := 0
	for _, e := range n.In {
		if e.Caller.Func.Synthetic != "" {
			continue
		}
		if e.Site == nil || e.Site.Common().StaticCallee() != fn {
			return false
		}
		args := callArgs(e.Site.Common())
		in, _ := e.Site.(ssa.Instruction)
		if idx >= len(args) || in == nil || !FactsAt(in).NonNil[accessPath(args[idx])+".Token"] {
			return false
		}
		sites++
	}
	return sites > 0
}

// paramErrNonNil: v is a parameter of an unexported module function and every call site passes a
// non-nil error value for it (a helper that builds the runtime error from its arguments).
func (oc *obligCtx) paramErrNonNil(v ssa.Value, fn *ssa.Function) bool {
	p, ok := stripConvKeepIface(unspill(v)).(*ssa.Parameter)
	if !ok || p.Parent() != fn || fn.Parent() != nil {
		return false
	}
	if o := fn.Object(); o == nil || o.Exported() {
		return false
	}
	idx := paramIndex(fn, p)
	n := oc.c.CHA().Nodes[fn]
	if n == nil || idx < 0 {
		return false
	}
	sites := 0
	for _, e := range n.In {
		if e.Caller.Func.Synthetic != "" {
			// promotion wrappers of embedding types: an unexported method is in no interface of
			// the module, so nothing calls them
			continue
		}
		if e.Site == nil || e.Site.Common().StaticCallee() != fn {
			return false
		}
		args := callArgs(e.Site.Common())
		if idx >= len(args) || !nonNilError(args[idx], e.Caller.Func, 0) {
			return false
		}
		sites++
	}
	return sites > 0
}

func nonNilError(v ssa.Value, fn *ssa.Function, d int) bool {
	if d > 6 {
		return false
	}
	v = stripConvKeepIface(unspill(v))
	switch x := v.(type) {
	case *ssa.UnOp:
		if _, ok := x.X.(*ssa.Global); ok {
			return true
		}
		if a, ok := x.X.(*ssa.Alloc); ok {
			srcs := cellSources(a)
			if len(srcs) == 0 {
				return false
			}
			for _, s := range srcs {
				if !nonNilError(s, fn, d+1) {
					return false
				}
			}
			return true
		}
	case *ssa.MakeInterface:
		return true
	case *ssa.Call:
		switch callName(x) {
		case "fmt.Errorf", "errors.New":
			return true
		}
	case *ssa.Phi:
		for _, e := range x.Edges {
			if !nonNilError(e, fn, d+1) {
				return false
			}
		}
		return true
	case *ssa.Parameter:
		return strings.HasSuffix(fn.Name(), "NewRuntimeError")
	}
	return false
}

// addParamFloor: a slice parameter of an unexported function — what every call site knows about its length
// becomes a fact at the construct (x[len(x)-1], x[:len(x)-1] in a helper that is handed the list).
func (oc *obligCtx) addParamFloor(f *Facts, X ssa.Value) {
	p, isP := X.(*ssa.Parameter)
	if !isP {
		return
	}
	if _, isSlice := p.Type().Underlying().(*types.Slice); !isSlice {
		return
	}
	if fl := oc.paramLenFloor(p); fl > 0 {
		f.Cmps = append(f.Cmps, Cmp{L: Term{LenPath: accessPath(X), LenVal: X}, Op: token.GEQ, R: Term{IsConst: true, K: fl}})
	}
}
