package main

// C19 — the Go function bridge is total and converts numbers faithfully.

import (
	"fmt"
	"go/ast"
	"go/constant"
	"go/token"
	"go/types"
	"sort"
	"strings"

	"golang.org/x/tools/go/ssa"
)

func init() { register("C19", checkC19) }

// reflect.Kind value -> Go basic type name
var kindBasic = map[int64]string{
	2: "int", 3: "int8", 4: "int16", 5: "int32", 6: "int64",
	7: "uint", 8: "uint8", 9: "uint16", 10: "uint32", 11: "uint64", 12: "uintptr",
	13: "float32", 14: "float64",
}

func checkC19(c *Ctx, r *Result, tier string) {
	r.Explanation = "Decides structural necessary conditions of a total bridge: (R19a) every reflective call (reflect.Value.Call) of the module sits in a function whose first effective statement registers a deferred closure that calls recover() and assigns the function's named error result — so arity/kind mismatches and panics of the Go function come back as errors; " +
		"(R19b) the argument conversion covers every integer, unsigned and float kind except Float64 and converts to exactly the Go type of that kind; the result conversion covers all of them and uses Int/Uint/Float of the matching class, yielding float64; " +
		"(R19c) every entry of the generated function registries is an adapter implementing ECALFunction (so the unchecked registry assertions cannot fail) and executeFunction wraps every error that is not already a runtime error."
	r.RuleText = "R19a recover-covers-call (defer position + recover + named-result assignment); R19b exhaustiveness and agreement of the kind switches against the set of numeric reflect.Kinds; R19c registry typing over the generated composite literals + wrapping condition"
	r.NotCovered = "Converted values (float64→intN truncation/overflow semantics are Go's), behaviour of the wrapped Go functions, plugin loading."
	r.Assumptions = []string{"reflect.Kind numbering of the Go release in use (checked against constants of package reflect at load time)", "recover() in a directly deferred closure stops a panic of the frame (Go semantics)"}

	// verify the kind numbering against the loaded reflect package
	var reflectPkg *types.Package
	for _, p := range c.Pkgs {
		for _, imp := range p.Types.Imports() {
			if imp.Path() == "reflect" {
				reflectPkg = imp
			}
		}
	}
	if reflectPkg == nil {
		r.Undecide("package reflect not imported by the module")
		return
	}
	for k, name := range kindBasic {
		cn := strings.ToUpper(name[:1]) + name[1:]
		o, _ := reflectPkg.Scope().Lookup(cn).(*types.Const)
		if o == nil {
			r.Undecide("reflect.%s not found", cn)
			continue
		}
		if v, ok := constant.Int64Val(o.Val()); !ok || v != k {
			r.Undecide("reflect.%s = %v, the checker's table says %d", cn, o.Val(), k)
		}
	}

	// ---- R19a -----------------------------------------------------------------------------------
	nCalls := 0
	for _, fn := range c.ModFuncs() {
		key := c.FuncKey(fn)
		for i, call := range callSites(fn, func(name string, _ ssa.CallInstruction) bool {
			return name == "reflect.Value.Call" || name == "reflect.Value.CallSlice"
		}) {
			nCalls++
			site := fmt.Sprintf("%s#reflect-call#%d", key, i)
			pos := c.Pos(c.InstrPos(call))
			ok, why := recoverCovers(fn, call)
			if ok {
				r.Instance("R19a", site, pos, "ok", why, true)
			} else {
				r.Instance("R19a", site, pos, "finding", why, true)
				r.Report(Finding{Rule: "R19a", Site: site, Pos: pos,
					Msg: key + ": reflective call not covered by a recover that turns a panic into the error result: " + why})
			}
		}
	}
	r.Floor("R19a", nCalls, 1)

	// R19a-reflect: every use of the reflect API by the adapter (its Run method and the helpers
	// it calls) executes under such a recover — reflect panics on nil types, wrong kinds and
	// arity mismatches before the wrapped function is ever called
	adapters := map[*ssa.Function]bool{}
	if fnIface := c.Interface("util", "ECALFunction"); fnIface != nil {
		for _, m := range []string{"Run", "DocString"} {
			for _, f := range c.Implementations(fnIface, m) {
				if c.PkgOf(f) == "stdlib" {
					adapters[f] = true
				}
			}
		}
	}
	callersOf := map[*ssa.Function][]ssa.CallInstruction{}
	for _, fn := range c.ModFuncs() {
		if c.PkgOf(fn) != "stdlib" {
			continue
		}
		allInstrs(fn, func(in ssa.Instruction) {
			if ci, ok := in.(ssa.CallInstruction); ok {
				if f := ci.Common().StaticCallee(); f != nil && c.modFuncSet[f] && c.PkgOf(f) == "stdlib" {
					callersOf[f] = append(callersOf[f], ci)
				}
			}
		})
	}
	var covered func(fn *ssa.Function, in ssa.Instruction, d int) bool
	covered = func(fn *ssa.Function, in ssa.Instruction, d int) bool {
		if ok, _ := recoverCovers(fn, in); ok {
			return true
		}
		if d > 3 || adapters[fn] || len(callersOf[fn]) == 0 {
			return false
		}
		for _, site := range callersOf[fn] {
			if !covered(site.Parent(), site, d+1) {
				return false
			}
		}
		return true
	}
	// adapter functions: Run/DocString and their static callees in the package
	inAdapter := map[*ssa.Function]bool{}
	var addA func(f *ssa.Function)
	addA = func(f *ssa.Function) {
		if inAdapter[f] {
			return
		}
		inAdapter[f] = true
		allInstrs(f, func(in ssa.Instruction) {
			if ci, ok := in.(ssa.CallInstruction); ok {
				if g := ci.Common().StaticCallee(); g != nil && c.modFuncSet[g] && c.PkgOf(g) == "stdlib" {
					addA(g)
				}
			}
			if mc, ok := in.(*ssa.MakeClosure); ok {
				if g, ok := mc.Fn.(*ssa.Function); ok {
					_ = g // deferred recover closures are not part of the guarded body
				}
			}
		})
	}
	for f := range adapters {
		if f.Name() == "Run" {
			addA(f)
		}
	}
	nRefl := 0
	var afuncs []*ssa.Function
	for f := range inAdapter {
		afuncs = append(afuncs, f)
	}
	sort.Slice(afuncs, func(i, j int) bool { return c.FuncKey(afuncs[i]) < c.FuncKey(afuncs[j]) })
	for _, fn := range afuncs {
		key := c.FuncKey(fn)
		ord := newOrdinals()
		allInstrs(fn, func(in ssa.Instruction) {
			ci, ok := in.(ssa.CallInstruction)
			if !ok {
				return
			}
			if _, isDefer := in.(*ssa.Defer); isDefer {
				return
			}
			name := ""
			if ci.Common().IsInvoke() {
				if n := namedOf(ci.Common().Value.Type()); n != nil && n.Obj().Pkg() != nil && n.Obj().Pkg().Path() == "reflect" {
					name = "reflect." + n.Obj().Name() + "." + ci.Common().Method.Name()
				}
			} else if cn := callName(in); strings.HasPrefix(cn, "reflect.") {
				name = cn
			}
			if name == "" {
				return
			}
			nRefl++
			site := ord.key(key, "reflect-use", name)
			pos := c.Pos(c.InstrPos(in))
			if covered(fn, in, 0) {
				r.Instance("R19a-reflect", site, pos, "ok", "executes under a deferred recover that assigns the error result (here or in every caller)", true)
				return
			}
			r.Instance("R19a-reflect", site, pos, "finding", name+" outside the recover", true)
			r.Report(Finding{Rule: "R19a-reflect", Site: site, Pos: pos,
				Msg: fmt.Sprintf("%s uses %s outside the scope of a recover that turns a panic into the error result: reflect panics on a nil type (an ECAL null given to an interface-typed parameter), a wrong kind or an arity mismatch, and that panic escapes the bridge and kills the interpreter", key, name)})
		})
	}
	r.Floor("R19a-reflect", nRefl, 10)

	// ---- R19b -----------------------------------------------------------------------------------
	c19Kinds(c, r)

	// ---- R19c -----------------------------------------------------------------------------------
	c19Registry(c, r)
	c19Wrap(c, r)
	c19TrailingError(c, r)
	c19PluginUnderRecover(c, r)
	c19VariadicArity(c, r)
	cPoolEscape(c, r, "R19g", map[string]bool{"stdlib": true, "interpreter": true})
}

// recoverCovers: fn registers, before any call, a deferred closure that recovers and assigns the named error result.
func recoverCovers(fn *ssa.Function, call ssa.Instruction) (bool, string) {
	if len(fn.Blocks) == 0 {
		return false, "no body"
	}
	var def *ssa.Defer
	for _, in := range fn.Blocks[0].Instrs {
		if d, ok := in.(*ssa.Defer); ok {
			def = d
			break
		}
		switch in.(type) {
		case *ssa.Alloc, *ssa.Store, *ssa.MakeClosure, *ssa.FieldAddr, *ssa.UnOp:
			continue
		case ssa.CallInstruction:
			return false, "a call precedes the registration of the recovering defer (a panic there is not caught)"
		}
	}
	if def == nil {
		return false, "no deferred call registered in the entry block"
	}
	if !dominates(def, call) {
		return false, "the defer does not dominate the reflective call"
	}
	mc, ok := def.Call.Value.(*ssa.MakeClosure)
	if !ok {
		// a named function deferred directly with the address of the error result:
		// defer recoverAsError(&err) — recover() works only when called by the deferred function itself
		g := def.Call.StaticCallee()
		if g == nil || len(g.Blocks) == 0 {
			return false, "the deferred call is neither a function literal nor a module function"
		}
		var errCell *ssa.Alloc
		pidx := -1
		for i, a := range def.Call.Args {
			if al, isAlloc := a.(*ssa.Alloc); isAlloc && types.Identical(derefType(al.Type()), types.Universe.Lookup("error").Type()) {
				errCell, pidx = al, i
			}
		}
		if errCell == nil || pidx >= len(g.Params) {
			return false, "the deferred function is not handed the address of the error result"
		}
		var recVal ssa.Value
		allInstrs(g, func(in ssa.Instruction) {
			if isBuiltinCall(in, "recover") {
				recVal, _ = in.(ssa.Value)
			}
		})
		if recVal == nil {
			return false, "the deferred function does not call recover() itself"
		}
		assigns := false
		allInstrs(g, func(in ssa.Instruction) {
			if st, isSt := in.(*ssa.Store); isSt && st.Addr == ssa.Value(g.Params[pidx]) && nilTestedValue(recVal, st) {
				assigns = true
			}
		})
		if !assigns {
			return false, "the deferred function does not store an error through the pointer under recover() != nil"
		}
		returnsCell := false
		allInstrs(fn, func(in ssa.Instruction) {
			if ret, ok := in.(*ssa.Return); ok && len(ret.Results) > 0 {
				if u, ok := ret.Results[len(ret.Results)-1].(*ssa.UnOp); ok && u.X == ssa.Value(errCell) {
					returnsCell = true
				}
			}
		})
		if !returnsCell {
			return false, "the variable handed to the deferred function is not the function's named error result"
		}
		return true, "deferred recovering function registered before any call; it stores the recovered panic into the named error result"
	}
	cf := mc.Fn.(*ssa.Function)
	recovers, assigns := false, false
	// named error result cell of fn
	var errCell *ssa.Alloc
	allInstrs(fn, func(in ssa.Instruction) {
		if a, ok := in.(*ssa.Alloc); ok && types.Identical(derefType(a.Type()), types.Universe.Lookup("error").Type()) {
			// is it returned?
			for _, v := range fn.Blocks {
				_ = v
			}
			errCell = a
		}
	})
	var recVal ssa.Value
	allInstrs(cf, func(in ssa.Instruction) {
		if isBuiltinCall(in, "recover") {
			recovers = true
			recVal, _ = in.(ssa.Value)
		}
	})
	allInstrs(cf, func(in ssa.Instruction) {
		st, ok := in.(*ssa.Store)
		if !ok {
			return
		}
		fv, ok := st.Addr.(*ssa.FreeVar)
		if !ok {
			return
		}
		// binding of this free variable
		for i, f := range cf.FreeVars {
			if f == fv && i < len(mc.Bindings) && mc.Bindings[i] == ssa.Value(errCell) {
				// assigned only when recover() returned non-nil
				if recVal != nil && nilTestedValue(recVal, st) {
					assigns = true
				}
			}
		}
	})
	// the error cell must be what the function returns
	returnsCell := false
	allInstrs(fn, func(in ssa.Instruction) {
		if ret, ok := in.(*ssa.Return); ok && len(ret.Results) > 0 {
			last := ret.Results[len(ret.Results)-1]
			if u, ok := last.(*ssa.UnOp); ok && u.X == ssa.Value(errCell) {
				returnsCell = true
			}
		}
	})
	switch {
	case !recovers:
		return false, "the deferred closure does not call recover()"
	case !assigns:
		return false, "the deferred closure does not assign the function's error result under recover() != nil"
	case !returnsCell:
		return false, "the assigned variable is not the function's named error result"
	}
	return true, "deferred recover registered before any call; assigns the named error result when a panic was recovered"
}

// nilTestedValue: instruction `at` is dominated by the true branch of v != nil (same SSA value).
func nilTestedValue(v ssa.Value, at ssa.Instruction) bool {
	fn := at.Parent()
	for _, b := range fn.Blocks {
		ifi, ok := b.Instrs[len(b.Instrs)-1].(*ssa.If)
		if !ok {
			continue
		}
		bo, ok := ifi.Cond.(*ssa.BinOp)
		if !ok || !(bo.X == v && isNilConst(bo.Y)) {
			continue
		}
		var br *ssa.BasicBlock
		if bo.Op == token.NEQ {
			br = b.Succs[0]
		} else if bo.Op == token.EQL {
			br = b.Succs[1]
		}
		if br != nil && len(br.Preds) == 1 && (br == at.Block() || br.Dominates(at.Block())) {
			return true
		}
	}
	return false
}

// kindCases extracts, for a function switching on a reflect.Kind, kind constant -> block entered.
func kindCases(fn *ssa.Function) map[int64]*ssa.BasicBlock {
	out := map[int64]*ssa.BasicBlock{}
	for _, b := range fn.Blocks {
		ifi, ok := b.Instrs[len(b.Instrs)-1].(*ssa.If)
		if !ok {
			continue
		}
		bo, ok := ifi.Cond.(*ssa.BinOp)
		if !ok || bo.Op != token.EQL {
			continue
		}
		if !isNamed(bo.X.Type(), "reflect", "Kind") {
			continue
		}
		if k, ok := constInt(bo.Y); ok {
			out[k] = b.Succs[0]
		}
	}
	return out
}

func c19Kinds(c *Ctx, r *Result) {
	// argument conversion: the method taking (…, float64, reflect.Type) with a kind switch and Convert instructions
	var argConv, resConv *ssa.Function
	for _, fn := range c.ModFuncs() {
		if c.PkgOf(fn) != "stdlib" || fn.Parent() != nil {
			continue
		}
		cases := kindCases(fn)
		if len(cases) < 5 {
			continue
		}
		usesValueInt := len(callSites(fn, func(name string, _ ssa.CallInstruction) bool { return name == "reflect.Value.Int" })) > 0
		if usesValueInt {
			resConv = fn
		} else {
			argConv = fn
		}
	}
	if resConv == nil {
		// a conversion of results written as a Go type switch over the predeclared numeric types
		for _, fn := range c.ModFuncs() {
			if c.PkgOf(fn) != "stdlib" || fn.Parent() != nil {
				continue
			}
			nAssert := 0
			allInstrs(fn, func(in ssa.Instruction) {
				if ta, ok := in.(*ssa.TypeAssert); ok && ta.CommaOk {
					if b, ok := ta.AssertedType.(*types.Basic); ok && b.Info()&types.IsNumeric != 0 {
						nAssert++
					}
				}
			})
			if nAssert >= 5 && fn != argConv {
				site := c.FuncKey(fn) + "#result-conversion"
				r.Instance("R19b-res", site, c.Pos(fn.Pos()), "finding", "result conversion by type identity", true)
				r.Report(Finding{Rule: "R19b-res", Site: site, Pos: c.Pos(fn.Pos()),
					Msg: c.FuncKey(fn) + ": results are converted by a type switch over the predeclared numeric types. A type switch matches type identity, not kind: a result of a defined numeric type (time.Duration, os.FileMode, any `type X float32`) matches no case and reaches ECAL as a raw Go value — arithmetic on it fails and comparison with a number is silently false. The conversion has to go by reflect.Kind"})
			}
		}
	}
	if argConv == nil || resConv == nil {
		r.Undecide("R19b: the two kind switches of the adapter were not found (argument conversion: %v, result conversion: %v)", argConv != nil, resConv != nil)
		return
	}
	// arguments
	key := c.FuncKey(argConv)
	cases := kindCases(argConv)
	var missing, wrong []string
	for k := int64(2); k <= 13; k++ {
		blk, ok := cases[k]
		if !ok {
			missing = append(missing, kindBasic[k])
			continue
		}
		got := ""
		for _, in := range blk.Instrs {
			if cv, ok := in.(*ssa.Convert); ok {
				// the float64 argument: a parameter, or a parameter asserted to float64
				src := cv.X
				if e, isE := src.(*ssa.Extract); isE && e.Index == 0 {
					if ta, isTA := e.Tuple.(*ssa.TypeAssert); isTA {
						src = ta.X
					}
				} else if ta, isTA := src.(*ssa.TypeAssert); isTA {
					src = ta.X
				}
				if _, isParam := src.(*ssa.Parameter); isParam && cv.X.Type().String() == "float64" {
					got = cv.Type().String()
				}
			}
		}
		site := fmt.Sprintf("%s#case:%s", key, kindBasic[k])
		if got != kindBasic[k] {
			wrong = append(wrong, fmt.Sprintf("%s→%s", kindBasic[k], got))
			r.Instance("R19b-arg", site, c.Pos(argConv.Pos()), "finding", "converts to "+got, true)
		} else {
			r.Instance("R19b-arg", site, c.Pos(argConv.Pos()), "ok", "case reflect."+kindBasic[k]+" converts the float64 argument to "+got, true)
		}
	}
	if len(missing) > 0 || len(wrong) > 0 {
		sort.Strings(missing)
		r.Report(Finding{Rule: "R19b-arg", Site: key + "#kinds", Pos: c.Pos(argConv.Pos()),
			Msg: fmt.Sprintf("%s: numeric argument conversion is not exhaustive/faithful — missing kinds {%s}, wrong conversions {%s}: a Go function with such a parameter can never be called from ECAL (type mismatch error) or receives a value of another width",
				key, strings.Join(missing, ","), strings.Join(wrong, ","))})
	}
	// results
	key = c.FuncKey(resConv)
	cases = kindCases(resConv)
	missing, wrong = nil, nil
	for k := int64(2); k <= 14; k++ {
		blk, ok := cases[k]
		if !ok {
			missing = append(missing, kindBasic[k])
			continue
		}
		want := "reflect.Value.Int"
		if k >= 7 && k <= 12 {
			want = "reflect.Value.Uint"
		} else if k >= 13 {
			want = "reflect.Value.Float"
		}
		got := ""
		for _, in := range blk.Instrs {
			if n := callName(in); strings.HasPrefix(n, "reflect.Value.") {
				got = n
			}
		}
		site := fmt.Sprintf("%s#case:%s", key, kindBasic[k])
		if got != want {
			wrong = append(wrong, fmt.Sprintf("%s via %s", kindBasic[k], got))
			r.Instance("R19b-res", site, c.Pos(resConv.Pos()), "finding", "uses "+got, true)
		} else {
			r.Instance("R19b-res", site, c.Pos(resConv.Pos()), "ok", "case reflect."+kindBasic[k]+" reads the value with "+got, true)
		}
	}
	if len(missing) > 0 || len(wrong) > 0 {
		r.Report(Finding{Rule: "R19b-res", Site: key + "#kinds", Pos: c.Pos(resConv.Pos()),
			Msg: fmt.Sprintf("%s: numeric result conversion is not exhaustive/faithful — missing kinds {%s}, wrong accessors {%s}: such results reach ECAL as Go integers, on which every ECAL operator fails (or the accessor panics)",
				key, strings.Join(missing, ","), strings.Join(wrong, ","))})
	}
}

// c19Registry: values of the generated "*-func" maps implement util.ECALFunction; genStdlib's
// "-func"/"-const" entries are map[interface{}]interface{}.
func c19Registry(c *Ctx, r *Result) {
	p := c.byName["stdlib"]
	fnIface := c.Interface("util", "ECALFunction")
	if p == nil || fnIface == nil {
		r.Undecide("package stdlib / util.ECALFunction not found")
		return
	}
	nEntries := 0
	funcMaps := map[types.Object]bool{}
	// pass 1: genStdlib
	var genLit *ast.CompositeLit
	for _, f := range p.Syntax {
		for _, d := range f.Decls {
			gd, ok := d.(*ast.GenDecl)
			if !ok || gd.Tok != token.VAR {
				continue
			}
			for _, sp := range gd.Specs {
				vs := sp.(*ast.ValueSpec)
				for i, n := range vs.Names {
					if n.Name == "genStdlib" && i < len(vs.Values) {
						genLit, _ = vs.Values[i].(*ast.CompositeLit)
					}
				}
			}
		}
	}
	if genLit == nil {
		r.Undecide("R19c: composite literal of stdlib.genStdlib not found")
		return
	}
	for _, e := range genLit.Elts {
		kv, ok := e.(*ast.KeyValueExpr)
		if !ok {
			continue
		}
		tv := p.TypesInfo.Types[kv.Key]
		if tv.Value == nil || tv.Value.Kind() != constant.String {
			continue
		}
		k := constant.StringVal(tv.Value)
		vt := p.TypesInfo.TypeOf(kv.Value)
		if strings.HasSuffix(k, "-func") || strings.HasSuffix(k, "-const") {
			m, isMap := vt.Underlying().(*types.Map)
			good := isMap && types.IsInterface(m.Key()) && types.IsInterface(m.Elem())
			site := "stdlib.genStdlib#" + k
			if !good {
				r.Instance("R19c-registry", site, c.Pos(kv.Pos()), "finding", "not a map[interface{}]interface{}", true)
				r.Report(Finding{Rule: "R19c-registry", Site: site, Pos: c.Pos(kv.Pos()),
					Msg: "stdlib.genStdlib[" + k + "] is not a map[interface{}]interface{}: the unchecked assertion in the registry lookup panics"})
			} else {
				r.Instance("R19c-registry", site, c.Pos(kv.Pos()), "ok", "map[interface{}]interface{}", true)
			}
			if strings.HasSuffix(k, "-func") {
				if id, ok := kv.Value.(*ast.Ident); ok {
					funcMaps[p.TypesInfo.Uses[id]] = true
				}
			}
		}
	}
	// pass 2: the function maps
	for _, f := range p.Syntax {
		for _, d := range f.Decls {
			gd, ok := d.(*ast.GenDecl)
			if !ok || gd.Tok != token.VAR {
				continue
			}
			for _, sp := range gd.Specs {
				vs := sp.(*ast.ValueSpec)
				for i, n := range vs.Names {
					if !funcMaps[p.TypesInfo.Defs[n]] || i >= len(vs.Values) {
						continue
					}
					lit, ok := vs.Values[i].(*ast.CompositeLit)
					if !ok {
						r.Undecide("R19c: %s is not initialised by a composite literal", n.Name)
						continue
					}
					for _, e := range lit.Elts {
						kv, ok := e.(*ast.KeyValueExpr)
						if !ok {
							continue
						}
						nEntries++
						vt := p.TypesInfo.TypeOf(kv.Value)
						name := types.ExprString(kv.Key)
						site := "stdlib." + n.Name + "#" + strings.Trim(name, "\"")
						if types.Implements(vt, fnIface) {
							r.Instance("R19c-registry", site, c.Pos(kv.Pos()), "ok", "value implements util.ECALFunction ("+typeShort(derefType(vt))+")", true)
						} else {
							r.Instance("R19c-registry", site, c.Pos(kv.Pos()), "finding", "value does not implement util.ECALFunction", true)
							r.Report(Finding{Rule: "R19c-registry", Site: site, Pos: c.Pos(kv.Pos()),
								Msg: fmt.Sprintf("stdlib.%s[%s] has type %s, which does not implement util.ECALFunction: looking the function up panics on the unchecked assertion", n.Name, name, vt)})
						}
					}
				}
			}
		}
	}
	r.Floor("R19c-registry-entries", nEntries, 40)
}

// c19Wrap: the function invoking ECALFunction.Run wraps errors that are not runtime errors.
func c19Wrap(c *Ctx, r *Result) {
	fnIface := c.Interface("util", "ECALFunction")
	// convertsAfter: after the call `run` in fn (the invocation of ECALFunction.Run, or of a helper
	// that hands its error through unchanged) a foreign error is converted — in fn itself, in a
	// conversion helper, or, when fn only passes the error on to its callers, in every caller.
	var convertsAfter func(fn *ssa.Function, run ssa.Instruction, depth int) bool
	convertsAfter = func(fn *ssa.Function, run ssa.Instruction, depth int) bool {
		// a NewRuntimeError call dominated by err != nil and by failed assertions to the runtime error types
		ok := false
		for _, w := range callSites(fn, func(name string, _ ssa.CallInstruction) bool {
			return strings.HasSuffix(name, "ECALRuntimeProvider.NewRuntimeError")
		}) {
			if !dominates(run, w) {
				continue
			}
			f := FactsAt(w)
			failedAsserts := 0
			for v := range f.FalseV {
				if e, isE := v.(*ssa.Extract); isE && e.Index == 1 {
					if ta, isTA := e.Tuple.(*ssa.TypeAssert); isTA && ta.CommaOk {
						ts := types.TypeString(ta.AssertedType, nil)
						if strings.Contains(ts, "RuntimeError") {
							failedAsserts++
						}
					}
				}
			}
			nonNil := false
			for p := range f.NonNil {
				if strings.Contains(p, "err") || strings.Contains(p, "#1") {
					nonNil = true
				}
			}
			if failedAsserts >= 2 && nonNil {
				ok = true
			}
		}
		// the conversion in a helper: Run's error is handed to a module function that returns
		// it unchanged or, where it is non-nil and failed both type tests, the NewRuntimeError
		if !ok {
			wrapsCond := func(g *ssa.Function) bool {
				for _, w := range callSites(g, func(name string, _ ssa.CallInstruction) bool {
					return strings.HasSuffix(name, "ECALRuntimeProvider.NewRuntimeError")
				}) {
					f := FactsAt(w)
					failedAsserts := 0
					for v := range f.FalseV {
						if e, isE := v.(*ssa.Extract); isE && e.Index == 1 {
							if ta, isTA := e.Tuple.(*ssa.TypeAssert); isTA && ta.CommaOk && strings.Contains(types.TypeString(ta.AssertedType, nil), "RuntimeError") {
								if _, isPrm := ta.X.(*ssa.Parameter); isPrm {
									failedAsserts++
								}
							}
						}
					}
					nonNil := false
					for _, prm := range g.Params {
						if f.NonNil[prm.Name()] && prm.Type().String() == "error" {
							nonNil = true
						}
					}
					if failedAsserts < 2 || !nonNil {
						continue
					}
					// the wrapped error is what the helper returns on that path
					wv, _ := w.(ssa.Value)
					for _, rv := range returnedValues(g, g.Signature.Results().Len()-1) {
						x := rv
						for d := 0; d < 4 && x != nil; d++ {
							if x == wv {
								return true
							}
							switch y := x.(type) {
							case *ssa.MakeInterface:
								x = y.X
							case *ssa.ChangeInterface:
								x = y.X
							case *ssa.TypeAssert:
								x = y.X
							default:
								x = nil
							}
						}
					}
				}
				return false
			}
			var runErr ssa.Value
			if rv, isVal := run.(ssa.Value); isVal {
				for _, ref := range *rv.Referrers() {
					if e, isE := ref.(*ssa.Extract); isE && e.Index == 1 {
						runErr = e
					}
				}
			}
			var flowsFromRun func(v ssa.Value, d int) bool
			flowsFromRun = func(v ssa.Value, d int) bool {
				if v == runErr && v != nil {
					return true
				}
				if d > 3 {
					return false
				}
				switch x := unspill(v).(type) {
				case *ssa.Phi:
					for _, e := range x.Edges {
						if flowsFromRun(e, d+1) {
							return true
						}
					}
				case *ssa.Extract:
					return ssa.Value(x) == runErr
				}
				return false
			}
			allInstrs(fn, func(in ssa.Instruction) {
				call, isCall := in.(*ssa.Call)
				if !isCall || !dominates(run, in) {
					return
				}
				g := call.Call.StaticCallee()
				if g == nil || !c.inModule(g) || g.Signature.Results().Len() == 0 || g.Signature.Results().At(g.Signature.Results().Len()-1).Type().String() != "error" {
					return
				}
				for _, a := range call.Call.Args {
					if a.Type().String() == "error" && flowsFromRun(a, 0) && wrapsCond(g) {
						ok = true
					}
				}
			})
		}
		if ok || depth > 1 {
			return ok
		}
		// pass-through: fn returns the error of `run` unchanged; the obligation is its callers'
		var runErr ssa.Value
		if rv, isVal := run.(ssa.Value); isVal {
			for _, ref := range *rv.Referrers() {
				if e, isE := ref.(*ssa.Extract); isE && e.Index == 1 {
					runErr = e
				}
			}
		}
		nres := fn.Signature.Results().Len()
		if runErr == nil || nres == 0 || fn.Signature.Results().At(nres-1).Type().String() != "error" || fn.Parent() != nil {
			return false
		}
		for _, rv := range returnedValues(fn, nres-1) {
			if unspill(rv) != runErr {
				return false
			}
		}
		node := c.CHA().Nodes[fn]
		if node == nil {
			return false
		}
		sites := 0
		for _, e := range node.In {
			if e.Site == nil || e.Site.Common().StaticCallee() != fn {
				if e.Caller.Func.Synthetic != "" {
					continue
				}
				return false
			}
			ci, isInstr := e.Site.(ssa.Instruction)
			if !isInstr || !convertsAfter(e.Caller.Func, ci, depth+1) {
				return false
			}
			sites++
		}
		return sites > 0
	}
	n := 0
	for _, fn := range c.ModFuncs() {
		if c.PkgOf(fn) != "interpreter" {
			continue
		}
		runs := callSites(fn, func(_ string, ci ssa.CallInstruction) bool {
			return ci.Common().IsInvoke() && ci.Common().Method.Name() == "Run" && types.Identical(ci.Common().Value.Type().Underlying(), fnIface)
		})
		if len(runs) == 0 {
			continue
		}
		key := c.FuncKey(fn)
		for i, run := range runs {
			n++
			site := fmt.Sprintf("%s#Run#%d", key, i)
			pos := c.Pos(c.InstrPos(run))
			ok := convertsAfter(fn, run, 0)
			if ok {
				r.Instance("R19c-wrap", site, pos, "ok", "an error that is neither *RuntimeError nor *RuntimeErrorWithDetail is replaced by NewRuntimeError", true)
			} else {
				r.Instance("R19c-wrap", site, pos, "finding", "foreign errors are not wrapped", true)
				r.Report(Finding{Rule: "R19c-wrap", Site: site, Pos: pos,
					Msg: key + ": an error returned by ECALFunction.Run that is not a runtime error is not converted with NewRuntimeError under (err != nil ∧ not *RuntimeError ∧ not *RuntimeErrorWithDetail): a trailing Go error would not be catchable as an ECAL error"})
			}
		}
	}
	r.Floor("R19c-wrap", n, 1)
}

// ---- R19d: the trailing error is delivered for every arity -----------------------------------------

// A Go function's last result of type error becomes the ECAL error. The delivery (the assertion
// of a result value to error) may depend on the position being the last one and on the declared
// result type, but not on how many results there are: a fact len(results) ≥ 2 at the delivery
// site means a function whose only result is an error no longer raises it.
func c19TrailingError(c *Ctx, r *Result) {
	fnIface := c.Interface("util", "ECALFunction")
	if fnIface == nil {
		return
	}
	errT := types.Universe.Lookup("error").Type()
	n := 0
	for _, fn := range c.Implementations(fnIface, "Run") {
		if c.PkgOf(fn) != "stdlib" {
			continue
		}
		key := c.FuncKey(fn)
		// the reflective call's result slice
		var vals ssa.Value
		allInstrs(fn, func(in ssa.Instruction) {
			if call, ok := in.(*ssa.Call); ok {
				if n := callName(call); n == "reflect.Value.Call" || n == "reflect.Value.CallSlice" {
					vals = call
				}
				if f := call.Call.StaticCallee(); f != nil && c.modFuncSet[f] && c.PkgOf(f) == "stdlib" {
					if _, isSlice := call.Type().Underlying().(*types.Slice); isSlice && strings.Contains(call.Type().String(), "reflect.Value") {
						vals = call
					}
					if tup, isTup := call.Type().(*types.Tuple); isTup && tup.Len() > 0 && strings.Contains(tup.At(0).Type().String(), "reflect.Value") {
						for _, ref := range *call.Referrers() {
							if e, ok := ref.(*ssa.Extract); ok && e.Index == 0 {
								vals = e
							}
						}
					}
				}
			}
		})
		if vals == nil {
			continue
		}
		ord := newOrdinals()
		// the delivery may sit in a helper that is handed the result slice
		scanFn, scanVals := fn, vals
		found := false
		allInstrs(fn, func(in ssa.Instruction) {
			if ta, ok := in.(*ssa.TypeAssert); ok && types.Identical(ta.AssertedType, errT) {
				found = true
			}
		})
		if !found {
			allInstrs(fn, func(in ssa.Instruction) {
				call, ok := in.(*ssa.Call)
				if !ok {
					return
				}
				h := call.Call.StaticCallee()
				if h == nil || !c.modFuncSet[h] || c.PkgOf(h) != "stdlib" {
					return
				}
				args := callArgs(call.Common())
				for i, a := range args {
					if unspill(a) == unspill(vals) && i < len(h.Params) {
						scanFn, scanVals = h, h.Params[i]
					}
				}
			})
		}
		key = c.FuncKey(scanFn)
		vals = scanVals
		allInstrs(scanFn, func(in ssa.Instruction) {
			ta, ok := in.(*ssa.TypeAssert)
			if !ok || !types.Identical(ta.AssertedType, errT) {
				return
			}
			n++
			site := ord.key(key, "error-delivery", "")
			pos := c.Pos(c.InstrPos(in))
			if FactsAt(in).lenAtLeast(vals, 2) {
				r.Instance("R19d", site, pos, "finding", "error delivered only when there are at least two results", true)
				r.Report(Finding{Rule: "R19d", Site: site, Pos: pos,
					Msg: key + ": the trailing Go error is turned into the ECAL error only on paths where the function has at least two results: a func(...) error (os.Remove, a validation function) returns its error as an ordinary value, the script continues and try/except never sees the failure"})
				return
			}
			r.Instance("R19d", site, pos, "ok", "the delivery of the trailing error does not depend on the number of results", true)
		})
	}
	r.Floor("R19d", n, 1)
}
