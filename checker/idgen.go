package main

// Identifier generators (shared by C11 monitor/processor ids, C12 thread ids, C13 instance ids).
//
// A function that increments a counter (package-level variable or field) and returns a value
// computed from the counter hands out identifiers. Identifiers are unique under concurrent
// callers only if reading and incrementing are one atomic step: either the returned value
// derives from the result of a single atomic.Add, or the plain read and the plain write both
// execute inside one critical section of the same lock.

import (
	"fmt"
	"go/token"
	"go/types"
	"sort"
	"strings"

	"golang.org/x/tools/go/ssa"
)

func isIntType(t types.Type) bool {
	b, ok := t.Underlying().(*types.Basic)
	return ok && b.Info()&types.IsInteger != 0
}

// counterAddr: address of a package-level variable or of a struct field, of integer type.
func counterAddr(v ssa.Value) bool {
	switch x := v.(type) {
	case *ssa.Global:
		return isIntType(derefType(x.Type())) || typedAtomicInt(derefType(x.Type()))
	case *ssa.FieldAddr:
		return isIntType(derefType(x.Type())) || typedAtomicInt(derefType(x.Type()))
	}
	return false
}

// typedAtomicInt: sync/atomic.Int32 / Int64 / Uint32 / Uint64 / Uintptr.
func typedAtomicInt(t types.Type) bool {
	n := namedOf(t)
	if n == nil || n.Obj().Pkg() == nil || n.Obj().Pkg().Path() != "sync/atomic" {
		return false
	}
	switch n.Obj().Name() {
	case "Int32", "Int64", "Uint32", "Uint64", "Uintptr":
		return true
	}
	return false
}

// atomicOpName: "Add" / "Load" / … for the functions of sync/atomic and the methods of its typed
// integers (the counter's address is the first argument in both forms).
func atomicOpName(in ssa.Instruction) string {
	n := callName(in)
	if !strings.HasPrefix(n, "sync/atomic.") {
		return ""
	}
	rest := strings.TrimPrefix(n, "sync/atomic.")
	if i := strings.LastIndex(rest, "."); i >= 0 {
		return rest[i+1:] // typed: Uint64.Add
	}
	for _, op := range []string{"Add", "Load", "Store", "Swap", "CompareAndSwap"} {
		if strings.HasPrefix(rest, op) {
			return op
		}
	}
	return ""
}

type idGen struct {
	Fn      *ssa.Function
	Loc     string
	OK      bool
	Why     string
	Pos     token.Pos
	ReadPos token.Pos
}

func findIDGenerators(c *Ctx, lfs *LockFlows, pkgOK func(string) bool) []idGen {
	var out []idGen
	for _, fn := range c.ModFuncs() {
		if !pkgOK(c.PkgOf(fn)) || strings.HasPrefix(fn.Name(), "UnitTest") || fn.Signature.Results().Len() == 0 {
			continue
		}
		// increments
		type incr struct {
			addr   ssa.Value
			instr  ssa.Instruction
			atomic bool
			result ssa.Value // result of atomic.Add
		}
		var incs []incr
		allInstrs(fn, func(in ssa.Instruction) {
			switch x := in.(type) {
			case *ssa.Store:
				if !counterAddr(x.Addr) {
					return
				}
				if bo, ok := x.Val.(*ssa.BinOp); ok && bo.Op == token.ADD {
					for _, o := range []ssa.Value{bo.X, bo.Y} {
						if ld, ok := o.(*ssa.UnOp); ok && ld.Op == token.MUL && equivValue(ld.X, x.Addr, 0) {
							incs = append(incs, incr{x.Addr, in, false, nil})
						}
					}
				}
			case *ssa.Call:
				if atomicOpName(x) == "Add" && len(x.Call.Args) == 2 && counterAddr(x.Call.Args[0]) {
					incs = append(incs, incr{x.Call.Args[0], in, true, x})
				}
			}
		})
		if len(incs) == 0 {
			continue
		}
		// reads of the counter the result depends on
		type read struct {
			v      ssa.Value
			kind   string // plain, atomic-load, add-result
			instr  ssa.Instruction
			ofIncr int
		}
		var reads []read
		seen := map[ssa.Value]bool{}
		var walk func(v ssa.Value, d int)
		walk = func(v ssa.Value, d int) {
			if v == nil || seen[v] || d > 12 {
				return
			}
			seen[v] = true
			for i, inc := range incs {
				switch x := v.(type) {
				case *ssa.UnOp:
					if x.Op == token.MUL && equivValue(x.X, inc.addr, 0) {
						reads = append(reads, read{v, "plain", x, i})
						return
					}
				case *ssa.Call:
					if atomicOpName(x) == "Load" && len(x.Call.Args) == 1 && equivValue(x.Call.Args[0], inc.addr, 0) {
						reads = append(reads, read{v, "atomic-load", x, i})
						return
					}
					if inc.result == v {
						reads = append(reads, read{v, "add-result", x, i})
						return
					}
				}
			}
			switch x := v.(type) {
			case *ssa.Phi:
				for _, e := range x.Edges {
					walk(e, d+1)
				}
			case *ssa.BinOp:
				walk(x.X, d+1)
				walk(x.Y, d+1)
			case *ssa.UnOp:
				if a, ok := x.X.(*ssa.Alloc); ok {
					for _, s := range cellSources(a) {
						walk(s, d+1)
					}
					return
				}
				walk(x.X, d+1)
			case *ssa.Convert:
				walk(x.X, d+1)
			case *ssa.ChangeType:
				walk(x.X, d+1)
			case *ssa.MakeInterface:
				walk(x.X, d+1)
			case *ssa.Extract:
				walk(x.Tuple, d+1)
			case *ssa.Call:
				// formatting / conversion of the id
				if f := x.Call.StaticCallee(); f != nil && !c.inModule(f) {
					for _, a := range x.Call.Args {
						walk(a, d+1)
					}
				}
			case *ssa.Slice:
				walk(x.X, d+1)
			case *ssa.Alloc:
				// a constructed object (or varargs array): what is stored into it
				for _, ref := range *x.Referrers() {
					switch r := ref.(type) {
					case *ssa.FieldAddr:
						for _, ref2 := range *r.Referrers() {
							if st, ok := ref2.(*ssa.Store); ok && st.Addr == ssa.Value(r) {
								walk(st.Val, d+1)
							}
						}
					case *ssa.IndexAddr:
						for _, ref2 := range *r.Referrers() {
							if st, ok := ref2.(*ssa.Store); ok && st.Addr == ssa.Value(r) {
								walk(st.Val, d+1)
							}
						}
					case *ssa.Store:
						if r.Addr == ssa.Value(x) {
							walk(r.Val, d+1)
						}
					}
				}
			}
		}
		for i := 0; i < fn.Signature.Results().Len(); i++ {
			for _, rv := range returnedValues(fn, i) {
				walk(rv, 0)
			}
		}
		if len(reads) == 0 {
			continue
		}
		lf := lfs.Of(fn)
		for _, rd := range reads {
			inc := incs[rd.ofIncr]
			g := idGen{Fn: fn, Loc: accessPath(inc.addr), Pos: inc.instr.Pos(), ReadPos: rd.instr.Pos()}
			switch {
			case rd.kind == "add-result":
				g.OK, g.Why = true, "the identifier derives from the result of a single atomic add"
			case rd.kind == "plain" && !inc.atomic:
				common := ""
				if lf != nil {
					for p := range lf.ClassOf {
						if lf.MustHoldPath(rd.instr, p, false) && lf.MustHoldPath(inc.instr, p, false) {
							common = p
						}
					}
				}
				if common == "" {
					g.Why = "the counter is read and incremented without a common lock held at both"
					break
				}
				// no release between the read and the write
				released := false
				allInstrs(fn, func(in ssa.Instruction) {
					if op, ok := lockOpOf(in); ok && !op.acquire() && op.Path == common {
						if _, isDefer := in.(*ssa.Defer); !isDefer && canReach(rd.instr, in) && canReach(in, inc.instr) {
							released = true
						}
					}
				})
				if released {
					g.Why = "the lock " + common + " can be released between reading and incrementing the counter"
				} else {
					g.OK, g.Why = true, "read and increment execute in one critical section of "+common
				}
			default:
				g.Why = fmt.Sprintf("the identifier comes from a separate %s of the counter while the increment is %s: two concurrent callers can obtain the same value", map[string]string{"plain": "plain read", "atomic-load": "atomic load"}[rd.kind], map[bool]string{true: "an atomic add whose result is not used", false: "a plain store"}[inc.atomic])
			}
			out = append(out, g)
		}
	}
	sort.Slice(out, func(i, j int) bool {
		if c.FuncKey(out[i].Fn) != c.FuncKey(out[j].Fn) {
			return c.FuncKey(out[i].Fn) < c.FuncKey(out[j].Fn)
		}
		return out[i].Loc < out[j].Loc
	})
	return out
}

// checkIDGenerators reports under rule; returns the number of generators examined.
func checkIDGenerators(c *Ctx, r *Result, lfs *LockFlows, rule, consequence string, pkgOK func(string) bool) int {
	gens := findIDGenerators(c, lfs, pkgOK)
	ord := newOrdinals()
	for _, g := range gens {
		key := c.FuncKey(g.Fn)
		site := ord.key(key, "idgen", g.Loc)
		pos := c.Pos(g.ReadPos)
		if g.OK {
			r.Instance(rule, site, pos, "ok", g.Why, true)
			continue
		}
		r.Instance(rule, site, pos, "finding", g.Why, true)
		r.Report(Finding{Rule: rule, Site: site, Pos: pos,
			Msg: fmt.Sprintf("%s hands out identifiers from %s, but %s — %s", key, g.Loc, g.Why, consequence)})
	}
	return len(gens)
}
