package main

// errpath: a small path-sensitive abstract interpreter over one function's CFG
// (DESIGN.md Appendix B). Domain per SSA value: may-be-nil/false, may-be-non-nil/true.
// Branches on `x == nil`, `x != nil`, tracked booleans and their negations prune;
// a branch on an unknown value forks and refines the value in both worlds, so a
// later test of the same value is consistent. Phis take the value of the traversed
// edge. States are memoised per (block, predecessor, environment): the domain is
// finite, loops terminate without unrolling bounds.

import (
	"fmt"
	"go/token"
	"go/types"
	"sort"
	"strings"

	"golang.org/x/tools/go/ssa"
)

type AbsVal uint8

const (
	AvNil     AbsVal = 1 // nil / false
	AvNonNil  AbsVal = 2 // non-nil / true
	AvUnknown AbsVal = 3
)

// PState is the abstract state along one path.
type PState struct {
	vals  map[ssa.Value]AbsVal
	alias map[ssa.Value]ssa.Value // phi / load -> the value it stands for on this path
	cells map[*ssa.Alloc]ssa.Value
	Flags map[string]bool
	Trace []*ssa.BasicBlock
}

func newPState() *PState {
	return &PState{vals: map[ssa.Value]AbsVal{}, alias: map[ssa.Value]ssa.Value{}, cells: map[*ssa.Alloc]ssa.Value{}, Flags: map[string]bool{}}
}

func (s *PState) clone() *PState {
	n := newPState()
	for k, v := range s.vals {
		n.vals[k] = v
	}
	for k, v := range s.alias {
		n.alias[k] = v
	}
	for k, v := range s.cells {
		n.cells[k] = v
	}
	for k, v := range s.Flags {
		n.Flags[k] = v
	}
	n.Trace = append([]*ssa.BasicBlock{}, s.Trace...)
	return n
}

func (s *PState) canon(v ssa.Value) ssa.Value {
	for i := 0; i < 32; i++ {
		v = stripConvKeepIface(v)
		a, ok := s.alias[v]
		if !ok || a == v {
			return v
		}
		v = a
	}
	return v
}

// stripConvKeepIface strips conversions that do not change nil-ness.
func stripConvKeepIface(v ssa.Value) ssa.Value {
	for {
		switch x := v.(type) {
		case *ssa.ChangeInterface:
			v = x.X
		case *ssa.ChangeType:
			v = x.X
		default:
			return v
		}
	}
}

// PathOracle supplies rule specific knowledge.
type PathOracle struct {
	// NonNilCall: the result (index idx, -1 for single result) of this call is never nil
	NonNilCall func(call *ssa.Call, idx int) bool
	// Correlate: when the error result `errIdx` of a tuple call is refined to nil, the
	// results listed become non-nil (callee contract).
	Correlate func(call *ssa.Call) (errIdx int, nonNilWhenOK []int, ok bool)
	// CorrelateErr: when the error result is refined to non-nil, the results listed become nil.
	CorrelateErr func(call *ssa.Call) (errIdx int, nilWhenErr []int, ok bool)
	// Pre is called before an instruction is (re-)executed, i.e. before refinements of the
	// value it defines are dropped.
	Pre func(st *PState, in ssa.Instruction)
	// NonNilParams: pointer-typed parameters are non-nil (precondition of the contract).
	NonNilParams bool
	// Visit is called for every instruction on every path, in order.
	Visit func(st *PState, in ssa.Instruction)
	// AtReturn is called at each return.
	AtReturn func(st *PState, ret *ssa.Return)
	// MaxStates bounds the exploration (undecided beyond it).
	MaxStates int
}

// Get returns the abstract value of v in the state.
func (s *PState) Get(v ssa.Value, o *PathOracle) AbsVal {
	v = s.canon(v)
	if a, ok := s.vals[v]; ok {
		return a
	}
	switch x := v.(type) {
	case *ssa.Const:
		if x.Value == nil {
			return AvNil
		}
		if b, ok := x.Type().Underlying().(*types.Basic); ok && b.Info()&types.IsBoolean != 0 {
			if x.Value.String() == "true" {
				return AvNonNil
			}
			return AvNil
		}
		return AvNonNil
	case *ssa.Parameter:
		if o != nil && o.NonNilParams {
			if _, isPtr := x.Type().Underlying().(*types.Pointer); isPtr {
				return AvNonNil
			}
		}
	case *ssa.MakeInterface:
		// an interface holding a nil pointer is non-nil as an interface value
		return AvNonNil
	case *ssa.Alloc, *ssa.MakeMap, *ssa.MakeSlice, *ssa.MakeChan, *ssa.MakeClosure, *ssa.Function, *ssa.FieldAddr, *ssa.IndexAddr, *ssa.Global:
		return AvNonNil
	case *ssa.Call:
		switch callName(x) {
		case "fmt.Errorf", "errors.New":
			return AvNonNil
		}
		if o != nil && o.NonNilCall != nil && o.NonNilCall(x, -1) {
			return AvNonNil
		}
	case *ssa.Extract:
		if call, ok := x.Tuple.(*ssa.Call); ok && o != nil && o.NonNilCall != nil && o.NonNilCall(call, x.Index) {
			return AvNonNil
		}
	case *ssa.UnOp:
		if x.Op == token.NOT {
			switch s.Get(x.X, o) {
			case AvNil:
				return AvNonNil
			case AvNonNil:
				return AvNil
			}
			return AvUnknown
		}
	case *ssa.BinOp:
		if x.Op == token.EQL || x.Op == token.NEQ {
			var other ssa.Value
			if isNilConst(x.Y) {
				other = x.X
			} else if isNilConst(x.X) {
				other = x.Y
			}
			if other != nil {
				a := s.Get(other, o)
				if a == AvUnknown {
					return AvUnknown
				}
				isNil := a == AvNil
				if (x.Op == token.EQL) == isNil {
					return AvNonNil
				}
				return AvNil
			}
		}
	}
	return AvUnknown
}

// Set refines v (through aliases) to a.
func (s *PState) Set(v ssa.Value, a AbsVal) {
	s.vals[s.canon(v)] = a
}

// refineCond makes boolean `cond` have the given truth in the state; returns false
// if that is impossible.
func (s *PState) refineCond(cond ssa.Value, truth bool, o *PathOracle) bool {
	cond = s.canon(cond)
	cur := s.Get(cond, o)
	want := AvNil
	if truth {
		want = AvNonNil
	}
	if cur != AvUnknown {
		return cur == want
	}
	switch x := cond.(type) {
	case *ssa.UnOp:
		if x.Op == token.NOT {
			return s.refineCond(x.X, !truth, o)
		}
	case *ssa.BinOp:
		if x.Op == token.EQL || x.Op == token.NEQ {
			var other ssa.Value
			if isNilConst(x.Y) {
				other = x.X
			} else if isNilConst(x.X) {
				other = x.Y
			}
			if other != nil {
				isNil := (x.Op == token.EQL) == truth
				if isNil {
					s.refineVal(other, AvNil, o)
				} else {
					s.refineVal(other, AvNonNil, o)
				}
				return true
			}
		}
	}
	s.vals[cond] = want
	return true
}

// refineVal sets a value and applies callee contracts.
func (s *PState) refineVal(v ssa.Value, a AbsVal, o *PathOracle) {
	v = s.canon(v)
	s.vals[v] = a
	if e, ok := v.(*ssa.Extract); ok && a == AvNonNil && o != nil && o.CorrelateErr != nil {
		if call, ok := e.Tuple.(*ssa.Call); ok {
			if errIdx, nn, ok := o.CorrelateErr(call); ok && errIdx == e.Index {
				for _, ref := range *call.Referrers() {
					if e2, ok := ref.(*ssa.Extract); ok {
						for _, i := range nn {
							if e2.Index == i {
								if _, set := s.vals[e2]; !set {
									s.vals[e2] = AvNil
								}
							}
						}
					}
				}
			}
		}
	}
	if e, ok := v.(*ssa.Extract); ok && a == AvNil && o != nil && o.Correlate != nil {
		if call, ok := e.Tuple.(*ssa.Call); ok {
			if errIdx, nn, ok := o.Correlate(call); ok && errIdx == e.Index {
				for _, ref := range *call.Referrers() {
					if e2, ok := ref.(*ssa.Extract); ok {
						for _, i := range nn {
							if e2.Index == i {
								if _, set := s.vals[e2]; !set {
									s.vals[e2] = AvNonNil
								}
							}
						}
					}
				}
			}
		}
	}
}

func (s *PState) key(b *ssa.BasicBlock, pred *ssa.BasicBlock) string {
	var parts []string
	for v, a := range s.vals {
		if a == AvUnknown {
			continue
		}
		parts = append(parts, fmt.Sprintf("%s=%d", v.Name(), a))
	}
	for v, a := range s.alias {
		parts = append(parts, fmt.Sprintf("%s>%s", v.Name(), a.Name()))
	}
	for c, v := range s.cells {
		parts = append(parts, fmt.Sprintf("%s:%s", c.Name(), v.Name()))
	}
	for f, on := range s.Flags {
		if on {
			parts = append(parts, "#"+f)
		}
	}
	sort.Strings(parts)
	pi := -1
	if pred != nil {
		pi = pred.Index
	}
	return fmt.Sprintf("%d<%d|%s", b.Index, pi, strings.Join(parts, ","))
}

// ExplorePaths runs the interpreter; returns false when the state bound was hit.
func ExplorePaths(fn *ssa.Function, o *PathOracle) bool {
	if len(fn.Blocks) == 0 {
		return true
	}
	max := o.MaxStates
	if max == 0 {
		max = 200000
	}
	seen := map[string]bool{}
	type item struct {
		b, pred *ssa.BasicBlock
		st      *PState
	}
	work := []item{{fn.Blocks[0], nil, newPState()}}
	states := 0
	for len(work) > 0 {
		it := work[len(work)-1]
		work = work[:len(work)-1]
		k := it.st.key(it.b, it.pred)
		if seen[k] {
			continue
		}
		seen[k] = true
		states++
		if states > max {
			return false
		}
		st := it.st
		if len(st.Trace) < 64 {
			st.Trace = append(st.Trace, it.b)
		}
		// phis first (parallel assignment)
		predIdx := -1
		for i, p := range it.b.Preds {
			if p == it.pred {
				predIdx = i
			}
		}
		newAlias := map[ssa.Value]ssa.Value{}
		for _, in := range it.b.Instrs {
			phi, ok := in.(*ssa.Phi)
			if !ok {
				break
			}
			if predIdx >= 0 && predIdx < len(phi.Edges) {
				newAlias[phi] = st.canon(phi.Edges[predIdx])
			}
		}
		for p, a := range newAlias {
			delete(st.vals, p)
			if a != p {
				st.alias[p] = a
			} else {
				delete(st.alias, p)
			}
		}
		var term ssa.Instruction
		for _, in := range it.b.Instrs {
			if _, isPhi := in.(*ssa.Phi); !isPhi {
				if o.Pre != nil {
					o.Pre(st, in)
				}
				if v, isVal := in.(ssa.Value); isVal {
					// re-executed in a loop: earlier refinements of this value are stale
					delete(st.vals, v)
					delete(st.alias, v)
				}
			}
			switch x := in.(type) {
			case *ssa.Phi:
				continue
			case *ssa.Store:
				if a, ok := x.Addr.(*ssa.Alloc); ok {
					st.cells[a] = st.canon(x.Val)
				}
			case *ssa.UnOp:
				if x.Op == token.MUL {
					if a, ok := x.X.(*ssa.Alloc); ok {
						if v, ok := st.cells[a]; ok {
							delete(st.vals, x)
							st.alias[x] = v
						} else {
							delete(st.alias, x)
							delete(st.vals, x)
						}
					}
				}
			case *ssa.Call:
				// a call invalidates nothing we track except cells captured by closures it may run;
				// such cells are written by the closure's own stores, which we do not see: forget
				// cells whose address escaped into a closure called here.
				if mc, ok := x.Call.Value.(*ssa.MakeClosure); ok {
					cf, _ := mc.Fn.(*ssa.Function)
					for i, b := range mc.Bindings {
						if a, ok := b.(*ssa.Alloc); ok && (cf == nil || closureStoresFreeVar(cf, i, 0)) {
							delete(st.cells, a)
						}
					}
				}
				delete(st.vals, x)
			}
			if o.Visit != nil {
				o.Visit(st, in)
			}
			term = in
		}
		switch t := term.(type) {
		case *ssa.Return:
			if o.AtReturn != nil && it.b != fn.Recover {
				o.AtReturn(st, t)
			}
		case *ssa.If:
			a := st.Get(t.Cond, o)
			if a&AvNonNil != 0 {
				s2 := st
				if a == AvUnknown {
					s2 = st.clone()
				}
				if s2.refineCond(t.Cond, true, o) {
					work = append(work, item{it.b.Succs[0], it.b, s2})
				}
			}
			if a&AvNil != 0 {
				s2 := st
				if a == AvUnknown {
					s2 = st.clone()
				}
				if s2.refineCond(t.Cond, false, o) {
					work = append(work, item{it.b.Succs[1], it.b, s2})
				}
			}
		default:
			for i, s := range it.b.Succs {
				s2 := st
				if i < len(it.b.Succs)-1 {
					s2 = st.clone()
				}
				work = append(work, item{s, it.b, s2})
			}
		}
	}
	return true
}

// traceString renders the block path of a state.
func traceString(c *Ctx, st *PState) []string {
	var out []string
	for _, b := range st.Trace {
		pos := token.NoPos
		for _, in := range b.Instrs {
			if in.Pos().IsValid() {
				pos = in.Pos()
				break
			}
		}
		out = append(out, fmt.Sprintf("b%d(%s)", b.Index, c.Pos(pos)))
	}
	return out
}

// closureStoresFreeVar: the closure (or a closure nested in it that captures the same
// variable) assigns its i-th free variable.
func closureStoresFreeVar(cf *ssa.Function, i int, depth int) bool {
	if i >= len(cf.FreeVars) || depth > 4 {
		return true
	}
	fv := cf.FreeVars[i]
	found := false
	allInstrs(cf, func(in ssa.Instruction) {
		switch x := in.(type) {
		case *ssa.Store:
			if x.Addr == ssa.Value(fv) {
				found = true
			}
		case *ssa.MakeClosure:
			for j, b := range x.Bindings {
				if b == ssa.Value(fv) {
					if nf, ok := x.Fn.(*ssa.Function); ok && closureStoresFreeVar(nf, j, depth+1) {
						found = true
					}
				}
			}
		case ssa.CallInstruction:
			// the address of the variable handed to a callee
			for _, a := range x.Common().Args {
				if a == ssa.Value(fv) {
					found = true
				}
			}
		}
	})
	return found
}
