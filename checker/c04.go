package main

// C04 — control flow and try/except/otherwise/finally follow the reference semantics.
// (R04a is shared with C03 as R03e.)

import (
	"fmt"
	"go/token"
	"go/types"
	"sort"
	"strings"

	"golang.org/x/tools/go/ssa"
)

func init() { register("C04", checkC04) }

// evalLikeCall: invoke of Runtime.Eval / Runtime.Validate / ECALFunction.Run; returns the index of the error result.
func evalLikeCall(in ssa.Instruction, rtIface, fnIface *types.Interface) (int, string, bool) {
	call, ok := in.(*ssa.Call)
	if !ok {
		return 0, "", false
	}
	if !call.Call.IsInvoke() {
		// static call of a runtime component's own Eval / Validate (rt.baseRuntime.Eval)
		f := call.Call.StaticCallee()
		if f == nil || f.Signature.Recv() == nil || !types.Implements(f.Signature.Recv().Type(), rtIface) {
			return 0, "", false
		}
		switch f.Name() {
		case "Eval":
			return 1, "Eval", true
		case "Validate":
			return -1, "Validate", true
		}
		return 0, "", false
	}
	m := call.Call.Method.Name()
	t := call.Call.Value.Type().Underlying()
	if types.Identical(t, rtIface) {
		switch m {
		case "Eval":
			return 1, "Eval", true
		case "Validate":
			return -1, "Validate", true
		}
	}
	if fnIface != nil && types.Identical(t, fnIface) && m == "Run" {
		return 1, "Run", true
	}
	return 0, "", false
}

// errValueOf returns the SSA value holding the error result of a call.
func errValueOf(call *ssa.Call, idx int) ssa.Value {
	if idx < 0 {
		return call
	}
	for _, ref := range *call.Referrers() {
		if e, ok := ref.(*ssa.Extract); ok && e.Index == idx {
			return e
		}
	}
	return nil
}

// inspects: instruction `in` looks at error value e (through the state's aliases) in a way that
// is more than a nil test: type assertion, method call, passing it on, storing it.
func inspects(st *PState, in ssa.Instruction, e ssa.Value) bool {
	ce := st.canon(e)
	is := func(v ssa.Value) bool { return v != nil && st.canon(v) == ce }
	switch x := in.(type) {
	case *ssa.TypeAssert:
		return is(x.X)
	case *ssa.MakeInterface:
		return is(x.X)
	case *ssa.Store:
		if _, toCell := x.Addr.(*ssa.Alloc); toCell {
			return false // a local variable: still the same error
		}
		return is(x.Val)
	case *ssa.MapUpdate:
		return is(x.Value)
	case ssa.CallInstruction:
		if _, isDefer := in.(*ssa.Defer); isDefer {
			return false
		}
		for _, a := range callArgs(x.Common()) {
			if is(a) {
				return true
			}
		}
	case *ssa.ChangeInterface:
		return false
	}
	return false
}

// errorLossFindings runs R04a on one function; returns one message per tracked call that can lose its error.
type lossFinding struct {
	Call ssa.Instruction
	What string
	Msg  string
}

func errorLoss(c *Ctx, fn *ssa.Function, rtIface, fnIface *types.Interface) (tracked int, findings []lossFinding, complete bool) {
	return errorLossOf(c, fn, func(in ssa.Instruction) (int, string, bool) { return evalLikeCall(in, rtIface, fnIface) })
}

// errorLossOf: the same for an arbitrary class of tracked calls.
func errorLossOf(c *Ctx, fn *ssa.Function, track func(in ssa.Instruction) (int, string, bool)) (tracked int, findings []lossFinding, complete bool) {
	type tr struct {
		call *ssa.Call
		errV ssa.Value
		what string
	}
	var calls []tr
	allInstrs(fn, func(in ssa.Instruction) {
		if idx, what, ok := track(in); ok {
			call := in.(*ssa.Call)
			if ev := errValueOf(call, idx); ev != nil {
				calls = append(calls, tr{call, ev, what})
			} else {
				// the error result is not even extracted: dropped
				findings = append(findings, lossFinding{in, what, "the error result of " + what + " is discarded"})
			}
		}
	})
	tracked = len(calls)
	if tracked == 0 {
		return 0, findings, true
	}
	errIdx := -1
	res := fn.Signature.Results()
	for i := 0; i < res.Len(); i++ {
		if res.At(i).Type().String() == "error" {
			errIdx = i
		}
	}
	bad := map[int]string{}
	o := &PathOracle{NonNilParams: false}
	o.NonNilCall = func(call *ssa.Call, idx int) bool {
		n := callName(call)
		return strings.HasSuffix(n, "NewRuntimeError") || strings.HasSuffix(n, "util.NewRuntimeError")
	}
	o.Pre = func(st *PState, in ssa.Instruction) {
		// re-execution of a tracked call: the previous error must have been dealt with
		for i, t := range calls {
			if in != ssa.Instruction(t.call) || !st.Flags[fmt.Sprint("exec:", i)] {
				continue
			}
			if st.Get(t.errV, o) != AvNil && !st.Flags[fmt.Sprint("insp:", i)] {
				if _, dup := bad[i]; !dup {
					bad[i] = "is overwritten by the next iteration without having been returned or inspected"
				}
			}
			delete(st.Flags, fmt.Sprint("insp:", i))
		}
	}
	o.Visit = func(st *PState, in ssa.Instruction) {
		for i, t := range calls {
			if in == ssa.Instruction(t.call) {
				st.Flags[fmt.Sprint("exec:", i)] = true
				continue
			}
			if st.Flags[fmt.Sprint("exec:", i)] && !st.Flags[fmt.Sprint("insp:", i)] && inspects(st, in, t.errV) {
				st.Flags[fmt.Sprint("insp:", i)] = true
			}
		}
	}
	o.AtReturn = func(st *PState, ret *ssa.Return) {
		for i, t := range calls {
			if !st.Flags[fmt.Sprint("exec:", i)] || st.Flags[fmt.Sprint("insp:", i)] {
				continue
			}
			if st.Get(t.errV, o) == AvNil {
				continue
			}
			s2 := st.clone()
			s2.refineVal(t.errV, AvNonNil, o)
			if errIdx >= 0 && errIdx < len(ret.Results) && s2.Get(ret.Results[errIdx], o) == AvNonNil {
				continue
			}
			if _, dup := bad[i]; !dup {
				if errIdx < 0 {
					bad[i] = "is neither inspected nor returned (the function returns no error)"
				} else {
					bad[i] = "can be non-nil on a path that returns a nil (or other, possibly nil) error without ever inspecting it"
				}
			}
		}
	}
	complete = ExplorePaths(fn, o)
	var idxs []int
	for i := range bad {
		idxs = append(idxs, i)
	}
	sort.Ints(idxs)
	for _, i := range idxs {
		findings = append(findings, lossFinding{calls[i].call, calls[i].what, "the error of " + errCallLabel(calls[i].call, calls[i].what) + " " + bad[i]})
	}
	return
}

// checkErrorLoss applies R04a to every function of package interpreter; rule is the id to report under.
func checkErrorLoss(c *Ctx, r *Result, rule string) {
	rtIface := c.Interface("parser", "Runtime")
	fnIface := c.Interface("util", "ECALFunction")
	if rtIface == nil {
		r.Undecide("parser.Runtime not found")
		return
	}
	dbg := c.Interface("util", "ECALDebugger")
	total := 0
	for _, fn := range c.ModFuncs() {
		if c.PkgOf(fn) != "interpreter" {
			continue
		}
		if recv := fn.Signature.Recv(); recv != nil && dbg != nil && types.Implements(recv.Type(), dbg) {
			continue // the debugger evaluates injected expressions on its own behalf (C16)
		}
		key := c.FuncKey(fn)
		n, fs, complete := errorLoss(c, fn, rtIface, fnIface)
		if n == 0 && len(fs) == 0 {
			continue
		}
		total += n
		if !complete {
			r.Undecide("%s: path exploration of %s exceeded its state bound", rule, key)
			continue
		}
		ord := newOrdinals()
		flagged := map[ssa.Instruction]bool{}
		for _, f := range fs {
			flagged[f.Call] = true
			site := ord.key(key, "errloss", f.What+":"+accessPath(f.Call.(*ssa.Call).Call.Value))
			pos := c.Pos(c.InstrPos(f.Call))
			if why, ok := r04aReviewed[site]; ok {
				r.Instance(rule, site, pos, "reviewed", why, true)
				continue
			}
			r.Instance(rule, site, pos, "finding", f.Msg, true)
			r.Report(Finding{Rule: rule, Site: site, Pos: pos,
				Msg: key + ": " + f.Msg + " — a failing operand evaluates to a value (usually null) instead of raising its error"})
		}
		if len(fs) == 0 {
			r.Instance(rule, key, c.Pos(fn.Pos()), "ok", fmt.Sprintf("%d evaluation call(s): on every path a non-nil error is returned or inspected", n), true)
		}
	}
	r.Floor(rule+"-calls", total, 70)
}

// reviewed exemptions of R04a: one named construct, one line of reason each
var r04aReviewed = map[string]string{
	"interpreter.(*tryRuntime).evalExcept#errloss:Eval:except.Children[*].Runtime#0": "the statements node is the last child of an except node (parser ndTry appends it last, exactly one): the loop cannot evaluate it a second time",
}

func checkC04(c *Ctx, r *Result, tier string) {
	r.Explanation = "Decides the error-path clauses of C04 on the interpreter's source: (R04a) no evaluation error is ever lost — for every call of Runtime.Eval/Validate and ECALFunction.Run, on every path where its error is non-nil the function returns a non-nil error or inspects the error (type assertion, method call, hand-over), decided by path-sensitive abstract interpretation; " +
		"(R04b) the finally body is evaluated by exactly one deferred call, outside any loop, registered before the try body runs; (R04c) the otherwise body is evaluated only where the try body's error is nil; " +
		"(R04d) control signals travelling the error channel (return, break, continue, iterator protocol) bypass the except dispatch through a classification of the error; (R04e) an except child's token value is used as a variable name only under a test of that child's kind."
	r.RuleText = "R04a errpath; R04b defer placement + uniqueness; R04c dominating nil fact; R04d classification gate on the edge to the except dispatch; R04e control dependence of Token.Val-as-name on the child's Name"
	r.NotCovered = "Branch selection values, the loop protocol and range arithmetic (runtime behaviour), raise() argument handling values."
	r.Assumptions = []string{"a bare nil test is not an inspection", "deferred calls are exempt from R04a (their result cannot be observed)"}

	checkErrorLoss(c, r, "R04a")
	c04Try(c, r)
	c04Loop(c, r)
	c04LoopSignals(c, r)
	c04MatchedStaysMatched(c, r)
}

// c04Try: the Eval method which tests a child's Name against "finally".
func c04Try(c *Ctx, r *Result) {
	rtIface := c.Interface("parser", "Runtime")
	var tryEval *ssa.Function
	for _, fn := range c.Implementations(rtIface, "Eval") {
		found := false
		allInstrs(fn, func(in ssa.Instruction) {
			if bo, ok := in.(*ssa.BinOp); ok && bo.Op == token.EQL {
				if s, ok := constString(bo.Y); ok && s == "finally" {
					found = true
				}
			}
		})
		if found {
			tryEval = fn
		}
	}
	if tryEval == nil {
		r.Undecide("R04b: no Eval method comparing a child's Name with \"finally\" found (the try runtime)")
		return
	}
	key := c.FuncKey(tryEval)
	hasName := func(f *Facts, kind string) bool {
		for _, names := range f.NameIs {
			for _, n := range names {
				if n == kind {
					return true
				}
			}
		}
		return false
	}
	// all Eval invocations (deferred or not)
	type ev struct {
		in       ssa.Instruction
		deferred bool
		facts    *Facts
	}
	var evals []ev
	allInstrs(tryEval, func(in ssa.Instruction) {
		ci, ok := in.(ssa.CallInstruction)
		if !ok || !ci.Common().IsInvoke() || ci.Common().Method.Name() != "Eval" || !types.Identical(ci.Common().Value.Type().Underlying(), rtIface) {
			return
		}
		_, isDefer := in.(*ssa.Defer)
		evals = append(evals, ev{in, isDefer, FactsAt(in)})
	})
	// the try body: the first non-deferred Eval whose receiver is Children[0] of the runtime's node
	var body *ssa.Call
	for _, e := range evals {
		if !e.deferred && strings.Contains(accessPath(e.in.(*ssa.Call).Call.Value), "node.Children[0].Runtime") && body == nil {
			body = e.in.(*ssa.Call)
		}
	}
	// the function that registers the finally may hand the rest (body, except dispatch, otherwise)
	// to a method of the same runtime: the body is then evaluated there, and for the ordering of
	// the registration the call of that method stands for the body
	bodyFn := tryEval
	var bodyAnchor ssa.Instruction
	if body != nil {
		bodyAnchor = body
	} else {
		for h, sites := range staticCalleesIn(c, tryEval) {
			if h.Signature.Recv() == nil || namedOf(h.Signature.Recv().Type()) != namedOf(tryEval.Signature.Recv().Type()) || len(sites) != 1 {
				continue
			}
			allInstrs(h, func(in ssa.Instruction) {
				call, ok := in.(*ssa.Call)
				if ok && body == nil && call.Call.IsInvoke() && call.Call.Method.Name() == "Eval" && types.Identical(call.Call.Value.Type().Underlying(), rtIface) &&
					strings.Contains(accessPath(call.Call.Value), "node.Children[0].Runtime") {
					body = call
					bodyFn = h
					bodyAnchor, _ = sites[0].(ssa.Instruction)
				}
			})
		}
	}
	if body == nil || bodyAnchor == nil {
		r.Undecide("R04b: the evaluation of the try body (node.Children[0].Runtime.Eval) was not found in %s or a method it calls", key)
		return
	}
	// R04b
	var fin []ev
	for _, e := range evals {
		if hasName(e.facts, "finally") {
			fin = append(fin, e)
		}
	}
	if bodyFn != tryEval {
		// a finally evaluated in the body function as well would be a second site
		allInstrs(bodyFn, func(in ssa.Instruction) {
			ci, ok := in.(ssa.CallInstruction)
			if !ok || !ci.Common().IsInvoke() || ci.Common().Method.Name() != "Eval" || !types.Identical(ci.Common().Value.Type().Underlying(), rtIface) {
				return
			}
			_, isDefer := in.(*ssa.Defer)
			if e := (ev{in, isDefer, FactsAt(in)}); hasName(e.facts, "finally") {
				fin = append(fin, e)
			}
		})
	}
	pos := c.Pos(tryEval.Pos())
	switch {
	case len(fin) != 1:
		r.Instance("R04b", key+"#finally", pos, "finding", fmt.Sprintf("%d evaluation sites of the finally body", len(fin)), true)
		r.Report(Finding{Rule: "R04b", Site: key + "#finally", Pos: pos,
			Msg: fmt.Sprintf("%s: the finally body is evaluated at %d places; exactly one deferred evaluation is required for 'exactly once on every way out'", key, len(fin))})
	case !fin[0].deferred:
		p := c.Pos(c.InstrPos(fin[0].in))
		r.Instance("R04b", key+"#finally", p, "finding", "not deferred", true)
		r.Report(Finding{Rule: "R04b", Site: key + "#finally", Pos: p,
			Msg: key + ": the finally body is evaluated by a plain call, not by a deferred one: it is skipped when the try body returns early, breaks, continues or panics"})
	case inLoop(fin[0].in.Block()):
		p := c.Pos(c.InstrPos(fin[0].in))
		r.Instance("R04b", key+"#finally", p, "finding", "deferred inside a loop", true)
		r.Report(Finding{Rule: "R04b", Site: key + "#finally", Pos: p, Msg: key + ": the finally body is deferred inside a loop (it could run several times)"})
	case fin[0].in.Parent() != tryEval || canReach(bodyAnchor, fin[0].in) || !canReach(fin[0].in, bodyAnchor):
		p := c.Pos(c.InstrPos(fin[0].in))
		r.Instance("R04b", key+"#finally", p, "finding", "registered after the try body", true)
		r.Report(Finding{Rule: "R04b", Site: key + "#finally", Pos: p, Msg: key + ": the deferred finally is not registered before the try body is evaluated (an error or return in the body skips it)"})
	default:
		// the test that guards the registration must dominate the body
		r.Instance("R04b", key+"#finally", c.Pos(c.InstrPos(fin[0].in)), "ok", "one deferred evaluation, outside loops, registered before the try body", true)
	}
	// the remaining clauses are decided in the function that evaluates the body
	if bodyFn != tryEval {
		tryEval = bodyFn
		evals = nil
		allInstrs(tryEval, func(in ssa.Instruction) {
			ci, ok := in.(ssa.CallInstruction)
			if !ok || !ci.Common().IsInvoke() || ci.Common().Method.Name() != "Eval" || !types.Identical(ci.Common().Value.Type().Underlying(), rtIface) {
				return
			}
			_, isDefer := in.(*ssa.Defer)
			evals = append(evals, ev{in, isDefer, FactsAt(in)})
		})
	}
	// R04c
	bodyErr := errValueOf(body, 1)
	nOther := 0
	for _, e := range evals {
		if !hasName(e.facts, "otherwise") {
			continue
		}
		nOther++
		p := c.Pos(c.InstrPos(e.in))
		site := fmt.Sprintf("%s#otherwise#%d", key, nOther)
		if bodyErr != nil && e.facts.IsNil[accessPath(bodyErr)] && !e.deferred {
			r.Instance("R04c", site, p, "ok", "evaluated only where the try body's error is nil", true)
		} else {
			r.Instance("R04c", site, p, "finding", "otherwise not restricted to success", true)
			r.Report(Finding{Rule: "R04c", Site: site, Pos: p, Msg: key + ": the otherwise body is evaluated on a path where the try body's error is not known to be nil"})
		}
	}
	r.Floor("R04c", nOther, 1)

	// R04d: the except dispatch is gated by a classification of the error
	classifiers := errorClassifiers(c)
	var dispatch []ssa.Instruction
	for _, e := range evals {
		_ = e
	}
	allInstrs(tryEval, func(in ssa.Instruction) {
		if ci, ok := in.(ssa.CallInstruction); ok {
			if f := ci.Common().StaticCallee(); f != nil && c.modFuncSet[f] && f.Signature.Recv() != nil && f != tryEval &&
				namedOf(f.Signature.Recv().Type()) == namedOf(tryEval.Signature.Recv().Type()) {
				// a helper of the try runtime receiving the except node: the dispatch
				dispatch = append(dispatch, in)
			}
		}
	})
	for _, e := range evals {
		if hasName(e.facts, "except") && !e.deferred {
			dispatch = append(dispatch, e.in)
		}
	}
	if len(dispatch) == 0 {
		r.Undecide("R04d: the except dispatch was not found in %s", key)
	}
	// path-sensitive: on every path reaching a dispatch instruction a classifier applied to the
	// body's error has returned false (or a failed assertion to the return-value type was seen)
	ungated := map[ssa.Instruction]bool{}
	reached := map[ssa.Instruction]bool{}
	isDispatch := map[ssa.Instruction]bool{}
	for _, d := range dispatch {
		isDispatch[d] = true
	}
	po := &PathOracle{}
	po.Visit = func(st *PState, in ssa.Instruction) {
		if !isDispatch[in] {
			return
		}
		reached[in] = true
		gated := false
		allInstrs(tryEval, func(x ssa.Instruction) {
			switch v := x.(type) {
			case *ssa.Call:
				if cf := v.Call.StaticCallee(); cf != nil && classifiers[cf] && len(v.Call.Args) == 1 {
					if bodyErr != nil && st.canon(v.Call.Args[0]) == st.canon(bodyErr) && st.Get(v, po) == AvNil {
						gated = true
					}
				}
			case *ssa.Extract:
				if ta, ok := v.Tuple.(*ssa.TypeAssert); ok && v.Index == 1 && strings.Contains(ta.AssertedType.String(), "returnValue") {
					if bodyErr != nil && st.canon(ta.X) == st.canon(bodyErr) && st.Get(v, po) == AvNil {
						gated = true
					}
				}
			}
		})
		if !gated {
			ungated[in] = true
		}
	}
	// R04g: first matching clause only — when a dispatch call is (re-)executed, no earlier
	// execution of a dispatch call on this path has reported a match
	redispatch := map[ssa.Instruction]bool{}
	matchFlag := func(d ssa.Instruction) *ssa.Extract {
		call, ok := d.(*ssa.Call)
		if !ok {
			return nil
		}
		tup, ok := call.Type().(*types.Tuple)
		if !ok || tup.Len() < 1 || tup.At(0).Type().String() != "bool" {
			return nil
		}
		for _, ref := range *call.Referrers() {
			if e, ok := ref.(*ssa.Extract); ok && e.Index == 0 {
				return e
			}
		}
		return nil
	}
	nMatchers := 0
	for _, d := range dispatch {
		if matchFlag(d) != nil {
			nMatchers++
		}
	}
	po.Pre = func(st *PState, in ssa.Instruction) {
		if !isDispatch[in] {
			return
		}
		for _, d := range dispatch {
			if e := matchFlag(d); e != nil && st.Get(e, po) == AvNonNil {
				redispatch[in] = true
			}
		}
	}
	if !ExplorePaths(tryEval, po) {
		r.Undecide("R04d: path exploration of %s exceeded its state bound", key)
	}
	for i, d := range dispatch {
		if matchFlag(d) == nil {
			continue
		}
		site := fmt.Sprintf("%s#first-match#%d", key, i)
		p := c.Pos(c.InstrPos(d))
		if redispatch[d] {
			r.Instance("R04g", site, p, "finding", "dispatch continues after a match", true)
			r.Report(Finding{Rule: "R04g", Site: site, Pos: p,
				Msg: key + ": an except clause can be tried on a path where an earlier clause already matched and handled the error — the error is no longer handled by the first matching clause only (a second handler runs and replaces the first handler's outcome)"})
		} else {
			r.Instance("R04g", site, p, "ok", "on no path is a clause tried after an earlier clause reported a match", true)
		}
	}
	r.Floor("R04g", nMatchers, 1)
	for i, d := range dispatch {
		site := fmt.Sprintf("%s#except-dispatch#%d", key, i)
		p := c.Pos(c.InstrPos(d))
		if reached[d] && !ungated[d] {
			r.Instance("R04d", site, p, "ok", "on every path here the error was classified as not being a control signal", true)
		} else {
			r.Instance("R04d", site, p, "finding", "no gate", true)
			r.Report(Finding{Rule: "R04d", Site: site, Pos: p,
				Msg: key + ": a non-nil error of the try body can reach the except dispatch without having been classified; return/break/continue travel the error channel and are caught by a bare `except` — `func f(){ try { return 1 } except { 2 }; return 3 }; f()` returns 3"})
		}
	}

	// R04e: Token.Val of an except child used as a variable name only under a test of the child's Name
	fVal := c.Field("parser", "LexToken", "Val")
	scopeIface := c.Interface("parser", "Scope")
	nBind := 0
	recvT := namedOf(tryEval.Signature.Recv().Type())
	for _, fn := range c.ModFuncs() {
		if fn.Signature.Recv() == nil || namedOf(fn.Signature.Recv().Type()) != recvT {
			continue
		}
		fkey := c.FuncKey(fn)
		allInstrs(fn, func(in ssa.Instruction) {
			ci, ok := in.(ssa.CallInstruction)
			if !ok || !ci.Common().IsInvoke() || scopeIface == nil || !types.Identical(ci.Common().Value.Type().Underlying(), scopeIface) {
				return
			}
			if m := ci.Common().Method.Name(); m != "SetValue" && m != "SetLocalValue" {
				return
			}
			// the name argument: loads of Token.Val it derives from
			var loads []*ssa.UnOp
			seen := map[ssa.Value]bool{}
			var walk func(v ssa.Value, d int)
			walk = func(v ssa.Value, d int) {
				if v == nil || seen[v] || d > 8 {
					return
				}
				seen[v] = true
				switch x := v.(type) {
				case *ssa.UnOp:
					if fieldVar(x.X) == fVal {
						loads = append(loads, x)
						return
					}
					if a, ok := x.X.(*ssa.Alloc); ok {
						for _, s := range cellSources(a) {
							walk(s, d+1)
						}
					}
				case *ssa.Phi:
					for _, e := range x.Edges {
						walk(e, d+1)
					}
				}
			}
			walk(ci.Common().Args[0], 0)
			for _, ld := range loads {
				nBind++
				site := fmt.Sprintf("%s#bind-name#%d", fkey, nBind)
				p := c.Pos(c.InstrPos(ld))
				// node whose token is read: X.Token.Val -> path of X
				np := accessPath(ld.X)
				np = strings.TrimSuffix(np, ".Token.Val")
				f := FactsAt(ld)
				tested := np + ".Name"
				ok := len(f.NameIs[tested]) > 0
				if !ok {
					// a test of the parent's kind fixes the child's kind by the parser's shape (`as` has one identifier child)
					if i := strings.LastIndex(np, ".Children["); i > 0 {
						tested = np[:i] + ".Name"
						ok = len(f.NameIs[tested]) > 0
					}
				}
				if ok {
					r.Instance("R04e", site, p, "ok", "under a test of "+tested+" = "+strings.Join(f.NameIs[tested], "/"), true)
				} else {
					r.Instance("R04e", site, p, "finding", "kind of the child not tested", true)
					r.Report(Finding{Rule: "R04e", Site: site, Pos: p,
						Msg: fmt.Sprintf("%s: the token value of %s is used as a variable name without a test of that node's kind: `try { raise(\"A\") } except \"B\" { }` catches A (and binds a variable named B)", fkey, np)})
				}
			}
		})
	}
	r.Floor("R04e", nBind, 2)
}

// ---- R04f: a loop execution starts with no iterator state -------------------------------------

// c04Loop: iterator functions (range) keep their position in the instance-state map under their
// instance id, and decide between "start" and "continue" by looking it up. A loop execution
// therefore has to hand its guard, iterator and body an instance state allocated for this
// execution; otherwise a loop left early (break, error, return) resumes where it stopped the
// next time the same loop statement runs.
func c04Loop(c *Ctx, r *Result) {
	rtIface := c.Interface("parser", "Runtime")
	pt, err := ExtractProviders(c)
	if err != nil || rtIface == nil {
		r.Undecide("R04f: %v", err)
		return
	}
	loopT := pt.Kind2Type["loop"]
	if loopT == nil {
		r.Undecide("R04f: no runtime for node kind loop")
		return
	}
	eval := c.Method("interpreter", loopT.Obj().Name(), "Eval")
	if eval == nil {
		r.Undecide("R04f: Eval of %s not found", loopT.Obj().Name())
		return
	}
	// the function set: Eval, same-receiver helpers it reaches, and their closures
	set := map[*ssa.Function]bool{}
	var order []*ssa.Function
	callers := map[*ssa.Function][]ssa.CallInstruction{}
	closures := map[*ssa.Function][]*ssa.MakeClosure{}
	var add func(fn *ssa.Function)
	add = func(fn *ssa.Function) {
		if set[fn] {
			return
		}
		set[fn] = true
		order = append(order, fn)
		allInstrs(fn, func(in ssa.Instruction) {
			switch x := in.(type) {
			case *ssa.MakeClosure:
				if cf, ok := x.Fn.(*ssa.Function); ok {
					closures[cf] = append(closures[cf], x)
					add(cf)
				}
			case ssa.CallInstruction:
				if f := x.Common().StaticCallee(); f != nil && c.modFuncSet[f] && f.Signature.Recv() != nil &&
					namedOf(f.Signature.Recv().Type()) == loopT {
					callers[f] = append(callers[f], x)
					add(f)
				}
			}
		})
	}
	add(eval)
	memo := map[ssa.Value]int{}
	var fresh func(v ssa.Value) bool
	fresh = func(v ssa.Value) bool {
		v = unspill(v)
		switch memo[v] {
		case 1, 2:
			return true
		case 3:
			return false
		}
		memo[v] = 1
		ok := false
		switch x := v.(type) {
		case *ssa.MakeMap:
			ok = x.Parent() == eval || set[x.Parent()]
		case *ssa.Phi:
			ok = true
			for _, e := range x.Edges {
				ok = ok && fresh(e)
			}
		case *ssa.Parameter:
			fn := x.Parent()
			idx := -1
			for i, p := range fn.Params {
				if p == x {
					idx = i
				}
			}
			cs := callers[fn]
			ok = fn != eval && len(cs) > 0 && idx >= 0
			for _, ci := range cs {
				args := callArgs(ci.Common())
				ok = ok && idx < len(args) && fresh(args[idx])
			}
		case *ssa.UnOp:
			switch a := x.X.(type) {
			case *ssa.Alloc:
				srcs := cellSources(a)
				ok = len(srcs) > 0
				for _, s := range srcs {
					ok = ok && fresh(s)
				}
			case *ssa.FreeVar:
				fn := a.Parent()
				idx := -1
				for i, fv := range fn.FreeVars {
					if fv == a {
						idx = i
					}
				}
				mcs := closures[fn]
				ok = len(mcs) > 0 && idx >= 0
				for _, mc := range mcs {
					cell, isAlloc := mc.Bindings[idx].(*ssa.Alloc)
					if !isAlloc {
						ok = false
						break
					}
					srcs := cellSources(cell)
					ok = ok && len(srcs) > 0
					for _, s := range srcs {
						ok = ok && fresh(s)
					}
				}
			}
		}
		if ok {
			memo[v] = 2
		} else {
			memo[v] = 3
		}
		return ok
	}
	n := 0
	ord := newOrdinals()
	for _, fn := range order {
		key := c.FuncKey(fn)
		allInstrs(fn, func(in ssa.Instruction) {
			ci, ok := in.(ssa.CallInstruction)
			if !ok || !ci.Common().IsInvoke() || ci.Common().Method.Name() != "Eval" || !types.Identical(ci.Common().Value.Type().Underlying(), rtIface) {
				return
			}
			args := ci.Common().Args
			if len(args) < 2 {
				return
			}
			n++
			site := ord.key(key, "loop-eval", accessPath(ci.Common().Value))
			pos := c.Pos(c.InstrPos(in))
			if fresh(args[1]) {
				r.Instance("R04f", site, pos, "ok", "the instance state handed to this evaluation is allocated by the loop execution", true)
				return
			}
			r.Instance("R04f", site, pos, "finding", "instance state not allocated by the loop execution: "+accessPath(args[1]), true)
			r.Report(Finding{Rule: "R04f", Site: site, Pos: pos,
				Msg: key + ": the loop evaluates its guard, iterator or body with an instance state that outlives this loop execution (" + accessPath(args[1]) + "): the position an iterator function keeps there survives a loop that is left early, so the next execution of the same loop resumes instead of restarting"})
		})
	}
	r.Floor("R04f", n, 4)
}

func errCallLabel(call *ssa.Call, what string) string {
	if call.Call.IsInvoke() {
		return accessPath(call.Call.Value) + "." + what + "()"
	}
	if f := call.Call.StaticCallee(); f != nil && f.Signature.Recv() == nil {
		return what + "()"
	}
	if f := call.Call.StaticCallee(); f != nil && len(call.Call.Args) > 0 {
		return accessPath(call.Call.Args[0]) + "." + what + "()"
	}
	return accessPath(call.Call.Value) + "()"
}

// errorClassifiers: functions error -> bool of package interpreter that recognise the control
// signals travelling the error channel (assert the return-value type and compare the iteration
// sentinels).
func errorClassifiers(c *Ctx) map[*ssa.Function]bool {
	classifiers := map[*ssa.Function]bool{}
	for _, fn := range c.ModFuncs() {
		if c.PkgOf(fn) != "interpreter" || fn.Signature.Params().Len() != 1 || fn.Signature.Results().Len() != 1 {
			continue
		}
		if fn.Signature.Params().At(0).Type().String() != "error" || fn.Signature.Results().At(0).Type().String() != "bool" {
			continue
		}
		asserts, cmps := false, false
		allInstrs(fn, func(in ssa.Instruction) {
			if ta, ok := in.(*ssa.TypeAssert); ok && strings.Contains(ta.AssertedType.String(), "returnValue") {
				asserts = true
			}
			if bo, ok := in.(*ssa.BinOp); ok && (bo.Op == token.EQL || bo.Op == token.NEQ) {
				for _, v := range []ssa.Value{bo.X, bo.Y} {
					if u, ok := v.(*ssa.UnOp); ok {
						if g, ok := u.X.(*ssa.Global); ok && (g.Name() == "ErrEndOfIteration" || g.Name() == "ErrContinueIteration") {
							cmps = true
						}
						// an element of a package-level table that is initialised with the sentinels
						if ia, ok := u.X.(*ssa.IndexAddr); ok {
							if tl, ok := ia.X.(*ssa.UnOp); ok {
								if g, ok := tl.X.(*ssa.Global); ok && sentinelTable(c, g) {
									cmps = true
								}
							}
						}
					}
				}
			}
		})
		if asserts && cmps {
			classifiers[fn] = true
		}
	}
	return classifiers
}

// ---- R04h: a loop consumes its own signals ---------------------------------------------------------

// break and continue leave the loop body as errors (ErrEndOfIteration / ErrContinueIteration).
// The loop runtime has to take them out of the error channel again. Structurally: on every path
// from the evaluation of the loop body to a return of the function that returns that very error
// value, the error was compared with the end-of-iteration sentinel (the break check) — otherwise
// a `break` reaches the caller as a failure.
func c04LoopSignals(c *Ctx, r *Result) {
	rtIface := c.Interface("parser", "Runtime")
	pt, err := ExtractProviders(c)
	if err != nil || rtIface == nil {
		return
	}
	loopT := pt.Kind2Type["loop"]
	if loopT == nil {
		return
	}
	isSentinelCmp := func(in ssa.Instruction, name string) bool {
		bo, ok := in.(*ssa.BinOp)
		if !ok || (bo.Op != token.EQL && bo.Op != token.NEQ) {
			return false
		}
		for _, v := range []ssa.Value{bo.X, bo.Y} {
			if u, ok := v.(*ssa.UnOp); ok {
				if g, ok := u.X.(*ssa.Global); ok && g.Name() == name {
					return true
				}
			}
		}
		return false
	}
	n := 0
	for _, fn := range c.ModFuncs() {
		if fn.Signature.Recv() == nil || namedOf(fn.Signature.Recv().Type()) != loopT || fn.Parent() != nil {
			continue
		}
		// body evaluations: Eval invoked on Children[1].Runtime inside a loop
		type be struct {
			call *ssa.Call
			errV ssa.Value
		}
		var bodies []be
		allInstrs(fn, func(in ssa.Instruction) {
			call, ok := in.(*ssa.Call)
			if !ok || !call.Call.IsInvoke() || call.Call.Method.Name() != "Eval" || !types.Identical(call.Call.Value.Type().Underlying(), rtIface) {
				return
			}
			if !inLoop(in.Block()) || !strings.Contains(accessPath(call.Call.Value), "Children[1].Runtime") {
				return
			}
			if ev := errValueOf(call, 1); ev != nil {
				bodies = append(bodies, be{call, ev})
			}
		})
		if len(bodies) == 0 {
			continue
		}
		key := c.FuncKey(fn)
		errIdx := -1
		for i := 0; i < fn.Signature.Results().Len(); i++ {
			if fn.Signature.Results().At(i).Type().String() == "error" {
				errIdx = i
			}
		}
		if errIdx < 0 {
			continue
		}
		bad := map[int]bool{}
		o := &PathOracle{}
		o.Visit = func(st *PState, in ssa.Instruction) {
			for i, b := range bodies {
				if in == ssa.Instruction(b.call) {
					st.Flags[fmt.Sprint("body:", i)] = true
					delete(st.Flags, fmt.Sprint("brk:", i))
				}
			}
			if isSentinelCmp(in, "ErrEndOfIteration") {
				for i := range bodies {
					if st.Flags[fmt.Sprint("body:", i)] {
						st.Flags[fmt.Sprint("brk:", i)] = true
					}
				}
			}
		}
		o.AtReturn = func(st *PState, ret *ssa.Return) {
			if errIdx >= len(ret.Results) {
				return
			}
			rv := st.canon(ret.Results[errIdx])
			for i, b := range bodies {
				if !st.Flags[fmt.Sprint("body:", i)] || st.Flags[fmt.Sprint("brk:", i)] {
					continue
				}
				if rv == st.canon(b.errV) && st.Get(b.errV, o) != AvNil {
					// an error that failed the assertion to the runtime error type on this path is no signal
					notSignal := false
					allInstrs(fn, func(x ssa.Instruction) {
						ta, ok := x.(*ssa.TypeAssert)
						if !ok || !ta.CommaOk || !strings.Contains(ta.AssertedType.String(), "RuntimeError") || st.canon(ta.X) != st.canon(b.errV) {
							return
						}
						for _, ref := range *ta.Referrers() {
							if e, ok := ref.(*ssa.Extract); ok && e.Index == 1 && st.Get(e, o) == AvNil {
								notSignal = true
							}
						}
					})
					if !notSignal {
						bad[i] = true
					}
				}
			}
		}
		if !ExplorePaths(fn, o) {
			r.Undecide("R04h: path exploration of %s exceeded its state bound", key)
			continue
		}
		for i, b := range bodies {
			n++
			site := fmt.Sprintf("%s#loop-body#%d", key, i)
			pos := c.Pos(c.InstrPos(b.call))
			if bad[i] {
				r.Instance("R04h", site, pos, "finding", "the body's error can be returned without the break check", true)
				r.Report(Finding{Rule: "R04h", Site: site, Pos: pos,
					Msg: key + ": the error of the loop body can be returned to the caller on a path that never compares it with the end-of-iteration signal: `break` leaves the loop but is then reported as the error \"End of iteration was reached\" — `for a < 3 { a := a + 1; break }` fails instead of ending the loop"})
			} else {
				r.Instance("R04h", site, pos, "ok", "every path returning the body's error has compared it with the end-of-iteration signal", true)
			}
		}
	}
	r.Floor("R04h", n, 2)
}

// sentinelTable: the package-level variable g is assigned in its package's initialiser, and that
// initialiser reads both loop sentinels (a table such as []error{ErrEndOfIteration, …}).
func sentinelTable(c *Ctx, g *ssa.Global) bool {
	if g.Pkg == nil {
		return false
	}
	initFn := g.Pkg.Func("init")
	if initFn == nil {
		return false
	}
	stores, end, cont := false, false, false
	allInstrs(initFn, func(in ssa.Instruction) {
		switch x := in.(type) {
		case *ssa.Store:
			if x.Addr == ssa.Value(g) {
				stores = true
			}
		case *ssa.UnOp:
			if sg, ok := x.X.(*ssa.Global); ok {
				if sg.Name() == "ErrEndOfIteration" {
					end = true
				}
				if sg.Name() == "ErrContinueIteration" {
					cont = true
				}
			}
		}
	})
	return stores && end && cont
}
