package main

// Reviewed table of C06: obligations that are safe by an invariant the automatic
// discharge rules cannot see. One named construct (rule + construct key), one line
// of reason each. An entry whose construct no longer exists is reported as unused.
var c06Reviewed = map[string]string{}
