package main

// C11 — concurrent sink invocations are isolated; failures go to their own event.

import (
	"fmt"
	"go/types"
	"sort"
	"strings"

	"golang.org/x/tools/go/ssa"
)

func init() { register("C11", checkC11) }

// actionClosures: function literals stored into engine.Rule.Action inside the module (non-test code).
func actionClosures(c *Ctx) []*ssa.Function {
	fAction := c.Field("engine", "Rule", "Action")
	var out []*ssa.Function
	if fAction == nil {
		return nil
	}
	for _, fn := range c.ModFuncs() {
		allInstrs(fn, func(in ssa.Instruction) {
			st, ok := in.(*ssa.Store)
			if !ok {
				return
			}
			fa, ok := st.Addr.(*ssa.FieldAddr)
			if !ok || fieldVar(fa) != fAction {
				return
			}
			if mc, ok := stripConv(st.Val).(*ssa.MakeClosure); ok {
				if cf, ok := mc.Fn.(*ssa.Function); ok {
					out = append(out, cf)
				}
			}
		})
	}
	return out
}

// withNested returns fn and all function literals nested in it.
func withNested(fn *ssa.Function) []*ssa.Function {
	out := []*ssa.Function{fn}
	for _, a := range fn.AnonFuncs {
		out = append(out, withNested(a)...)
	}
	return out
}

func checkC11(c *Ctx, r *Result, tier string) {
	r.Explanation = "Decides structural necessary conditions of isolation: (R11a) the function literal installed as a rule's action — called concurrently by all workers — writes no captured variable and mutates nothing reached through one; " +
		"(R11b) the scope and the instance state handed to the sink body (and to a function body) are allocated inside the call; (R11c) evaluation never writes the shared tree: no Eval-path method of a runtime component stores to memory reached from its receiver or to a parser.ASTNode / token it did not allocate; " +
		"(R11d) scope storage is accessed only with the scope tree's lock held."
	r.RuleText = "R11a no WFree write (direct or through hand-off to a writing callee) in closures flowing into engine.Rule.Action; R11b provenance of the (scope, instance-state) arguments of the body's Eval; R11c effect analysis of Eval-reachable interpreter functions; R11d guarded-by varsScope.lock (class based: the tree shares one lock)"
	r.NotCovered = "What the race detector would see in the standard library; error attribution values; isolation of ECAL-level shared globals (a language feature, guarded by mutex blocks)."
	r.Assumptions = []string{"methods called through interfaces are opaque for R11a unless they are module functions (followed one level for parameter writes)", "the scope tree shares one RWMutex (established by SetParentOfScope / NewChild, checked in R11d as writes under the lock)"}

	rtIface := c.Interface("parser", "Runtime")
	if rtIface == nil {
		r.Undecide("parser.Runtime not found")
		return
	}

	// ---- R11a / R11b -------------------------------------------------------------------------
	acts := actionClosures(c)
	r.Floor("R11a-action-closures", len(acts), 1)
	// the summary used for hand-offs out of the action leaves the evaluation of the body aside, in a
	// callee (rt.runAction(…)) as in the literal itself: what Eval methods write is R11c's subject
	pwAct := NewParamWrites(c)
	pwAct.SkipCall = func(ci ssa.CallInstruction) bool {
		return ci.Common().IsInvoke() && types.Identical(ci.Common().Value.Type().Underlying(), rtIface)
	}
	c11BindBeforeParent(c, r, acts)
	cActionThreadID(c, r, "R11g")
	for _, act := range acts {
		for _, fn := range withNested(act) {
			key := c.FuncKey(fn)
			ord := newOrdinals()
			nfree := len(fn.FreeVars)
			bad := false
			for _, w := range WritesOf(fn) {
				if w.Kind != WFree {
					continue
				}
				fv, _ := w.Root.(*ssa.FreeVar)
				name := "?"
				if fv != nil {
					name = fv.Name()
				}
				bad = true
				site := ord.key(key, w.What, name)
				pos := c.Pos(c.InstrPos(w.Instr))
				what := "assigns the captured variable " + name
				if !w.Direct {
					what = "mutates memory reached through the captured variable " + name
				}
				r.Instance("R11a", site, pos, "finding", what, true)
				r.Report(Finding{Rule: "R11a", Site: site, Pos: pos,
					Msg: fmt.Sprintf("%s (a rule action, invoked concurrently by all workers) %s: the variable is shared by every invocation of the sink — one invocation can overwrite or return another invocation's value (a lost or misattributed error)", key, what)})
			}
			// hand-off of captured memory to a writing callee
			allInstrs(fn, func(in ssa.Instruction) {
				ci, ok := in.(ssa.CallInstruction)
				if !ok {
					return
				}
				if ci.Common().IsInvoke() && types.Identical(ci.Common().Value.Type().Underlying(), rtIface) {
					return // evaluation of the body: what Eval methods write is R11c's subject
				}
				for ai, a := range callArgs(ci.Common()) {
					if !isPointerLike(a.Type()) {
						continue
					}
					k, root, _ := classifyTarget(a, 0)
					if k != WFree {
						continue
					}
					for _, callee := range c.Callees(ci) {
						if !c.modFuncSet[callee] {
							continue
						}
						if w, ok := pwAct.Of(callee, 1)[ai]; ok {
							// writes to the scope passed as parent / to the runtime itself?
							bad = true
							name := root.Name()
							site := ord.key(key, "handoff", name+">"+c.FuncKey(callee))
							pos := c.Pos(c.InstrPos(in))
							r.Instance("R11a", site, pos, "finding", "captured memory handed to a writing callee", true)
							r.Report(Finding{Rule: "R11a", Site: site, Pos: pos,
								Msg: fmt.Sprintf("%s passes memory reached through the captured variable %s to %s, which writes through that parameter (%s)", key, name, c.FuncKey(callee), c.Pos(c.InstrPos(w)))})
						}
					}
				}
			})
			if !bad {
				r.Instance("R11a", key, c.Pos(fn.Pos()), "ok", fmt.Sprintf("%d captured variable(s), none written", nfree), true)
			}
			checkFreshFrame(c, r, fn, rtIface, "R11b", nil)
		}
	}

	// ---- R11c ----------------------------------------------------------------------------------
	c11NoSharedTreeWrites(c, r, rtIface)

	// ---- R11d ----------------------------------------------------------------------------------
	lfs := NewLockFlows(c)
	g := newGuardChecker(c, lfs)
	var sfuncs []*ssa.Function
	for _, fn := range c.ModFuncs() {
		if p := c.PkgOf(fn); p == "scope" || p == "interpreter" {
			sfuncs = append(sfuncs, fn)
		}
	}
	total := 0
	for _, fname := range []string{"storage", "children", "parent"} {
		f := c.Field("scope", "varsScope", fname)
		if f == nil {
			r.Undecide("field varsScope.%s not found", fname)
			continue
		}
		total += g.check(r, "R11d", GuardSpec{Field: f, FieldName: "varsScope." + fname, Lock: "scope.varsScope.lock", ReadLockOK: true}, sfuncs,
			func(*ssa.Function) string { return "" })
	}
	r.Floor("R11d", total, 20)

	// R11e: identifiers keying per-invocation records are unique
	nGen := checkIDGenerators(c, r, NewLockFlows(c), "R11e",
		"two overlapping invocations get the same monitor / processor / index id, and the per-invocation records keyed by it (collected errors, task queues) overwrite each other",
		func(p string) bool { return p == "engine" || p == "engine/pubsub" })
	r.Floor("R11e", nGen, 3)
}

// checkFreshFrame: every Runtime.Eval invoked in fn gets a scope that is the result of a
// scope constructor called in fn and an instance-state map made in fn.
func checkFreshFrame(c *Ctx, r *Result, fn *ssa.Function, rtIface *types.Interface, rule string, only func(in ssa.Instruction) bool) int {
	n := 0
	key := c.FuncKey(fn)
	ord := newOrdinals()
	allInstrs(fn, func(in ssa.Instruction) {
		ci, ok := in.(ssa.CallInstruction)
		if !ok || !ci.Common().IsInvoke() || ci.Common().Method.Name() != "Eval" || !types.Identical(ci.Common().Value.Type().Underlying(), rtIface) {
			return
		}
		args := ci.Common().Args
		if len(args) < 2 || (only != nil && !only(in)) {
			return
		}
		n++
		site := ord.key(key, "body-eval", accessPath(ci.Common().Value))
		pos := c.Pos(c.InstrPos(in))
		vsOK, isOK := false, false
		vsWhy, isWhy := accessPath(args[0]), accessPath(args[1])
		if call, ok := unspill(args[0]).(*ssa.Call); ok {
			if f := call.Call.StaticCallee(); f != nil && c.PkgOf(f) == "scope" && strings.HasPrefix(f.Name(), "NewScope") {
				vsOK = true
			}
		}
		switch x := unspill(args[1]).(type) {
		case *ssa.MakeMap:
			isOK = true
			_ = x
		}
		if vsOK && isOK {
			r.Instance(rule, site, pos, "ok", "scope from scope.NewScope*, instance state from make(map) — both allocated in this call", true)
			return
		}
		var miss []string
		if !vsOK {
			miss = append(miss, "scope ("+vsWhy+")")
		}
		if !isOK {
			miss = append(miss, "instance state ("+isWhy+")")
		}
		r.Instance(rule, site, pos, "finding", "not allocated in this call: "+strings.Join(miss, ", "), true)
		r.Report(Finding{Rule: rule, Site: site, Pos: pos,
			Msg: fmt.Sprintf("%s evaluates a body with %s not allocated inside this call: overlapping invocations share it (one invocation sees another's `event`, locals or monitor)", key, strings.Join(miss, " and "))})
	})
	return n
}

// c11NoSharedTreeWrites: R11c.
func c11NoSharedTreeWrites(c *Ctx, r *Result, rtIface *types.Interface) {
	astNode := c.NamedType("parser", "ASTNode")
	lexToken := c.NamedType("parser", "LexToken")
	// entry points: Eval of every runtime component + ECALFunction.Run implementations of package interpreter
	var entries []*ssa.Function
	for _, f := range c.Implementations(rtIface, "Eval") {
		entries = append(entries, f)
	}
	nTypes := len(entries)
	if fi := c.Interface("util", "ECALFunction"); fi != nil {
		for _, f := range c.Implementations(fi, "Run") {
			if c.PkgOf(f) == "interpreter" {
				entries = append(entries, f)
			}
		}
	}
	r.Floor("R11c-component-types", nTypes, 40)
	validate := map[*ssa.Function]bool{}
	for _, f := range c.Implementations(rtIface, "Validate") {
		validate[f] = true
	}
	reach := c.Reachable(entries, func(f *ssa.Function) bool {
		if validate[f] {
			return true
		}
		p := c.PkgOf(f)
		// the parser is entered for imports / interpolation: it builds new trees (C13 covers it);
		// the debugger is C15; the engine is entered through addEvent (C02)
		return p != "interpreter" && p != "scope" && p != "util" && p != "stdlib"
	})
	funcs := append([]*ssa.Function{}, reach.Order...)
	sort.Slice(funcs, func(i, j int) bool { return c.FuncKey(funcs[i]) < c.FuncKey(funcs[j]) })
	dbg := c.Interface("util", "ECALDebugger")
	lfsR11c := NewLockFlows(c)
	for _, fn := range funcs {
		if recv := fn.Signature.Recv(); recv != nil && dbg != nil && types.Implements(recv.Type(), dbg) {
			continue // debugger bookkeeping: C15
		}
		key := c.FuncKey(fn)
		ord := newOrdinals()
		clean := true
		ws := WritesOf(fn)
		lf := lfsR11c.Of(fn)
		for _, w := range ws {
			if lf != nil && len(lf.MayHoldClasses(w.Instr)) > 0 && mustHoldAny(lf, w.Instr) {
				continue // shared table updated under a lock (its discipline is C12's subject)
			}
			fa, isFA := w.Target.(*ssa.FieldAddr)
			var owner *types.Named
			if isFA {
				owner = namedOf(fa.X.Type())
			}
			recvWrite := false
			if w.Kind == WParam && !w.Direct && fn.Signature.Recv() != nil && len(fn.Params) > 0 && w.Root == ssa.Value(fn.Params[0]) {
				if n := namedOf(fn.Params[0].Type()); n != nil && (types.Implements(types.NewPointer(n), rtIface) || types.Implements(n, rtIface)) {
					recvWrite = true
				}
			}
			treeWrite := isFA && owner != nil && (owner == astNode || owner == lexToken) && !freshIn(fa.X)
			if !recvWrite && !treeWrite {
				continue
			}
			clean = false
			desc := accessPath(w.Target)
			site := ord.key(key, w.What, desc)
			pos := c.Pos(c.InstrPos(w.Instr))
			r.Instance("R11c", site, pos, "finding", "write to the shared tree during evaluation", true)
			r.Report(Finding{Rule: "R11c", Site: site, Pos: pos, Path: reach.PathTo(c, fn),
				Msg: fmt.Sprintf("%s (reachable from Eval) writes %s: runtime components and AST nodes are shared by all threads evaluating the same code — overlapping invocations race on it", key, desc)})
		}
		if clean {
			r.Instance("R11c", key, c.Pos(fn.Pos()), "clean", fmt.Sprintf("%d write effect(s), none to the receiver's memory or to a shared AST node/token", len(ws)), len(ws) > 0)
		}
	}
	r.Floor("R11c-reach", len(funcs), 120)
}

// mustHoldAny: some lock is certainly held before the instruction.
func mustHoldAny(lf *LockFlow, in ssa.Instruction) bool {
	for p := range lf.ClassOf {
		if lf.MustHoldPath(in, p, false) {
			return true
		}
	}
	return false
}

// actionBodies: the literal installed as a rule's action, its nested literals and the functions of the
// same package it calls directly (the body of the action as a method: rt.runAction(…)).
func actionBodies(c *Ctx, act *ssa.Function) []*ssa.Function {
	out := withNested(act)
	seen := map[*ssa.Function]bool{}
	for _, f := range out {
		seen[f] = true
	}
	for _, f := range withNested(act) {
		allInstrs(f, func(in ssa.Instruction) {
			ci, ok := in.(ssa.CallInstruction)
			if !ok {
				return
			}
			g := ci.Common().StaticCallee()
			if g == nil || seen[g] || !c.inModule(g) || len(g.Blocks) == 0 || c.PkgOf(g) != c.PkgOf(act) {
				return
			}
			for _, h := range withNested(g) {
				if !seen[h] {
					seen[h] = true
					out = append(out, h)
				}
			}
		})
	}
	return out
}

// ---- R11f: the invocation's own names are bound on a scope that has no parent yet ----------------

// Scope.SetValue assigns to the nearest scope of the chain that already holds the name. The sink
// action binds `event` with SetValue; that defines the name in the invocation's own scope only
// while that scope has no parent. Created with a parent (NewScopeWithParent / NewChild) or
// parented before the binding, a global called `event` in the declaring scope is overwritten
// instead — shared by all invocations.
func c11BindBeforeParent(c *Ctx, r *Result, acts []*ssa.Function) {
	scopeIface := c.Interface("parser", "Scope")
	if scopeIface == nil {
		return
	}
	n := 0
	for _, act := range acts {
		for _, fn := range actionBodies(c, act) {
			key := c.FuncKey(fn)
			ord := newOrdinals()
			var parents []ssa.CallInstruction
			allInstrs(fn, func(in ssa.Instruction) {
				if ci, ok := in.(ssa.CallInstruction); ok && strings.HasSuffix(callName(in), "scope.SetParentOfScope") {
					parents = append(parents, ci)
				}
			})
			allInstrs(fn, func(in ssa.Instruction) {
				ci, ok := in.(ssa.CallInstruction)
				if !ok || !ci.Common().IsInvoke() || ci.Common().Method.Name() != "SetValue" || !types.Identical(ci.Common().Value.Type().Underlying(), scopeIface) {
					return
				}
				n++
				name := accessPath(ci.Common().Args[0])
				if s, ok := constString(ci.Common().Args[0]); ok {
					name = s
				}
				site := ord.key(key, "own-binding", name)
				pos := c.Pos(c.InstrPos(in))
				sv := unspill(ci.Common().Value)
				why := ""
				if call, ok := sv.(*ssa.Call); ok {
					f := call.Call.StaticCallee()
					switch {
					case f != nil && c.PkgOf(f) == "scope" && f.Name() == "NewScope":
						for _, pc := range parents {
							if unspill(pc.Common().Args[0]) == sv && canReach(pc, in) {
								why = "the scope was parented (" + c.Pos(c.InstrPos(pc)) + ") before the binding"
							}
						}
					case f != nil && c.PkgOf(f) == "scope":
						why = "the scope is created with a parent (" + f.Name() + ")"
					case call.Call.IsInvoke() && call.Call.Method.Name() == "NewChild":
						why = "the scope is a child scope (NewChild)"
					default:
						why = "the scope is " + accessPath(sv) + ", not a parent-less scope created in this invocation"
					}
				} else {
					why = "the scope is " + accessPath(sv) + ", not a parent-less scope created in this invocation"
				}
				if why != "" {
					r.Instance("R11f", site, pos, "finding", why, true)
					r.Report(Finding{Rule: "R11f", Site: site, Pos: pos,
						Msg: fmt.Sprintf("%s (a rule action) binds %q with SetValue although %s: SetValue assigns to the nearest scope that already holds the name, so a variable of that name in the declaring scope is overwritten — every overlapping invocation then reads and writes the same `%s`", key, name, why, name)})
					return
				}
				r.Instance("R11f", site, pos, "ok", "bound on a parent-less scope created in this invocation, before it is parented", true)
			})
		}
	}
	r.Floor("R11f", n, 1)
}
