package main

// R03c on the type-checked intermediate representation.
//
// The first version matched the operator closures as syntax (a function literal passed to the typed
// helper). Closure → method value, one parameterised method for == and != ((a == b) == want), or a
// helper between Eval and the typed helper are the same computation spelled differently and made it
// fire. This version resolves the function value handed to the typed helper — a literal, a method
// value, a function — through intermediate same-package functions with their constant arguments,
// and normalises the value that function returns into an expression over its parameters.

import (
	"fmt"
	"go/token"
	"go/types"
	"sort"
	"strings"

	"golang.org/x/tools/go/ssa"
)

var c03Helpers = map[string]bool{"numVal": true, "numOp": true, "strOp": true, "genOp": true, "boolOp": true, "boolVal": true, "listOp": true}

type opApp struct {
	helper string
	fn     *ssa.Function
	env    map[ssa.Value]ssa.Value // free variable / parameter of an intermediate function → value
	pos    token.Pos
}

// c03Applications finds, from an operator's Eval, the calls of the typed helpers with a function
// argument, following static calls inside package interpreter (two levels) and carrying the
// arguments of those calls.
func c03Applications(c *Ctx, eval *ssa.Function) []opApp {
	var out []opApp
	errT := types.Universe.Lookup("error").Type()
	_ = errT
	var walk func(fn *ssa.Function, env map[ssa.Value]ssa.Value, depth int)
	resolve := func(v ssa.Value, env map[ssa.Value]ssa.Value) ssa.Value {
		for i := 0; i < 8; i++ {
			v = unspill(v)
			if w, ok := env[v]; ok && w != v {
				v = w
				continue
			}
			if ld, ok := v.(*ssa.UnOp); ok && ld.Op == token.MUL {
				if w, ok := env[ld.X]; ok {
					v = w
					continue
				}
			}
			break
		}
		return v
	}
	resolveFn := func(v ssa.Value, env map[ssa.Value]ssa.Value) (*ssa.Function, map[ssa.Value]ssa.Value) {
		v = resolve(v, env)
		switch x := v.(type) {
		case *ssa.Function:
			return x, map[ssa.Value]ssa.Value{}
		case *ssa.MakeClosure:
			f, _ := x.Fn.(*ssa.Function)
			if f == nil {
				return nil, nil
			}
			if f.Synthetic != "" && strings.HasSuffix(f.Name(), "$bound") {
				// a method value: the wrapper calls the method
				var m *ssa.Function
				allInstrs(f, func(in ssa.Instruction) {
					if ci, ok := in.(ssa.CallInstruction); ok {
						if g := ci.Common().StaticCallee(); g != nil {
							m = g
						}
					}
				})
				if m == nil {
					return nil, nil
				}
				return m, map[ssa.Value]ssa.Value{}
			}
			ne := map[ssa.Value]ssa.Value{}
			for i, fv := range f.FreeVars {
				if i >= len(x.Bindings) {
					break
				}
				b := x.Bindings[i]
				if a, ok := b.(*ssa.Alloc); ok {
					if srcs := cellSources(a); len(srcs) == 1 {
						ne[fv] = resolve(srcs[0], env)
						continue
					}
				}
				ne[fv] = resolve(b, env)
			}
			return f, ne
		}
		return nil, nil
	}
	seen := map[*ssa.Function]bool{}
	walk = func(fn *ssa.Function, env map[ssa.Value]ssa.Value, depth int) {
		if seen[fn] || depth > 2 {
			return
		}
		seen[fn] = true
		allInstrs(fn, func(in ssa.Instruction) {
			call, ok := in.(*ssa.Call)
			if !ok {
				return
			}
			g := call.Call.StaticCallee()
			if g == nil || !c.inModule(g) || c.PkgOf(g) != "interpreter" {
				return
			}
			if c03Helpers[g.Name()] && g.Signature.Recv() != nil && len(call.Call.Args) >= 2 {
				if _, isSig := call.Call.Args[1].Type().Underlying().(*types.Signature); isSig {
					f, fe := resolveFn(call.Call.Args[1], env)
					out = append(out, opApp{helper: g.Name(), fn: f, env: fe, pos: call.Pos()})
					return
				}
			}
			// an intermediate function: only those that hand a function on, or take the operator's
			// parameters — runtime Eval/Validate of other components are not part of the operator
			if g.Name() == "Eval" || g.Name() == "Validate" || g.Signature.Recv() == nil {
				return
			}
			ne := map[ssa.Value]ssa.Value{}
			for i, p := range g.Params {
				if i < len(call.Call.Args) {
					ne[p] = resolve(call.Call.Args[i], env)
				}
			}
			walk(g, ne, depth+1)
		})
	}
	walk(eval, map[ssa.Value]ssa.Value{}, 0)
	return out
}

// c03ExprOf normalises what the operator function returns (its non-error results) into an
// expression over $1, $2.
func c03ExprOf(app opApp) string {
	f := app.fn
	if f == nil || len(f.Blocks) == 0 {
		return "<unresolved function value>"
	}
	errT := types.Universe.Lookup("error").Type().Underlying().(*types.Interface)
	isErrVal := func(v ssa.Value) bool {
		for d := 0; d < 4; d++ {
			switch x := v.(type) {
			case *ssa.MakeInterface:
				v = x.X
				continue
			case *ssa.ChangeInterface:
				v = x.X
				continue
			}
			break
		}
		return types.Implements(v.Type(), errT) && !isNilConst(v)
	}
	params := f.Params
	if f.Signature.Recv() != nil && len(params) > 0 {
		params = params[1:]
	}
	pIdx := func(p *ssa.Parameter) int {
		for i, q := range params {
			if q == p {
				return i + 1
			}
		}
		return 0
	}
	prec := func(op token.Token) int {
		switch op {
		case token.MUL, token.QUO, token.REM, token.SHL, token.SHR, token.AND, token.AND_NOT:
			return 5
		case token.ADD, token.SUB, token.OR, token.XOR:
			return 4
		case token.EQL, token.NEQ, token.LSS, token.LEQ, token.GTR, token.GEQ:
			return 3
		case token.LAND:
			return 2
		case token.LOR:
			return 1
		}
		return 6
	}
	type ex struct {
		s string
		p int
	}
	var expr func(v ssa.Value, d int) (ex, bool)
	paren := func(e ex, min int) string {
		if e.p < min {
			return "(" + e.s + ")"
		}
		return e.s
	}
	expr = func(v ssa.Value, d int) (ex, bool) {
		if d > 12 {
			return ex{}, false
		}
		if w, ok := app.env[v]; ok && w != v {
			return expr(w, d+1)
		}
		switch x := v.(type) {
		case *ssa.Parameter:
			if i := pIdx(x); i > 0 {
				return ex{fmt.Sprintf("$%d", i), 6}, true
			}
		case *ssa.Const:
			if x.Value == nil {
				return ex{"nil", 6}, true
			}
			return ex{x.Value.ExactString(), 6}, true
		case *ssa.MakeInterface:
			return expr(x.X, d+1)
		case *ssa.ChangeType:
			return expr(x.X, d+1)
		case *ssa.Convert:
			a, ok := expr(x.X, d+1)
			if !ok {
				return ex{}, false
			}
			return ex{types.TypeString(x.Type(), func(*types.Package) string { return "" }) + "(" + a.s + ")", 6}, true
		case *ssa.UnOp:
			if x.Op == token.MUL {
				// a captured variable
				if w, ok := app.env[x.X]; ok {
					return expr(w, d+1)
				}
				return ex{}, false
			}
			a, ok := expr(x.X, d+1)
			if !ok {
				return ex{}, false
			}
			return ex{x.Op.String() + paren(a, 6), 6}, true
		case *ssa.BinOp:
			a, ok1 := expr(x.X, d+1)
			b, ok2 := expr(x.Y, d+1)
			if !ok1 || !ok2 {
				return ex{}, false
			}
			// (A == B) == true → A == B ; == false → the negated comparison
			if x.Op == token.EQL || x.Op == token.NEQ {
				for _, pair := range [][2]ex{{a, b}, {b, a}} {
					if pair[1].s == "true" || pair[1].s == "false" {
						same := (pair[1].s == "true") == (x.Op == token.EQL)
						if inner, isBO := stripMI(x.X).(*ssa.BinOp); isBO && pair[0].s == a.s {
							if same {
								return a, true
							}
							if na, ok := expr(&ssa.BinOp{Op: negateOp(inner.Op), X: inner.X, Y: inner.Y}, d+1); ok && negateOp(inner.Op) != inner.Op {
								return na, true
							}
						}
						if inner, isBO := stripMI(x.Y).(*ssa.BinOp); isBO && pair[0].s == b.s {
							if same {
								return b, true
							}
							if nb, ok := expr(&ssa.BinOp{Op: negateOp(inner.Op), X: inner.X, Y: inner.Y}, d+1); ok && negateOp(inner.Op) != inner.Op {
								return nb, true
							}
						}
					}
				}
			}
			p := prec(x.Op)
			return ex{paren(a, p) + " " + x.Op.String() + " " + paren(b, p+1), p}, true
		case *ssa.Call:
			if g := x.Call.StaticCallee(); g != nil && g.Pkg != nil && !x.Call.IsInvoke() {
				var as []string
				for _, a := range x.Call.Args {
					e, ok := expr(a, d+1)
					if !ok {
						return ex{}, false
					}
					as = append(as, e.s)
				}
				return ex{g.Pkg.Pkg.Name() + "." + g.Name() + "(" + strings.Join(as, ", ") + ")", 6}, true
			}
		case *ssa.Phi:
			// a && b: phi(false from the block testing a, b) ; a || b: phi(true, b)
			if len(x.Edges) == 2 && x.Type().Underlying().String() == "bool" {
				for i := 0; i < 2; i++ {
					cv, isC := x.Edges[i].(*ssa.Const)
					if !isC || cv.Value == nil {
						continue
					}
					pb := x.Block().Preds[i]
					ifi, isIf := pb.Instrs[len(pb.Instrs)-1].(*ssa.If)
					if !isIf {
						continue
					}
					a, ok1 := expr(ifi.Cond, d+1)
					b, ok2 := expr(x.Edges[1-i], d+1)
					if !ok1 || !ok2 {
						continue
					}
					if cv.Value.String() == "false" && pb.Succs[1] == x.Block() {
						return ex{paren(a, 2) + " && " + paren(b, 3), 2}, true
					}
					if cv.Value.String() == "true" && pb.Succs[0] == x.Block() {
						return ex{paren(a, 1) + " || " + paren(b, 2), 1}, true
					}
				}
			}
		}
		return ex{}, false
	}
	// a nil result on a path that stores an error into a captured variable is the error path of an
	// operator that reports its error through the enclosing function (opErr = …; return nil)
	nilIsErrorPath := func() bool {
		found := false
		allInstrs(f, func(in ssa.Instruction) {
			ret, ok := in.(*ssa.Return)
			if !ok || len(ret.Results) == 0 || !isNilConst(ret.Results[0]) {
				return
			}
			stored := false
			allInstrs(f, func(x ssa.Instruction) {
				st, ok := x.(*ssa.Store)
				if !ok || !dominates(st, ret) {
					return
				}
				if _, isFV := st.Addr.(*ssa.FreeVar); isFV && types.Implements(st.Val.Type(), errT) {
					stored = true
				}
			})
			if stored {
				found = true
			}
		})
		return found
	}
	var vals []ssa.Value
	for _, rv := range returnedValues(f, 0) {
		if isErrVal(rv) {
			continue
		}
		if isNilConst(rv) && nilIsErrorPath() {
			continue
		}
		vals = append(vals, rv)
	}
	if len(vals) == 1 {
		if e, ok := expr(vals[0], 0); ok {
			return e.s
		}
		return "<unrecognised expression>"
	}
	// the membership loop: returns true where $1 == an element of $2, false after the loop
	if len(vals) == 2 && len(params) == 2 {
		hasT, hasF := false, false
		for _, v := range vals {
			if cv, ok := stripMI(v).(*ssa.Const); ok && cv.Value != nil {
				if cv.Value.String() == "true" {
					hasT = true
				} else if cv.Value.String() == "false" {
					hasF = true
				}
			}
		}
		cmpOK := false
		allInstrs(f, func(in ssa.Instruction) {
			bo, ok := in.(*ssa.BinOp)
			if !ok || bo.Op != token.EQL {
				return
			}
			isP1 := func(v ssa.Value) bool { p, ok := stripMI(v).(*ssa.Parameter); return ok && pIdx(p) == 1 }
			isElem := func(v ssa.Value) bool {
				ld, ok := stripMI(v).(*ssa.UnOp)
				if !ok || ld.Op != token.MUL {
					return false
				}
				ia, ok := ld.X.(*ssa.IndexAddr)
				if !ok {
					return false
				}
				p, ok := ia.X.(*ssa.Parameter)
				return ok && pIdx(p) == 2
			}
			if !((isP1(bo.X) && isElem(bo.Y)) || (isP1(bo.Y) && isElem(bo.X))) || !inLoop(bo.Block()) {
				return
			}
			// return true exactly on the true edge of this comparison
			for _, ref := range *bo.Referrers() {
				if ifi, isIf := ref.(*ssa.If); isIf {
					tb := ifi.Block().Succs[0]
					if ret, isRet := tb.Instrs[len(tb.Instrs)-1].(*ssa.Return); isRet && len(ret.Results) > 0 {
						if cv, ok := stripMI(ret.Results[0]).(*ssa.Const); ok && cv.Value != nil && cv.Value.String() == "true" {
							cmpOK = true
						}
					}
				}
			}
		})
		if hasT && hasF && cmpOK {
			return "<in-loop>"
		}
	}
	var ss []string
	for _, v := range vals {
		if e, ok := expr(v, 0); ok {
			ss = append(ss, e.s)
		} else {
			ss = append(ss, "?")
		}
	}
	sort.Strings(ss)
	return "<" + strings.Join(ss, " | ") + ">"
}

func stripMI(v ssa.Value) ssa.Value {
	for d := 0; d < 4; d++ {
		switch x := v.(type) {
		case *ssa.MakeInterface:
			v = x.X
		case *ssa.ChangeType:
			v = x.X
		default:
			return v
		}
	}
	return v
}
