package main

// Findings, known findings, evidence and replay files.

import (
	"bufio"
	"crypto/sha1"
	"encoding/json"
	"fmt"
	"os"
	"path/filepath"
	"regexp"
	"sort"
	"strings"
	"time"
)

// Finding is one reported construct.
type Finding struct {
	Rule string   `json:"rule"`
	Site string   `json:"site"` // stable key: function + construct (+ ordinal); never a line number
	Pos  string   `json:"pos"`  // file:line:col at the time of the run (diagnostic only)
	Msg  string   `json:"msg"`
	Path []string `json:"path,omitempty"` // entry point -> ... -> function / CFG path
}

// Sample is one examined rule instance written to the evidence.
type Sample struct {
	Rule    string `json:"rule"`
	Site    string `json:"site"`
	Pos     string `json:"pos,omitempty"`
	Verdict string `json:"verdict"`
	Why     string `json:"why,omitempty"`
}

// Result of checking one property.
type Result struct {
	Prop        string
	Explanation string
	RuleText    string
	NotCovered  string

	evaluations int
	nontrivial  map[string]bool
	samples     []Sample
	perRule     map[string]int
	sampleCount map[string]int

	Obligations int
	Discharged  int

	Findings    []Finding
	Undecided   []string // anchors that could not be resolved, unevaluable guards, floors not met
	Extra       map[string]interface{}
	Assumptions []string
	Floors      map[string][2]int // rule -> (found, floor)
}

func NewResult(prop string) *Result {
	return &Result{Prop: prop, nontrivial: map[string]bool{}, perRule: map[string]int{},
		sampleCount: map[string]int{}, Extra: map[string]interface{}{}, Floors: map[string][2]int{}}
}

// Instance records one examined rule instance. nontrivial = the rule's condition
// actually had to be established (a guard, a dominance, a lock) at this instance.
func (r *Result) Instance(rule, site, pos, verdict, why string, nontrivial bool) {
	r.evaluations++
	r.perRule[rule]++
	if nontrivial {
		r.nontrivial[rule+"|"+site] = true
	}
	// keep the evidence readable: up to 6 samples per rule and verdict class
	k := rule + "|" + verdictClass(verdict)
	if r.sampleCount[k] < 6 {
		r.sampleCount[k]++
		r.samples = append(r.samples, Sample{rule, site, pos, verdict, why})
	}
}

func verdictClass(v string) string {
	if i := strings.IndexAny(v, " :("); i > 0 {
		return v[:i]
	}
	return v
}

func (r *Result) Report(f Finding) {
	f.Site = sanitizeSite(f.Site)
	r.Findings = append(r.Findings, f)
}

func (r *Result) Undecide(format string, a ...interface{}) {
	r.Undecided = append(r.Undecided, fmt.Sprintf(format, a...))
}

// Floor asserts that a rule matched at least `floor` instances.
func (r *Result) Floor(rule string, found, floor int) {
	r.Floors[rule] = [2]int{found, floor}
	if found < floor {
		r.Undecide("rule %s matched %d instance(s), fewer than the %d confirmed by hand (the rule would pass vacuously)", rule, found, floor)
	}
}

var ssaTempName = regexp.MustCompile(`\bt[0-9]+\b`)

func sanitizeSite(s string) string {
	// SSA register numbers change with unrelated edits of the function: not part of a key
	s = ssaTempName.ReplaceAllString(s, "t")
	s = strings.ReplaceAll(s, " ", "")
	s = strings.ReplaceAll(s, "\t", "")
	s = strings.ReplaceAll(s, "\n", "")
	return s
}

// ---- known findings --------------------------------------------------------------------------

type Known struct {
	Prop, Rule, Site, Desc string
	Line                   int
	used                   bool
}

type KnownFile struct {
	Known []*Known
	Fixed []string
}

func LoadKnown(path string) (*KnownFile, error) {
	kf := &KnownFile{}
	f, err := os.Open(path)
	if err != nil {
		if os.IsNotExist(err) {
			return kf, nil
		}
		return nil, err
	}
	defer f.Close()
	sc := bufio.NewScanner(f)
	sc.Buffer(make([]byte, 1<<20), 1<<20)
	n := 0
	for sc.Scan() {
		n++
		line := strings.TrimSpace(sc.Text())
		if line == "" || strings.HasPrefix(line, "#") {
			continue
		}
		switch {
		case strings.HasPrefix(line, "fixed:"):
			kf.Fixed = append(kf.Fixed, strings.TrimSpace(strings.TrimPrefix(line, "fixed:")))
		case strings.HasPrefix(line, "known:"):
			rest := strings.TrimSpace(strings.TrimPrefix(line, "known:"))
			head, desc := rest, ""
			if i := strings.Index(rest, " :: "); i >= 0 {
				head, desc = rest[:i], strings.TrimSpace(rest[i+4:])
			}
			k := &Known{Desc: desc, Line: n}
			for _, fld := range strings.Fields(head) {
				kv := strings.SplitN(fld, "=", 2)
				if len(kv) != 2 {
					continue
				}
				switch kv[0] {
				case "property":
					k.Prop = kv[1]
				case "rule":
					k.Rule = kv[1]
				case "site":
					k.Site = kv[1]
				}
			}
			if k.Prop == "" || k.Rule == "" || k.Site == "" {
				return nil, fmt.Errorf("%s:%d: known: line needs property=, rule= and site=", path, n)
			}
			kf.Known = append(kf.Known, k)
		default:
			return nil, fmt.Errorf("%s:%d: line must start with 'known:' or 'fixed:'", path, n)
		}
	}
	return kf, sc.Err()
}

// peek is match without marking the entry as used.
func (kf *KnownFile) peek(prop string, f Finding) *Known {
	for _, k := range kf.Known {
		if k.Prop == prop && k.Rule == f.Rule && k.Site == f.Site {
			return k
		}
	}
	return nil
}

func (kf *KnownFile) match(prop string, f Finding) *Known {
	for _, k := range kf.Known {
		if k.Prop == prop && k.Rule == f.Rule && k.Site == f.Site {
			k.used = true
			return k
		}
	}
	return nil
}

// ---- output -------------------------------------------------------------------------------------

type runInfo struct {
	verif   string
	tier    string
	seed    int64
	start   time.Time
	configs []string
	stats   map[string]interface{}
}

// Finish prints the report, writes evidence and replay files and returns the exit code.
func (r *Result) Finish(ri *runInfo, kf *KnownFile) int {
	sort.SliceStable(r.Findings, func(i, j int) bool {
		if r.Findings[i].Rule != r.Findings[j].Rule {
			return r.Findings[i].Rule < r.Findings[j].Rule
		}
		return r.Findings[i].Site < r.Findings[j].Site
	})
	// de-duplicate (the same construct reported under several configurations)
	var uniq []Finding
	seen := map[string]bool{}
	for _, f := range r.Findings {
		k := f.Rule + "|" + f.Site
		if !seen[k] {
			seen[k] = true
			uniq = append(uniq, f)
		}
	}
	r.Findings = uniq

	// a known finding whose construct moved (its function was split or renamed): the listed site is
	// no longer reported, and exactly one unlisted finding of the same rule in the same package has
	// the same construct text — it is the same defect at its new address
	moved := map[string]*Known{}
	{
		reported := map[string]bool{}
		for _, f := range r.Findings {
			reported[f.Rule+"|"+f.Site] = true
		}
		tail := func(site string) (pkg, t string) {
			i := strings.Index(site, "#")
			if i < 0 {
				return "", ""
			}
			fnKey, rest := site[:i], site[i:]
			if j := strings.LastIndex(rest, "#"); j > 0 {
				digits := j+1 < len(rest)
				for _, ch := range rest[j+1:] {
					if ch < '0' || ch > '9' {
						digits = false
					}
				}
				if digits {
					rest = rest[:j]
				}
			}
			if j := strings.Index(fnKey, "."); j >= 0 {
				fnKey = fnKey[:j]
			}
			return fnKey, rest
		}
		for _, k := range kf.Known {
			if k.Prop != r.Prop || reported[k.Rule+"|"+k.Site] {
				continue
			}
			kp, kt := tail(k.Site)
			if kt == "" {
				continue
			}
			var cands []Finding
			for _, f := range r.Findings {
				if f.Rule != k.Rule || kf.peek(r.Prop, f) != nil {
					continue
				}
				if fp, ft := tail(f.Site); fp == kp && ft == kt {
					cands = append(cands, f)
				}
			}
			if len(cands) == 1 {
				moved[cands[0].Rule+"|"+cands[0].Site] = k
			}
		}
	}
	violations := 0
	var knownHit []string
	for _, f := range r.Findings {
		if k := moved[f.Rule+"|"+f.Site]; k != nil {
			k.used = true
			fmt.Printf("KNOWN-FINDING: property=%s rule=%s site=%s (listed as %s; the construct moved) %s (%s)\n", r.Prop, f.Rule, f.Site, k.Site, k.Desc, f.Pos)
			knownHit = append(knownHit, f.Rule+" "+f.Site)
			continue
		}
		if k := kf.match(r.Prop, f); k != nil {
			fmt.Printf("KNOWN-FINDING: property=%s rule=%s site=%s %s (%s)\n", r.Prop, f.Rule, f.Site, k.Desc, f.Pos)
			knownHit = append(knownHit, f.Rule+" "+f.Site)
			continue
		}
		violations++
		fmt.Printf("%s %s: %s (%s)\n", r.Prop, f.Rule, f.Msg, f.Pos)
		if len(f.Path) > 0 {
			fmt.Printf("    via %s\n", strings.Join(f.Path, " -> "))
		}
		fmt.Printf("    site=%s\n", f.Site)
		p := writeReplay(ri.verif, r.Prop, f, r.RuleText)
		fmt.Printf("VIOLATION property=%s replay=%s\n", r.Prop, p)
	}
	for _, u := range r.Undecided {
		violations++
		f := Finding{Rule: "undecided", Site: sanitizeSite(shortHash(u)), Msg: u}
		fmt.Printf("%s UNDECIDED: %s\n", r.Prop, u)
		p := writeReplay(ri.verif, r.Prop, f, "a check that cannot decide its rule fails; it never reports 'held'")
		fmt.Printf("VIOLATION property=%s replay=%s\n", r.Prop, p)
	}
	var stale []string
	for _, k := range kf.Known {
		if k.Prop == r.Prop && !k.used {
			stale = append(stale, k.Rule+" "+k.Site)
		}
	}

	cov := map[string]interface{}{
		"explanation":         r.Explanation,
		"rule":                r.RuleText,
		"not_covered":         r.NotCovered,
		"evaluations":         r.evaluations,
		"distinct_nontrivial": len(r.nontrivial),
		"samples":             r.samples,
		"instances_per_rule":  r.perRule,
		"instance_floors":     r.Floors,
		"known_findings":      knownHit,
		"stale_known":         stale,
		"configs":             ri.configs,
		"exhaustive":          true,
	}
	if r.Obligations > 0 {
		cov["obligations"] = r.Obligations
		cov["discharged"] = r.Discharged
	}
	for k, v := range ri.stats {
		cov[k] = v
	}
	for k, v := range r.Extra {
		cov[k] = v
	}
	if len(r.samples) == 0 {
		cov["samples"] = []Sample{{Rule: "-", Site: "-", Verdict: "no instance examined"}}
	}
	ev := map[string]interface{}{
		"property_id": r.Prop,
		"tier":        ri.tier,
		"seed":        ri.seed,
		"level":       "other",
		"coverage":    cov,
		"assumptions": r.Assumptions,
		"wall_s":      time.Since(ri.start).Seconds(),
		"violations":  violations,
	}
	if r.Assumptions == nil {
		ev["assumptions"] = []string{}
	}
	dir := filepath.Join(ri.verif, "evidence")
	os.MkdirAll(dir, 0o755)
	b, _ := json.MarshalIndent(ev, "", " ")
	if err := os.WriteFile(filepath.Join(dir, r.Prop+".json"), append(b, '\n'), 0o644); err != nil {
		fmt.Printf("%s: cannot write evidence: %v\n", r.Prop, err)
		return 1
	}
	fmt.Printf("%s: %d rule instance(s) examined, %d non-trivial, %d finding(s): %d known, %d violation(s) [%s, %.1fs]\n",
		r.Prop, r.evaluations, len(r.nontrivial), len(r.Findings), len(knownHit), violations, ri.tier, time.Since(ri.start).Seconds())
	if violations > 0 {
		return 1
	}
	return 0
}

func shortHash(s string) string {
	h := sha1.Sum([]byte(s))
	return fmt.Sprintf("%x", h[:5])
}

type replayFile struct {
	Property string   `json:"property"`
	Rule     string   `json:"rule"`
	Site     string   `json:"site"`
	Pos      string   `json:"pos"`
	Msg      string   `json:"msg"`
	Path     []string `json:"path,omitempty"`
	RuleText string   `json:"rule_text"`
	How      string   `json:"how_to_replay"`
}

func writeReplay(verif, prop string, f Finding, ruleText string) string {
	dir := filepath.Join(verif, "replays", prop)
	os.MkdirAll(dir, 0o755)
	p := filepath.Join(dir, shortHash(f.Rule+"|"+f.Site)+".json")
	rf := replayFile{prop, f.Rule, f.Site, f.Pos, f.Msg, f.Path, ruleText,
		"./run.sh replay " + p + "  (re-decides this rule instance on the current /repo tree)"}
	b, _ := json.MarshalIndent(rf, "", " ")
	os.WriteFile(p, append(b, '\n'), 0o644)
	return p
}
