package main

// C02 — waiting on an event returns after its whole cascade, with exactly its errors.

import (
	"fmt"
	"go/token"
	"go/types"
	"sort"
	"strings"

	"golang.org/x/tools/go/ssa"
)

func init() { register("C02", checkC02) }

// callSites returns the call instructions of fn whose callee satisfies pred.
func callSites(fn *ssa.Function, pred func(name string, ci ssa.CallInstruction) bool) []ssa.CallInstruction {
	var out []ssa.CallInstruction
	allInstrs(fn, func(in ssa.Instruction) {
		if ci, ok := in.(ssa.CallInstruction); ok {
			if pred(callName(in), ci) {
				out = append(out, ci)
			}
		}
	})
	return out
}

// fieldStores lists the stores to a struct field over the module.
func fieldStores(c *Ctx, f *types.Var) []*ssa.Store {
	var out []*ssa.Store
	for _, fn := range c.ModFuncs() {
		for _, a := range accessesOf(fn, f) {
			if st, ok := a.Instr.(*ssa.Store); ok && a.Write {
				out = append(out, st)
			}
		}
	}
	return out
}

// storeDelta classifies a store `x.f = x.f ± k`.
func storeDelta(st *ssa.Store) (int64, bool) {
	bo, ok := st.Val.(*ssa.BinOp)
	if !ok {
		return 0, false
	}
	k, isC := constInt(bo.Y)
	if !isC || accessPath(bo.X) != accessPath(st.Addr) {
		return 0, false
	}
	switch bo.Op {
	case token.ADD:
		return k, true
	case token.SUB:
		return -k, true
	}
	return 0, false
}

// reachesFunc: does a call in fn (transitively, depth levels) reach one of the targets?
func callReaches(c *Ctx, ci ssa.CallInstruction, targets map[*ssa.Function]bool, depth int) bool {
	for _, callee := range c.Callees(ci) {
		if targets[callee] {
			return true
		}
		if depth > 0 && c.modFuncSet[callee] {
			found := false
			allInstrs(callee, func(in ssa.Instruction) {
				if found {
					return
				}
				if c2, ok := in.(ssa.CallInstruction); ok {
					if _, isGo := in.(*ssa.Go); !isGo && callReaches(c, c2, targets, depth-1) {
						found = true
					}
				}
			})
			if found {
				return true
			}
		}
	}
	return false
}

func checkC02(c *Ctx, r *Result, tier string) {
	r.Explanation = "Decides the orderings and the lock discipline on which the completion-counting argument of the engine rests: (R02a) a child monitor is counted before NewChildMonitor returns, a monitor is activated before its task is queued, the wait observer is registered before the event is added and the wait is passed on every path that returns a monitor; " +
		"(R02b) a task finishes its monitor exactly on the error-free path after ProcessEvent, errors are attached before the monitor finishes, the finished notification is posted exactly under the zero test taken after the decrement; " +
		"(R02c) counter/tables only under their locks — so the zero test is atomic with the decrement; (R02d) the notification is posted outside the monitor lock and the engine's lock order is acyclic (no deadlocked wait)."
	r.RuleText = "R02a dominance/must-pass orderings; R02b per-return classification (nil ⇒ Finish dominates; non-nil ⇒ Finish unreachable), SetErrors dominates Finish, post control-dependent on unfinished==0 after the decrement; R02c guarded-by; R02d no PostEvent under RootMonitor.lock, acyclic lock-order graph over engine lock classes"
	r.NotCovered = "That the notification fires exactly once for every history (user code keeping a monitor can re-increment a finished counter), error attribution values, that actions terminate."
	r.Assumptions = []string{"the counting argument: a child is counted before its parent can finish; each monitor finishes once (asserted by the code); zero test atomic with the decrement", "sync.WaitGroup semantics"}

	lfs := NewLockFlows(c)
	monIface := c.Interface("engine", "Monitor")
	procIface := c.Interface("engine", "Processor")
	fUnfinished := c.Field("engine", "RootMonitor", "unfinished")
	if monIface == nil || procIface == nil || fUnfinished == nil {
		r.Undecide("engine.Monitor / engine.Processor / RootMonitor.unfinished not found")
		return
	}

	// functions incrementing / decrementing the unfinished counter
	incr, decr := map[*ssa.Function]bool{}, map[*ssa.Function]bool{}
	for _, st := range fieldStores(c, fUnfinished) {
		if d, ok := storeDelta(st); ok {
			if d > 0 {
				incr[st.Parent()] = true
			} else if d < 0 {
				decr[st.Parent()] = true
			}
		}
	}
	r.Floor("R02-counter-inc", len(incr), 1)
	r.Floor("R02-counter-dec", len(decr), 1)

	// ---- R02a (1) NewChildMonitor ---------------------------------------------------------
	n := 0
	for _, fn := range c.Implementations(monIface, "NewChildMonitor") {
		n++
		key := c.FuncKey(fn)
		var incCalls []ssa.CallInstruction
		allInstrs(fn, func(in ssa.Instruction) {
			if ci, ok := in.(ssa.CallInstruction); ok {
				if _, isDefer := in.(*ssa.Defer); !isDefer && callReaches(c, ci, incr, 2) {
					incCalls = append(incCalls, ci)
				}
			}
		})
		bad := false
		allInstrs(fn, func(in ssa.Instruction) {
			if _, ok := in.(*ssa.Return); !ok || in.Block() == fn.Recover {
				return
			}
			dom := false
			for _, ic := range incCalls {
				if dominates(ic, in) {
					dom = true
				}
			}
			if !dom {
				bad = true
				pos := c.Pos(c.InstrPos(in))
				r.Report(Finding{Rule: "R02a-child-counted", Site: key + "#return", Pos: pos,
					Msg: key + ": a return is not dominated by the call that increments the root's unfinished counter — the child could be handed out uncounted and its parent's cascade reported finished while the child's event is still being processed"})
			}
		})
		r.Instance("R02a-child-counted", key, c.Pos(fn.Pos()), map[bool]string{false: "ok", true: "finding"}[bad], fmt.Sprintf("%d counting call(s) dominate every return", len(incCalls)), true)
	}
	r.Floor("R02a-child-counted", n, 1)

	// ---- R02a (2) AddEvent: Activate before AddTask ------------------------------------------
	n = 0
	// AddEvent and the same-package helpers it hands the scheduling to
	var schedFns []*ssa.Function
	seenSched := map[*ssa.Function]bool{}
	var addSched func(fn *ssa.Function, d int)
	addSched = func(fn *ssa.Function, d int) {
		if seenSched[fn] || d > 2 {
			return
		}
		seenSched[fn] = true
		schedFns = append(schedFns, fn)
		for h := range staticCalleesIn(c, fn) {
			if c.PkgOf(h) == "engine" && h.Name() != "AddEvent" {
				addSched(h, d+1)
			}
		}
	}
	for _, fn := range c.Implementations(procIface, "AddEvent") {
		addSched(fn, 0)
	}
	sort.Slice(schedFns, func(i, j int) bool { return c.FuncKey(schedFns[i]) < c.FuncKey(schedFns[j]) })
	for _, fn := range schedFns {
		key := c.FuncKey(fn)
		adds := callSites(fn, func(name string, ci ssa.CallInstruction) bool {
			return strings.HasSuffix(name, "engine/pool.ThreadPool.AddTask")
		})
		acts := callSites(fn, func(name string, ci ssa.CallInstruction) bool {
			return ci.Common().IsInvoke() && ci.Common().Method.Name() == "Activate" && types.Identical(ci.Common().Value.Type().Underlying(), monIface)
		})
		for i, a := range adds {
			n++
			site := fmt.Sprintf("%s#AddTask#%d", key, i)
			pos := c.Pos(c.InstrPos(a))
			ok := false
			for _, act := range acts {
				if dominates(act, a) {
					ok = true
				}
			}
			if ok {
				r.Instance("R02a-activate-first", site, pos, "ok", "Monitor.Activate dominates pool.AddTask", true)
			} else {
				r.Instance("R02a-activate-first", site, pos, "finding", "task queued before activation", true)
				r.Report(Finding{Rule: "R02a-activate-first", Site: site, Pos: pos,
					Msg: key + ": the task is handed to the pool before (not dominated by) the activation of its monitor — a worker can finish the monitor before it is active (assertion failure) and priorities are unaccounted"})
			}
		}
	}
	r.Floor("R02a-activate-first", n, 1)

	// ---- R02a (3) AddEventAndWait ---------------------------------------------------------------
	n = 0
	for _, fn := range c.Implementations(procIface, "AddEventAndWait") {
		n++
		c02Wait(c, r, fn, procIface)
	}
	r.Floor("R02a-wait", n, 1)
	c02ObserverScope(c, r)
	c02ItemsOwnContainers(c, r)
	c02CallbacksOutsideLocks(c, r, lfs)

	// ---- R02b Task.Run / HandleError -----------------------------------------------------------
	taskIface := c.Interface("engine/pool", "Task")
	if taskIface == nil {
		r.Undecide("pool.Task not found")
		return
	}
	n = 0
	for _, fn := range c.Implementations(taskIface, "Run") {
		if c.PkgOf(fn) != "engine" {
			continue
		}
		n++
		c02TaskRun(c, r, fn, monIface, procIface)
	}
	r.Floor("R02b-run", n, 1)
	n = 0
	for _, fn := range c.Implementations(taskIface, "HandleError") {
		if c.PkgOf(fn) != "engine" {
			continue
		}
		n++
		key := c.FuncKey(fn)
		isMon := func(m string) func(string, ssa.CallInstruction) bool {
			return func(_ string, ci ssa.CallInstruction) bool {
				return ci.Common().IsInvoke() && ci.Common().Method.Name() == m && types.Identical(ci.Common().Value.Type().Underlying(), monIface)
			}
		}
		sets := callSites(fn, isMon("SetErrors"))
		fins := callSites(fn, isMon("Finish"))
		ok := len(sets) > 0 && len(fins) == 1
		for _, f := range fins {
			dom := false
			for _, s := range sets {
				if dominates(s, f) {
					dom = true
				}
			}
			if !dom {
				ok = false
			}
			// Finish on every path: dominates every return
			allInstrs(fn, func(in ssa.Instruction) {
				if _, isRet := in.(*ssa.Return); isRet && in.Block() != fn.Recover && !dominates(f, in) {
					ok = false
				}
			})
		}
		if ok {
			r.Instance("R02b-errors-before-finish", key, c.Pos(fn.Pos()), "ok", "SetErrors dominates the single Finish, which dominates every return", true)
		} else {
			r.Instance("R02b-errors-before-finish", key, c.Pos(fn.Pos()), "finding", "errors not attached before finish", true)
			r.Report(Finding{Rule: "R02b-errors-before-finish", Site: key, Pos: c.Pos(fn.Pos()),
				Msg: key + ": the monitor is not finished exactly once on every path after the errors were attached (SetErrors must dominate Finish; Finish must dominate every return): a waiter could be released before the error report is complete, or never"})
		}
	}
	r.Floor("R02b-errors-before-finish", n, 1)

	// ---- R02b finished notification under the zero test ----------------------------------------
	n = 0
	// a post is PostEvent itself or a helper of the package that posts on every path and touches no lock
	// (rm.postFinished())
	isPost := func(name string, ci ssa.CallInstruction) bool {
		if strings.HasSuffix(name, "pubsub.EventPump.PostEvent") {
			return true
		}
		g := ci.Common().StaticCallee()
		if g == nil || !c.inModule(g) || c.PkgOf(g) != "engine" || len(g.Blocks) == 0 {
			return false
		}
		inner := callSites(g, func(name string, _ ssa.CallInstruction) bool {
			return strings.HasSuffix(name, "pubsub.EventPump.PostEvent")
		})
		if len(inner) != 1 {
			return false
		}
		always := true
		allInstrs(g, func(in ssa.Instruction) {
			if _, isRet := in.(*ssa.Return); isRet && in.Block() != g.Recover && !dominates(inner[0], in) {
				always = false
			}
			if _, isLock := lockOpOf(in); isLock {
				always = false
			}
		})
		return always
	}
	for fn := range decr {
		posts := callSites(fn, isPost)
		key := c.FuncKey(fn)
		if len(posts) == 0 {
			// the bookkeeping may live in a helper that reports "this was the last one" to its
			// caller: every returned value is the zero test taken after the decrement, and every
			// caller posts exactly under that result
			if okFlag, whyFlag := c02ReturnsZeroTest(fn, fUnfinished); okFlag {
				callers := 0
				for _, caller := range c.ModFuncs() {
					if c.PkgOf(caller) != c.PkgOf(fn) {
						continue
					}
					for _, site := range callSites(caller, func(_ string, ci ssa.CallInstruction) bool { return ci.Common().StaticCallee() == fn }) {
						callers++
						ckey := c.FuncKey(caller)
						cposts := callSites(caller, isPost)
						if len(cposts) == 0 {
							r.Report(Finding{Rule: "R02b-post", Site: ckey + "#post", Pos: c.Pos(caller.Pos()),
								Msg: ckey + " learns from " + key + " that the last monitor finished but never posts the finished notification"})
							continue
						}
						for i, p := range cposts {
							n++
							psite := fmt.Sprintf("%s#PostEvent#%d", ckey, i)
							ppos := c.Pos(c.InstrPos(p))
							under := false
							if v, isVal := site.(ssa.Value); isVal {
								under = FactsAt(p).TrueV[v]
							}
							if under {
								r.Instance("R02b-post", psite, ppos, "ok", "posted exactly under the result of "+fn.Name()+"(), which is unfinished == 0 read after the decrement", true)
							} else {
								r.Instance("R02b-post", psite, ppos, "finding", "post not under the helper's result", true)
								r.Report(Finding{Rule: "R02b-post", Site: psite, Pos: ppos, Msg: ckey + ": the finished notification is not control dependent on the result of " + fn.Name() + "() (the zero test of the unfinished counter): it could fire early, late or more than once"})
							}
							if lf := lfs.Of(caller); lf != nil {
								if held := lf.MayHoldClasses(p); len(held) > 0 {
									r.Instance("R02d-post-outside-lock", psite, ppos, "finding", "posted with "+strings.Join(held, ",")+" possibly held", true)
									r.Report(Finding{Rule: "R02d-post-outside-lock", Site: psite, Pos: ppos,
										Msg: fmt.Sprintf("%s: the finished notification is posted while %s may be held: observers run under the monitor lock and any of them touching the monitor deadlocks", ckey, strings.Join(held, ","))})
								} else {
									r.Instance("R02d-post-outside-lock", psite, ppos, "ok", "no lock held at the post", true)
								}
							}
						}
					}
				}
				if callers > 0 {
					continue
				}
				whyFlag = "it returns the zero test but is never called"
				_ = whyFlag
			}
			r.Report(Finding{Rule: "R02b-post", Site: key + "#post", Pos: c.Pos(fn.Pos()),
				Msg: key + " decrements the unfinished counter but never posts the finished notification"})
			continue
		}
		for i, p := range posts {
			n++
			site := fmt.Sprintf("%s#PostEvent#%d", key, i)
			pos := c.Pos(c.InstrPos(p))
			ok, why := c02ZeroTest(fn, p, fUnfinished)
			if ok {
				r.Instance("R02b-post", site, pos, "ok", why, true)
			} else {
				r.Instance("R02b-post", site, pos, "finding", why, true)
				r.Report(Finding{Rule: "R02b-post", Site: site, Pos: pos, Msg: key + ": " + why})
			}
			// R02d: not under the monitor lock
			if lf := lfs.Of(fn); lf != nil {
				held := lf.MayHoldClasses(p)
				if len(held) > 0 {
					r.Instance("R02d-post-outside-lock", site, pos, "finding", "posted with "+strings.Join(held, ",")+" possibly held", true)
					r.Report(Finding{Rule: "R02d-post-outside-lock", Site: site, Pos: pos,
						Msg: fmt.Sprintf("%s: the finished notification is posted while %s may be held: observers (the waiter, the task queue, finish handlers) run under the monitor lock and any of them touching the monitor deadlocks", key, strings.Join(held, ","))})
				} else {
					r.Instance("R02d-post-outside-lock", site, pos, "ok", "no lock held at the post", true)
				}
			}
		}
	}
	r.Floor("R02b-post", n, 1)

	// ---- R02c guarded-by ---------------------------------------------------------------------------
	g := newGuardChecker(c, lfs)
	var efuncs []*ssa.Function
	for _, fn := range c.ModFuncs() {
		if p := c.PkgOf(fn); p == "engine" || p == "engine/pubsub" {
			efuncs = append(efuncs, fn)
		}
	}
	total := 0
	type gs struct{ pkg, typ, field, lock string }
	for _, s := range []gs{
		{"engine", "RootMonitor", "unfinished", "engine.RootMonitor.lock"},
		{"engine", "RootMonitor", "incomplete", "engine.RootMonitor.lock"},
		{"engine", "RootMonitor", "priorities", "engine.RootMonitor.lock"},
		{"engine", "RootMonitor", "errors", "engine.RootMonitor.lock"},
		{"engine", "TaskQueue", "queues", "engine.TaskQueue.lock"},
		{"engine/pubsub", "EventPump", "eventsObservers", "pubsub.EventPump.eventsObserversLock"},
	} {
		f := c.Field(s.pkg, s.typ, s.field)
		if f == nil {
			r.Undecide("field %s.%s not found", s.typ, s.field)
			continue
		}
		total += g.check(r, "R02c", GuardSpec{Field: f, FieldName: s.typ + "." + s.field, Lock: s.lock, SameBase: true}, efuncs, func(*ssa.Function) string { return "" })
	}
	r.Floor("R02c", total, 25)

	// ---- R02e attribution ------------------------------------------------------------------------
	c02Attribution(c, r)

	// ---- R02d lock order -------------------------------------------------------------------------------
	checkLockOrder(c, r, lfs, "R02d-lock-order", engineLockClass)
	r.Extra["reentrance_call_sites"] = checkReentrance(c, r, lfs, "R02d-reentry", func(class string) bool {
		return strings.HasPrefix(class, "engine.") || strings.HasPrefix(class, "pubsub.")
	})
}

// c02Wait: observer registered before the event is added; Wait passed whenever a monitor is returned.
func c02Wait(c *Ctx, r *Result, fn *ssa.Function, procIface *types.Interface) {
	key := c.FuncKey(fn)
	obs := callSites(fn, func(name string, _ ssa.CallInstruction) bool {
		return strings.HasSuffix(name, "pubsub.EventPump.AddObserver")
	})
	adds := callSites(fn, func(name string, ci ssa.CallInstruction) bool {
		o := calleeObj(ci.Common())
		return o != nil && o.Name() == "AddEvent"
	})
	waits := callSites(fn, func(name string, _ ssa.CallInstruction) bool { return name == "sync.WaitGroup.Wait" })
	if len(adds) != 1 || len(obs) == 0 || len(waits) == 0 {
		r.Instance("R02a-wait", key, c.Pos(fn.Pos()), "finding", "shape not recognised", true)
		r.Report(Finding{Rule: "R02a-wait", Site: key, Pos: c.Pos(fn.Pos()),
			Msg: fmt.Sprintf("%s: expected exactly one AddEvent call (%d), an AddObserver call (%d) and a WaitGroup.Wait (%d)", key, len(adds), len(obs), len(waits))})
		return
	}
	add := adds[0]
	pos := c.Pos(c.InstrPos(add))
	ok := false
	for _, o := range obs {
		if dominates(o, add) {
			// the observer must release the waiter: its callback calls WaitGroup.Done
			for _, a := range o.Common().Args {
				if mc, isMC := stripConv(a).(*ssa.MakeClosure); isMC {
					if cf, _ := mc.Fn.(*ssa.Function); cf != nil {
						if len(callSites(cf, func(name string, _ ssa.CallInstruction) bool { return name == "sync.WaitGroup.Done" })) > 0 {
							ok = true
						}
					}
				}
			}
		}
	}
	if ok {
		r.Instance("R02a-observer-first", key+"#AddEvent", pos, "ok", "AddObserver (callback calls wg.Done) dominates AddEvent", true)
	} else {
		r.Instance("R02a-observer-first", key+"#AddEvent", pos, "finding", "observer registered too late", true)
		r.Report(Finding{Rule: "R02a-observer-first", Site: key + "#AddEvent", Pos: pos,
			Msg: key + ": the observer releasing the waiter is not registered before (dominating) AddEvent: a cascade that finishes at once posts its notification to nobody and the wait never returns"})
	}
	// Wait on every path returning a monitor: returns reachable from AddEvent avoiding Wait blocks
	// must lie in the region where the returned monitor is known nil.
	addVal, _ := add.(ssa.Value)
	var monV ssa.Value
	if addVal != nil {
		for _, ref := range *addVal.Referrers() {
			if e, ok := ref.(*ssa.Extract); ok && e.Index == 0 {
				monV = e
			}
		}
	}
	nilRegion := map[*ssa.BasicBlock]bool{}
	if monV != nil {
		for _, b := range fn.Blocks {
			ifi, isIf := b.Instrs[len(b.Instrs)-1].(*ssa.If)
			if !isIf {
				continue
			}
			bo, isBin := ifi.Cond.(*ssa.BinOp)
			if !isBin || !(unspill(bo.X) == monV && isNilConst(bo.Y)) {
				continue
			}
			var br *ssa.BasicBlock
			if bo.Op == token.EQL {
				br = b.Succs[0]
			} else if bo.Op == token.NEQ {
				br = b.Succs[1]
			}
			if br != nil && len(br.Preds) == 1 {
				nilRegion[br] = true
			}
		}
	}
	waitBlocks := map[*ssa.BasicBlock]bool{}
	for _, w := range waits {
		waitBlocks[w.Block()] = true
	}
	// search from the AddEvent block
	bad := false
	seen := map[*ssa.BasicBlock]bool{}
	work := []*ssa.BasicBlock{add.Block()}
	first := true
	for len(work) > 0 {
		b := work[len(work)-1]
		work = work[:len(work)-1]
		if seen[b] {
			continue
		}
		seen[b] = true
		if !first && (waitBlocks[b] || nilRegion[b]) {
			continue
		}
		if first && waitBlocks[b] {
			// Wait in the same block as AddEvent: must come after it
			for _, w := range waits {
				if w.Block() == b && instrIndex(w) > instrIndex(add) {
					goto next
				}
			}
		}
		if _, isRet := b.Instrs[len(b.Instrs)-1].(*ssa.Return); isRet {
			bad = true
		}
		work = append(work, b.Succs...)
	next:
		first = false
	}
	if bad {
		r.Instance("R02a-wait", key+"#return", c.Pos(fn.Pos()), "finding", "a path returns without waiting", true)
		r.Report(Finding{Rule: "R02a-wait", Site: key + "#return", Pos: c.Pos(fn.Pos()),
			Msg: key + ": a path from AddEvent to a return passes neither WaitGroup.Wait nor the branch on which the returned monitor is nil: the call can return before the cascade has finished"})
	} else {
		r.Instance("R02a-wait", key+"#return", c.Pos(fn.Pos()), "ok", "every path returning a non-nil monitor passes WaitGroup.Wait", true)
	}
}

// c02TaskRun: ProcessEvent before Finish; nil return ⇒ Finish; non-nil return ⇒ no Finish.
func c02TaskRun(c *Ctx, r *Result, fn *ssa.Function, monIface, procIface *types.Interface) {
	key := c.FuncKey(fn)
	fins := callSites(fn, func(_ string, ci ssa.CallInstruction) bool {
		return ci.Common().IsInvoke() && ci.Common().Method.Name() == "Finish" && types.Identical(ci.Common().Value.Type().Underlying(), monIface)
	})
	procs := callSites(fn, func(_ string, ci ssa.CallInstruction) bool {
		return ci.Common().IsInvoke() && ci.Common().Method.Name() == "ProcessEvent" && types.Identical(ci.Common().Value.Type().Underlying(), procIface)
	})
	if len(procs) != 1 {
		r.Report(Finding{Rule: "R02b-run", Site: key + "#ProcessEvent", Pos: c.Pos(fn.Pos()),
			Msg: fmt.Sprintf("%s: expected exactly one ProcessEvent call, found %d (the rules of an event must run exactly once per task)", key, len(procs))})
		return
	}
	for i, f := range fins {
		site := fmt.Sprintf("%s#Finish#%d", key, i)
		if dominates(procs[0], f) {
			r.Instance("R02b-run", site, c.Pos(c.InstrPos(f)), "ok", "ProcessEvent dominates Finish", true)
		} else {
			r.Instance("R02b-run", site, c.Pos(c.InstrPos(f)), "finding", "Finish before the actions ran", true)
			r.Report(Finding{Rule: "R02b-run", Site: site, Pos: c.Pos(c.InstrPos(f)),
				Msg: key + ": the monitor is finished before (not dominated by) ProcessEvent: the cascade can be reported finished while the event's actions still run"})
		}
	}
	// path by path (a single exit returning a variable is the same as several returns): what is
	// returned on the path, and whether Finish was called on it
	isFin := map[ssa.Instruction]bool{}
	for _, f := range fins {
		isFin[f] = true
	}
	type verdict struct {
		bad, ok string
	}
	per := map[*ssa.Return]*verdict{}
	undec := ""
	o := &PathOracle{}
	o.Visit = func(st *PState, in ssa.Instruction) {
		if isFin[in] {
			st.Flags["finished"] = true
		}
	}
	o.AtReturn = func(st *PState, ret *ssa.Return) {
		if len(ret.Results) != 1 {
			return
		}
		vd := per[ret]
		if vd == nil {
			vd = &verdict{}
			per[ret] = vd
		}
		v := st.canon(ret.Results[0])
		switch {
		case isNilConst(v) || st.Get(v, o) == AvNil:
			if st.Flags["finished"] {
				vd.ok = "returns nil after Finish"
			} else {
				vd.bad = "nil-without-finish"
			}
		case isAllocLike(v):
			if st.Flags["finished"] {
				vd.bad = "error-after-finish"
			} else if vd.ok == "" {
				vd.ok = "returns a non-nil error without Finish (HandleError finishes)"
			}
		default:
			undec = accessPath(v)
		}
	}
	if !ExplorePaths(fn, o) {
		r.Undecide("R02b-run: path exploration of %s exceeded its bound", key)
		return
	}
	if undec != "" {
		r.Undecide("R02b-run: %s returns a value that is neither nil nor a fresh error (%s)", key, undec)
	}
	nret := 0
	allInstrs(fn, func(in ssa.Instruction) {
		ret, ok := in.(*ssa.Return)
		if !ok || in.Block() == fn.Recover || per[ret] == nil {
			return
		}
		nret++
		site := fmt.Sprintf("%s#return#%d", key, nret)
		pos := c.Pos(c.InstrPos(in))
		switch per[ret].bad {
		case "nil-without-finish":
			r.Instance("R02b-run", site, pos, "finding", "nil return without Finish", true)
			r.Report(Finding{Rule: "R02b-run", Site: site, Pos: pos,
				Msg: key + ": returns nil on a path where the monitor's Finish is not called: the monitor never finishes and the wait on its cascade never returns"})
		case "error-after-finish":
			r.Instance("R02b-run", site, pos, "finding", "error return after Finish", true)
			r.Report(Finding{Rule: "R02b-run", Site: site, Pos: pos,
				Msg: key + ": returns an error on a path where Finish has already been called: HandleError finishes the monitor a second time (assertion) or the waiter is released before the errors are attached"})
		default:
			r.Instance("R02b-run", site, pos, "ok", per[ret].ok, true)
		}
	})
}

func isAllocLike(v ssa.Value) bool {
	switch v.(type) {
	case *ssa.Alloc, *ssa.MakeInterface:
		return true
	}
	if mi, ok := v.(*ssa.MakeInterface); ok {
		_, isAlloc := mi.X.(*ssa.Alloc)
		return isAlloc
	}
	return false
}

// c02ZeroTest: the post p is control dependent on `unfinished == 0` loaded after the decrement.
func c02ZeroTest(fn *ssa.Function, p ssa.CallInstruction, f *types.Var) (bool, string) {
	var dec *ssa.Store
	for _, a := range accessesOf(fn, f) {
		if st, ok := a.Instr.(*ssa.Store); ok && a.Write {
			if d, ok := storeDelta(st); ok && d < 0 {
				dec = st
			}
		}
	}
	if dec == nil {
		return false, "no decrement of the unfinished counter found"
	}
	for _, b := range fn.Blocks {
		ifi, isIf := b.Instrs[len(b.Instrs)-1].(*ssa.If)
		if !isIf {
			continue
		}
		cond := unspill(ifi.Cond)
		bo, isBin := cond.(*ssa.BinOp)
		if !isBin || bo.Op != token.EQL {
			continue
		}
		k, isC := constInt(bo.Y)
		if !isC || k != 0 {
			continue
		}
		ld, isLoad := bo.X.(*ssa.UnOp)
		if !isLoad || fieldVar(ld.X) != f {
			continue
		}
		if !dominates(dec, ld) {
			return false, "the zero test reads the counter before the decrement"
		}
		br := b.Succs[0]
		if len(br.Preds) == 1 && (br == p.Block() || br.Dominates(p.Block())) {
			return true, "posted exactly under unfinished == 0, read after the decrement"
		}
	}
	return false, "the finished notification is not control dependent on the test unfinished == 0 taken after the decrement (it could fire early, late or more than once)"
}

// c02Attribution (R02e): provenance of what is recorded — an error is stored under the name of
// the rule whose action returned it, the task error carries the task's own event and monitor,
// a failed monitor is registered under its own id.
func c02Attribution(c *Ctx, r *Result) {
	procIface := c.Interface("engine", "Processor")
	fAction := c.Field("engine", "Rule", "Action")
	fName := c.Field("engine", "Rule", "Name")
	n := 0
	// (1) errors[rule.Name] = err of rule.Action
	for _, pfn := range c.Implementations(procIface, "ProcessEvent") {
		fn := pfn
		if rl := findRuleLoop(c, pfn, fAction); rl != nil {
			fn = rl.LoopFn // the loop may live in a helper
		}
		key := c.FuncKey(fn)
		allInstrs(fn, func(in ssa.Instruction) {
			mu, ok := in.(*ssa.MapUpdate)
			if !ok || mu.Value.Type().String() != "error" {
				return
			}
			n++
			site := key + "#errors[rule]=err"
			pos := c.Pos(c.InstrPos(in))
			good := false
			why := "the stored error is not the result of a rule action"
			if call, isCall := unspill(mu.Value).(*ssa.Call); isCall && !call.Call.IsInvoke() {
				if ld, isLoad := call.Call.Value.(*ssa.UnOp); isLoad {
					if fa, isFA := ld.X.(*ssa.FieldAddr); isFA && fieldVar(fa) == fAction {
						ruleV := fa.X
						why = "the key is not the Name of the rule whose action returned the error"
						if kl, isKL := mu.Key.(*ssa.UnOp); isKL {
							if kfa, isKFA := kl.X.(*ssa.FieldAddr); isKFA && fieldVar(kfa) == fName && equivValue(kfa.X, ruleV, 0) {
								good = true
							}
						}
					}
				}
			}
			if good {
				r.Instance("R02e", site, pos, "ok", "errors[rule.Name] = error returned by that rule's action", true)
			} else {
				r.Instance("R02e", site, pos, "finding", why, true)
				r.Report(Finding{Rule: "R02e", Site: site, Pos: pos, Msg: key + ": " + why + " — errors would be attributed to another rule or overwrite each other"})
			}
		})
	}
	// (2) TaskError{errors, t.e, t.m}
	taskErr := c.NamedType("engine", "TaskError")
	fE, fM := c.Field("engine", "Task", "e"), c.Field("engine", "Task", "m")
	for _, fn := range c.ModFuncs() {
		if c.PkgOf(fn) != "engine" {
			continue
		}
		key := c.FuncKey(fn)
		allInstrs(fn, func(in ssa.Instruction) {
			a, ok := in.(*ssa.Alloc)
			if !ok || namedOf(a.Type()) != taskErr || !a.Heap {
				return
			}
			n++
			site := key + "#TaskError"
			pos := c.Pos(c.InstrPos(in))
			got := map[string]ssa.Value{}
			for _, ref := range *a.Referrers() {
				if fa, isFA := ref.(*ssa.FieldAddr); isFA {
					for _, ref2 := range *fa.Referrers() {
						if st, isSt := ref2.(*ssa.Store); isSt && st.Addr == fa {
							got[fieldName(fa.X.Type(), fa.Field)] = st.Val
						}
					}
				}
			}
			evOK, monOK := false, false
			if ld, isLoad := got["Event"].(*ssa.UnOp); isLoad && fieldVar(ld.X) == fE && len(fn.Params) > 0 && rootOf(ld.X) == ssa.Value(fn.Params[0]) {
				evOK = true
			}
			if ld, isLoad := stripConv(got["Monitor"]).(*ssa.UnOp); isLoad && fieldVar(ld.X) == fM && len(fn.Params) > 0 && rootOf(ld.X) == ssa.Value(fn.Params[0]) {
				monOK = true
			}
			_, fromProc := unspill(got["ErrorMap"]).(*ssa.Call)
			if evOK && monOK && fromProc {
				r.Instance("R02e", site, pos, "ok", "TaskError{ProcessEvent's errors, the task's own event, the task's own monitor}", true)
			} else {
				r.Instance("R02e", site, pos, "finding", fmt.Sprintf("event ok: %v, monitor ok: %v, errors from ProcessEvent: %v", evOK, monOK, fromProc), true)
				r.Report(Finding{Rule: "R02e", Site: site, Pos: pos,
					Msg: key + ": the task error is not built from ProcessEvent's result with the task's own event and monitor: errors would be reported for another event"})
			}
		})
	}
	// (3) errors[monitor.ID()] = monitor
	fErrors := c.Field("engine", "RootMonitor", "errors")
	for _, fn := range c.ModFuncs() {
		if c.PkgOf(fn) != "engine" || fErrors == nil {
			continue
		}
		for _, a := range elemAccessesOf(fn, fErrors) {
			mu, ok := a.Instr.(*ssa.MapUpdate)
			if !ok {
				continue
			}
			n++
			key := c.FuncKey(fn)
			site := key + "#errors[id]=monitor"
			pos := c.Pos(c.InstrPos(mu))
			good := false
			if call, isCall := mu.Key.(*ssa.Call); isCall {
				if o := calleeObj(call.Common()); o != nil && o.Name() == "ID" {
					args := callArgs(call.Common())
					if len(args) > 0 && unspill(args[0]) == unspill(mu.Value) {
						good = true
					}
				}
			}
			if good {
				r.Instance("R02e", site, pos, "ok", "a failed monitor is registered under its own id", true)
			} else {
				r.Instance("R02e", site, pos, "finding", "key is not the id of the stored monitor", true)
				r.Report(Finding{Rule: "R02e", Site: site, Pos: pos,
					Msg: key + ": a failed monitor is not registered under its own id: error reports of one cascade overwrite each other"})
			}
		}
	}
	r.Floor("R02e", n, 3)
}

// ---- R02a-scope: an observer is removed for its own cascade only --------------------------------

// EventPump.RemoveObservers(kind, nil) removes the observers of every source. Inside the engine a
// removal must therefore name a source that is non-nil on every path: a boxed pointer, the source
// handed to the callback, or an interface value known non-nil on the path (errpath).
func c02ObserverScope(c *Ctx, r *Result) {
	n := 0
	for _, fn := range c.ModFuncs() {
		if c.PkgOf(fn) != "engine" {
			continue
		}
		sites := callSites(fn, func(name string, _ ssa.CallInstruction) bool {
			return strings.HasSuffix(name, "pubsub.EventPump.RemoveObservers")
		})
		if len(sites) == 0 {
			continue
		}
		key := c.FuncKey(fn)
		isSite := map[ssa.Instruction]int{}
		for i, s := range sites {
			isSite[s] = i
		}
		bad := map[int]string{}
		seenSite := map[int]bool{}
		o := &PathOracle{NonNilParams: true}
		o.Visit = func(st *PState, in ssa.Instruction) {
			i, ok := isSite[in]
			if !ok {
				return
			}
			seenSite[i] = true
			args := in.(ssa.CallInstruction).Common().Args
			src := args[len(args)-1]
			v := st.canon(src)
			switch x := v.(type) {
			case *ssa.MakeInterface:
				return // a boxed value is a non-nil interface: names one source
			case *ssa.Parameter:
				if x.Parent().Parent() != nil {
					return // the source the pump hands to the callback
				}
			}
			if st.Get(v, o) == AvNonNil {
				return
			}
			// a single-result type assertion on the source that dominates the removal: it panics
			// on a nil interface, so the removal is only reached with a non-nil source
			asserted := false
			allInstrs(fn, func(x ssa.Instruction) {
				if ta, ok := x.(*ssa.TypeAssert); ok && !ta.CommaOk && (ta.X == v || ta.X == src) && dominates(x, in) {
					asserted = true
				}
			})
			if asserted {
				return
			}
			if _, dup := bad[i]; !dup {
				bad[i] = accessPath(src)
			}
		}
		if !ExplorePaths(fn, o) {
			r.Undecide("R02a-scope: path exploration of %s exceeded its state bound", key)
			continue
		}
		for i, s := range sites {
			n++
			site := fmt.Sprintf("%s#RemoveObservers#%d", key, i)
			pos := c.Pos(c.InstrPos(s))
			if why, isBad := bad[i]; isBad {
				r.Instance("R02a-scope", site, pos, "finding", "source may be nil: "+why, true)
				r.Report(Finding{Rule: "R02a-scope", Site: site, Pos: pos,
					Msg: fmt.Sprintf("%s removes observers with a source (%s) that can be a nil interface on some path: RemoveObservers(kind, nil) drops the observers of every cascade in flight — their AddEventAndWait never returns and their finish handlers never run", key, why)})
			} else {
				r.Instance("R02a-scope", site, pos, "ok", "the source named in the removal is non-nil on every path (one cascade's observer)", true)
			}
		}
	}
	r.Floor("R02a-scope", n, 2)
}

// c02ReturnsZeroTest: fn has a bool result and every value it returns there is the comparison
// `unfinished == 0` whose load follows the decrement.
func c02ReturnsZeroTest(fn *ssa.Function, f *types.Var) (bool, string) {
	idx := -1
	for i := 0; i < fn.Signature.Results().Len(); i++ {
		if fn.Signature.Results().At(i).Type().String() == "bool" {
			idx = i
		}
	}
	if idx < 0 {
		return false, "no bool result"
	}
	var dec *ssa.Store
	for _, a := range accessesOf(fn, f) {
		if st, ok := a.Instr.(*ssa.Store); ok && a.Write {
			if d, ok := storeDelta(st); ok && d < 0 {
				dec = st
			}
		}
	}
	if dec == nil {
		return false, "no decrement"
	}
	rvs := returnedValues(fn, idx)
	if len(rvs) == 0 {
		return false, "no returned value"
	}
	for _, rv := range rvs {
		bo, ok := unspill(rv).(*ssa.BinOp)
		if !ok || bo.Op != token.EQL {
			return false, "returned value is not the zero test"
		}
		k, isC := constInt(bo.Y)
		ld, isLoad := bo.X.(*ssa.UnOp)
		if !isC || k != 0 || !isLoad || fieldVar(ld.X) != f || !dominates(dec, ld) {
			return false, "returned value is not the zero test after the decrement"
		}
	}
	return true, ""
}
