package main

// ecalcheck — static checker specific to krotik/ecal. See /verif/DESIGN.md.
//
//	ecalcheck -prop C13 -tier quick|thorough [-repo /repo] [-verif /verif]
//	ecalcheck -replay /verif/replays/C13/<hash>.json
//	ecalcheck -fixtures            (run the rules over checker/testdata and verify they fire)

import (
	"encoding/json"
	"flag"
	"fmt"
	"os"
	"path/filepath"
	"runtime/debug"
	"sort"
	"strconv"
	"strings"
	"time"
)

type checkFunc func(c *Ctx, r *Result, tier string)

var checks = map[string]checkFunc{}

func register(prop string, f checkFunc) { checks[prop] = f }

func main() {
	prop := flag.String("prop", "", "property id (C01..C19)")
	tier := flag.String("tier", "quick", "quick|thorough")
	repo := flag.String("repo", "/repo", "repository root")
	verif := flag.String("verif", "/verif", "verification root")
	replay := flag.String("replay", "", "replay file")
	list := flag.Bool("list", false, "list implemented properties")
	noEvidence := flag.Bool("no-evidence", false, "do not write evidence (used for self validation on scratch copies)")
	flag.Parse()

	if *list {
		var ids []string
		for k := range checks {
			ids = append(ids, k)
		}
		sort.Strings(ids)
		fmt.Println(strings.Join(ids, " "))
		return
	}
	if *replay != "" {
		os.Exit(runReplay(*replay, *repo, *verif))
	}
	if _, ok := checks[*prop]; !ok {
		fmt.Fprintf(os.Stderr, "unknown property %q\n", *prop)
		os.Exit(2)
	}
	os.Exit(runProp(*prop, *tier, *repo, *verif, *noEvidence, nil))
}

func seedFromEnv() int64 {
	if s := os.Getenv("VERIF_SEED"); s != "" {
		if n, err := strconv.ParseInt(s, 10, 64); err == nil {
			return n
		}
	}
	return 0
}

// runProp runs one property. only != nil restricts reporting to one (rule, site) (replay).
func runProp(prop, tier, repo, verif string, noEvidence bool, only *replayFile) (code int) {
	start := time.Now()
	ri := &runInfo{verif: verif, tier: tier, seed: seedFromEnv(), start: start, stats: map[string]interface{}{}}
	if noEvidence {
		ri.verif = filepath.Join(os.TempDir(), "ecalcheck-scratch-"+strconv.Itoa(os.Getpid()))
		defer os.RemoveAll(ri.verif)
	}
	res := NewResult(prop)
	kf, err := LoadKnown(filepath.Join(verif, "KNOWN_FINDINGS.txt"))
	if err != nil {
		fmt.Printf("%s UNDECIDED: %v\n", prop, err)
		res.Undecide("known findings file unreadable: %v", err)
		return res.Finish(ri, &KnownFile{})
	}
	defer func() {
		if p := recover(); p != nil {
			// a crash of the checker is a failure of the check, never "held"
			fmt.Printf("%s UNDECIDED: checker panic: %v\n%s\n", prop, p, debug.Stack())
			res.Undecide("checker panic: %v", p)
			code = res.Finish(ri, kf)
		}
	}()

	configs := []BuildConfig{{}}
	if tier == "thorough" {
		configs = []BuildConfig{{}, {GOOS: "linux", GOARCH: "386"}, {GOOS: "windows", GOARCH: "amd64"}, {Tags: "verif"}}
	}
	for i, bc := range configs {
		c, err := Load(repo, bc)
		name := bc.String()
		if bc == (BuildConfig{}) {
			name = "default"
		}
		if err != nil {
			res.Undecide("[%s] %v", name, err)
			continue
		}
		ri.configs = append(ri.configs, name)
		if i == 0 {
			ri.stats["packages"] = len(c.Pkgs)
			ri.stats["functions"] = len(c.ModFuncs())
		}
		checks[prop](c, res, tier)
		if i == 0 && tier == "thorough" {
			// keep counts of the default configuration; later configurations only add findings
			res.freezeCounts()
		}
	}
	if tier == "thorough" {
		res.unfreezeCounts()
		selfValidate(prop, repo, verif, res)
	}
	if only != nil {
		var keep []Finding
		for _, f := range res.Findings {
			if f.Rule == only.Rule && f.Site == only.Site {
				keep = append(keep, f)
			}
		}
		res.Findings = keep
		if only.Rule != "undecided" {
			res.Undecided = nil
		}
	}
	return res.Finish(ri, kf)
}

func runReplay(path, repo, verif string) int {
	b, err := os.ReadFile(path)
	if err != nil {
		fmt.Fprintf(os.Stderr, "replay: %v\n", err)
		return 2
	}
	var rf replayFile
	if err := json.Unmarshal(b, &rf); err != nil {
		fmt.Fprintf(os.Stderr, "replay: %v\n", err)
		return 2
	}
	if _, ok := checks[rf.Property]; !ok {
		fmt.Fprintf(os.Stderr, "replay: unknown property %q\n", rf.Property)
		return 2
	}
	fmt.Printf("replaying %s rule=%s site=%s\n", rf.Property, rf.Rule, rf.Site)
	return runProp(rf.Property, "quick", repo, verif, true, &rf)
}

// counts of the first configuration are the ones reported (instances of later
// configurations are the same constructs seen again).
type frozen struct {
	evaluations int
	perRule     map[string]int
	obl, dis    int
}

var frozenCounts = map[*Result]*frozen{}

func (r *Result) freezeCounts() {
	pr := map[string]int{}
	for k, v := range r.perRule {
		pr[k] = v
	}
	frozenCounts[r] = &frozen{r.evaluations, pr, r.Obligations, r.Discharged}
}

func (r *Result) unfreezeCounts() {
	if f := frozenCounts[r]; f != nil {
		r.Extra["evaluations_all_configs"] = r.evaluations
		r.evaluations, r.perRule, r.Obligations, r.Discharged = f.evaluations, f.perRule, f.obl, f.dis
	}
}
