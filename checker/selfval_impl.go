package main

// Checker self-validation (thorough tier, DESIGN.md 2.3): every scripted variant
// of checker/mutants/<prop>/*.json is applied to a scratch copy of the repository
// (outside /repo and /verif, removed at once) and analysed in a fresh subprocess.
// A "break" variant must be reported by the named rule; a "refactor" variant must
// stay silent. Results are evidence only; they never become a VIOLATION.

import (
	"encoding/json"
	"fmt"
	"io"
	"io/fs"
	"os"
	"os/exec"
	"path/filepath"
	"sort"
	"strings"
	"sync"
)

type mutantEdit struct {
	File    string `json:"file"`
	Find    string `json:"find"`
	Replace string `json:"replace"`
	Count   int    `json:"count,omitempty"` // which occurrence (1-based); 0 = must be unique
}

type mutant struct {
	Name   string       `json:"name"`
	Kind   string       `json:"kind"` // break | refactor
	Desc   string       `json:"desc"`
	Expect string       `json:"expect_rule,omitempty"`
	Edits  []mutantEdit `json:"edits"`
	Patch  string       `json:"patch,omitempty"` // unified diff (path relative to the verif dir), applied with git apply
}

type mutantResult struct {
	Name    string `json:"name"`
	Kind    string `json:"kind"`
	Outcome string `json:"outcome"` // detected | missed | silent | false-alarm | skipped
	Detail  string `json:"detail,omitempty"`
}

func runSelfValidation(prop, repo, verif string, res *Result) {
	dir := filepath.Join(verif, "checker", "mutants", prop)
	files, _ := filepath.Glob(filepath.Join(dir, "*.json"))
	sort.Strings(files)
	if len(files) == 0 {
		res.Extra["self_validation"] = "no scripted variants for this property"
		return
	}
	self, err := os.Executable()
	if err != nil {
		res.Extra["self_validation"] = "cannot locate own binary: " + err.Error()
		return
	}
	var muts []mutant
	for _, f := range files {
		b, err := os.ReadFile(f)
		if err != nil {
			continue
		}
		var ms []mutant
		if err := json.Unmarshal(b, &ms); err != nil {
			var m mutant
			if err2 := json.Unmarshal(b, &m); err2 != nil {
				res.Extra["self_validation_error"] = fmt.Sprintf("%s: %v", f, err)
				continue
			}
			ms = []mutant{m}
		}
		muts = append(muts, ms...)
	}
	// independently seeded defects kept under seeded/<id>/ are break variants too
	metas, _ := filepath.Glob(filepath.Join(verif, "seeded", "*", "meta.json"))
	sort.Strings(metas)
	for _, mf := range metas {
		b, err := os.ReadFile(mf)
		if err != nil {
			continue
		}
		var meta struct {
			ID         string   `json:"id"`
			Change     string   `json:"change"`
			DetectedBy []string `json:"detected_by"`
			Status     string   `json:"status"`
		}
		if json.Unmarshal(b, &meta) != nil || meta.ID == "" {
			continue
		}
		// a seed belongs to its own property, and to every other property whose rule reports it
		own := strings.HasPrefix(meta.ID, prop+"-")
		byOwn, byThis := false, false
		for _, d := range meta.DetectedBy {
			if !strings.Contains(d, ":") {
				byOwn = true
			}
			if strings.HasPrefix(d, prop+":") {
				byThis = true
			}
		}
		if !own && !byThis {
			continue
		}
		m := mutant{Name: "seeded-" + meta.ID, Kind: "break", Desc: meta.Change, Patch: filepath.Join(filepath.Dir(mf), "patch.diff")}
		if meta.Status == "missed" || (own && !byOwn) {
			m.Kind = "break-documented-miss"
		}
		muts = append(muts, m)
	}
	// behaviour-preserving restructurings written by independent sub-agents (refactors/<id>/): a
	// property runs those made for it and those that once raised one of its alarms
	rmetas, _ := filepath.Glob(filepath.Join(verif, "refactors", "*", "meta.json"))
	sort.Strings(rmetas)
	for _, mf := range rmetas {
		b, err := os.ReadFile(mf)
		if err != nil {
			continue
		}
		var meta struct {
			ID     string   `json:"id"`
			Title  string   `json:"title"`
			Alarms []string `json:"alarms_at_first_contact"`
			Status string   `json:"status"`
		}
		if json.Unmarshal(b, &meta) != nil || meta.ID == "" {
			continue
		}
		mine := strings.HasPrefix(meta.ID, prop+"-")
		for _, a := range meta.Alarms {
			if strings.HasPrefix(a, prop+":") {
				mine = true
			}
		}
		if !mine {
			continue
		}
		kind := "refactor"
		if strings.HasPrefix(meta.Status, "false-alarm") {
			kind = "refactor-open-false-alarm" // recorded in refactors/README.md and DESIGN 7.4 as not repaired
		}
		muts = append(muts, mutant{Name: "refactor-" + meta.ID, Kind: kind, Desc: meta.Title, Patch: filepath.Join(filepath.Dir(mf), "patch.diff")})
	}
	results := make([]mutantResult, len(muts))
	sem := make(chan struct{}, 6)
	var wg sync.WaitGroup
	for i := range muts {
		wg.Add(1)
		go func(i int) {
			defer wg.Done()
			sem <- struct{}{}
			defer func() { <-sem }()
			results[i] = runMutant(self, prop, repo, verif, muts[i])
		}(i)
	}
	wg.Wait()
	det, miss, silent, fa, skipped, docMiss, openFA := 0, 0, 0, 0, 0, 0, 0
	for _, r := range results {
		switch r.Outcome {
		case "open-false-alarm":
			openFA++
		case "detected":
			det++
		case "missed":
			miss++
		case "silent":
			silent++
		case "false-alarm":
			fa++
		case "documented-miss":
			docMiss++
		default:
			skipped++
		}
	}
	res.Extra["self_validation"] = results
	res.Extra["mutants_detected"] = det
	res.Extra["mutants_missed"] = miss
	res.Extra["refactors_silent"] = silent
	res.Extra["refactors_false_alarm"] = fa
	res.Extra["variants_skipped"] = skipped
	res.Extra["seeded_documented_misses"] = docMiss
	res.Extra["refactors_open_false_alarm"] = openFA
	if openFA > 0 {
		fmt.Printf("%s self-validation: %d stored restructuring(s) still raise a false alarm of this property (documented as open in refactors/README.md)\n", prop, openFA)
	}
	fmt.Printf("%s self-validation: %d break variant(s) detected, %d missed; %d refactor variant(s) silent, %d false alarm(s); %d skipped\n",
		prop, det, miss, silent, fa, skipped)
	for _, r := range results {
		if r.Outcome == "missed" || r.Outcome == "false-alarm" {
			fmt.Printf("%s self-validation: %s %s: %s\n", prop, r.Outcome, r.Name, r.Detail)
		}
	}
}

func runMutant(self, prop, repo, verif string, m mutant) mutantResult {
	out := mutantResult{Name: m.Name, Kind: m.Kind}
	tmp, err := os.MkdirTemp("", "ecalcheck-variant-")
	if err != nil {
		out.Outcome, out.Detail = "skipped", err.Error()
		return out
	}
	defer os.RemoveAll(tmp)
	if err := copyTree(repo, tmp); err != nil {
		out.Outcome, out.Detail = "skipped", "copy: "+err.Error()
		return out
	}
	// a patch is applied first: the edits of a variant may then refer to the patched text
	if m.Patch != "" {
		pf := m.Patch
		if !filepath.IsAbs(pf) {
			pf = filepath.Join(verif, pf)
		}
		ap := exec.Command("git", "apply", "--whitespace=nowarn", pf)
		ap.Dir = tmp
		if b, err := ap.CombinedOutput(); err != nil {
			out.Outcome, out.Detail = "skipped", "patch does not apply to the current tree: "+strings.TrimSpace(string(b))
			return out
		}
	}
	for _, e := range m.Edits {
		p := filepath.Join(tmp, e.File)
		b, err := os.ReadFile(p)
		if err != nil {
			out.Outcome, out.Detail = "skipped", "file missing: "+e.File
			return out
		}
		s := string(b)
		n := strings.Count(s, e.Find)
		if n == 0 || (e.Count == 0 && n != 1) || e.Count > n {
			out.Outcome, out.Detail = "skipped", fmt.Sprintf("anchor text occurs %d time(s) in %s (tree was edited)", n, e.File)
			return out
		}
		if e.Count == 0 {
			s = strings.Replace(s, e.Find, e.Replace, 1)
		} else {
			idx := -1
			from := 0
			for k := 0; k < e.Count; k++ {
				j := strings.Index(s[from:], e.Find)
				idx = from + j
				from = idx + len(e.Find)
			}
			s = s[:idx] + e.Replace + s[idx+len(e.Find):]
		}
		if err := os.WriteFile(p, []byte(s), 0o644); err != nil {
			out.Outcome, out.Detail = "skipped", err.Error()
			return out
		}
	}
	cmd := exec.Command(self, "-prop", prop, "-tier", "quick", "-repo", tmp, "-verif", verif, "-no-evidence")
	cmd.Env = append(os.Environ(), "ECALCHECK_CHILD=1")
	b, _ := cmd.CombinedOutput()
	text := string(b)
	code := 0
	if cmd.ProcessState != nil {
		code = cmd.ProcessState.ExitCode()
	}
	violated := code != 0 || strings.Contains(text, "VIOLATION property=")
	if strings.Contains(text, "does not type-check") {
		out.Outcome, out.Detail = "skipped", "variant does not compile"
		return out
	}
	switch m.Kind {
	case "break-documented-miss":
		if violated {
			out.Outcome = "detected"
			out.Detail = "documented as missed, now reported: " + firstLineWith(text, prop+" R")
		} else {
			out.Outcome = "documented-miss"
			out.Detail = m.Desc
		}
	case "break":
		if violated && (m.Expect == "" || strings.Contains(text, prop+" "+m.Expect)) {
			out.Outcome = "detected"
			out.Detail = firstLineWith(text, prop+" "+m.Expect)
		} else if violated {
			out.Outcome = "detected"
			out.Detail = "by another rule: " + firstLineWith(text, prop+" R")
		} else {
			out.Outcome = "missed"
			out.Detail = m.Desc
		}
	case "refactor-open-false-alarm":
		if violated {
			out.Outcome = "open-false-alarm"
			out.Detail = firstLineWith(text, prop+" ")
		} else {
			out.Outcome = "silent"
		}
	default:
		if violated {
			out.Outcome = "false-alarm"
			out.Detail = firstLineWith(text, prop+" ")
		} else {
			out.Outcome = "silent"
		}
	}
	return out
}

func firstLineWith(text, sub string) string {
	for _, l := range strings.Split(text, "\n") {
		if strings.Contains(l, "VIOLATION property=") {
			continue // never echo a child's verdict line: the verdict printed is the one on the tree given
		}
		if strings.Contains(l, sub) {
			if len(l) > 260 {
				l = l[:260] + "…"
			}
			return l
		}
	}
	return ""
}

func copyTree(src, dst string) error {
	return filepath.WalkDir(src, func(p string, d fs.DirEntry, err error) error {
		if err != nil {
			return err
		}
		rel, _ := filepath.Rel(src, p)
		if rel == ".git" {
			return filepath.SkipDir
		}
		t := filepath.Join(dst, rel)
		if d.IsDir() {
			return os.MkdirAll(t, 0o755)
		}
		if !d.Type().IsRegular() {
			return nil
		}
		ext := filepath.Ext(p)
		if ext != ".go" && ext != ".mod" && ext != ".sum" {
			return nil
		}
		in, err := os.Open(p)
		if err != nil {
			return err
		}
		defer in.Close()
		out, err := os.Create(t)
		if err != nil {
			return err
		}
		defer out.Close()
		_, err = io.Copy(out, in)
		return err
	})
}
