package main

func runSelfValidation(prop, repo, verif string, res *Result) {}
