package main

// The release-function idiom: `defer rt.takeMutex(name, tid)()`.
//
// A function acquires a lock and returns a func() that releases it (or a no-op when nothing was
// acquired). Taken alone the acquiring function leaves the lock held and the returned closure
// releases a lock it never took; together they are a pair. The pairing is decided path by path:
// at every return of the acquiring function the set of locks held on that path equals the set the
// function value returned on that path releases; and every caller invokes the result exactly once,
// as a deferred call registered at the call.

import (
	"fmt"
	"go/token"
	"go/types"
	"sort"
	"strings"

	"golang.org/x/tools/go/ssa"
)

// lockCell: the variable a lock operation works on, as seen from the acquiring function: the
// operation's receiver is a load of a local cell (captured by the release closure) or, inside the
// closure, a load of the free variable bound to that cell.
func lockCell(recv ssa.Value, bind map[*ssa.FreeVar]ssa.Value) ssa.Value {
	ld, ok := recv.(*ssa.UnOp)
	if !ok || ld.Op != token.MUL {
		return recv
	}
	switch x := ld.X.(type) {
	case *ssa.Alloc:
		return x
	case *ssa.FreeVar:
		if b, ok := bind[x]; ok {
			return b
		}
	}
	return recv
}

// releaseSet: the cells whose lock the closure made by mc unlocks (net, on every path: each is
// unlocked exactly once and never locked) — nil if the closure does anything else with locks.
func releaseSet(mc *ssa.MakeClosure) (map[ssa.Value]bool, bool) {
	f, _ := mc.Fn.(*ssa.Function)
	if f == nil {
		return nil, false
	}
	bind := map[*ssa.FreeVar]ssa.Value{}
	for i, fv := range f.FreeVars {
		if i < len(mc.Bindings) {
			bind[fv] = mc.Bindings[i]
		}
	}
	out := map[ssa.Value]bool{}
	ok := true
	var rets []ssa.Instruction
	var unlocks []ssa.Instruction
	allInstrs(f, func(in ssa.Instruction) {
		if _, isRet := in.(*ssa.Return); isRet && in.Block() != f.Recover {
			rets = append(rets, in)
		}
		op, isOp := lockOpOf(in)
		if !isOp {
			return
		}
		if op.Kind != "Unlock" && op.Kind != "RUnlock" {
			// locks taken and released inside the closure (a table lock) must pair up there
			return
		}
		cell := lockCell(op.Recv, bind)
		if _, isAlloc := cell.(*ssa.Alloc); !isAlloc {
			return // a lock reached through a path: paired inside the closure (checked below)
		}
		if inLoop(in.Block()) || out[cell] {
			ok = false
		}
		out[cell] = true
		unlocks = append(unlocks, in)
	})
	// each release happens on every path through the closure
	for _, u := range unlocks {
		for _, rt := range rets {
			if !dominates(u, rt) {
				ok = false
			}
		}
	}
	return out, ok
}

// lockTransfer decides the idiom for fn. handled reports whether fn has the shape at all.
func lockTransfer(c *Ctx, fn *ssa.Function) (handled bool, problems []string, closures map[*ssa.Function]bool) {
	closures = map[*ssa.Function]bool{}
	if fn.Signature.Results().Len() != 1 {
		return false, nil, nil
	}
	sig, isFn := fn.Signature.Results().At(0).Type().Underlying().(*types.Signature)
	if !isFn || sig.Params().Len() != 0 || sig.Results().Len() != 0 {
		return false, nil, nil
	}
	// the lock operations of fn on local cells
	type lop struct {
		cell ssa.Value
		acq  bool
	}
	ops := map[ssa.Instruction]lop{}
	allInstrs(fn, func(in ssa.Instruction) {
		if _, isDefer := in.(*ssa.Defer); isDefer {
			return
		}
		op, ok := lockOpOf(in)
		if !ok {
			return
		}
		cell := lockCell(op.Recv, nil)
		if _, isAlloc := cell.(*ssa.Alloc); !isAlloc {
			return
		}
		ops[in] = lop{cell, op.acquire()}
	})
	if len(ops) == 0 {
		return false, nil, nil
	}
	seenReturn := false
	o := &PathOracle{}
	o.Visit = func(st *PState, in ssa.Instruction) {
		if l, ok := ops[in]; ok {
			k := "held:" + l.cell.Name()
			if l.acq {
				if st.Flags[k] {
					problems = append(problems, "a lock is acquired twice on one path ("+c.Pos(c.InstrPos(in))+")")
				}
				st.Flags[k] = true
			} else {
				if !st.Flags[k] {
					problems = append(problems, "a lock is released on a path where it is not held ("+c.Pos(c.InstrPos(in))+")")
				}
				delete(st.Flags, k)
			}
		}
	}
	o.AtReturn = func(st *PState, ret *ssa.Return) {
		seenReturn = true
		v := st.canon(ret.Results[0])
		if pf, isFn := v.(*ssa.Function); isFn && pf.Parent() == fn {
			// a literal that captures nothing: it releases nothing (it must not touch locks at all)
			touches := false
			allInstrs(pf, func(in ssa.Instruction) {
				if _, isOp := lockOpOf(in); isOp {
					touches = true
				}
			})
			for f, on := range st.Flags {
				if on && strings.HasPrefix(f, "held:") {
					problems = append(problems, "at "+c.Pos(ret.Pos())+" a lock is held that the returned function does not release")
				}
			}
			if touches {
				problems = append(problems, "the function returned at "+c.Pos(ret.Pos())+" operates on locks it does not own")
			}
			closures[pf] = true
			return
		}
		mc, ok := v.(*ssa.MakeClosure)
		if !ok {
			problems = append(problems, "the value returned at "+c.Pos(ret.Pos())+" is not a function literal of this function ("+accessPath(v)+")")
			return
		}
		if cf, ok := mc.Fn.(*ssa.Function); ok {
			closures[cf] = true
		}
		rel, relOK := releaseSet(mc)
		if !relOK {
			problems = append(problems, "the release function returned at "+c.Pos(ret.Pos())+" does not release each of its locks exactly once on every path")
			return
		}
		held := map[string]bool{}
		for f, on := range st.Flags {
			if on && strings.HasPrefix(f, "held:") {
				held[strings.TrimPrefix(f, "held:")] = true
			}
		}
		for cell := range rel {
			if !held[cell.Name()] {
				problems = append(problems, "at "+c.Pos(ret.Pos())+" the returned function releases a lock that is not held on this path")
			}
			delete(held, cell.Name())
		}
		for range held {
			problems = append(problems, "at "+c.Pos(ret.Pos())+" a lock is held that the returned function does not release")
		}
	}
	if !ExplorePaths(fn, o) {
		return true, []string{"path exploration exceeded its bound"}, closures
	}
	if !seenReturn {
		return false, nil, nil
	}
	// every caller defers the call of the result, at the call
	if n := c.CHA().Nodes[fn]; n != nil {
		for _, e := range n.In {
			if e.Site == nil || e.Site.Common().StaticCallee() != fn {
				if e.Caller.Func.Synthetic != "" {
					continue
				}
				problems = append(problems, "the acquiring function is called dynamically from "+c.FuncKey(e.Caller.Func))
				continue
			}
			call, isCall := e.Site.(*ssa.Call)
			if !isCall {
				problems = append(problems, "the acquiring function is itself deferred or started as a goroutine in "+c.FuncKey(e.Caller.Func))
				continue
			}
			deferred := false
			if refs := call.Referrers(); refs != nil {
				for _, ref := range *refs {
					if d, isD := ref.(*ssa.Defer); isD && d.Call.Value == ssa.Value(call) && d.Block() == call.Block() && noCallBetween(call, d) {
						deferred = true
					} else if _, isDbg := ref.(*ssa.DebugRef); !isDbg {
						if _, isD := ref.(*ssa.Defer); !isD {
							problems = append(problems, "the release function is used otherwise than by one deferred call in "+c.FuncKey(e.Caller.Func))
						}
					}
				}
			}
			if !deferred {
				problems = append(problems, "the result is not deferred right at the call in "+c.FuncKey(e.Caller.Func)+" ("+c.Pos(call.Pos())+"): a path may leave without releasing")
			}
		}
	}
	sort.Strings(problems)
	problems = dedup(problems)
	return true, problems, closures
}

var _ = fmt.Sprintf
