package main

// Condition-variable protocol (DESIGN.md C09 R09a, C15 R15b, Appendix B).
//
// (W)  the decision to wait is taken under the cond's lock: between the L.Lock
//      that dominates a Wait and the Wait some shared location is read.
// (S)  every Signal/Broadcast executes with L held, or is dominated by a critical
//      section of L touching a waiter decision location, or is covered by a polling
//      loop which re-broadcasts the same cond.
// (S') the update of a waiter decision location made by a signalling function
//      precedes (dominates) its signal; decision locations are written somewhere.

import (
	"fmt"
	"go/types"
	"sort"
	"strings"

	"golang.org/x/tools/go/ssa"
)

type condOp struct {
	Instr ssa.Instruction
	Fn    *ssa.Function
	Kind  string // Wait Signal Broadcast
	Path  string // access path of the cond
	Class string
	Recv  ssa.Value
}

func condOpOf(in ssa.Instruction) (condOp, bool) {
	ci, ok := in.(ssa.CallInstruction)
	if !ok {
		return condOp{}, false
	}
	o := calleeObj(ci.Common())
	if o == nil || o.Pkg() == nil || o.Pkg().Path() != "sync" {
		return condOp{}, false
	}
	recv := o.Type().(*types.Signature).Recv()
	if recv == nil || !isNamed(recv.Type(), "sync", "Cond") {
		return condOp{}, false
	}
	switch o.Name() {
	case "Wait", "Signal", "Broadcast":
	default:
		return condOp{}, false
	}
	args := callArgs(ci.Common())
	return condOp{Instr: in, Fn: in.Parent(), Kind: o.Name(), Path: accessPath(args[0]), Class: lockClass(args[0]), Recv: args[0]}, true
}

// touch describes how a function uses a struct field.
type touch struct {
	Read, Write bool
	Methods     map[string]bool // methods called on the value held by the field
}

// fieldTouches collects the fields a set of instructions touches; calls into
// module functions are followed `depth` levels (all their instructions).
func fieldTouches(c *Ctx, instrs []ssa.Instruction, depth int, skip map[*types.Var]bool) map[*types.Var]*touch {
	out := map[*types.Var]*touch{}
	get := func(f *types.Var) *touch {
		t := out[f]
		if t == nil {
			t = &touch{Methods: map[string]bool{}}
			out[f] = t
		}
		return t
	}
	seen := map[*ssa.Function]bool{}
	var visit func(in ssa.Instruction, d int)
	var visitFn func(fn *ssa.Function, d int)
	visitFn = func(fn *ssa.Function, d int) {
		if fn == nil || fn.Blocks == nil || seen[fn] {
			return
		}
		seen[fn] = true
		allInstrs(fn, func(in ssa.Instruction) { visit(in, d) })
	}
	visit = func(in ssa.Instruction, d int) {
		switch x := in.(type) {
		case *ssa.FieldAddr:
			f := fieldVar(x)
			if f == nil || skip[f] {
				return
			}
			for _, ref := range *x.Referrers() {
				switch r := ref.(type) {
				case *ssa.Store:
					if r.Addr == x {
						get(f).Write = true
					} else {
						get(f).Read = true
					}
				case *ssa.UnOp:
					get(f).Read = true
					// value loaded from the field: map updates / method calls on it
					for _, ref2 := range *r.Referrers() {
						switch r2 := ref2.(type) {
						case *ssa.MapUpdate:
							if r2.Map == r {
								get(f).Write = true
							}
						case ssa.CallInstruction:
							if o := calleeObj(r2.Common()); o != nil {
								as := callArgs(r2.Common())
								if len(as) > 0 && as[0] == r && o.Type().(*types.Signature).Recv() != nil {
									get(f).Methods[o.Name()] = true
								}
							}
							if isBuiltinCall(r2, "delete") && len(r2.Common().Args) > 0 && r2.Common().Args[0] == r {
								get(f).Write = true
							}
						}
					}
				case ssa.CallInstruction:
					// method with pointer receiver on the field itself (value field)
					if o := calleeObj(r.Common()); o != nil {
						as := callArgs(r.Common())
						if len(as) > 0 && as[0] == x {
							get(f).Methods[o.Name()] = true
						}
					}
				default:
					get(f).Read = true
				}
			}
		case *ssa.Field:
			if f := fieldVar(x); f != nil && !skip[f] {
				get(f).Read = true
			}
		case ssa.CallInstruction:
			if d <= 0 {
				return
			}
			if _, isGo := in.(*ssa.Go); isGo {
				return
			}
			for _, callee := range c.Callees(x) {
				if c.modFuncSet[callee] {
					visitFn(callee, d-1)
				}
			}
			if mc, ok := x.Common().Value.(*ssa.MakeClosure); ok {
				if cf, ok := mc.Fn.(*ssa.Function); ok {
					visitFn(cf, d-1)
				}
			}
		}
	}
	for _, in := range instrs {
		visit(in, depth)
	}
	return out
}

func fieldsString(m map[*types.Var]*touch) string {
	var s []string
	for f := range m {
		s = append(s, f.Name())
	}
	sort.Strings(s)
	return strings.Join(s, ",")
}

// sccOf returns the blocks on a common cycle with b (empty if b is not in a loop).
func sccOf(b *ssa.BasicBlock) map[*ssa.BasicBlock]bool {
	fwd := blockReach(b, false)
	if !fwd[b] {
		return nil
	}
	out := map[*ssa.BasicBlock]bool{}
	for x := range fwd {
		if blockReach(x, false)[b] {
			out[x] = true
		}
	}
	return out
}

// everyPathEnters: every path from instruction s to a function exit enters one of `blocks`.
func everyPathEnters(s ssa.Instruction, blocks map[*ssa.BasicBlock]bool) bool {
	if blocks[s.Block()] {
		return true
	}
	seen := map[*ssa.BasicBlock]bool{}
	work := []*ssa.BasicBlock{s.Block()}
	for len(work) > 0 {
		b := work[len(work)-1]
		work = work[:len(work)-1]
		if seen[b] {
			continue
		}
		seen[b] = true
		if blocks[b] && b != s.Block() {
			continue
		}
		if len(b.Succs) == 0 {
			// exit block reached without entering the loop (ignore panics)
			if _, isRet := b.Instrs[len(b.Instrs)-1].(*ssa.Return); isRet {
				return false
			}
			continue
		}
		work = append(work, b.Succs...)
	}
	return true
}

// condFieldsSkip: fields on the access path to the cond and its lock are not decision locations.
func condFieldsSkip(v ssa.Value) map[*types.Var]bool {
	m := map[*types.Var]bool{}
	for _, f := range fieldChain(v) {
		m[f] = true
	}
	return m
}

// checkCondProtocol checks all sync.Cond of the module whose class passes the filter.
func checkCondProtocol(c *Ctx, r *Result, lfs *LockFlows, rule string, filter func(class string) bool) (nConds, nWaits, nSignals int) {
	var ops []condOp
	for _, fn := range c.ModFuncs() {
		allInstrs(fn, func(in ssa.Instruction) {
			if op, ok := condOpOf(in); ok && filter(op.Class) {
				ops = append(ops, op)
			}
		})
	}
	classes := map[string]bool{}
	for _, op := range ops {
		classes[op.Class] = true
	}
	nConds = len(classes)

	// per class: union of the decision fields of its waits, and the methods the waiters call on them
	decision := map[string]map[*types.Var]*touch{}
	ordW := map[string]*ordinals{}
	ord := func(fn *ssa.Function) *ordinals {
		k := c.FuncKey(fn)
		if ordW[k] == nil {
			ordW[k] = newOrdinals()
		}
		return ordW[k]
	}

	for _, op := range ops {
		if op.Kind != "Wait" {
			continue
		}
		nWaits++
		lf := lfs.Of(op.Fn)
		site := ord(op.Fn).key(c.FuncKey(op.Fn), "wait", op.Class)
		pos := c.Pos(c.InstrPos(op.Instr))
		lpath := op.Path + ".L"
		if lf == nil || !lf.MustHoldPath(op.Instr, lpath, false) {
			r.Instance(rule+"-W", site, pos, "finding", "Wait without the cond's lock certainly held", true)
			r.Report(Finding{Rule: rule + "-W", Site: site, Pos: pos,
				Msg: fmt.Sprintf("%s: %s.Wait() is not certainly executed with %s held", c.FuncKey(op.Fn), op.Path, lpath)})
			continue
		}
		// critical section before the wait: instructions executed with L held that can reach the Wait
		var cs []ssa.Instruction
		allInstrs(op.Fn, func(in ssa.Instruction) {
			if in == op.Instr {
				return
			}
			if _, isLock := lockOpOf(in); isLock {
				return
			}
			if lf.MustHoldPath(in, lpath, false) && canReach(in, op.Instr) {
				cs = append(cs, in)
			}
		})
		skip := condFieldsSkip(op.Recv)
		ft := fieldTouches(c, cs, 3, skip)
		// locks are not decision locations
		for f := range ft {
			if isLockType(f.Type()) || isNamed(f.Type(), "sync", "Cond") {
				delete(ft, f)
			}
		}
		if decision[op.Class] == nil {
			decision[op.Class] = map[*types.Var]*touch{}
		}
		for f, t := range ft {
			d := decision[op.Class][f]
			if d == nil {
				d = &touch{Methods: map[string]bool{}}
				decision[op.Class][f] = d
			}
			d.Read = d.Read || t.Read
			d.Write = d.Write || t.Write
			for m := range t.Methods {
				d.Methods[m] = true
			}
		}
		if len(ft) == 0 {
			r.Instance(rule+"-W", site, pos, "finding", "empty critical section before Wait", true)
			r.Report(Finding{Rule: rule + "-W", Site: site, Pos: pos,
				Msg: fmt.Sprintf("%s: the decision to call %s.Wait() is not taken under %s — no shared location is read between the Lock and the Wait, so a Signal sent after the caller's last check and before the Wait is lost",
					c.FuncKey(op.Fn), op.Path, lpath)})
			continue
		}
		r.Instance(rule+"-W", site, pos, "ok", "decision locations read under L: "+fieldsString(ft), true)
	}

	// signals
	for _, op := range ops {
		if op.Kind == "Wait" {
			continue
		}
		nSignals++
		lf := lfs.Of(op.Fn)
		site := ord(op.Fn).key(c.FuncKey(op.Fn), strings.ToLower(op.Kind), op.Class)
		pos := c.Pos(c.InstrPos(op.Instr))
		lpath := op.Path + ".L"
		dec := decision[op.Class]

		// polling-loop exemption
		exempt := false
		for _, op2 := range ops {
			if op2.Fn != op.Fn || op2.Kind == "Wait" || op2.Class != op.Class || op2.Path != op.Path {
				continue
			}
			if scc := sccOf(op2.Instr.Block()); scc != nil && everyPathEnters(op.Instr, scc) {
				exempt = true
			}
		}
		if exempt {
			r.Instance(rule+"-S", site, pos, "exempt", "followed on every path by a polling loop that re-broadcasts the same cond", true)
			continue
		}
		held := lf != nil && lf.MustHoldPath(op.Instr, lpath, false)
		covered := held
		why := "executes with " + lpath + " held"
		if !held && lf != nil {
			// a dominating critical section of L that touches a decision location
			var cs []ssa.Instruction
			allInstrs(op.Fn, func(in ssa.Instruction) {
				if lf.MustHoldPath(in, lpath, false) && dominates(in, op.Instr) {
					cs = append(cs, in)
				}
			})
			ft := fieldTouches(c, cs, 2, condFieldsSkip(op.Recv))
			for f := range ft {
				if dec[f] != nil {
					covered = true
					why = "dominated by a critical section of " + lpath + " touching " + f.Name()
				}
			}
		}
		if !covered {
			r.Instance(rule+"-S", site, pos, "finding", "signal outside the cond's lock", true)
			r.Report(Finding{Rule: rule + "-S", Site: site, Pos: pos,
				Msg: fmt.Sprintf("%s: %s.%s() executes without %s held and is not preceded by a critical section of it touching the waiters' decision locations (%s): a waiter between its check and its Wait misses this wake-up",
					c.FuncKey(op.Fn), op.Path, op.Kind, lpath, fieldsString(dec))})
			continue
		}
		// (S') the update of the decision location precedes the signal
		var all []ssa.Instruction
		allInstrs(op.Fn, func(in ssa.Instruction) { all = append(all, in) })
		updates := 0
		dominating := 0
		for _, in := range all {
			if in == op.Instr {
				continue
			}
			ft := fieldTouches(c, []ssa.Instruction{in}, 2, condFieldsSkip(op.Recv))
			upd := false
			for f, t := range ft {
				d := dec[f]
				if d == nil {
					continue
				}
				if t.Write {
					upd = true
				}
				for m := range t.Methods {
					if !d.Methods[m] {
						upd = true // a method the waiters do not use to read: possibly a mutator
					}
				}
			}
			if upd {
				updates++
				if dominates(in, op.Instr) {
					dominating++
				}
			}
		}
		if updates > 0 && dominating == 0 {
			r.Instance(rule+"-S'", site, pos, "finding", "decision location updated only after the signal", true)
			r.Report(Finding{Rule: rule + "-S'", Site: site, Pos: pos,
				Msg: fmt.Sprintf("%s: the waiters' decision locations (%s) are updated in this function, but no update precedes %s.%s(): a woken waiter re-checks a predicate that is still false and sleeps again",
					c.FuncKey(op.Fn), fieldsString(dec), op.Path, op.Kind)})
			continue
		}
		// (P) the signal announces something the waiters look at: when the signalling function
		// writes fields of the cond's owner before the signal, at least one of them is a
		// decision location
		if dominating == 0 {
			var owner *types.Named
			if ld, ok := op.Recv.(*ssa.UnOp); ok {
				if fa, ok := ld.X.(*ssa.FieldAddr); ok {
					owner = namedOf(fa.X.Type())
				}
			}
			var others []string
			for _, in := range all {
				fa, ok := in.(*ssa.FieldAddr)
				if !ok || owner == nil || namedOf(fa.X.Type()) != owner || !dominates(in, op.Instr) {
					continue
				}
				f := fieldVar(fa)
				if f == nil || dec[f] != nil || isLockType(f.Type()) || isNamed(f.Type(), "sync", "Cond") {
					continue
				}
				for _, ref := range *fa.Referrers() {
					if st, ok := ref.(*ssa.Store); ok && st.Addr == ssa.Value(fa) {
						others = append(others, f.Name())
					}
				}
			}
			if len(others) > 0 {
				sort.Strings(others)
				r.Instance(rule+"-P", site, pos, "finding", "signal after an update the predicate does not read", true)
				r.Report(Finding{Rule: rule + "-P", Site: site, Pos: pos,
					Msg: fmt.Sprintf("%s: before %s.%s() the function updates %s, but the waiters' predicate reads only (%s): a waiter woken by this signal re-checks a predicate that did not change and sleeps again — the announced change is never acted on",
						c.FuncKey(op.Fn), op.Path, op.Kind, strings.Join(dedup(others), ","), fieldsString(dec))})
				continue
			}
		}
		// (U) every path from an update that this signal announces to the function's exit passes
		// a signal of the same cond
		missed := ""
		for _, in := range all {
			if in == op.Instr || !dominates(in, op.Instr) {
				continue
			}
			ft := fieldTouches(c, []ssa.Instruction{in}, 2, condFieldsSkip(op.Recv))
			upd := false
			for f, t := range ft {
				d := dec[f]
				if d == nil {
					continue
				}
				if t.Write {
					upd = true
				}
				for m := range t.Methods {
					if !d.Methods[m] {
						upd = true
					}
				}
			}
			if !upd {
				continue
			}
			// search forward from `in` avoiding signals of this cond
			isSig := map[ssa.Instruction]bool{}
			for _, op2 := range ops {
				if op2.Fn == op.Fn && op2.Kind != "Wait" && op2.Class == op.Class {
					isSig[op2.Instr] = true
				}
			}
			seenB := map[*ssa.BasicBlock]bool{}
			var escape func(b *ssa.BasicBlock, from int) bool
			escape = func(b *ssa.BasicBlock, from int) bool {
				for i := from; i < len(b.Instrs); i++ {
					if isSig[b.Instrs[i]] {
						return false
					}
					if _, isRet := b.Instrs[i].(*ssa.Return); isRet && b != op.Fn.Recover {
						return true
					}
				}
				for _, s := range b.Succs {
					if seenB[s] {
						continue
					}
					seenB[s] = true
					if escape(s, 0) {
						return true
					}
				}
				return false
			}
			if escape(in.Block(), instrIndex(in)+1) {
				missed = c.Pos(c.InstrPos(in))
			}
		}
		if missed != "" {
			r.Instance(rule+"-U", site, pos, "finding", "a path from the update to the exit skips the signal", true)
			r.Report(Finding{Rule: rule + "-U", Site: site, Pos: pos,
				Msg: fmt.Sprintf("%s: the update of the waiters' decision locations at %s is announced by %s.%s() on some paths only — on another path the function returns without signalling, and a waiter that checked before the update sleeps although there is work (lost wake-up)",
					c.FuncKey(op.Fn), missed, op.Path, op.Kind)})
			continue
		}
		r.Instance(rule+"-S", site, pos, "ok", fmt.Sprintf("%s; %d update(s) of decision locations precede it, each followed by a signal on every path", why, dominating), true)
	}

	// decision locations are written somewhere in the module
	var clsNames []string
	for cl := range decision {
		clsNames = append(clsNames, cl)
	}
	sort.Strings(clsNames)
	for _, cl := range clsNames {
		written := map[*types.Var]bool{}
		for _, fn := range c.ModFuncs() {
			var all []ssa.Instruction
			allInstrs(fn, func(in ssa.Instruction) { all = append(all, in) })
			for f, t := range fieldTouches(c, all, 0, nil) {
				if decision[cl][f] == nil {
					continue
				}
				if t.Write {
					written[f] = true
				}
				for m := range t.Methods {
					if !decision[cl][f].Methods[m] {
						written[f] = true
					}
				}
			}
		}
		if len(decision[cl]) > 0 && len(written) == 0 {
			r.Report(Finding{Rule: rule + "-S'", Site: sanitizeSite(cl + "#predicate-never-written"),
				Msg: fmt.Sprintf("cond %s: none of the locations read before Wait (%s) is ever written: the predicate is irrelevant to the wake-up", cl, fieldsString(decision[cl]))})
		}
		r.Instance(rule+"-S'", cl, "", "ok", fmt.Sprintf("decision locations %s; written somewhere: %d", fieldsString(decision[cl]), len(written)), true)
	}
	return
}

func isLockType(t types.Type) bool {
	return isNamed(t, "sync", "Mutex") || isNamed(t, "sync", "RWMutex") || isNamed(t, "sync", "Locker")
}
