package main

// Span invariant of the lexer: 0 ≤ l.start ≤ l.pos ≤ len(l.input).
//
// The invariant itself is argued by hand (next advances pos only while pos < len(input) and by the
// width of the rune decoded there; backup takes back at most what was advanced since start;
// startNew sets start to pos). What is machine-checked on every run is its frame: the fields are
// stored to only in those three methods (start only ever receives pos) and by the constructor, so
// no other code can invalidate it. Under the invariant every slice input[A:B] with A, B among
// 0, start, pos, len in that order is in range — in whatever function it is written, also when
// the bounds are handed to an unexported helper as arguments.

import (
	"fmt"
	"go/token"
	"go/types"

	"golang.org/x/tools/go/ssa"
)

var spanInvWriters = map[string]bool{
	"parser.(*lexer).next":     true, // pos += width of the rune decoded at pos < len(input)
	"parser.(*lexer).backup":   true, // pos -= width of the last next (or an explicit width not beyond start)
	"parser.(*lexer).startNew": true, // start = pos
}

type spanInv struct {
	fInput, fStart, fPos *types.Var
	premise              string // non-empty: why the frame condition fails
	checked              bool
}

func (oc *obligCtx) spanInvariant() *spanInv {
	if oc.span != nil {
		return oc.span
	}
	c := oc.c
	si := &spanInv{fInput: c.Field("parser", "lexer", "input"), fStart: c.Field("parser", "lexer", "start"), fPos: c.Field("parser", "lexer", "pos")}
	oc.span = si
	if si.fInput == nil || si.fStart == nil || si.fPos == nil {
		si.premise = "fields parser.lexer.{input,start,pos} not found"
		return si
	}
	for _, fn := range c.ModFuncs() {
		key := c.FuncKey(fn)
		allInstrs(fn, func(in ssa.Instruction) {
			st, ok := in.(*ssa.Store)
			if !ok {
				return
			}
			fa, ok := st.Addr.(*ssa.FieldAddr)
			if !ok {
				return
			}
			fv := fieldVar(fa)
			if fv != si.fInput && fv != si.fStart && fv != si.fPos {
				return
			}
			if _, fresh := fa.X.(*ssa.Alloc); fresh {
				// initialisation of a new lexer: start and pos must start at 0
				if fv != si.fInput {
					if k, isC := constInt(st.Val); !isC || k != 0 {
						si.premise = fmt.Sprintf("%s initialises lexer.%s with a value other than 0", key, fv.Name())
					}
				}
				return
			}
			if !spanInvWriters[key] {
				si.premise = fmt.Sprintf("%s stores to lexer.%s (only next, backup and startNew are argued to keep 0 ≤ start ≤ pos ≤ len(input))", key, fv.Name())
				return
			}
			if fv == si.fStart {
				ld, isLoad := stripNumConv(st.Val).(*ssa.UnOp)
				if !isLoad || ld.Op != token.MUL || fieldVar(ld.X) != si.fPos {
					si.premise = fmt.Sprintf("%s stores a value other than lexer.pos to lexer.start", key)
				}
			}
			if fv == si.fInput {
				si.premise = fmt.Sprintf("%s replaces lexer.input", key)
			}
		})
	}
	return si
}

// rank of a bound under the invariant: 0 (constant 0 / omitted low), 1 start, 2 pos, 3 len(input)
// / omitted high; -1 unknown. recv is the lexer the sliced input belongs to.
func (si *spanInv) rank(v ssa.Value, recv ssa.Value, isLow bool) (int, *ssa.UnOp) {
	if v == nil {
		if isLow {
			return 0, nil
		}
		return 3, nil
	}
	v = stripNumConv(v)
	if k, ok := constInt(v); ok {
		if k == 0 {
			return 0, nil
		}
		return -1, nil
	}
	if call, ok := v.(*ssa.Call); ok && isBuiltinCall(call, "len") {
		if ld, ok := call.Call.Args[0].(*ssa.UnOp); ok && ld.Op == token.MUL && fieldVar(ld.X) == si.fInput && sameRecv(ld.X, recv) {
			return 3, nil
		}
		return -1, nil
	}
	ld, ok := v.(*ssa.UnOp)
	if !ok || ld.Op != token.MUL {
		return -1, nil
	}
	switch fieldVar(ld.X) {
	case si.fStart:
		if sameRecv(ld.X, recv) {
			return 1, ld
		}
	case si.fPos:
		if sameRecv(ld.X, recv) {
			return 2, ld
		}
	}
	return -1, nil
}

func sameRecv(addr ssa.Value, recv ssa.Value) bool {
	fa, ok := addr.(*ssa.FieldAddr)
	if !ok {
		return false
	}
	return fa.X == recv || (rootOf(fa.X) == rootOf(recv) && accessPath(fa.X) == accessPath(recv))
}

// noCallBetween: from (nil = block start) and to are in one block and no call separates them.
func noCallBetween(from ssa.Instruction, to ssa.Instruction) bool {
	b := to.Block()
	start := 0
	if from != nil {
		if from.Block() != b {
			return false
		}
		start = instrIndex(from) + 1
	}
	for i := start; i < instrIndex(to); i++ {
		switch b.Instrs[i].(type) {
		case *ssa.Call, *ssa.Go, *ssa.Defer:
			return false
		}
	}
	return true
}

// spanDischarge: the slice is input[A:B] of a lexer with A ≤ B by the span invariant.
func (oc *obligCtx) spanDischarge(in ssa.Instruction, x *ssa.Slice) (bool, string) {
	si := oc.spanInvariant()
	if si.fInput == nil || x.Max != nil {
		return false, ""
	}
	xl, ok := x.X.(*ssa.UnOp)
	if !ok || xl.Op != token.MUL || fieldVar(xl.X) != si.fInput {
		return false, ""
	}
	recv := xl.X.(*ssa.FieldAddr).X
	fn := in.Parent()
	lowP, _ := stripNumConvOrNil(x.Low).(*ssa.Parameter)
	highP, _ := stripNumConvOrNil(x.High).(*ssa.Parameter)
	why := "lexer invariant 0 ≤ start ≤ pos ≤ len(input) (fields written only by next / backup / startNew, checked)"
	if lowP == nil && highP == nil {
		rl, ll := si.rank(x.Low, recv, true)
		rh, lh := si.rank(x.High, recv, false)
		if rl < 0 || rh < 0 || rl > rh {
			return false, ""
		}
		for _, ld := range []*ssa.UnOp{ll, lh} {
			if ld != nil && !noCallBetween(ld, in) {
				return false, ""
			}
		}
		if si.premise != "" {
			return false, si.premise
		}
		return true, why
	}
	// bounds handed in as arguments of an unexported helper: decide at every call site
	if fn.Parent() != nil || (fn.Object() != nil && fn.Object().Exported()) {
		return false, ""
	}
	rp, isParam := rootOf(recv).(*ssa.Parameter)
	if !isParam || recv != ssa.Value(rp) {
		return false, ""
	}
	idxOf := func(p *ssa.Parameter) int {
		for i, q := range fn.Params {
			if q == p {
				return i
			}
		}
		return -1
	}
	// the helper does not call anything before it slices (the fields are as the caller read them),
	// and does not reassign the bound parameters (they are SSA parameters: immutable)
	if in.Block() != fn.Blocks[0] || !noCallBetween(nil, in) {
		return false, ""
	}
	n := oc.c.CHA().Nodes[fn]
	if n == nil || len(n.In) == 0 {
		return false, ""
	}
	sites := 0
	for _, e := range n.In {
		if e.Site == nil || e.Site.Common().StaticCallee() != fn {
			return false, ""
		}
		args := e.Site.Common().Args
		if len(args) != len(fn.Params) {
			return false, ""
		}
		crecv := args[idxOf(rp)]
		bound := func(v ssa.Value, p *ssa.Parameter, isLow bool) (int, *ssa.UnOp) {
			if p != nil {
				return si.rank(args[idxOf(p)], crecv, isLow)
			}
			if v == nil || isConstLike(v) {
				return si.rank(v, recv, isLow)
			}
			return -1, nil
		}
		rl, ll := bound(x.Low, lowP, true)
		rh, lh := bound(x.High, highP, false)
		if rl < 0 || rh < 0 || rl > rh {
			return false, ""
		}
		ci := e.Site.(ssa.Instruction)
		for _, ld := range []*ssa.UnOp{ll, lh} {
			if ld != nil && !noCallBetween(ld, ci) {
				return false, ""
			}
		}
		sites++
	}
	if si.premise != "" {
		return false, si.premise
	}
	return true, fmt.Sprintf("%s; the bounds are start / pos of the same lexer at all %d call sites", why, sites)
}

func stripNumConvOrNil(v ssa.Value) ssa.Value {
	if v == nil {
		return nil
	}
	return stripNumConv(v)
}

func isConstLike(v ssa.Value) bool {
	_, ok := stripNumConv(v).(*ssa.Const)
	return ok
}
