package main

// C05 — lexical scoping, functions, containers and objects behave as specified.

import (
	"fmt"
	"go/types"
	"sort"
	"strings"

	"golang.org/x/tools/go/ssa"
)

func init() { register("C05", checkC05) }

func checkC05(c *Ctx, r *Result, tier string) {
	r.Explanation = "Decides three provenance/ordering clauses of C05 that are visible in the shape of the code: (R05b) a function call evaluates its body in a scope and an instance state allocated in this call, and every parameter/this/super binding on that scope is made before the scope is parented to the declaration scope (otherwise SetValue would update an outer variable of the same name instead of defining the parameter); " +
		"(R05c) `let` reaches the scope only through SetLocalValue, assignment only through SetValue; (R05d) reader/writer agreement: the key representations tried when reading an ECAL map through a variable path equal those used when writing."
	r.RuleText = "R05b provenance (checkFreshFrame) + bind-before-parent ordering; R05c who-calls-which scope mutator per runtime type (via providerMap); R05d set equality of key representations over the map index operations of package scope"
	r.NotCovered = "Name resolution order, closures, recursion, parameter defaults' values, object construction and inheritance, list/map builtins (runtime behaviour). That every block construct opens a child scope is pinned by the existing tests (they print the scope tree)."
	r.Assumptions = []string{"scope.SetParentOfScope is the only way a fresh scope gets a parent"}

	rtIface := c.Interface("parser", "Runtime")
	fnIface := c.Interface("util", "ECALFunction")
	scopeIface := c.Interface("parser", "Scope")
	if rtIface == nil || fnIface == nil || scopeIface == nil {
		r.Undecide("parser.Runtime / util.ECALFunction / parser.Scope not found")
		return
	}

	// ---- R05b -----------------------------------------------------------------------------------
	n := 0
	nBindLoop := 0
	for _, fn := range c.Implementations(fnIface, "Run") {
		if c.PkgOf(fn) != "interpreter" {
			continue
		}
		// the ECAL function object: its Run parents a scope
		// the call scope gets its parent either by SetParentOfScope(child, parent) or at its
		// creation by NewScopeWithParent(name, parent)
		parents := callSites(fn, func(name string, _ ssa.CallInstruction) bool {
			return strings.HasSuffix(name, "scope.SetParentOfScope") || strings.HasSuffix(name, "scope.NewScopeWithParent")
		})
		if len(parents) == 0 {
			continue
		}
		n++
		nBindLoop += c05Bindings(c, r, fn, scopeIface)
		key := c.FuncKey(fn)
		// the body is what is evaluated after the call scope was parented; parameter defaults are
		// evaluated before, in the caller's scope
		childOf := func(pc ssa.CallInstruction) ssa.Value {
			if strings.HasSuffix(callName(pc), "scope.NewScopeWithParent") {
				if v, isVal := pc.(ssa.Value); isVal {
					return v
				}
			}
			return pc.Common().Args[0]
		}
		nEval := checkFreshFrame(c, r, fn, rtIface, "R05b-fresh", func(in ssa.Instruction) bool {
			for _, pc := range parents {
				if !dominates(pc, in) {
					continue
				}
				// with the parent given at creation, parameter defaults are evaluated after that
				// point too, in the caller's scope: the body is what runs in the call scope itself
				if strings.HasSuffix(callName(pc), "scope.NewScopeWithParent") {
					if ci, ok := in.(ssa.CallInstruction); ok && len(ci.Common().Args) > 0 && unspill(ci.Common().Args[0]) == unspill(childOf(pc)) {
						return true
					}
					continue
				}
				return true
			}
			return false
		})
		if nEval == 0 {
			r.Undecide("R05b: %s parents a scope but evaluates no body", key)
		}
		for i, pc := range parents {
			site := fmt.Sprintf("%s#SetParentOfScope#%d", key, i)
			pos := c.Pos(c.InstrPos(pc))
			child := pc.Common().Args[0]
			if strings.HasSuffix(callName(pc), "scope.NewScopeWithParent") {
				if v, isVal := pc.(ssa.Value); isVal {
					child = v
				}
			}
			var late []string
			nBind := 0
			allInstrs(fn, func(in ssa.Instruction) {
				ci, ok := in.(ssa.CallInstruction)
				if !ok || !ci.Common().IsInvoke() || !types.Identical(ci.Common().Value.Type().Underlying(), scopeIface) {
					return
				}
				m := ci.Common().Method.Name()
				if m != "SetValue" && m != "SetLocalValue" {
					return
				}
				if unspill(ci.Common().Value) != unspill(child) {
					return
				}
				nBind++
				// SetLocalValue defines in the call scope whatever its parent is; SetValue looks the
				// name up through the parent first
				if canReach(pc, in) && m == "SetValue" {
					late = append(late, c.Pos(c.InstrPos(in)))
				}
			})
			// the parenting dominates the body evaluation
			bodyOK := false
			allInstrs(fn, func(in ssa.Instruction) {
				ci, ok := in.(ssa.CallInstruction)
				if ok && ci.Common().IsInvoke() && ci.Common().Method.Name() == "Eval" && types.Identical(ci.Common().Value.Type().Underlying(), rtIface) &&
					len(ci.Common().Args) > 0 && unspill(ci.Common().Args[0]) == unspill(child) && dominates(pc, in) {
					bodyOK = true
				}
			})
			switch {
			case len(late) > 0:
				r.Instance("R05b", site, pos, "finding", "bindings after parenting: "+strings.Join(late, " "), true)
				r.Report(Finding{Rule: "R05b", Site: site, Pos: pos,
					Msg: fmt.Sprintf("%s binds names with SetValue on the call scope after it was parented to the declaration scope (%s): a parameter, `this` or `super` named like a variable of an enclosing scope updates that outer variable instead of being defined in the call frame", key, strings.Join(late, " "))})
			case !bodyOK:
				r.Instance("R05b", site, pos, "finding", "body not evaluated in the parented call scope", true)
				r.Report(Finding{Rule: "R05b", Site: site, Pos: pos,
					Msg: key + ": the body is not evaluated in the scope that was parented to the declaration scope (after the parenting): the function does not see its definition scope, or runs in the caller's scope"})
			default:
				r.Instance("R05b", site, pos, "ok", fmt.Sprintf("%d binding(s) precede the parenting; the body is evaluated in the parented scope", nBind), true)
			}
		}
	}
	r.Floor("R05b", n, 1)
	r.Floor("R05e", nBindLoop, 1)

	// ---- R05c -----------------------------------------------------------------------------------
	pt, err := ExtractProviders(c)
	if err != nil {
		r.Undecide("R05c: %v", err)
	} else {
		for kind, want := range map[string]string{"let": "SetLocalValue", ":=": "SetValue"} {
			rtT := pt.Kind2Type[kind]
			if rtT == nil {
				r.Undecide("R05c: no runtime for node kind %s", kind)
				continue
			}
			eval := c.Method("interpreter", rtT.Obj().Name(), "Eval")
			if eval == nil {
				r.Undecide("R05c: Eval of %s not found", rtT.Obj().Name())
				continue
			}
			// scope mutators called directly or through the identifier runtime's Set (one level)
			got := map[string]bool{}
			var visit func(fn *ssa.Function, d int)
			visit = func(fn *ssa.Function, d int) {
				allInstrs(fn, func(in ssa.Instruction) {
					ci, ok := in.(ssa.CallInstruction)
					if !ok {
						return
					}
					if ci.Common().IsInvoke() && types.Identical(ci.Common().Value.Type().Underlying(), scopeIface) {
						if m := ci.Common().Method.Name(); !scopeReadOnly[m] && m != "NewChild" {
							got[m] = true
						}
						return
					}
					if f := ci.Common().StaticCallee(); f != nil && d > 0 && c.modFuncSet[f] && f.Name() == "Set" {
						visit(f, d-1)
					}
				})
			}
			visit(eval, 1)
			site := "interpreter." + rtT.Obj().Name() + "#scope-mutators"
			pos := c.Pos(eval.Pos())
			var ms []string
			for m := range got {
				ms = append(ms, m)
			}
			sort.Strings(ms)
			if len(ms) == 1 && ms[0] == want {
				r.Instance("R05c", site, pos, "ok", "`"+kind+"` reaches the scope only through "+want, true)
			} else {
				r.Instance("R05c", site, pos, "finding", "uses "+strings.Join(ms, ","), true)
				r.Report(Finding{Rule: "R05c", Site: site, Pos: pos,
					Msg: fmt.Sprintf("the runtime of `%s` reaches the scope through {%s}, expected only %s: `let` would update an outer variable / an assignment would always define locally", kind, strings.Join(ms, ","), want)})
			}
		}
	}

	// ---- R05d -----------------------------------------------------------------------------------
	c05ContainerKeys(c, r)
	c05ConcatFresh(c, r)
	c05LiteralFresh(c, r)
	c05Constructor(c, r)
	c05NullIsAValue(c, r)
}

// keyRepr classifies the representation of a map key expression.
func keyRepr(v ssa.Value) string {
	v = stripConvKeepIface(v)
	if mi, ok := v.(*ssa.MakeInterface); ok {
		return mi.X.Type().String()
	}
	return "dynamic"
}

func isECALMap(t types.Type) bool {
	m, ok := t.Underlying().(*types.Map)
	return ok && types.IsInterface(m.Key()) && types.IsInterface(m.Elem())
}

func c05ContainerKeys(c *Ctx, r *Result) {
	vsT := c.NamedType("scope", "varsScope")
	if vsT == nil {
		r.Undecide("R05d: scope.varsScope not found")
		return
	}
	read := map[string][]string{}
	write := map[string][]string{}
	nOps := 0
	for _, fn := range c.ModFuncs() {
		if c.PkgOf(fn) != "scope" {
			continue
		}
		root := fn
		for root.Parent() != nil {
			root = root.Parent()
		}
		if root.Signature.Recv() == nil || namedOf(root.Signature.Recv().Type()) != vsT {
			continue
		}
		// read path: methods whose name starts with get/Get; write path: set/Set/containerAccess
		name := strings.ToLower(root.Name())
		isRead := strings.HasPrefix(name, "get")
		isWrite := strings.HasPrefix(name, "set") || strings.Contains(name, "containeraccess")
		if !isRead && !isWrite {
			continue
		}
		allInstrs(fn, func(in ssa.Instruction) {
			var m, k ssa.Value
			switch x := in.(type) {
			case *ssa.Lookup:
				m, k = x.X, x.Index
			case *ssa.MapUpdate:
				m, k = x.Map, x.Key
			default:
				return
			}
			if !isECALMap(m.Type()) {
				return
			}
			nOps++
			rep := keyRepr(k)
			where := c.FuncKey(fn) + " " + c.Pos(c.InstrPos(in))
			if isRead {
				read[rep] = append(read[rep], where)
			} else {
				write[rep] = append(write[rep], where)
			}
		})
	}
	r.Floor("R05d-map-ops", nOps, 3)
	keys := func(m map[string][]string) []string {
		var out []string
		for k := range m {
			out = append(out, k)
		}
		sort.Strings(out)
		return out
	}
	rk, wk := keys(read), keys(write)
	site := "scope.varsScope#container-keys"
	if strings.Join(rk, ",") == strings.Join(wk, ",") {
		r.Instance("R05d", site, "", "ok", "read and write paths use the same key representations {"+strings.Join(rk, ",")+"}", true)
		return
	}
	var onlyRead, onlyWrite []string
	for _, k := range rk {
		if _, ok := write[k]; !ok {
			onlyRead = append(onlyRead, k+" ("+read[k][0]+")")
		}
	}
	for _, k := range wk {
		if _, ok := read[k]; !ok {
			onlyWrite = append(onlyWrite, k+" ("+write[k][0]+")")
		}
	}
	site += ":read={" + strings.Join(rk, ",") + "}:write={" + strings.Join(wk, ",") + "}"
	r.Instance("R05d", site, "", "finding", fmt.Sprintf("read {%s} vs write {%s}", strings.Join(rk, ","), strings.Join(wk, ",")), true)
	r.Report(Finding{Rule: "R05d", Site: site,
		Msg: fmt.Sprintf("ECAL map keys are represented differently on the read path {%s} and on the write path {%s} of the variable scope (only read: %s; only write: %s): `m := {1:2}; m[1] := 3; m[1]` yields 2 — the write goes to the string key \"1\", the read finds the number key 1",
			strings.Join(rk, ","), strings.Join(wk, ","), strings.Join(onlyRead, "; "), strings.Join(onlyWrite, "; "))})
}

// ---- R05e: parameter bindings are not loop-carried ----------------------------------------------

// loopCarriedPhi: walking back from v through phis and conversions, the first phi that sits in a
// loop header and receives, over a back edge, a value defined in the loop: v may hold what an
// earlier iteration computed.
func loopCarriedPhi(v ssa.Value) *ssa.Phi {
	seen := map[ssa.Value]bool{}
	var walk func(v ssa.Value) *ssa.Phi
	walk = func(v ssa.Value) *ssa.Phi {
		if v == nil || seen[v] {
			return nil
		}
		seen[v] = true
		switch x := v.(type) {
		case *ssa.Phi:
			b := x.Block()
			for i, p := range b.Preds {
				if b.Dominates(p) && i < len(x.Edges) {
					if _, isConst := x.Edges[i].(*ssa.Const); !isConst {
						return x
					}
				}
			}
			for _, e := range x.Edges {
				if r := walk(e); r != nil {
					return r
				}
			}
		case *ssa.MakeInterface:
			return walk(x.X)
		case *ssa.ChangeInterface:
			return walk(x.X)
		case *ssa.ChangeType:
			return walk(x.X)
		case *ssa.UnOp:
			if a, ok := x.X.(*ssa.Alloc); ok {
				// a spilled local: any store inside a loop that does not dominate the load may be stale;
				// we only follow the sources
				for _, s := range cellSources(a) {
					if r := walk(s); r != nil {
						return r
					}
				}
			}
		}
		return nil
	}
	return walk(v)
}

func c05Bindings(c *Ctx, r *Result, fn *ssa.Function, scopeIface *types.Interface) int {
	key := c.FuncKey(fn)
	n := 0
	ord := newOrdinals()
	allInstrs(fn, func(in ssa.Instruction) {
		ci, ok := in.(ssa.CallInstruction)
		if !ok || !ci.Common().IsInvoke() || !types.Identical(ci.Common().Value.Type().Underlying(), scopeIface) {
			return
		}
		m := ci.Common().Method.Name()
		if (m != "SetValue" && m != "SetLocalValue") || len(ci.Common().Args) < 2 || !inLoop(in.Block()) {
			return
		}
		n++
		site := ord.key(key, "param-binding", m)
		pos := c.Pos(c.InstrPos(in))
		for i, what := range []string{"name", "value"} {
			if phi := loopCarriedPhi(ci.Common().Args[i]); phi != nil {
				r.Instance("R05e", site, pos, "finding", "the bound "+what+" is loop-carried", true)
				r.Report(Finding{Rule: "R05e", Site: site, Pos: pos,
					Msg: fmt.Sprintf("%s: the %s bound to a parameter may come from an earlier iteration of the parameter loop (variable %s is carried around the loop): a parameter without argument or default takes the previous parameter's %s instead of null", key, what, phi.Comment, what)})
				return
			}
		}
		r.Instance("R05e", site, pos, "ok", "name and value bound to the parameter are computed in the same iteration", true)
	})
	return n
}

// ---- R05f: concat returns a new list -------------------------------------------------------------

// inbuildFuncType resolves the implementation type registered under name in interpreter.InbuildFuncMap.
func inbuildFuncType(c *Ctx, name string) *types.Named {
	var out *types.Named
	for _, fn := range initFuncs(c, "interpreter") {
		allInstrs(fn, func(in ssa.Instruction) {
			mu, ok := in.(*ssa.MapUpdate)
			if !ok {
				return
			}
			if k, ok := constString(mu.Key); !ok || k != name {
				return
			}
			mt, ok := mu.Map.Type().Underlying().(*types.Map)
			if !ok || !strings.HasSuffix(mt.Elem().String(), "util.ECALFunction") {
				return
			}
			if mi, ok := mu.Value.(*ssa.MakeInterface); ok {
				out = namedOf(mi.X.Type())
			}
		})
	}
	return out
}

func c05ConcatFresh(c *Ctx, r *Result) {
	t := inbuildFuncType(c, "concat")
	if t == nil {
		r.Undecide("R05f: the implementation of concat was not found in InbuildFuncMap")
		return
	}
	run := c.Method("interpreter", t.Obj().Name(), "Run")
	if run == nil {
		r.Undecide("R05f: Run of %s not found", t.Obj().Name())
		return
	}
	key := c.FuncKey(run)
	fc := &freshCtx{c: c, callers: map[*ssa.Function][]*ssa.Call{}, memo: map[ssa.Value]int{}, why: map[ssa.Value]string{}}
	n := 0
	bad := ""
	var walk func(v ssa.Value, d int)
	walk = func(v ssa.Value, d int) {
		if d > 10 {
			return
		}
		u := unspill(v)
		if _, isSlice := u.Type().Underlying().(*types.Slice); isSlice {
			n++
			if ok, why := fc.fresh(u); !ok {
				bad = why
			}
			return
		}
		switch x := u.(type) {
		case *ssa.Phi:
			for _, e := range x.Edges {
				walk(e, d+1)
			}
		case *ssa.Const:
		default:
			n++
			bad = accessPath(v) + " (not a list built in this call)"
		}
	}
	for _, rv := range returnedValues(run, 0) {
		walk(rv, 0)
	}
	pos := c.Pos(run.Pos())
	site := key + "#result-fresh"
	switch {
	case bad != "":
		r.Instance("R05f", site, pos, "finding", "result may alias "+bad, true)
		r.Report(Finding{Rule: "R05f", Site: site, Pos: pos,
			Msg: key + ": the list returned by concat may share its backing array with " + bad + " — the result is documented to be a new list; a later add/concat on the argument, or a write through the result, changes the other list"})
	case n == 0:
		r.Undecide("R05f: %s returns no list", key)
	default:
		r.Instance("R05f", site, pos, "ok", "every returned list is built by make/append in this call (arguments are only copied from)", true)
	}
	r.Floor("R05f", n, 1)
}

// ---- R05g: container literals evaluate to fresh containers ----------------------------------------

func c05LiteralFresh(c *Ctx, r *Result) {
	pt, err := ExtractProviders(c)
	if err != nil {
		r.Undecide("R05g: %v", err)
		return
	}
	n := 0
	for _, kind := range []string{"list", "map"} {
		rtT := pt.Kind2Type[kind]
		if rtT == nil {
			r.Undecide("R05g: no runtime for node kind %s", kind)
			continue
		}
		eval := c.Method("interpreter", rtT.Obj().Name(), "Eval")
		if eval == nil {
			r.Undecide("R05g: Eval of %s not found", rtT.Obj().Name())
			continue
		}
		key := c.FuncKey(eval)
		fc := &freshCtx{c: c, callers: map[*ssa.Function][]*ssa.Call{}, memo: map[ssa.Value]int{}, why: map[ssa.Value]string{}}
		bad := ""
		var walk func(v ssa.Value, d int)
		walk = func(v ssa.Value, d int) {
			if d > 10 {
				return
			}
			u := unspill(v)
			switch u.Type().Underlying().(type) {
			case *types.Slice, *types.Map:
				n++
				if ok, why := fc.fresh(u); !ok {
					bad = why
				}
				return
			}
			switch x := u.(type) {
			case *ssa.Phi:
				for _, e := range x.Edges {
					walk(e, d+1)
				}
			case *ssa.Const:
			default:
				n++
				bad = accessPath(v) + " (not a container built in this evaluation)"
			}
		}
		for _, rv := range returnedValues(eval, 0) {
			walk(rv, 0)
		}
		site := key + "#literal-fresh"
		pos := c.Pos(eval.Pos())
		if bad != "" {
			r.Instance("R05g", site, pos, "finding", "literal may evaluate to "+bad, true)
			r.Report(Finding{Rule: "R05g", Site: site, Pos: pos,
				Msg: fmt.Sprintf("%s: a %s literal can evaluate to a container that already exists (%s): every evaluation of the literal — each call of the function, each loop round — then yields the same container, and an in-place update through one result shows in all others", key, kind, bad)})
		} else {
			r.Instance("R05g", site, pos, "ok", "every evaluation returns a container built in that evaluation", true)
		}
	}
	r.Floor("R05g", n, 2)
}

// ---- R05h: new() runs the constructor of the finished object -------------------------------------

func c05Constructor(c *Ctx, r *Result) {
	t := inbuildFuncType(c, "new")
	if t == nil {
		r.Undecide("R05h: the implementation of new was not found in InbuildFuncMap")
		return
	}
	run := c.Method("interpreter", t.Obj().Name(), "Run")
	fnRun := c.Method("interpreter", "function", "Run")
	if run == nil || fnRun == nil {
		r.Undecide("R05h: Run of %s / of function not found", t.Obj().Name())
		return
	}
	key := c.FuncKey(run)
	isInitLookup := func(v ssa.Value) (ssa.Value, bool) {
		var lk *ssa.Lookup
		switch x := v.(type) {
		case *ssa.Lookup:
			lk = x
		case *ssa.Extract:
			lk, _ = x.Tuple.(*ssa.Lookup)
			if x.Index != 0 {
				lk = nil
			}
		}
		if lk == nil {
			return nil, false
		}
		k := lk.Index
		if mi, ok := k.(*ssa.MakeInterface); ok {
			k = mi.X
		}
		if s, ok := constString(k); ok && s == "init" {
			return lk.X, true
		}
		return nil, false
	}
	var provenance func(v ssa.Value, d int) (ssa.Value, string)
	provenance = func(v ssa.Value, d int) (ssa.Value, string) {
		if d > 8 {
			return nil, "too deep"
		}
		switch x := v.(type) {
		case *ssa.TypeAssert:
			return provenance(x.X, d+1)
		case *ssa.Extract:
			if ta, ok := x.Tuple.(*ssa.TypeAssert); ok {
				return provenance(ta.X, d+1)
			}
			if m, ok := isInitLookup(x); ok {
				return m, ""
			}
			if call, ok := x.Tuple.(*ssa.Call); ok {
				return nil, "result #" + fmt.Sprint(x.Index) + " of " + callName(call)
			}
		case *ssa.Lookup:
			if m, ok := isInitLookup(x); ok {
				return m, ""
			}
		case *ssa.UnOp:
			if a, ok := x.X.(*ssa.Alloc); ok {
				srcs := cellSources(a)
				if len(srcs) == 1 {
					return provenance(srcs[0], d+1)
				}
			}
		case *ssa.Phi:
			var m ssa.Value
			for _, e := range x.Edges {
				if _, isC := e.(*ssa.Const); isC {
					continue
				}
				mm, why := provenance(e, d+1)
				if mm == nil {
					return nil, why
				}
				m = mm
			}
			if m != nil {
				return m, ""
			}
		case *ssa.Call:
			return nil, "result of " + callName(x)
		}
		return nil, accessPath(v)
	}
	n := 0
	allInstrs(run, func(in ssa.Instruction) {
		call, ok := in.(*ssa.Call)
		if !ok || call.Call.StaticCallee() != fnRun {
			return
		}
		n++
		site := key + "#constructor"
		pos := c.Pos(c.InstrPos(in))
		m, why := provenance(call.Call.Args[0], 0)
		// the map must be the object under construction: a map made in this call that is also the result
		isObj := false
		if m != nil {
			if mm, ok := unspill(m).(*ssa.MakeMap); ok && mm.Parent() == run {
				isObj = true
			}
		}
		if isObj {
			r.Instance("R05h", site, pos, "ok", "the constructor is the `init` member looked up in the object after all templates were merged into it", true)
			return
		}
		if m != nil {
			why = "looked up in " + accessPath(m) + ", which is not the object under construction"
		}
		r.Instance("R05h", site, pos, "finding", "constructor not taken from the finished object: "+why, true)
		r.Report(Finding{Rule: "R05h", Site: site, Pos: pos,
			Msg: key + ": the constructor run by new() is not the `init` member of the finished object (" + why + "): with inheritance the object's effective init is the one merged from its templates — an inherited constructor can be skipped or the wrong one run"})
	})
	r.Floor("R05h", n, 1)
}
