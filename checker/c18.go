package main

// C18 — tokens, errors and breakpoints carry the true source position.

import (
	"fmt"
	"go/token"
	"go/types"
	"sort"
	"strings"

	"golang.org/x/tools/go/ssa"
)

func init() { register("C18", checkC18) }

// exprString renders a small SSA expression tree structurally.
func exprString(v ssa.Value, d int) string {
	if d > 8 {
		return "…"
	}
	v = stripNumConv(v)
	switch x := v.(type) {
	case *ssa.BinOp:
		return "(" + exprString(x.X, d+1) + " " + x.Op.String() + " " + exprString(x.Y, d+1) + ")"
	case *ssa.Const:
		if x.Value == nil {
			return "nil"
		}
		return x.Value.ExactString()
	}
	return accessPath(v)
}

func checkC18(c *Ctx, r *Result, tier string) {
	r.Explanation = "Decides three structural necessary conditions of true token positions in the lexer: (R18a) wherever a line counter (lexer.line or a local initialised from it) is advanced, the corresponding last-newline offset (lexer.lastnl or its local) is set to the current position in the same block — line and column base change together; " +
		"(R18b) all token emitters build Pos/Lline/Lpos from the same expressions (start, line+1, start-lastnl+1); (R18c) in the multi-line lexers the token is emitted before the advanced line is written back (a token carries its start line)."
	r.RuleText = "R18a pairing of line-class advance with lastnl-class assignment (variable classes by dataflow from the lexer's fields); R18b structural agreement of emitters; R18c every path to the write-back of lexer.line passes an emit"
	r.NotCovered = "Byte-exact positions for all inputs (multi-byte characters, CR/LF, tabs are value dependent); that error constructors copy Lline/Lpos (read by inspection); statement separation."
	r.Assumptions = []string{"the lexer's position fields are named by type identity parser.lexer.{line,lastnl,pos,start}"}

	fLine := c.Field("parser", "lexer", "line")
	fLastnl := c.Field("parser", "lexer", "lastnl")
	fPos := c.Field("parser", "lexer", "pos")
	fStart := c.Field("parser", "lexer", "start")
	if fLine == nil || fLastnl == nil || fPos == nil || fStart == nil {
		r.Undecide("fields of parser.lexer not found (line, lastnl, pos, start)")
		return
	}
	isLoadOf := func(v ssa.Value, f *types.Var) bool {
		u, ok := stripNumConv(v).(*ssa.UnOp)
		return ok && u.Op == token.MUL && fieldVar(u.X) == f
	}
	// class membership: value originates (through phis / +k) from a load of field f
	var inClass func(v ssa.Value, f *types.Var, seen map[ssa.Value]bool) bool
	inClass = func(v ssa.Value, f *types.Var, seen map[ssa.Value]bool) bool {
		v = stripNumConv(v)
		if seen[v] {
			return false
		}
		seen[v] = true
		if isLoadOf(v, f) {
			return true
		}
		switch x := v.(type) {
		case *ssa.Phi:
			for _, e := range x.Edges {
				if inClass(e, f, seen) {
					return true
				}
			}
		case *ssa.BinOp:
			if x.Op == token.ADD {
				if _, ok := constInt(x.Y); ok {
					return inClass(x.X, f, seen)
				}
			}
		}
		return false
	}

	nAdv, nNL := 0, 0
	var lexFuncs []*ssa.Function
	for _, fn := range c.ModFuncs() {
		if c.PkgOf(fn) == "parser" {
			lexFuncs = append(lexFuncs, fn)
		}
	}
	for _, fn := range lexFuncs {
		key := c.FuncKey(fn)
		ord := newOrdinals()
		allInstrs(fn, func(in ssa.Instruction) {
			bo, ok := in.(*ssa.BinOp)
			if !ok || bo.Op != token.ADD {
				return
			}
			// line + 1, and any other increment of a line-class variable (line += count)
			if !inClass(bo.X, fLine, map[ssa.Value]bool{}) {
				if !inClass(bo.Y, fLine, map[ssa.Value]bool{}) {
					return
				}
			}
			if c18CountCall(bo.X) != nil || c18CountCall(bo.Y) != nil {
				return // line += strings.Count(text, "\n"): the bulk form, decided below
			}
			// is this an advance (stored back / feeding a phi), not the `line + 1` of an emitter?
			advance := false
			for _, ref := range *bo.Referrers() {
				switch x := ref.(type) {
				case *ssa.Store:
					if fieldVar(x.Addr) == fLine && x.Val == bo {
						advance = true
					}
				case *ssa.Phi:
					advance = true
				}
			}
			if !advance {
				return
			}
			nAdv++
			b := bo.Block()
			site := ord.key(key, "line-advance", accessPath(bo.X))
			pos := c.Pos(c.InstrPos(in))
			ok2 := false
			// field case: store lastnl = pos in the same block
			for _, x := range b.Instrs {
				if st, isSt := x.(*ssa.Store); isSt && fieldVar(st.Addr) == fLastnl && isLoadOf(st.Val, fPos) {
					ok2 = true
				}
			}
			// local case: a lastnl-class phi in a successor receives a load of pos from this block
			for _, s := range b.Succs {
				for _, x := range s.Instrs {
					phi, isPhi := x.(*ssa.Phi)
					if !isPhi {
						break
					}
					for i, p := range s.Preds {
						if p == b && isLoadOf(phi.Edges[i], fPos) {
							if inClass(phi, fLastnl, map[ssa.Value]bool{}) {
								ok2 = true
							}
						}
					}
				}
			}
			if ok2 {
				r.Instance("R18a", site, pos, "ok", "the last-newline offset is set to the current position in the same block", true)
			} else {
				r.Instance("R18a", site, pos, "finding", "line advanced without its column base", true)
				r.Report(Finding{Rule: "R18a", Site: site, Pos: pos,
					Msg: key + ": the line counter is advanced without setting the last-newline offset to the current position: every token on the following line is reported with a wrong column"})
			}
			if c18NewlineOnly(c, r, fn, bo, site, pos, key) {
				nNL++
			}
		})
	}

	// ---- R18d: every rune a line-counting loop examines is tested for being a newline ------------
	nScan := 0
	for _, fn := range lexFuncs {
		key := c.FuncKey(fn)
		ord := newOrdinals()
		allInstrs(fn, func(in ssa.Instruction) {
			cmp, ok := in.(*ssa.BinOp)
			if !ok || cmp.Op != token.EQL || !inLoop(cmp.Block()) {
				return
			}
			var x ssa.Value
			if k, isC := constInt(cmp.Y); isC && k == 10 {
				x = cmp.X
			} else if k, isC := constInt(cmp.X); isC && k == 10 {
				x = cmp.Y
			}
			if x == nil {
				return
			}
			// the comparison controls a line advance
			controls := false
			for _, ref := range *cmp.Referrers() {
				if br, isIf := ref.(*ssa.If); isIf {
					for _, y := range br.Block().Succs[0].Instrs {
						if bo, isBO := y.(*ssa.BinOp); isBO && bo.Op == token.ADD && inClass(bo.X, fLine, map[ssa.Value]bool{}) {
							controls = true
						}
					}
				}
			}
			if !controls {
				return
			}
			nScan++
			site := ord.key(key, "newline-test", accessPath(x))
			pos := c.Pos(c.InstrPos(in))
			// the test is applied on every iteration: no way round the loop that bypasses it, other
			// than through a successful comparison of the same rune with another constant
			if scc := sccOf(cmp.Block()); scc != nil {
				var headers []*ssa.BasicBlock
				for b := range scc {
					for _, p := range b.Preds {
						if !scc[p] {
							headers = append(headers, b)
							break
						}
					}
				}
				excludes := func(b *ssa.BasicBlock, succIdx int) bool {
					ifi, ok := b.Instrs[len(b.Instrs)-1].(*ssa.If)
					if !ok {
						return false
					}
					bo, ok := ifi.Cond.(*ssa.BinOp)
					if !ok || (bo.Op != token.EQL && bo.Op != token.NEQ) {
						return false
					}
					var k int64
					var isC bool
					if bo.X == x {
						k, isC = constInt(bo.Y)
					} else if bo.Y == x {
						k, isC = constInt(bo.X)
					}
					if !isC || k == 10 {
						return false
					}
					// x == k (≠ newline) holds on this edge
					return (bo.Op == token.EQL && succIdx == 0) || (bo.Op == token.NEQ && succIdx == 1)
				}
				bypass := false
				for _, h := range headers {
					seenB := map[*ssa.BasicBlock]bool{h: true}
					work := []*ssa.BasicBlock{h}
					for len(work) > 0 && !bypass {
						b := work[len(work)-1]
						work = work[:len(work)-1]
						if b == cmp.Block() {
							continue
						}
						for i, sx := range b.Succs {
							if !scc[sx] || excludes(b, i) {
								continue
							}
							if sx == h {
								bypass = true // back at the header without having passed the test
								break
							}
							if !seenB[sx] {
								seenB[sx] = true
								work = append(work, sx)
							}
						}
					}
				}
				if bypass {
					r.Instance("R18d", site, pos, "finding", "an iteration of the scan loop can bypass the newline test", true)
					r.Report(Finding{Rule: "R18d", Site: site, Pos: pos,
						Msg: fmt.Sprintf("%s: the loop that examines the runes can complete an iteration without applying the newline test to %s (the test sits under another condition): a line break in that position is not counted, and every later token is reported one line too low", key, accessPath(x))})
					return
				}
			}
			// the scanned variable: the loop-header phi x is, or flows into
			var H *ssa.Phi
			if p, isPhi := x.(*ssa.Phi); isPhi && isLoopHeaderPhi(p) {
				H = p
			} else {
				for _, b := range fn.Blocks {
					for _, y := range b.Instrs {
						p, isPhi := y.(*ssa.Phi)
						if !isPhi {
							break
						}
						if !isLoopHeaderPhi(p) || !sccOf(cmp.Block())[b] {
							continue
						}
						for _, e := range p.Edges {
							if e == x {
								H = p
							}
						}
					}
				}
			}
			if H == nil {
				r.Instance("R18d", site, pos, "ok", "the tested rune is not carried around the loop (each rune is read and tested in the same iteration)", true)
				return
			}
			if ssa.Value(H) == x {
				r.Instance("R18d", site, pos, "ok", "the newline test is applied to the loop's scanned variable itself: every rune the loop examines is tested", true)
				return
			}
			// the test is on a value flowing into the scanned variable: every other inflow must be tested too
			var untested []string
			for i, e := range H.Edges {
				if e == x {
					continue
				}
				tested := false
				if refs := e.Referrers(); refs != nil {
					for _, ref := range *refs {
						if bo, isBO := ref.(*ssa.BinOp); isBO && bo.Op == token.EQL {
							if k, isC := constInt(bo.Y); isC && k == 10 {
								tested = true
							}
						}
					}
				}
				if _, isConst := e.(*ssa.Const); isConst {
					tested = true
				}
				if !tested {
					untested = append(untested, fmt.Sprintf("%s (from block %d)", accessPath(e), H.Block().Preds[i].Index))
				}
			}
			if len(untested) == 0 {
				r.Instance("R18d", site, pos, "ok", "every value flowing into the scanned variable is tested for newline", true)
				return
			}
			r.Instance("R18d", site, pos, "finding", "a rune enters the scan loop untested: "+strings.Join(untested, ", "), true)
			r.Report(Finding{Rule: "R18d", Site: site, Pos: pos,
				Msg: fmt.Sprintf("%s: the newline test that advances the line counter is applied to the rune read inside the loop only; the rune the loop is entered with (%s) is never tested — a line break in that position is not counted, and every later token is reported one line too low", key, strings.Join(untested, ", "))})
		})
	}

	// ---- R18f: the separation test looks at the statement parsed last ------------------------------
	// hasMoreStatements(p, current) compares the line of `current` with the line of the next token.
	// In a statement loop `current` has to be the statement the loop parsed last: the loop-carried
	// result of p.run, not a value fixed before the loop.
	hms := c.Func("parser", "hasMoreStatements")
	runM := c.Method("parser", "parser", "run")
	if hms == nil || runM == nil {
		r.Undecide("R18f: parser.hasMoreStatements / (*parser).run not found")
	} else {
		nSep := 0
		for _, fn := range lexFuncs {
			key := c.FuncKey(fn)
			ord := newOrdinals()
			allInstrs(fn, func(in ssa.Instruction) {
				call, ok := in.(*ssa.Call)
				if !ok || call.Call.StaticCallee() != hms || !inLoop(in.Block()) || len(call.Call.Args) < 2 {
					return
				}
				// a run() call in the same loop
				scc := sccOf(in.Block())
				var runs []ssa.Value
				for b := range scc {
					for _, x := range b.Instrs {
						if rc, ok := x.(*ssa.Call); ok && rc.Call.StaticCallee() == runM {
							if e := errValueOf(rc, 0); e != nil {
								runs = append(runs, e)
							}
							for _, ref := range *rc.Referrers() {
								if ex, ok := ref.(*ssa.Extract); ok && ex.Index == 0 {
									runs = append(runs, ex)
								}
							}
						}
					}
				}
				if len(runs) == 0 {
					return
				}
				nSep++
				site := ord.key(key, "separation", "")
				pos := c.Pos(c.InstrPos(in))
				arg := call.Call.Args[1]
				carried := false
				seen := map[ssa.Value]bool{}
				var walk func(v ssa.Value, d int)
				walk = func(v ssa.Value, d int) {
					if v == nil || seen[v] || d > 10 {
						return
					}
					seen[v] = true
					for _, rv := range runs {
						if v == rv {
							carried = true
						}
					}
					switch x := v.(type) {
					case *ssa.Phi:
						for _, e := range x.Edges {
							walk(e, d+1)
						}
					case *ssa.UnOp:
						if a, ok := x.X.(*ssa.Alloc); ok {
							for _, s := range cellSources(a) {
								walk(s, d+1)
							}
						}
					}
				}
				walk(arg, 0)
				if carried {
					r.Instance("R18f", site, pos, "ok", "the statement handed to the separation test is the one the loop parsed last", true)
					return
				}
				r.Instance("R18f", site, pos, "finding", "separation test on a statement fixed before the loop", true)
				r.Report(Finding{Rule: "R18f", Site: site, Pos: pos,
					Msg: key + ": the statement loop decides whether another statement follows by comparing the next token's line with " + accessPath(arg) + ", which is not updated by the loop (the result of p.run in the loop never reaches it): separation is decided against the first statement's line — two statements on one later line are accepted without a semicolon"})
			})
		}
		r.Floor("R18f", nSep, 2)
	}

	// ---- R18e: the parser separates statements by token lines, not by layout counters ------------
	// PrefixNewlines is counted by the white-space skipper only; the comment lexers consume line
	// breaks without counting them there. A decision of the parser based on it changes with
	// comments. Who-may-read rule: on the path of Parse the field is copied, never computed with.
	fPrefix := c.Field("parser", "LexToken", "PrefixNewlines")
	parseFn := c.Func("parser", "ParseWithRuntime")
	if fPrefix == nil || parseFn == nil {
		r.Undecide("R18e: LexToken.PrefixNewlines / ParseWithRuntime not found")
	} else {
		reach := c.Reachable([]*ssa.Function{parseFn}, func(f *ssa.Function) bool { return c.PkgOf(f) != "parser" })
		nLine := 0
		var pfuncs []*ssa.Function
		pfuncs = append(pfuncs, reach.Order...)
		sort.Slice(pfuncs, func(i, j int) bool { return c.FuncKey(pfuncs[i]) < c.FuncKey(pfuncs[j]) })
		fLlineTok := c.Field("parser", "LexToken", "Lline")
		for _, fn := range pfuncs {
			key := c.FuncKey(fn)
			ord := newOrdinals()
			allInstrs(fn, func(in ssa.Instruction) {
				var f *types.Var
				var val ssa.Value
				switch x := in.(type) {
				case *ssa.UnOp:
					if fa, ok := x.X.(*ssa.FieldAddr); ok && x.Op == token.MUL {
						f, val = fieldVar(fa), x
					}
				case *ssa.Field:
					f, val = fieldVar(x), x
				}
				if f == nil || val == nil {
					return
				}
				computes := false
				if refs := val.Referrers(); refs != nil {
					for _, ref := range *refs {
						if _, isBO := ref.(*ssa.BinOp); isBO {
							computes = true
						}
					}
				}
				if !computes {
					return
				}
				if f == fLlineTok {
					nLine++
					return
				}
				if f != fPrefix {
					return
				}
				site := ord.key(key, "layout-decision", "PrefixNewlines")
				pos := c.Pos(c.InstrPos(in))
				r.Instance("R18e", site, pos, "finding", "parser decision on PrefixNewlines", true)
				r.Report(Finding{Rule: "R18e", Site: site, Pos: pos, Path: reach.PathTo(c, fn),
					Msg: key + ": a decision on the parse path is computed from LexToken.PrefixNewlines. That counter only knows line breaks skipped as white space — a line break consumed by a `#` comment or inside a /* */ comment is not in it — so statement separation changes when a comment is added (`return # note` followed by a new line takes the next statement as its value)"})
			})
		}
		r.Instance("R18e", "parser#line-decisions", "", "ok", fmt.Sprintf("%d line comparisons on the parse path read Lline; none reads PrefixNewlines", nLine), true)
		r.Floor("R18e-line-decisions", nLine, 4)
	}

	// ---- R18b emitters ---------------------------------------------------------------------------
	tok := c.NamedType("parser", "LexToken")
	if tok == nil {
		r.Undecide("parser.LexToken not found")
		return
	}
	want := map[string]string{"Pos": "l.start", "Lline": "(l.line + 1)", "Lpos": "((l.start - l.lastnl) + 1)"}
	nEmit := 0
	emitFns := map[*ssa.Function]bool{}
	lexerT := c.NamedType("parser", "lexer")
	// functions that send a token (directly, or through another that does)
	for _, fn := range lexFuncs {
		allInstrs(fn, func(in ssa.Instruction) {
			if snd, ok := in.(*ssa.Send); ok && namedOf(snd.X.Type()) == tok {
				emitFns[fn] = true
			}
		})
	}
	for changed := true; changed; {
		changed = false
		for _, fn := range lexFuncs {
			if emitFns[fn] {
				continue
			}
			allInstrs(fn, func(in ssa.Instruction) {
				if ci, ok := in.(ssa.CallInstruction); ok {
					if f := ci.Common().StaticCallee(); f != nil && emitFns[f] && !emitFns[fn] {
						// only thin wrappers: methods of the lexer that do nothing else with the position
						if recv := fn.Signature.Recv(); recv != nil && namedOf(recv.Type()) == lexerT && strings.HasPrefix(fn.Name(), "emit") {
							emitFns[fn] = true
							changed = true
						}
					}
				}
			})
		}
	}
	// every construction of a token from the lexer's position fields, wherever it is written
	for _, fn := range lexFuncs {
		recv := fn.Signature.Recv()
		if recv == nil || namedOf(recv.Type()) != lexerT {
			continue
		}
		key := c.FuncKey(fn)
		allInstrs(fn, func(in ssa.Instruction) {
			cell, ok := in.(*ssa.Alloc)
			if !ok || namedOf(cell.Type()) != tok {
				return
			}
			got := map[string]string{}
			for _, ref := range *cell.Referrers() {
				fa, ok := ref.(*ssa.FieldAddr)
				if !ok {
					continue
				}
				name := fieldName(fa.X.Type(), fa.Field)
				for _, ref2 := range *fa.Referrers() {
					if st, ok := ref2.(*ssa.Store); ok && st.Addr == fa {
						got[name] = exprString(st.Val, 0)
					}
				}
			}
			if got["Pos"] == "" && got["Lline"] == "" && got["Lpos"] == "" {
				return // not a literal with positions (a zero value, a copy)
			}
			nEmit++
			site := fmt.Sprintf("%s#emit#%d", key, nEmit)
			pos := c.Pos(c.InstrPos(in))
			var diffs []string
			for f, w := range want {
				// the receiver may be named differently: normalise the first path segment
				g := got[f]
				if len(fn.Params) > 0 {
					g = strings.ReplaceAll(g, fn.Params[0].Name()+".", "l.")
				}
				if g != w {
					diffs = append(diffs, fmt.Sprintf("%s=%s (expected %s)", f, g, w))
				}
			}
			sort.Strings(diffs)
			if len(diffs) == 0 {
				r.Instance("R18b", site, pos, "ok", "Pos=start, Lline=line+1, Lpos=start-lastnl+1", true)
			} else {
				r.Instance("R18b", site, pos, "finding", strings.Join(diffs, "; "), true)
				r.Report(Finding{Rule: "R18b", Site: site, Pos: pos,
					Msg: key + ": this emitter stamps the token differently from its siblings: " + strings.Join(diffs, "; ")})
			}
		})
	}
	r.Floor("R18b", nEmit, 1)

	// ---- R18c stamp before write-back -----------------------------------------------------------
	nWB := 0
	for _, fn := range lexFuncs {
		key := c.FuncKey(fn)
		var emits []ssa.Instruction
		allInstrs(fn, func(in ssa.Instruction) {
			if ci, ok := in.(ssa.CallInstruction); ok {
				if f := ci.Common().StaticCallee(); f != nil && emitFns[f] {
					emits = append(emits, in)
				}
			}
		})
		allInstrs(fn, func(in ssa.Instruction) {
			st, ok := in.(*ssa.Store)
			if !ok || fieldVar(st.Addr) != fLine {
				return
			}
			// write-back of a local line counter (a phi), not `l.line++`
			if _, isPhi := stripNumConv(st.Val).(*ssa.Phi); !isPhi {
				return
			}
			nWB++
			site := fmt.Sprintf("%s#line-writeback#%d", key, nWB)
			pos := c.Pos(c.InstrPos(in))
			if everyPathPasses(fn, st, emits) {
				r.Instance("R18c", site, pos, "ok", "every path to the write-back of the advanced line passes an emit (the token carries its start line)", true)
			} else {
				r.Instance("R18c", site, pos, "finding", "line written back before the token is emitted", true)
				r.Report(Finding{Rule: "R18c", Site: site, Pos: pos,
					Msg: key + ": the advanced line is written back to the lexer on a path that has not emitted the token yet: a multi-line string or comment would carry the line of its end, not of its first character"})
			}
		})
	}
	// ---- the bulk form: line += strings.Count(input[a:b], "\n") ------------------------------------
	bAdv, bScan, bWB := c18Bulk(c, r, lexFuncs, emitFns, fLine, fLastnl, fPos, fStart, inClass)
	r.Floor("R18a", nAdv+bAdv, 3)
	r.Floor("R18g", nNL+bAdv, 3)
	r.Floor("R18d", nScan+bScan, 2)
	r.Floor("R18c", nWB+bWB, 2)
}

// c18CountCall: v is strings.Count(text, "\n") (through numeric conversions).
func c18CountCall(v ssa.Value) *ssa.Call {
	call, ok := stripNumConv(v).(*ssa.Call)
	if !ok || callName(call) != "strings.Count" || len(call.Call.Args) != 2 {
		return nil
	}
	if sep, ok := constString(call.Call.Args[1]); !ok || sep != "\n" {
		return nil
	}
	return call
}

// c18Bulk decides the three lexer rules for line counting done in bulk over a piece of the input:
//
//	text := l.input[a:b]; l.line += strings.Count(text, "\n"); l.lastnl = a + strings.LastIndex(text, "\n") + 1
//
// (R18a) the column base stored with the advance is the offset just behind the last newline of the
// same text; (R18d) the text is [start, pos) of the lexer — every byte of the token is examined —
// at every place the counting is invoked; (R18c) the token is emitted before the counting writes
// the line back. The bounds may be parameters of an unexported helper: they are then taken from
// the arguments at each call.
func c18Bulk(c *Ctx, r *Result, lexFuncs []*ssa.Function, emitFns map[*ssa.Function]bool, fLine, fLastnl, fPos, fStart *types.Var,
	inClass func(v ssa.Value, f *types.Var, seen map[ssa.Value]bool) bool) (nAdv, nScan, nWB int) {
	isLoadOf := func(v ssa.Value, f *types.Var) bool {
		u, ok := stripNumConv(v).(*ssa.UnOp)
		return ok && u.Op == token.MUL && fieldVar(u.X) == f
	}
	sameSlice := func(a, b ssa.Value) bool {
		if a == b {
			return true
		}
		sa, ok1 := a.(*ssa.Slice)
		sb, ok2 := b.(*ssa.Slice)
		if !ok1 || !ok2 {
			return false
		}
		eq := func(x, y ssa.Value) bool {
			if x == nil || y == nil {
				return x == y
			}
			return x == y || equivValue(x, y, 0)
		}
		return eq(sa.X, sb.X) && eq(sa.Low, sb.Low) && eq(sa.High, sb.High)
	}
	// flatten a sum into its non-constant addends and a constant
	var flat func(v ssa.Value, d int) ([]ssa.Value, int64)
	flat = func(v ssa.Value, d int) ([]ssa.Value, int64) {
		v = stripNumConv(v)
		if k, ok := constInt(v); ok {
			return nil, k
		}
		if bo, ok := v.(*ssa.BinOp); ok && bo.Op == token.ADD && d < 6 {
			a, ka := flat(bo.X, d+1)
			b, kb := flat(bo.Y, d+1)
			return append(a, b...), ka + kb
		}
		return []ssa.Value{v}, 0
	}
	for _, fn := range lexFuncs {
		key := c.FuncKey(fn)
		var emits []ssa.Instruction
		allInstrs(fn, func(in ssa.Instruction) {
			if ci, ok := in.(ssa.CallInstruction); ok {
				if f := ci.Common().StaticCallee(); f != nil && emitFns[f] {
					emits = append(emits, in)
				}
			}
		})
		allInstrs(fn, func(in ssa.Instruction) {
			bo, ok := in.(*ssa.BinOp)
			if !ok || bo.Op != token.ADD {
				return
			}
			cnt := c18CountCall(bo.Y)
			other := bo.X
			if cnt == nil {
				cnt, other = c18CountCall(bo.X), bo.Y
			}
			if cnt == nil || !inClass(other, fLine, map[ssa.Value]bool{}) {
				return
			}
			// the advanced value is written to the lexer, or carried in a local line counter
			var st ssa.Instruction
			direct := false
			for _, ref := range *bo.Referrers() {
				switch x := ref.(type) {
				case *ssa.Store:
					if fieldVar(x.Addr) == fLine {
						st, direct = x, true
					}
				case *ssa.Phi:
					if st == nil {
						st = x
					}
				}
			}
			if st == nil {
				return
			}
			nAdv++
			pos := c.Pos(c.InstrPos(in))
			text, isSlice := cnt.Call.Args[0].(*ssa.Slice)
			if !isSlice {
				r.Instance("R18a", key+"#bulk-advance", pos, "finding", "the counted text is not a slice of the input", true)
				r.Report(Finding{Rule: "R18a", Site: key + "#bulk-advance", Pos: pos,
					Msg: key + ": the line counter is advanced by the newlines of a text whose offset in the input is not known (not a slice input[a:b]): the column base cannot be placed"})
				return
			}
			// R18a: lastnl = low(text) + LastIndex(text, newline) + 1, stored in the same block, or in
			// the block guarded by the test of that index
			okA := false
			nCand := 0
			allInstrs(fn, func(x ssa.Instruction) {
				// a value assigned to the column base: stored to lexer.lastnl, or flowing into a
				// local of its class
				var lsVal ssa.Value
				var ls ssa.Instruction
				if sx, isSt := x.(*ssa.Store); isSt && fieldVar(sx.Addr) == fLastnl {
					lsVal, ls = sx.Val, sx
				} else if vx, isBO := x.(*ssa.BinOp); isBO && vx.Op == token.ADD {
					for _, ref := range *vx.Referrers() {
						if ph, isPhi := ref.(*ssa.Phi); isPhi && inClass(ph, fLastnl, map[ssa.Value]bool{}) {
							lsVal, ls = vx, vx
						}
					}
				}
				if ls == nil {
					return
				}
				adds, k := flat(lsVal, 0)
				hasIdx := false
				for _, a := range adds {
					if call, isCall := a.(*ssa.Call); isCall && (callName(call) == "strings.LastIndexByte" || callName(call) == "strings.LastIndex") {
						hasIdx = true
					}
				}
				if hasIdx {
					nCand++
				}
				if k != 1 {
					return
				}
				var idx *ssa.Call
				var rest []ssa.Value
				for _, a := range adds {
					if call, isCall := a.(*ssa.Call); isCall && idx == nil {
						switch callName(call) {
						case "strings.LastIndexByte":
							if b, ok := constInt(call.Call.Args[1]); ok && b == 10 && sameSlice(call.Call.Args[0], text) {
								idx = call
								continue
							}
						case "strings.LastIndex":
							if sep, ok := constString(call.Call.Args[1]); ok && sep == "\n" && sameSlice(call.Call.Args[0], text) {
								idx = call
								continue
							}
						}
					}
					rest = append(rest, a)
				}
				if idx == nil {
					return
				}
				lowOK := false
				switch {
				case text.Low == nil:
					lowOK = len(rest) == 0
				case len(rest) == 1:
					lowOK = rest[0] == stripNumConv(text.Low) || equivValue(rest[0], stripNumConv(text.Low), 0)
				}
				if !lowOK {
					return
				}
				if ls.Block() == st.Block() || ls.Block().Dominates(st.Block()) || st.Block().Dominates(ls.Block()) || ls.Block() == bo.Block() {
					okA = true
				}
			})
			_ = nCand
			if okA {
				r.Instance("R18a", key+"#bulk-advance", pos, "ok", "line += Count(text, newline) with lastnl = offset(text) + LastIndex(text, newline) + 1 of the same text", true)
			} else {
				r.Instance("R18a", key+"#bulk-advance", pos, "finding", "bulk line advance without the matching column base", true)
				r.Report(Finding{Rule: "R18a", Site: key + "#bulk-advance", Pos: pos,
					Msg: key + ": the line counter is advanced by the newlines of a text, but the last-newline offset is not set to the position behind the last newline of that same text: every token on the following line is reported with a wrong column"})
			}
			// the places the counting is invoked: here, or the call sites of this helper
			type place struct {
				in       ssa.Instruction
				fn       *ssa.Function
				low, hi  ssa.Value
				emitters []ssa.Instruction
			}
			var places []place
			lowP, _ := stripNumConvOrNil(text.Low).(*ssa.Parameter)
			hiP, _ := stripNumConvOrNil(text.High).(*ssa.Parameter)
			if lowP == nil && hiP == nil {
				places = append(places, place{st, fn, text.Low, text.High, emits})
			} else if n := c.CHA().Nodes[fn]; n != nil {
				for _, e := range n.In {
					if e.Site == nil || e.Site.Common().StaticCallee() != fn {
						continue
					}
					args := e.Site.Common().Args
					pick := func(v ssa.Value, p *ssa.Parameter) ssa.Value {
						if p == nil {
							return v
						}
						for i, q := range fn.Params {
							if q == p && i < len(args) {
								return args[i]
							}
						}
						return v
					}
					cf := e.Caller.Func
					var cem []ssa.Instruction
					allInstrs(cf, func(y ssa.Instruction) {
						if ci, ok := y.(ssa.CallInstruction); ok {
							if f := ci.Common().StaticCallee(); f != nil && emitFns[f] {
								cem = append(cem, y)
							}
						}
					})
					places = append(places, place{e.Site.(ssa.Instruction), cf, pick(text.Low, lowP), pick(text.High, hiP), cem})
				}
			}
			sort.Slice(places, func(i, j int) bool { return c.Pos(c.InstrPos(places[i].in)) < c.Pos(c.InstrPos(places[j].in)) })
			for i, pl := range places {
				pk := fmt.Sprintf("%s#bulk-count#%d", c.FuncKey(pl.fn), i)
				pp := c.Pos(c.InstrPos(pl.in))
				nScan++
				if pl.low != nil && isLoadOf(pl.low, fStart) && pl.hi != nil && isLoadOf(pl.hi, fPos) {
					r.Instance("R18d", pk, pp, "ok", "the counted text is input[start:pos]: every byte of the token is examined for newlines", true)
				} else {
					r.Instance("R18d", pk, pp, "finding", "the counted text is not input[start:pos]", true)
					r.Report(Finding{Rule: "R18d", Site: pk, Pos: pp,
						Msg: fmt.Sprintf("%s: the newlines are counted in input[%s:%s], not in the whole token text input[start:pos] — a line break outside the counted part is not counted, and every later token is reported on a wrong line", c.FuncKey(pl.fn), optExpr(pl.low), optExpr(pl.hi))})
				}
				if !direct {
					continue // a local line counter: its write-back to the lexer is a regular R18c instance
				}
				nWB++
				wk := fmt.Sprintf("%s#bulk-writeback#%d", c.FuncKey(pl.fn), i)
				if everyPathPasses(pl.fn, pl.in, pl.emitters) {
					r.Instance("R18c", wk, pp, "ok", "every path to the counting that writes the advanced line back passes an emit (the token carries its start line)", true)
				} else {
					r.Instance("R18c", wk, pp, "finding", "line written back before the token is emitted", true)
					r.Report(Finding{Rule: "R18c", Site: wk, Pos: pp,
						Msg: c.FuncKey(pl.fn) + ": the advanced line is written back to the lexer on a path that has not emitted the token yet: a multi-line string or comment would carry the line of its end, not of its first character"})
				}
			}
		})
	}
	return
}

// everyPathPasses: every path from the function entry to `target` executes one of `via` first.
func everyPathPasses(fn *ssa.Function, target ssa.Instruction, via []ssa.Instruction) bool {
	viaBlocks := map[*ssa.BasicBlock]int{} // block -> smallest index of a via instruction
	for _, v := range via {
		i := instrIndex(v)
		if old, ok := viaBlocks[v.Block()]; !ok || i < old {
			viaBlocks[v.Block()] = i
		}
	}
	tb := target.Block()
	ti := instrIndex(target)
	seen := map[*ssa.BasicBlock]bool{}
	work := []*ssa.BasicBlock{fn.Blocks[0]}
	for len(work) > 0 {
		b := work[len(work)-1]
		work = work[:len(work)-1]
		if seen[b] {
			continue
		}
		seen[b] = true
		vi, hasVia := viaBlocks[b]
		if b == tb {
			if !hasVia || vi > ti {
				return false // reached the target without passing a via instruction
			}
			continue
		}
		if hasVia {
			continue // path passes a via instruction: fine beyond this point
		}
		work = append(work, b.Succs...)
	}
	return true
}
