package main

// C18 — tokens, errors and breakpoints carry the true source position.

import (
	"fmt"
	"go/token"
	"go/types"
	"strings"

	"golang.org/x/tools/go/ssa"
)

func init() { register("C18", checkC18) }

// exprString renders a small SSA expression tree structurally.
func exprString(v ssa.Value, d int) string {
	if d > 8 {
		return "…"
	}
	v = stripNumConv(v)
	switch x := v.(type) {
	case *ssa.BinOp:
		return "(" + exprString(x.X, d+1) + " " + x.Op.String() + " " + exprString(x.Y, d+1) + ")"
	case *ssa.Const:
		if x.Value == nil {
			return "nil"
		}
		return x.Value.ExactString()
	}
	return accessPath(v)
}

func checkC18(c *Ctx, r *Result, tier string) {
	r.Explanation = "Decides three structural necessary conditions of true token positions in the lexer: (R18a) wherever a line counter (lexer.line or a local initialised from it) is advanced, the corresponding last-newline offset (lexer.lastnl or its local) is set to the current position in the same block — line and column base change together; " +
		"(R18b) all token emitters build Pos/Lline/Lpos from the same expressions (start, line+1, start-lastnl+1); (R18c) in the multi-line lexers the token is emitted before the advanced line is written back (a token carries its start line)."
	r.RuleText = "R18a pairing of line-class advance with lastnl-class assignment (variable classes by dataflow from the lexer's fields); R18b structural agreement of emitters; R18c every path to the write-back of lexer.line passes an emit"
	r.NotCovered = "Byte-exact positions for all inputs (multi-byte characters, CR/LF, tabs are value dependent); that error constructors copy Lline/Lpos (read by inspection); statement separation."
	r.Assumptions = []string{"the lexer's position fields are named by type identity parser.lexer.{line,lastnl,pos,start}"}

	fLine := c.Field("parser", "lexer", "line")
	fLastnl := c.Field("parser", "lexer", "lastnl")
	fPos := c.Field("parser", "lexer", "pos")
	fStart := c.Field("parser", "lexer", "start")
	if fLine == nil || fLastnl == nil || fPos == nil || fStart == nil {
		r.Undecide("fields of parser.lexer not found (line, lastnl, pos, start)")
		return
	}
	isLoadOf := func(v ssa.Value, f *types.Var) bool {
		u, ok := stripNumConv(v).(*ssa.UnOp)
		return ok && u.Op == token.MUL && fieldVar(u.X) == f
	}
	// class membership: value originates (through phis / +k) from a load of field f
	var inClass func(v ssa.Value, f *types.Var, seen map[ssa.Value]bool) bool
	inClass = func(v ssa.Value, f *types.Var, seen map[ssa.Value]bool) bool {
		v = stripNumConv(v)
		if seen[v] {
			return false
		}
		seen[v] = true
		if isLoadOf(v, f) {
			return true
		}
		switch x := v.(type) {
		case *ssa.Phi:
			for _, e := range x.Edges {
				if inClass(e, f, seen) {
					return true
				}
			}
		case *ssa.BinOp:
			if x.Op == token.ADD {
				if _, ok := constInt(x.Y); ok {
					return inClass(x.X, f, seen)
				}
			}
		}
		return false
	}

	nAdv := 0
	var lexFuncs []*ssa.Function
	for _, fn := range c.ModFuncs() {
		if c.PkgOf(fn) == "parser" {
			lexFuncs = append(lexFuncs, fn)
		}
	}
	for _, fn := range lexFuncs {
		key := c.FuncKey(fn)
		ord := newOrdinals()
		allInstrs(fn, func(in ssa.Instruction) {
			bo, ok := in.(*ssa.BinOp)
			if !ok || bo.Op != token.ADD {
				return
			}
			if k, isC := constInt(bo.Y); !isC || k != 1 {
				return
			}
			if !inClass(bo.X, fLine, map[ssa.Value]bool{}) {
				return
			}
			// is this an advance (stored back / feeding a phi), not the `line + 1` of an emitter?
			advance := false
			for _, ref := range *bo.Referrers() {
				switch x := ref.(type) {
				case *ssa.Store:
					if fieldVar(x.Addr) == fLine && x.Val == bo {
						advance = true
					}
				case *ssa.Phi:
					advance = true
				}
			}
			if !advance {
				return
			}
			nAdv++
			b := bo.Block()
			site := ord.key(key, "line-advance", accessPath(bo.X))
			pos := c.Pos(c.InstrPos(in))
			ok2 := false
			// field case: store lastnl = pos in the same block
			for _, x := range b.Instrs {
				if st, isSt := x.(*ssa.Store); isSt && fieldVar(st.Addr) == fLastnl && isLoadOf(st.Val, fPos) {
					ok2 = true
				}
			}
			// local case: a lastnl-class phi in a successor receives a load of pos from this block
			for _, s := range b.Succs {
				for _, x := range s.Instrs {
					phi, isPhi := x.(*ssa.Phi)
					if !isPhi {
						break
					}
					for i, p := range s.Preds {
						if p == b && isLoadOf(phi.Edges[i], fPos) {
							if inClass(phi, fLastnl, map[ssa.Value]bool{}) {
								ok2 = true
							}
						}
					}
				}
			}
			if ok2 {
				r.Instance("R18a", site, pos, "ok", "the last-newline offset is set to the current position in the same block", true)
			} else {
				r.Instance("R18a", site, pos, "finding", "line advanced without its column base", true)
				r.Report(Finding{Rule: "R18a", Site: site, Pos: pos,
					Msg: key + ": the line counter is advanced without setting the last-newline offset to the current position: every token on the following line is reported with a wrong column"})
			}
		})
	}
	r.Floor("R18a", nAdv, 3)

	// ---- R18b emitters ---------------------------------------------------------------------------
	tok := c.NamedType("parser", "LexToken")
	if tok == nil {
		r.Undecide("parser.LexToken not found")
		return
	}
	want := map[string]string{"Pos": "l.start", "Lline": "(l.line + 1)", "Lpos": "((l.start - l.lastnl) + 1)"}
	nEmit := 0
	emitFns := map[*ssa.Function]bool{}
	for _, fn := range lexFuncs {
		key := c.FuncKey(fn)
		allInstrs(fn, func(in ssa.Instruction) {
			snd, ok := in.(*ssa.Send)
			if !ok || namedOf(snd.X.Type()) != tok {
				return
			}
			// the sent value is a load of a composite literal cell
			ld, ok := snd.X.(*ssa.UnOp)
			if !ok {
				return
			}
			cell, ok := ld.X.(*ssa.Alloc)
			if !ok {
				return
			}
			nEmit++
			emitFns[fn] = true
			got := map[string]string{}
			for _, ref := range *cell.Referrers() {
				fa, ok := ref.(*ssa.FieldAddr)
				if !ok {
					continue
				}
				name := fieldName(fa.X.Type(), fa.Field)
				for _, ref2 := range *fa.Referrers() {
					if st, ok := ref2.(*ssa.Store); ok && st.Addr == fa {
						got[name] = exprString(st.Val, 0)
					}
				}
			}
			site := fmt.Sprintf("%s#emit#%d", key, nEmit)
			pos := c.Pos(c.InstrPos(in))
			var diffs []string
			for f, w := range want {
				// the receiver may be named differently: normalise the first path segment
				g := got[f]
				if len(fn.Params) > 0 {
					g = strings.ReplaceAll(g, fn.Params[0].Name()+".", "l.")
				}
				if g != w {
					diffs = append(diffs, fmt.Sprintf("%s=%s (expected %s)", f, g, w))
				}
			}
			if len(diffs) == 0 {
				r.Instance("R18b", site, pos, "ok", "Pos=start, Lline=line+1, Lpos=start-lastnl+1", true)
			} else {
				r.Instance("R18b", site, pos, "finding", strings.Join(diffs, "; "), true)
				r.Report(Finding{Rule: "R18b", Site: site, Pos: pos,
					Msg: key + ": this emitter stamps the token differently from its siblings: " + strings.Join(diffs, "; ")})
			}
		})
	}
	r.Floor("R18b", nEmit, 2)

	// ---- R18c stamp before write-back -----------------------------------------------------------
	nWB := 0
	for _, fn := range lexFuncs {
		key := c.FuncKey(fn)
		var emits []ssa.Instruction
		allInstrs(fn, func(in ssa.Instruction) {
			if ci, ok := in.(ssa.CallInstruction); ok {
				if f := ci.Common().StaticCallee(); f != nil && emitFns[f] {
					emits = append(emits, in)
				}
			}
		})
		allInstrs(fn, func(in ssa.Instruction) {
			st, ok := in.(*ssa.Store)
			if !ok || fieldVar(st.Addr) != fLine {
				return
			}
			// write-back of a local line counter (a phi), not `l.line++`
			if _, isPhi := stripNumConv(st.Val).(*ssa.Phi); !isPhi {
				return
			}
			nWB++
			site := fmt.Sprintf("%s#line-writeback#%d", key, nWB)
			pos := c.Pos(c.InstrPos(in))
			if everyPathPasses(fn, st, emits) {
				r.Instance("R18c", site, pos, "ok", "every path to the write-back of the advanced line passes an emit (the token carries its start line)", true)
			} else {
				r.Instance("R18c", site, pos, "finding", "line written back before the token is emitted", true)
				r.Report(Finding{Rule: "R18c", Site: site, Pos: pos,
					Msg: key + ": the advanced line is written back to the lexer on a path that has not emitted the token yet: a multi-line string or comment would carry the line of its end, not of its first character"})
			}
		})
	}
	r.Floor("R18c", nWB, 2)
}

// everyPathPasses: every path from the function entry to `target` executes one of `via` first.
func everyPathPasses(fn *ssa.Function, target ssa.Instruction, via []ssa.Instruction) bool {
	viaBlocks := map[*ssa.BasicBlock]int{} // block -> smallest index of a via instruction
	for _, v := range via {
		i := instrIndex(v)
		if old, ok := viaBlocks[v.Block()]; !ok || i < old {
			viaBlocks[v.Block()] = i
		}
	}
	tb := target.Block()
	ti := instrIndex(target)
	seen := map[*ssa.BasicBlock]bool{}
	work := []*ssa.BasicBlock{fn.Blocks[0]}
	for len(work) > 0 {
		b := work[len(work)-1]
		work = work[:len(work)-1]
		if seen[b] {
			continue
		}
		seen[b] = true
		vi, hasVia := viaBlocks[b]
		if b == tb {
			if !hasVia || vi > ti {
				return false // reached the target without passing a via instruction
			}
			continue
		}
		if hasVia {
			continue // path passes a via instruction: fine beyond this point
		}
		work = append(work, b.Succs...)
	}
	return true
}
