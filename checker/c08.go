package main

// C08 — formatting preserves meaning and is idempotent.

import (
	"fmt"
	"go/token"
	"go/types"
	"sort"
	"strings"

	"golang.org/x/tools/go/ssa"
)

func init() { register("C08", checkC08) }

type opNode struct {
	Name    string
	Binding int64
	Infix   bool // has ldInfix (2 children)
	Prefix  bool // has ndPrefix (1 child)
}

// prefixDelta: the constant added to the binding in ndPrefix.
func prefixDelta(c *Ctx) (int64, bool) {
	run := c.Method("parser", "parser", "run")
	nd := c.Func("parser", "ndPrefix")
	if run == nil || nd == nil {
		return 0, false
	}
	calls := callSites(nd, func(_ string, ci ssa.CallInstruction) bool { return ci.Common().StaticCallee() == run })
	if len(calls) != 1 {
		return 0, false
	}
	t := termOf(calls[0].Common().Args[1])
	return t.Off, t.V != nil
}

func checkC08(c *Ctx, r *Result, tier string) {
	r.Explanation = "Decides the table-agreement clauses of C08: (R08a) for every (parent operator, child operator, child position) over the grammar table, parentheses are emitted by the printer's guard wherever re-parsing needs them — the needs-brackets relation is computed in closed form from the extracted binding powers and the Pratt functions, the printer's guard is partially evaluated over the same finite domain; " +
		"(R08b) every node kind/arity the parser can produce has a template or a special case in the printer; (R08c) the rendering of a string node depends on its raw/interpolating kind; (R08d) the in-place tool writes a file only after re-parsing exactly the text it writes and comparing it with the original tree."
	r.RuleText = "R08a required(P,C,pos) ⇒ guard(P,C,pos), exhaustive over operator kinds × positions (+ the depth-3 context of low-binding prefix children); R08b exhaustiveness of prettyPrinterMap ∪ special cases against the shape table; R08c a read of Token.AllowEscapes on the printing path; R08d errpath: WriteFile reached only after a successful verify call on the written text"
	r.NotCovered = "Idempotence, comments, blank lines, indentation, quoting of string contents (values)."
	r.Assumptions = []string{"closed-form needs-brackets relation of a Pratt parser: infix parent/left child: b_C < b_P; right child: b_C ≤ b_P; prefix parent: b_C ≤ b_P+δ; prefix child left of infix: b_C+δ < b_P; prefix child right of infix: ∃ infix Q: b_C+δ < b_Q ≤ b_P"}

	gr, err := ExtractGrammar(c)
	if err != nil {
		r.Undecide("R08a: %v", err)
		return
	}
	delta, ok := prefixDelta(c)
	if !ok {
		r.Undecide("R08a: the prefix offset of ndPrefix could not be extracted")
		return
	}
	var ops []opNode
	for name, e := range gr.ByName {
		if e.Ld == "ldInfix" || e.Nd == "ndPrefix" {
			ops = append(ops, opNode{name, e.Binding, e.Ld == "ldInfix", e.Nd == "ndPrefix"})
		}
	}
	sort.Slice(ops, func(i, j int) bool { return ops[i].Name < ops[j].Name })
	r.Floor("R08a-operators", len(ops), 20)

	c08Brackets(c, r, ops, delta)
	c08Templates(c, r, gr)
	c08StringKind(c, r)
	c08VerifyBeforeWrite(c, r)
	c08CompareCoverage(c, r)
	c08ConstantFormats(c, r)
}

// guardSite describes where the printer decides about brackets.
type guardSite struct {
	fn     *ssa.Function
	conds  []condTruth
	parent ssa.Value // the node being printed
	child  ssa.Value // the child value
	index  ssa.Value // the child position
}

type condTruth struct {
	v     ssa.Value
	truth bool
}

// findBracketGuard locates the Sprintf("(%v)", …) of the printer and the conditions guarding it.
func findBracketGuard(c *Ctx) (*guardSite, string) {
	node := c.NamedType("parser", "ASTNode")
	fChildren := c.Field("parser", "ASTNode", "Children")
	for _, fn := range c.ModFuncs() {
		if c.PkgOf(fn) != "parser" {
			continue
		}
		var site ssa.Instruction
		allInstrs(fn, func(in ssa.Instruction) {
			// "(" + child + ")" written as a concatenation
			if bo, isBO := in.(*ssa.BinOp); isBO && bo.Op == token.ADD {
				if cs, ok := constString(bo.Y); ok && cs == ")" {
					if inner, ok := bo.X.(*ssa.BinOp); ok && inner.Op == token.ADD {
						if os, ok := constString(inner.X); ok && os == "(" {
							site = in
						}
					}
				}
				return
			}
			call, ok := in.(*ssa.Call)
			if !ok || callName(call) != "fmt.Sprintf" {
				return
			}
			if s, ok := constString(call.Call.Args[0]); ok && strings.HasPrefix(s, "(") && strings.HasSuffix(s, ")") && strings.Count(s, "%") == 1 {
				site = in
			}
		})
		if site == nil {
			continue
		}
		gs := &guardSite{fn: fn}
		f := FactsAt(site)
		for v := range f.TrueV {
			gs.conds = append(gs.conds, condTruth{v, true})
		}
		for v := range f.FalseV {
			gs.conds = append(gs.conds, condTruth{v, false})
		}
		// parent = first *ASTNode parameter; child = load of &parent.Children[i]
		for _, p := range fn.Params {
			if namedOf(p.Type()) == node && isPtr(p.Type()) {
				gs.parent = p
				break
			}
		}
		allInstrs(fn, func(in ssa.Instruction) {
			ld, ok := in.(*ssa.UnOp)
			if !ok || ld.Op != token.MUL {
				return
			}
			ia, ok := ld.X.(*ssa.IndexAddr)
			if !ok {
				return
			}
			ch := fieldChain(ia.X)
			if len(ch) > 0 && ch[len(ch)-1] == fChildren && rootOf(ia.X) == gs.parent && dominates(ld, site) {
				gs.child, gs.index = ld, ia.Index
			}
		})
		if gs.parent == nil || gs.child == nil {
			return nil, "the printed node / its child could not be identified at the bracket site of " + c.FuncKey(fn)
		}
		return gs, ""
	}
	return nil, "no place where the printer wraps a child in parentheses was found"
}

func c08Brackets(c *Ctx, r *Result, ops []opNode, delta int64) {
	gs, why := findBracketGuard(c)
	if gs == nil {
		r.Undecide("R08a: %s", why)
		return
	}
	tables := extractBoolTables(c, "parser")
	mk := func(o opNode, arity int64) *absNode {
		n := &absNode{Name: o.Name, Binding: o.Binding, NChildren: arity}
		return n
	}
	leaf := &absNode{Name: "identifier", Binding: 0, NChildren: 0}
	guard := func(P, C *absNode, pos int64) (bool, string) {
		// parent's children: the child at pos, leaves elsewhere
		P.Kids = make([]*absNode, P.NChildren)
		for i := range P.Kids {
			P.Kids[i] = leaf
		}
		P.Kids[pos] = C
		C.Kids = make([]*absNode, C.NChildren)
		for i := range C.Kids {
			C.Kids[i] = leaf
		}
		pe := &pureEval{c: c, maps: tables, env: map[ssa.Value]pval{}}
		pe.env[gs.parent] = pval{kind: "node", n: P}
		pe.env[gs.child] = pval{kind: "node", n: C}
		pe.env[gs.index] = pval{kind: "int", i: pos}
		for _, ct := range gs.conds {
			v, ok := pe.eval(ct.v)
			if !ok {
				// a condition that does not depend on the bracket decision (e.g. err == nil)
				if touchesNodes(ct.v, gs) {
					return false, pe.failure
				}
				pe.failure = ""
				continue
			}
			if v.kind != "bool" {
				return false, "non-boolean guard"
			}
			if v.b != ct.truth {
				return false, ""
			}
		}
		return true, ""
	}
	type cls struct {
		name    string
		example string
		total   int
		missing []string
	}
	classes := map[string]*cls{
		"left-lower":         {name: "left-lower", example: "`(a or b) and c` → `a or b and c`"},
		"right-lower":        {name: "right-lower", example: "`a * (b + c)` → `a * b + c`"},
		"right-equal":        {name: "right-equal", example: "`a - (b - c)` → `a - b - c`"},
		"prefix-parent":      {name: "prefix-parent", example: "`not (a and b)` → `not a and b`"},
		"prefix-child-left":  {name: "prefix-child-left", example: "`(not a) == b` → `not a == b`"},
		"prefix-child-right": {name: "prefix-child-right", example: "`(a == (not b)) == c` → `a == not b == c`"},
	}
	undec := ""
	n := 0
	check := func(class string, P, C opNode, pArity, cArity, pos int64) {
		cl := classes[class]
		cl.total++
		n++
		g, why := guard(mk(P, pArity), mk(C, cArity), pos)
		if why != "" && undec == "" {
			undec = why
		}
		if !g {
			cl.missing = append(cl.missing, fmt.Sprintf("%s/%d[%d]=%s/%d", P.Name, pArity, pos, C.Name, cArity))
		}
	}
	for _, P := range ops {
		for _, C := range ops {
			if P.Infix {
				if C.Infix {
					if C.Binding < P.Binding {
						check("left-lower", P, C, 2, 2, 0)
						check("right-lower", P, C, 2, 2, 1)
					}
					if C.Binding == P.Binding {
						check("right-equal", P, C, 2, 2, 1)
					}
				}
				if C.Prefix {
					if C.Binding+delta < P.Binding {
						check("prefix-child-left", P, C, 2, 1, 0)
					}
					for _, Q := range ops {
						if Q.Infix && C.Binding+delta < Q.Binding && Q.Binding <= P.Binding {
							check("prefix-child-right", P, C, 2, 1, 1)
							break
						}
					}
				}
			}
			if P.Prefix && C.Infix && C.Binding <= P.Binding+delta {
				check("prefix-parent", P, C, 1, 2, 0)
			}
		}
	}
	if undec != "" {
		r.Undecide("R08a: the printer's bracket guard is outside the evaluable subset: %s", undec)
		return
	}
	pos := c.Pos(gs.fn.Pos())
	var names []string
	for k := range classes {
		names = append(names, k)
	}
	sort.Strings(names)
	for _, k := range names {
		cl := classes[k]
		site := "parser.PrettyPrint#brackets:" + cl.name
		if len(cl.missing) == 0 {
			r.Instance("R08a", site, pos, "ok", fmt.Sprintf("all %d (parent, child, position) combinations that need parentheses get them", cl.total), true)
			continue
		}
		sort.Strings(cl.missing)
		show := cl.missing
		if len(show) > 6 {
			show = show[:6]
		}
		r.Instance("R08a", site, pos, "finding", fmt.Sprintf("%d of %d combinations lack parentheses, e.g. %s", len(cl.missing), cl.total, strings.Join(show, " ")), true)
		r.Report(Finding{Rule: "R08a", Site: site, Pos: pos,
			Msg: fmt.Sprintf("the printer omits parentheses that re-parsing needs in class %s: %d of %d (parent/arity[position]=child/arity) combinations, e.g. %s — %s: the formatted text parses to a different tree",
				cl.name, len(cl.missing), cl.total, strings.Join(show, " "), cl.example)})
	}
	r.Extra["bracket_combinations_checked"] = n
	r.Floor("R08a-combinations", n, 300)
}

// touchesNodes: the condition depends on the printed node / child / index.
func touchesNodes(v ssa.Value, gs *guardSite) bool {
	seen := map[ssa.Value]bool{}
	found := false
	var walk func(v ssa.Value, d int)
	walk = func(v ssa.Value, d int) {
		if v == nil || seen[v] || d > 20 || found {
			return
		}
		seen[v] = true
		if v == gs.child || v == gs.index || v == gs.parent {
			found = true
			return
		}
		if call, ok := v.(*ssa.Call); ok {
			// only calls the evaluator would interpret belong to the guard; results of other calls
			// (the recursive visit, fmt, …) are data, not part of the bracket decision
			if f := call.Call.StaticCallee(); f == nil || f.Pkg == nil || f.Pkg.Pkg.Path() != modPath+"/parser" {
				if _, isBuiltin := call.Call.Value.(*ssa.Builtin); !isBuiltin {
					return
				}
			}
		}
		if in, ok := v.(ssa.Instruction); ok {
			for _, op := range in.Operands(nil) {
				if *op != nil {
					walk(*op, d+1)
				}
			}
		}
	}
	walk(v, 0)
	return found
}

// c08Templates: R08b.
func c08Templates(c *Ctx, r *Result, gr *Grammar) {
	g := c.Global("parser", "prettyPrinterMap")
	if g == nil {
		r.Undecide("R08b: parser.prettyPrinterMap not found")
		return
	}
	keys := map[string]bool{}
	for _, mu := range mapLiteralOf(c, "parser", g) {
		if k, ok := constString(mu.Key); ok {
			keys[k] = true
		}
	}
	r.Floor("R08b-templates", len(keys), 35)
	// special cases: node names compared with ast.Name in the printer's helper functions
	special := map[string]bool{}
	fName := c.Field("parser", "ASTNode", "Name")
	for _, fn := range c.ModFuncs() {
		if c.PkgOf(fn) != "parser" || !strings.HasPrefix(fn.Name(), "pp") {
			continue
		}
		if fn.Signature.Results().Len() != 2 {
			continue // only the helpers returning (string, bool) print a node completely
		}
		allInstrs(fn, func(in ssa.Instruction) {
			bo, ok := in.(*ssa.BinOp)
			if !ok || bo.Op != token.EQL {
				return
			}
			s, ok := constString(bo.Y)
			if !ok {
				return
			}
			if ld, ok := bo.X.(*ssa.UnOp); ok && fieldVar(ld.X) == fName {
				if p, isP := rootOf(ld.X).(*ssa.Parameter); isP && len(fn.Params) > 0 && p == fn.Params[0] && !strings.Contains(accessPath(ld.X), "Children") {
					special[s] = true
				}
			}
		})
	}
	var kinds []string
	for k := range nodeShapes {
		kinds = append(kinds, k)
	}
	sort.Strings(kinds)
	n := 0
	for _, k := range kinds {
		if k == "EOF" || strings.HasPrefix(k, "<") {
			continue // never part of a returned tree
		}
		sh := nodeShapes[k]
		site := "parser.prettyPrinterMap#" + k
		if special[k] {
			n++
			r.Instance("R08b", site, "", "ok", "special case in the printer", true)
			continue
		}
		if sh.Max < 0 {
			n++
			r.Instance("R08b", site, "", "finding", "variable arity without special case", true)
			r.Report(Finding{Rule: "R08b", Site: site, Msg: "node kind " + k + " has a variable number of children but no special case in the printer: PrettyPrint asserts (panics) on it"})
			continue
		}
		for a := sh.Min; a <= sh.Max; a++ {
			n++
			key := k
			if a > 0 {
				key = fmt.Sprintf("%s_%d", k, a)
			}
			if keys[key] {
				r.Instance("R08b", site+"/"+fmt.Sprint(a), "", "ok", "template "+key, true)
			} else {
				r.Instance("R08b", site+"/"+fmt.Sprint(a), "", "finding", "no template "+key, true)
				r.Report(Finding{Rule: "R08b", Site: site + "/" + fmt.Sprint(a),
					Msg: fmt.Sprintf("node kind %s with %d child(ren) — which the parser produces — has neither a template %q nor a special case: PrettyPrint asserts (panics) on such a tree", k, a, key)})
			}
		}
	}
	r.Floor("R08b", n, 40)
}

// c08StringKind: R08c.
func c08StringKind(c *Ctx, r *Result) {
	pp := c.Func("parser", "PrettyPrint")
	fAllow := c.Field("parser", "LexToken", "AllowEscapes")
	if pp == nil || fAllow == nil {
		r.Undecide("R08c: parser.PrettyPrint / LexToken.AllowEscapes not found")
		return
	}
	reach := c.Reachable([]*ssa.Function{pp}, func(f *ssa.Function) bool { return c.PkgOf(f) != "parser" })
	reads := 0
	for _, fn := range reach.Order {
		reads += len(accessesOf(fn, fAllow))
	}
	site := "parser.PrettyPrint#string-kind"
	if reads > 0 {
		r.Instance("R08c", site, c.Pos(pp.Pos()), "ok", fmt.Sprintf("the printing path reads Token.AllowEscapes (%d access(es))", reads), true)
	} else {
		r.Instance("R08c", site, c.Pos(pp.Pos()), "finding", "string kind never consulted", true)
		r.Report(Finding{Rule: "R08c", Site: site, Pos: c.Pos(pp.Pos()),
			Msg: "no function on the printing path reads Token.AllowEscapes: a raw string is re-quoted as an interpolating one — `r\"{{a}}\"` is printed `\"{{a}}\"` (now interpolating), `r\"a\\\"` as `\"a\\\\\"`"})
	}
}

// c08VerifyBeforeWrite: R08d.
func c08VerifyBeforeWrite(c *Ctx, r *Result) {
	n := 0
	parse := c.Func("parser", "Parse")
	parseRT := c.Func("parser", "ParseWithRuntime")
	node := c.NamedType("parser", "ASTNode")
	// callee re-parses and compares two trees
	verifies := func(callee *ssa.Function) bool {
		if callee == nil || !c.modFuncSet[callee] {
			return false
		}
		reparses := callee == parse || callee == parseRT
		compares := false
		rs := c.Reachable([]*ssa.Function{callee}, func(f *ssa.Function) bool { return c.PkgOf(f) != "cli/tool" && c.PkgOf(f) != "parser" })
		for f := range rs.Set {
			if f == parse || f == parseRT {
				reparses = true
			}
			if f != callee && f.Signature.Params().Len() >= 2 && namedOf(f.Signature.Params().At(0).Type()) == node && namedOf(f.Signature.Params().At(1).Type()) == node {
				compares = true
			}
			if f.Name() == "Equals" && f.Signature.Recv() != nil && namedOf(f.Signature.Recv().Type()) == node {
				compares = true
			}
		}
		return reparses && compares
	}
	// producers of verified text: functions (string-parameter j) returning (text, error) such that
	// whenever the error is nil, the text was verified against the tree parsed from parameter j
	producers := map[*ssa.Function]int{}
	for _, h := range c.ModFuncs() {
		if c.PkgOf(h) != "cli/tool" || h.Parent() != nil || h.Signature.Results().Len() != 2 ||
			h.Signature.Results().At(0).Type().String() != "string" || h.Signature.Results().At(1).Type().String() != "error" {
			continue
		}
		good, seen := true, false
		srcParam := -1
		ho := &PathOracle{}
		ho.AtReturn = func(st *PState, ret *ssa.Return) {
			if len(ret.Results) != 2 || st.Get(ret.Results[1], ho) == AvNonNil {
				return
			}
			text := st.canon(ret.Results[0])
			okHere := false
			allInstrs(h, func(x ssa.Instruction) {
				call, isCall := x.(*ssa.Call)
				if !isCall || !verifies(call.Call.StaticCallee()) {
					return
				}
				hasText := false
				var tree ssa.Value
				for _, a := range call.Call.Args {
					if st.canon(a) == text {
						hasText = true
					}
					if namedOf(a.Type()) == node {
						tree = a
					}
				}
				if !hasText || tree == nil {
					return
				}
				// the verification's error is the returned error, or known nil here
				var ev ssa.Value = call
				if call.Call.StaticCallee().Signature.Results().Len() > 1 {
					ev = errValueOf(call, call.Call.StaticCallee().Signature.Results().Len()-1)
				}
				if ev == nil || !(st.canon(ev) == st.canon(ret.Results[1]) || st.Get(ev, ho) == AvNil) {
					return
				}
				// the tree is parsed from a string parameter of h
				if ex, isE := st.canon(tree).(*ssa.Extract); isE && ex.Index == 0 {
					if pc, isPC := ex.Tuple.(*ssa.Call); isPC && (pc.Call.StaticCallee() == parse || pc.Call.StaticCallee() == parseRT) && len(pc.Call.Args) >= 2 {
						if prm, isPrm := st.canon(pc.Call.Args[1]).(*ssa.Parameter); isPrm {
							for j, p := range h.Params {
								if p == prm {
									srcParam = j
									okHere = true
								}
							}
						}
					}
				}
			})
			if okHere {
				seen = true
			} else {
				good = false
			}
		}
		if ExplorePaths(h, ho) && good && seen && srcParam >= 0 {
			producers[h] = srcParam
		}
	}
	fromFileRead := func(st *PState, v ssa.Value) bool {
		src := st.canon(v)
		for i := 0; i < 6; i++ {
			switch x := src.(type) {
			case *ssa.Convert:
				src = st.canon(x.X)
				continue
			case *ssa.ChangeType:
				src = st.canon(x.X)
				continue
			}
			break
		}
		if e2, ok := src.(*ssa.Extract); ok && e2.Index == 0 {
			if rc, ok := e2.Tuple.(*ssa.Call); ok {
				switch callName(rc) {
				case "io/ioutil.ReadFile", "os.ReadFile", "io.ReadAll", "io/ioutil.ReadAll":
					return true
				}
			}
		}
		return false
	}
	for _, fn := range c.ModFuncs() {
		if c.PkgOf(fn) != "cli/tool" {
			continue
		}
		writes := callSites(fn, func(name string, _ ssa.CallInstruction) bool {
			return name == "io/ioutil.WriteFile" || name == "os.WriteFile"
		})
		if len(writes) == 0 {
			continue
		}
		// only the formatter: the function (or its parent) also pretty prints
		root := fn
		for root.Parent() != nil {
			root = root.Parent()
		}
		usesPP := false
		for _, f := range withNested(root) {
			if len(callSites(f, func(name string, ci ssa.CallInstruction) bool {
				if strings.HasSuffix(name, "parser.PrettyPrint") {
					return true
				}
				_, isProd := producers[ci.Common().StaticCallee()]
				return isProd
			})) > 0 {
				usesPP = true
			}
		}
		if !usesPP {
			continue
		}
		key := c.FuncKey(fn)
		for i, w := range writes {
			n++
			site := fmt.Sprintf("%s#WriteFile#%d", key, i)
			pos := c.Pos(c.InstrPos(w))
			// the text written
			data := w.Common().Args[1]
			text := data
			if cv, ok := data.(*ssa.Convert); ok {
				text = cv.X
			}
			verified, reached := true, false
			why := "no verifying call on the written text precedes the write"
			o := &PathOracle{}
			o.Visit = func(st *PState, in ssa.Instruction) {
				if in != ssa.Instruction(w) {
					return
				}
				reached = true
				ok := false
				// the text is the result of a producer of verified text whose error is nil here
				if ex, isE := st.canon(text).(*ssa.Extract); isE && ex.Index == 0 {
					if hc, isCall := ex.Tuple.(*ssa.Call); isCall {
						if j, isProd := producers[hc.Call.StaticCallee()]; isProd {
							args := callArgs(hc.Common())
							for _, ref := range *hc.Referrers() {
								if e1, isE1 := ref.(*ssa.Extract); isE1 && e1.Index == 1 {
									switch {
									case st.Get(e1, o) != AvNil:
										why = "the write is reached although the error of " + hc.Call.StaticCallee().Name() + "() is not known to be nil"
									case j >= len(args) || !fromFileRead(st, args[j]):
										why = "the text verified by " + hc.Call.StaticCallee().Name() + "() is compared with a tree that is not parsed from the content read from the file"
									default:
										ok = true
									}
								}
							}
						}
					}
				}
				allInstrs(fn, func(x ssa.Instruction) {
					call, isCall := x.(*ssa.Call)
					if !isCall || !dominates(call, w) {
						return
					}
					callee := call.Call.StaticCallee()
					if callee == nil || !c.modFuncSet[callee] {
						return
					}
					// takes the written text and the original tree, re-parses and compares
					hasText, hasTree := false, false
					for _, a := range call.Call.Args {
						if st.canon(a) == st.canon(text) {
							hasText = true
						}
						if namedOf(a.Type()) == node {
							hasTree = true
						}
					}
					if !hasText || !hasTree {
						return
					}
					reparses := callee == parse || callee == parseRT
					compares := false
					rs := c.Reachable([]*ssa.Function{callee}, func(f *ssa.Function) bool { return c.PkgOf(f) != "cli/tool" && c.PkgOf(f) != "parser" })
					for f := range rs.Set {
						if f == parse || f == parseRT {
							reparses = true
						}
						if f != callee && f.Signature.Params().Len() >= 2 && namedOf(f.Signature.Params().At(0).Type()) == node && namedOf(f.Signature.Params().At(1).Type()) == node {
							compares = true
						}
						if f.Name() == "Equals" && f.Signature.Recv() != nil && namedOf(f.Signature.Recv().Type()) == node {
							compares = true
						}
					}
					if !reparses || !compares {
						why = fmt.Sprintf("%s does not both re-parse the text and compare the trees (re-parses: %v, compares: %v)", c.FuncKey(callee), reparses, compares)
						return
					}
					// the tree handed to the comparison is the tree of the file: on this path it is the
					// result of parsing the bytes read from the file, not of some formatted text
					for _, a := range call.Call.Args {
						if namedOf(a.Type()) != node {
							continue
						}
						if src := treeOrigin(st, a); src != "" {
							why = "the tree compared with the formatted text is not the tree of the file: it is " + src
							return
						}
					}
					// its error result must be nil here
					var ev ssa.Value = call
					if callee.Signature.Results().Len() > 1 {
						ev = errValueOf(call, callee.Signature.Results().Len()-1)
					}
					if ev != nil && st.Get(ev, o) == AvNil {
						ok = true
					} else {
						why = "the write is reached although the verification's error is not known to be nil"
					}
				})
				if !ok {
					verified = false
				}
			}
			if !ExplorePaths(fn, o) {
				r.Undecide("R08d: path exploration of %s exceeded its bound", key)
				continue
			}
			if reached && verified {
				r.Instance("R08d", site, pos, "ok", "written only after the exact text was re-parsed and compared with the original tree without error", true)
			} else {
				r.Instance("R08d", site, pos, "finding", why, true)
				r.Report(Finding{Rule: "R08d", Site: site, Pos: pos,
					Msg: key + ": the formatted text is written over the file without verification: " + why + " — a file whose formatted form parses differently (or not at all) is silently replaced"})
			}
		}
	}
	r.Floor("R08d", n, 1)
}

var _ = types.Typ

// ---- R08e: the tree comparison of the format guard covers every field evaluation depends on -----

// fields of LexToken the evaluator reads without their value influencing the result of a program;
// one line of reason each. Everything else the interpreter reads from a token must be compared.
var r08eNotSemantic = map[string]string{
	"Pos":            "position: differs by design after formatting; used in messages only",
	"Lline":          "position: differs by design after formatting; messages, breakpoints",
	"Lpos":           "position: differs by design after formatting; messages only",
	"Lsource":        "source label: the same file",
	"PrefixNewlines": "layout: what the formatter is allowed to change",
	"ID":             "determined by the node kind (astNodeMap is keyed by ID and fixes Name), which is compared",
	"Identifier":     "read only to copy the token of an identifier into a new node for error reporting (rt_identifier.go); determined by ID and Val",
}

func c08CompareCoverage(c *Ctx, r *Result) {
	node := c.NamedType("parser", "ASTNode")
	tok := c.NamedType("parser", "LexToken")
	if node == nil || tok == nil {
		r.Undecide("R08e: parser.ASTNode / parser.LexToken not found")
		return
	}
	fieldOf := func(v ssa.Value) (*types.Named, string) {
		switch x := v.(type) {
		case *ssa.UnOp:
			if fa, ok := x.X.(*ssa.FieldAddr); ok && x.Op == token.MUL {
				if n := namedOf(fa.X.Type()); n != nil {
					return n, fieldName(derefType(fa.X.Type()), fa.Field)
				}
			}
		case *ssa.Field:
			if n := namedOf(x.X.Type()); n != nil {
				return n, fieldName(x.X.Type(), x.Field)
			}
		}
		return nil, ""
	}
	// required: token fields read by the interpreter
	required := map[string]bool{}
	for _, fn := range c.ModFuncs() {
		if c.PkgOf(fn) != "interpreter" {
			continue
		}
		allInstrs(fn, func(in ssa.Instruction) {
			if v, ok := in.(ssa.Value); ok {
				if n, f := fieldOf(v); n == tok && f != "" && r08eNotSemantic[f] == "" {
					required[f] = true
				}
			}
		})
	}
	r.Floor("R08e-required-fields", len(required), 2)
	// comparators: functions of cli/tool taking two trees
	n := 0
	for _, fn := range c.ModFuncs() {
		if c.PkgOf(fn) != "cli/tool" || fn.Signature.Params().Len() < 2 {
			continue
		}
		if namedOf(fn.Signature.Params().At(0).Type()) != node || namedOf(fn.Signature.Params().At(1).Type()) != node {
			continue
		}
		n++
		key := c.FuncKey(fn)
		rs := c.Reachable([]*ssa.Function{fn}, func(f *ssa.Function) bool { return c.PkgOf(f) != "cli/tool" && c.PkgOf(f) != "parser" })
		comparedTok := map[string]bool{}
		comparedNode := map[string]bool{}
		for f := range rs.Set {
			allInstrs(f, func(in ssa.Instruction) {
				bo, ok := in.(*ssa.BinOp)
				if !ok || (bo.Op != token.EQL && bo.Op != token.NEQ) {
					return
				}
				x, y := bo.X, bo.Y
				// len(a.Children) == len(b.Children)
				if cx, ok := x.(*ssa.Call); ok && isBuiltinCall(cx, "len") {
					if cy, ok := y.(*ssa.Call); ok && isBuiltinCall(cy, "len") {
						x, y = cx.Call.Args[0], cy.Call.Args[0]
					}
				}
				n1, f1 := fieldOf(x)
				n2, f2 := fieldOf(y)
				if n1 == nil || n1 != n2 || f1 != f2 {
					return
				}
				if n1 == tok {
					comparedTok[f1] = true
				}
				if n1 == node {
					comparedNode[f1] = true
				}
			})
		}
		var missing []string
		for f := range required {
			if !comparedTok[f] {
				missing = append(missing, "LexToken."+f)
			}
		}
		for _, f := range []string{"Name", "Children"} {
			if !comparedNode[f] {
				missing = append(missing, "ASTNode."+f)
			}
		}
		sort.Strings(missing)
		site := key + "#compared-fields"
		pos := c.Pos(fn.Pos())
		if len(missing) > 0 {
			r.Instance("R08e", site, pos, "finding", "not compared: "+strings.Join(missing, ", "), true)
			r.Report(Finding{Rule: "R08e", Site: site, Pos: pos,
				Msg: fmt.Sprintf("%s, the tree comparison that gates the in-place write, does not compare %s although the evaluator's result depends on it: a formatting that changes it (e.g. a raw string printed as an interpolating one) is accepted and written", key, strings.Join(missing, ", "))})
		} else {
			r.Instance("R08e", site, pos, "ok", fmt.Sprintf("compares node kind, child count and every token field evaluation depends on (%s)", keysOf(required)), true)
		}
	}
	r.Floor("R08e", n, 1)
}

// treeOrigin: "" when the tree value is, on this path, the result of parser.Parse* applied to text
// converted from the result of a file read; otherwise a description of what it is.
func treeOrigin(st *PState, v ssa.Value) string {
	t := st.canon(v)
	ex, ok := t.(*ssa.Extract)
	if !ok || ex.Index != 0 {
		return accessPath(v) + " (not the result of a parse)"
	}
	call, ok := ex.Tuple.(*ssa.Call)
	if !ok {
		return accessPath(v) + " (not the result of a parse)"
	}
	n := callName(call)
	if !(strings.HasSuffix(n, "parser.Parse") || strings.HasSuffix(n, "parser.ParseWithRuntime")) || len(call.Call.Args) < 2 {
		return "the result of " + n
	}
	src := st.canon(call.Call.Args[1])
	for i := 0; i < 6; i++ {
		switch x := src.(type) {
		case *ssa.Convert:
			src = st.canon(x.X)
			continue
		case *ssa.ChangeType:
			src = st.canon(x.X)
			continue
		}
		break
	}
	if e2, ok := src.(*ssa.Extract); ok && e2.Index == 0 {
		if rc, ok := e2.Tuple.(*ssa.Call); ok {
			switch callName(rc) {
			case "io/ioutil.ReadFile", "os.ReadFile", "io.ReadAll", "io/ioutil.ReadAll":
				return ""
			}
		}
	}
	return "parsed from " + accessPath(call.Call.Args[1]) + ", which is not the content read from the file"
}
