package main

// C06 — no ECAL program, sink attribute or event can crash the host process.

import (
	"fmt"
	"go/token"
	"go/types"
	"os"
	"sort"
	"strings"

	"golang.org/x/tools/go/ssa"
)

func init() { register("C06", checkC06) }

// c06Entries resolves the entry points by type.
func c06Entries(c *Ctx, r *Result) []*ssa.Function {
	var out []*ssa.Function
	add := func(f *ssa.Function) {
		if f != nil {
			out = append(out, f)
		}
	}
	for _, n := range []string{"Parse", "ParseWithRuntime", "Lex", "LexToList", "PrettyPrint"} {
		f := c.Func("parser", n)
		if f == nil {
			r.Undecide("entry point parser.%s not found", n)
		}
		add(f)
	}
	if it := c.Interface("parser", "Runtime"); it != nil {
		for _, m := range []string{"Validate", "Eval"} {
			out = append(out, c.Implementations(it, m)...)
		}
	} else {
		r.Undecide("parser.Runtime not found")
	}
	if it := c.Interface("util", "ECALFunction"); it != nil {
		for _, m := range []string{"Run", "DocString"} {
			for _, f := range c.Implementations(it, m) {
				if c.PkgOf(f) == "interpreter" {
					out = append(out, f)
				}
			}
		}
	}
	if it := c.Interface("parser", "Scope"); it != nil {
		for i := 0; i < it.NumMethods(); i++ {
			out = append(out, c.Implementations(it, it.Method(i).Name())...)
		}
	}
	for _, fn := range c.ModFuncs() {
		if fn.Parent() != nil {
			continue
		}
		switch c.PkgOf(fn) {
		case "scope":
			if fn.Object() != nil && fn.Object().Exported() && fn.Signature.Recv() == nil {
				add(fn)
			}
		case "engine", "engine/pubsub":
			if fn.Object() != nil && (fn.Object().Exported() || fn.Signature.Recv() != nil) && !strings.HasPrefix(fn.Name(), "UnitTest") {
				add(fn)
			}
		case "engine/pool":
			if fn.Object() != nil && (fn.Object().Exported() || fn.Signature.Recv() != nil) {
				add(fn)
			}
		}
	}
	return out
}

// c06Stop: functions outside the guarantee of C06.
func c06Stop(c *Ctx) func(*ssa.Function) bool {
	dbg := c.Interface("util", "ECALDebugger")
	return func(f *ssa.Function) bool {
		root := f
		for root.Parent() != nil {
			root = root.Parent()
		}
		p := c.PkgOf(root)
		switch {
		case p == "cli" || strings.HasPrefix(p, "cli/") || p == "stdlib/generate" || strings.HasPrefix(p, "examples") || p == "config":
			return true
		case p == "stdlib":
			// the adapter runs under its own recover (C19); the registry functions are host API
			return true
		}
		if recv := root.Signature.Recv(); recv != nil && dbg != nil && types.Implements(recv.Type(), dbg) {
			return true // C16
		}
		if strings.HasSuffix(root.Name(), "Command") || (root.Signature.Recv() != nil && strings.HasSuffix(typeShort(derefType(root.Signature.Recv().Type())), "Command")) {
			return true // debug commands: C16
		}
		switch root.Name() {
		case "ASTFromJSONObject", "UnitTestResetIDs":
			return true
		}
		if strings.HasPrefix(root.Name(), "init") && root.Signature.Recv() == nil && root.Signature.Params().Len() == 0 {
			return true
		}
		if root.Name() == "String" || root.Name() == "ToJSONObject" || root.Name() == "stringIndent" || root.Name() == "Plain" {
			// diagnostics: reached from the debugger / logging, reviewed as a group below when reachable from evaluation
			return false
		}
		return false
	}
}

func checkC06(c *Ctx, r *Result, tier string) {
	r.Explanation = "Enumerates every instruction that can panic by the Go specification — unchecked type assertion, index and slice expression with a non-constant or unproven bound, integer division, interface comparison and interface-keyed map operation on possibly uncomparable dynamic types, make with a possibly negative length, explicit panic and calls of asserting/panicking APIs, dereference of the token of a parser-constructed node — " +
		"in all module functions reachable (class-hierarchy call graph) from the entry points of parsing, validation, evaluation, the scope, the built-in functions and the event engine (there is no recover on the evaluation or worker path). Each obligation is discharged automatically by a sound rule (dominating comma-ok / bounds / non-zero / kind test, range loop, callee result typing, slot typing, AST-shape invariant), or by the reviewed table (one named construct, one line of reason), or is a finding."
	r.RuleText = "obligation = panic-capable SSA instruction in Reach(entry points); discharged iff its requirement follows from the facts at the instruction (dominating conditions, asserting calls, definitions) by the fixed implications of DESIGN.md Appendix B; else reviewed table; else known finding; else VIOLATION"
	r.NotCovered = "General nil-pointer freedom (only the token-of-constructed-node class is claimed), unbounded recursion / non-termination written by the user, panics inside user-supplied Go code, out-of-memory, the Go runtime and standard library internals, trees not produced by the parser (ASTFromJSONObject)."
	r.Assumptions = []string{
		"trees come from the parser without error (C07) — the AST-shape table is frozen from the parser and cross-checked against the grammar table",
		"runtime components are validated before evaluation (asserted by baseRuntime.Eval; hosts call Validate)",
		"the reviewed table entries (invariants the automatic rules cannot see) are correct as argued, each on one named construct",
	}

	oc := newObligCtx(c)
	if gr, err := ExtractGrammar(c); err == nil {
		oc.grammar = gr
		for _, p := range checkShapeTable(gr) {
			r.Undecide("shape table: %s", p)
		}
	} else {
		r.Undecide("grammar: %v", err)
	}
	if pt, err := ExtractProviders(c); err == nil {
		oc.prov = pt
	} else {
		r.Undecide("providers: %v", err)
	}

	entries := c06Entries(c, r)
	reach := c.Reachable(entries, c06Stop(c))
	funcs := append([]*ssa.Function{}, reach.Order...)
	sort.Slice(funcs, func(i, j int) bool { return c.FuncKey(funcs[i]) < c.FuncKey(funcs[j]) })
	r.Extra["entry_points"] = len(entries)
	r.Extra["reachable_functions"] = len(funcs)
	r.Floor("C06-reach", len(funcs), 300)

	premiseFails := c06Premises(c, oc)
	r.Extra["reviewed_premises_failing"] = premiseFails
	perKind := map[string][2]int{}
	nObl := 0
	usedReviewed := map[string]bool{}
	dump := os.Getenv("ECALCHECK_DUMP") != ""
	// all obligations first: an entry can be adopted by an obligation in a callee of its function
	obsByFn := map[*ssa.Function][]Obligation{}
	for _, fn := range funcs {
		obs := oc.enumerate(fn, nil)
		obs = append(obs, oc.tokenObligations(fn)...)
		sortObligations(obs)
		obsByFn[fn] = obs
	}
	matchReviewed(c, c06Reviewed, funcs, obsByFn)
	for _, fn := range funcs {
		obs := obsByFn[fn]
		for _, ob := range obs {
			r.Obligations++
			nObl++
			pk := perKind[ob.Kind]
			pk[0]++
			rule := "R06-" + ob.Kind
			switch {
			case ob.Discharged:
				r.Discharged++
				pk[1]++
				r.Instance(rule, ob.Site, ob.Pos, "discharged", ob.Why, true)
			case c06Reviewed[ob.Site] != "" && premiseFails[c06ReviewedPremise[ob.Site]] == "" && c06LocalPremise(ob) == "":
				r.Discharged++
				pk[1]++
				usedReviewed[ob.Site] = true
				r.Instance(rule, ob.Site, ob.Pos, "reviewed", c06Reviewed[ob.Site], true)
			default:
				if why := premiseFails[c06ReviewedPremise[ob.Site]]; why != "" {
					ob.Why += " (the reviewed argument for this construct no longer applies: " + why + ")"
				}
				if c06Reviewed[ob.Site] != "" {
					if why := c06LocalPremise(ob); why != "" {
						ob.Why += " (the reviewed argument for this construct no longer applies: " + why + ")"
					}
				}
				if dump {
					fmt.Printf("OPEN\t%s\t%s\t%s\n", ob.Site, ob.Pos, ob.Why)
				}
				r.Instance(rule, ob.Site, ob.Pos, "finding", ob.Why, true)
				r.Report(Finding{Rule: rule, Site: ob.Site, Pos: ob.Pos, Path: reach.PathTo(c, fn),
					Msg: fmt.Sprintf("%s: %s", c.FuncKey(fn), ob.Why)})
			}
			perKind[ob.Kind] = pk
		}
	}
	pk := map[string]string{}
	for k, v := range perKind {
		pk[k] = fmt.Sprintf("%d obligations, %d discharged", v[0], v[1])
	}
	r.Extra["obligations_per_kind"] = pk
	var stale []string
	for site := range c06Reviewed {
		if !usedReviewed[site] {
			stale = append(stale, site)
		}
	}
	sort.Strings(stale)
	r.Extra["reviewed_entries"] = len(c06Reviewed)
	r.Extra["reviewed_entries_unused"] = stale
	r.Floor("C06-obligations", nObl, 300)
	c06EmbeddedNil(c, r)
}

// ---- R06-embednil: embedded pointers of error values are never nil ------------------------------

// Error values that embed *RuntimeError get their Error() (and every promoted field access,
// e.g. rtError.Type in the try runtime and in addEventAndWait) from the embedded pointer: a nil
// embedded pointer is a nil dereference at the first use. The invariant "embedded pointer fields
// of module struct types that implement error through promotion are non-nil" is inductive:
// checked at every store into such a field, assuming it for loads of such fields.
func c06EmbeddedNil(c *Ctx, r *Result) {
	errT := types.Universe.Lookup("error").Type().Underlying().(*types.Interface)
	isEmbErrField := func(fa *ssa.FieldAddr) bool {
		st, ok := derefType(fa.X.Type()).Underlying().(*types.Struct)
		if !ok || fa.Field >= st.NumFields() {
			return false
		}
		f := st.Field(fa.Field)
		if !f.Embedded() {
			return false
		}
		p, ok := f.Type().(*types.Pointer)
		if !ok || !types.Implements(p, errT) {
			return false
		}
		owner := namedOf(fa.X.Type())
		return owner != nil && owner.Obj().Pkg() != nil && strings.HasPrefix(owner.Obj().Pkg().Path(), modPath)
	}
	// functions whose (single / first) result is never nil
	nonNilRet := map[*ssa.Function]int{}
	var retNonNil func(fn *ssa.Function, idx int) bool
	var localNonNil func(v ssa.Value, d int) bool
	localNonNil = func(v ssa.Value, d int) bool {
		if d > 8 {
			return false
		}
		switch x := unspill(v).(type) {
		case *ssa.Alloc, *ssa.FieldAddr, *ssa.IndexAddr, *ssa.MakeInterface, *ssa.MakeMap, *ssa.MakeSlice, *ssa.MakeClosure, *ssa.Function, *ssa.Global:
			_ = x
			return true
		case *ssa.Const:
			return x.Value != nil
		case *ssa.Phi:
			for _, e := range x.Edges {
				if !localNonNil(e, d+1) {
					return false
				}
			}
			return true
		case *ssa.TypeAssert:
			return !x.CommaOk && localNonNil(x.X, d+1)
		case *ssa.Call:
			switch callName(x) {
			case "fmt.Errorf", "errors.New":
				return true
			}
			cs := c.Callees(x)
			if len(cs) == 0 {
				return false
			}
			for _, f := range cs {
				if !retNonNil(f, 0) {
					return false
				}
			}
			return true
		case *ssa.UnOp:
			if fa, ok := x.X.(*ssa.FieldAddr); ok && x.Op == token.MUL && isEmbErrField(fa) {
				return true // the invariant
			}
		}
		return false
	}
	retNonNil = func(fn *ssa.Function, idx int) bool {
		switch nonNilRet[fn] {
		case 1, 2:
			return true
		case 3:
			return false
		}
		if len(fn.Blocks) == 0 {
			nonNilRet[fn] = 3
			return false
		}
		nonNilRet[fn] = 1
		ok := true
		rvs := returnedValues(fn, idx)
		if len(rvs) == 0 {
			ok = false
		}
		for _, rv := range rvs {
			if !localNonNil(rv, 0) {
				ok = false
			}
		}
		if ok {
			nonNilRet[fn] = 2
		} else {
			nonNilRet[fn] = 3
		}
		return ok
	}
	n := 0
	for _, fn := range c.ModFuncs() {
		var stores []*ssa.Store
		allInstrs(fn, func(in ssa.Instruction) {
			if st, ok := in.(*ssa.Store); ok {
				if fa, ok := st.Addr.(*ssa.FieldAddr); ok && isEmbErrField(fa) {
					stores = append(stores, st)
				}
			}
		})
		if len(stores) == 0 {
			continue
		}
		root := fn
		for root.Parent() != nil {
			root = root.Parent()
		}
		if strings.HasPrefix(c.PkgOf(root), "cli") || strings.HasPrefix(c.PkgOf(root), "examples") {
			continue
		}
		key := c.FuncKey(fn)
		isStore := map[ssa.Instruction]int{}
		for i, st := range stores {
			isStore[st] = i
		}
		bad := map[int]string{}
		o := &PathOracle{}
		o.NonNilCall = func(call *ssa.Call, idx int) bool {
			if idx > 0 {
				return false
			}
			return localNonNil(call, 0)
		}
		o.Visit = func(st *PState, in ssa.Instruction) {
			i, ok := isStore[in]
			if !ok {
				return
			}
			v := st.canon(in.(*ssa.Store).Val)
			good := false
			switch st.Get(v, o) {
			case AvNonNil:
				good = true
			case AvNil:
			default:
				switch x := v.(type) {
				case *ssa.Extract:
					if ta, isTA := x.Tuple.(*ssa.TypeAssert); isTA && x.Index == 0 {
						// the value of a comma-ok assertion on the branch where it succeeded
						for _, ref := range *ta.Referrers() {
							if e2, isE := ref.(*ssa.Extract); isE && e2.Index == 1 && st.Get(e2, o) == AvNonNil {
								// the assertion succeeded: the interface holds a pointer of that type (a
								// typed nil pointer inside an error is the separate nilerrtype class)
								good = true
							}
						}
					}
				case *ssa.TypeAssert:
					good = !x.CommaOk && (localNonNil(x.X, 0) || st.Get(x.X, o) == AvNonNil)
				default:
					good = localNonNil(v, 0)
				}
			}
			if !good {
				if _, dup := bad[i]; !dup {
					bad[i] = accessPath(in.(*ssa.Store).Val)
				}
			}
		}
		if !ExplorePaths(fn, o) {
			r.Undecide("R06-embednil: path exploration of %s exceeded its state bound", key)
			continue
		}
		ord := newOrdinals()
		for i, st := range stores {
			n++
			fa := st.Addr.(*ssa.FieldAddr)
			site := ord.key(key, "embednil", typeShort(derefType(fa.X.Type()))+"."+fieldName(derefType(fa.X.Type()), fa.Field))
			pos := c.Pos(c.InstrPos(st))
			if why, isBad := bad[i]; isBad {
				r.Obligations++
				r.Instance("R06-embednil", site, pos, "finding", "may store nil: "+why, true)
				r.Report(Finding{Rule: "R06-embednil", Site: site, Pos: pos,
					Msg: fmt.Sprintf("%s: the embedded error pointer %s.%s can be nil on some path (%s): Error() and every promoted field access on the resulting error value dereference it — the host process panics when the error is reported", key, typeShort(derefType(fa.X.Type())), fieldName(derefType(fa.X.Type()), fa.Field), why)})
			} else {
				r.Obligations++
				r.Discharged++
				r.Instance("R06-embednil", site, pos, "discharged", "non-nil on every path (allocation, successful assertion, non-nil callee result, or another embedded error pointer)", true)
			}
		}
	}
	r.Floor("R06-embednil", n, 2)
}

// ---- machine-checked premises of reviewed entries ---------------------------------------------------

// Some reviewed entries rest on a fact about another construct. Where that fact is itself a shape
// of the code it is re-established on every run; when it no longer holds, the entries that rest on
// it are void and their obligations are findings again.
var c06ReviewedPremise = map[string]string{
	"interpreter.(*sinkRuntime).createRule#assert:rt.baseRuntime.node.Children[:][*].Runtime.Eval()#0.(float64)#0":                     "sink-detail-types",
	"interpreter.(*sinkRuntime).createRule#assert:rt.baseRuntime.node.Children[:][*].Runtime.Eval()#0.(map[interface{}]interface{})#0": "sink-detail-types",
	"interpreter.(*sinkRuntime).makeStringList#assert:child.Runtime.Eval()#0.([]interface{})#0":                                        "sink-detail-types",
}

// c06Premises evaluates the premises; a non-empty string is the reason a premise fails.
func c06Premises(c *Ctx, oc *obligCtx) map[string]string {
	out := map[string]string{}
	// sink-detail-types: the constructor of every sink detail kind stores the constant value type
	// that the consumers assert (list / map / int), in the runtime whose Eval checks it
	want := map[string]string{"kindmatch": "list", "scopematch": "list", "suppresses": "list", "statematch": "map", "priority": "int"}
	fVal := c.Field("interpreter", "sinkDetailRuntime", "valType")
	if oc.prov == nil || fVal == nil {
		out["sink-detail-types"] = "provider table / sinkDetailRuntime.valType not found"
		return out
	}
	var kinds []string
	for k := range want {
		kinds = append(kinds, k)
	}
	sort.Strings(kinds)
	for _, k := range kinds {
		ctor := oc.prov.Kind2Ctor[k]
		if ctor == nil {
			out["sink-detail-types"] = "no constructor registered for " + k
			break
		}
		got := ""
		found := false
		var scan func(fn *ssa.Function, d int)
		scan = func(fn *ssa.Function, d int) {
			if d > 3 || len(fn.Blocks) == 0 {
				return
			}
			allInstrs(fn, func(in ssa.Instruction) {
				switch x := in.(type) {
				case *ssa.Store:
					if fa, ok := x.Addr.(*ssa.FieldAddr); ok && fieldVar(fa) == fVal {
						found = true
						if s, ok := constString(x.Val); ok {
							got = s
						} else {
							got = "<" + accessPath(x.Val) + ">"
						}
					}
				case *ssa.Call:
					if f := x.Call.StaticCallee(); f != nil && c.modFuncSet[f] && c.PkgOf(f) == "interpreter" && f.Signature.Results().Len() == 1 &&
						strings.HasSuffix(f.Signature.Results().At(0).Type().String(), "parser.Runtime") {
						scan(f, d+1)
					}
				}
			})
		}
		scan(ctor, 0)
		if !found || got != want[k] {
			out["sink-detail-types"] = fmt.Sprintf("the runtime of sink detail `%s` is constructed with value type %q, not the constant %q its consumers rely on", k, got, want[k])
			break
		}
	}
	return out
}

// Local premises of reviewed entries: conditions at the construct itself that the argument names
// ("under m != nil", "under err == nil"). They are facts of the path and are re-established on
// every run; when one fails the entry is void at that site.
var c06ReviewedLocal = map[string]string{
	"parser.lexComment#slice:l.input[l.start:(l.pos-1)]#0":                                  "consumes-after-start",
	"interpreter.(*addeventandwait).Run$1#assert:proc.AddEventAndWait()#0.(*RootMonitor)#0": "operand-nonnil",
	"interpreter.(*notinOpRuntime).Eval#assert:rt.inOpRuntime.Eval()#0.(bool)#0":            "error-nil",
}

func c06LocalPremise(ob Obligation) string {
	kind := c06ReviewedLocal[ob.Site]
	if kind == "consumes-after-start" {
		// input[start:pos-1] needs pos-1 ≥ start: at least one rune was consumed (next with peek 0)
		// on every path from the startNew() that set start to the slice
		fn := ob.Instr.Parent()
		var starts []ssa.Instruction
		allInstrs(fn, func(in ssa.Instruction) {
			if ci, ok := in.(ssa.CallInstruction); ok {
				if g := ci.Common().StaticCallee(); g != nil && g.Name() == "startNew" && dominates(in, ob.Instr) {
					starts = append(starts, in)
				}
			}
		})
		if len(starts) == 0 {
			return "no startNew() dominates the slice any more"
		}
		consumes := func(in ssa.Instruction) bool {
			ci, ok := in.(ssa.CallInstruction)
			if !ok {
				return false
			}
			g := ci.Common().StaticCallee()
			if g == nil || g.Name() != "next" || len(ci.Common().Args) < 2 {
				return false
			}
			k, isC := constInt(ci.Common().Args[1])
			return isC && k == 0
		}
		// the last startNew before the slice: the one no other startNew lies behind
		last := starts[0]
		for _, s2 := range starts {
			if dominates(last, s2) {
				last = s2
			}
		}
		if instrPathAvoiding(last, ob.Instr, consumes) {
			return "a path from startNew() to the slice consumes no rune (no next(0)): start = pos there and the upper bound pos-1 lies below start (a comment beginning `/*/`)"
		}
		return ""
	}
	ta, ok := ob.Instr.(*ssa.TypeAssert)
	if kind == "" || !ok {
		return ""
	}
	f := FactsAt(ob.Instr)
	switch kind {
	case "operand-nonnil":
		if !f.NonNil[accessPath(ta.X)] {
			return "the asserted value is no longer known to be non-nil here (a nil interface panics in a single-result assertion): the guard `" + accessPath(ta.X) + " != nil` is gone"
		}
	case "error-nil":
		// the asserted value is result 0 of a call; its error (result 1) must be known nil
		if e, isE := unspill(ta.X).(*ssa.Extract); isE {
			okNil := false
			for _, ref := range *e.Tuple.Referrers() {
				if e1, isE1 := ref.(*ssa.Extract); isE1 && e1.Index == 1 && f.IsNil[accessPath(e1)] {
					okNil = true
				}
			}
			if !okNil {
				return "the error that comes with the asserted value is no longer known to be nil here"
			}
		}
	}
	return ""
}

// instrPathAvoiding: is there a path from just after `from` to `to` on which no instruction
// satisfies avoid?
func instrPathAvoiding(from, to ssa.Instruction, avoid func(ssa.Instruction) bool) bool {
	type pt struct {
		b *ssa.BasicBlock
		i int
	}
	start := pt{from.Block(), instrIndex(from) + 1}
	seen := map[pt]bool{}
	work := []pt{start}
	for len(work) > 0 {
		p := work[len(work)-1]
		work = work[:len(work)-1]
		if seen[p] {
			continue
		}
		seen[p] = true
		blocked := false
		for i := p.i; i < len(p.b.Instrs); i++ {
			in := p.b.Instrs[i]
			if in == to {
				return true
			}
			if avoid(in) {
				blocked = true
				break
			}
		}
		if blocked {
			continue
		}
		for _, s := range p.b.Succs {
			work = append(work, pt{s, 0})
		}
	}
	return false
}
