package main

// Containment engine of C17.
//
// "The value v lies inside the root" is established on a path when
//   (a) rel, err := filepath.Rel(root, v) was computed on it with err known nil and the first
//       element of rel known not to be `..` — spelled as ¬HasPrefix(rel, ".."+sep) ∧ rel ≠ "..", or
//       as Split/SplitN(rel, sep)[0] ≠ ".." — and root is not derived from v; or
//   (b) a module function with a containment summary was called with v and its results signal
//       success on the path; or
//   (c) v is the string result of a confining function whose error is known nil.
// A function gets a summary when on every one of its return paths that can signal success the
// corresponding parameter (result) is established by (a)–(c): a predicate (bool, error), a check
// (error: nil means inside), a confiner (string, error).

import (
	"fmt"
	"go/token"

	"golang.org/x/tools/go/ssa"
)

type cSummary struct {
	kind         string // predicate | check | confiner
	param        int
	signal       string
	successPaths int
}

type containment struct {
	c           *Ctx
	memo        map[*ssa.Function]*cSummary
	busy        map[*ssa.Function]bool
	usedSummary map[*ssa.Function]bool
	usedInline  map[*ssa.Call]bool
}

func newContainment(c *Ctx) *containment {
	return &containment{c: c, memo: map[*ssa.Function]*cSummary{}, busy: map[*ssa.Function]bool{}, usedSummary: map[*ssa.Function]bool{}, usedInline: map[*ssa.Call]bool{}}
}

// isSepString: the value is the path separator as a string.
func isSepString(v ssa.Value) bool {
	if s, ok := constString(v); ok {
		return s == "/" || s == "\\"
	}
	found := false
	seen := map[ssa.Value]bool{}
	var walk func(v ssa.Value, d int)
	walk = func(v ssa.Value, d int) {
		if v == nil || seen[v] || d > 8 {
			return
		}
		seen[v] = true
		if k, ok := constInt(v); ok && (k == '/' || k == '\\') {
			found = true
		}
		if s, ok := constString(v); ok && (s == "/" || s == "\\") {
			found = true
		}
		if in, ok := v.(ssa.Instruction); ok {
			for _, op := range in.Operands(nil) {
				if *op != nil {
					walk(*op, d+1)
				}
			}
		}
	}
	walk(v, 0)
	return found
}

// relTestHolds: on the path of st, the first element of rel is known not to be `..`.
func (ce *containment) relTestHolds(fn *ssa.Function, st *PState, o *PathOracle, relV ssa.Value) (bool, string) {
	prefOK, dotsOK, firstOK := false, false, false
	rc := st.canon(relV)
	allInstrs(fn, func(y ssa.Instruction) {
		switch z := y.(type) {
		case *ssa.Call:
			if callName(z) == "strings.HasPrefix" && len(z.Call.Args) == 2 && st.canon(z.Call.Args[0]) == rc && prefixIsDotDotSep(z.Call.Args[1]) && st.Get(z, o) == AvNil {
				prefOK = true
			}
		case *ssa.BinOp:
			if z.Op != token.NEQ && z.Op != token.EQL {
				return
			}
			cs, isC := constString(z.Y)
			other := z.X
			if !isC {
				cs, isC = constString(z.X)
				other = z.Y
			}
			if !isC || cs != ".." {
				return
			}
			want := AvNonNil
			if z.Op == token.EQL {
				want = AvNil
			}
			if st.Get(z, o) != want {
				return
			}
			// the first element cut out by position: first := rel; if i := strings.IndexRune(rel, sep); i >= 0 { first = rel[:i] }
			isSepIndex := func(v ssa.Value) *ssa.Call {
				ic, ok := v.(*ssa.Call)
				if !ok || len(ic.Call.Args) != 2 {
					return nil
				}
				switch callName(ic) {
				case "strings.IndexRune", "strings.IndexByte", "strings.Index":
					if st.canon(ic.Call.Args[0]) == rc && isSepString(ic.Call.Args[1]) {
						return ic
					}
				}
				return nil
			}
			if sl, ok := st.canon(other).(*ssa.Slice); ok && sl.Low == nil && sl.High != nil && st.canon(sl.X) == rc && isSepIndex(st.canon(sl.High)) != nil {
				firstOK = true // rel[:i] for the position i of the first separator
				return
			}
			if st.canon(other) == rc {
				dotsOK = true
				// … and on this path rel is known to hold no separator: it is its own first element
				allInstrs(fn, func(w ssa.Instruction) {
					cmp, ok := w.(*ssa.BinOp)
					if !ok || isSepIndex(cmp.X) == nil {
						return
					}
					if k, isK := constInt(cmp.Y); isK && k == 0 {
						if (cmp.Op == token.GEQ && st.Get(cmp, o) == AvNil) || (cmp.Op == token.LSS && st.Get(cmp, o) == AvNonNil) {
							firstOK = true
						}
					}
				})
				return
			}
			// Split(rel, sep)[0] / SplitN(rel, sep, n)[0]
			if ld, ok := other.(*ssa.UnOp); ok && ld.Op == token.MUL {
				if ia, ok := ld.X.(*ssa.IndexAddr); ok {
					if k, isK := constInt(ia.Index); isK && k == 0 {
						if sp, ok := ia.X.(*ssa.Call); ok && (callName(sp) == "strings.SplitN" || callName(sp) == "strings.Split") &&
							st.canon(sp.Call.Args[0]) == rc && isSepString(sp.Call.Args[1]) {
							if callName(sp) == "strings.Split" {
								firstOK = true
							} else if n, isN := constInt(sp.Call.Args[2]); isN && (n >= 2 || n < 0) {
								firstOK = true
							}
						}
					}
				}
			}
		}
	})
	switch {
	case firstOK || (prefOK && dotsOK):
		return true, ""
	case prefOK && !dotsOK:
		return false, "reached on a path where the relative path is not known to differ from \"..\""
	default:
		return false, "reached on a path where the relative path is not known not to start with \"..\"+separator"
	}
}

// contained: is the value v established to lie inside the root at `at` on the path of st?
func (ce *containment) contained(fn *ssa.Function, st *PState, o *PathOracle, at ssa.Instruction, v ssa.Value, depth int) (bool, string) {
	path := st.canon(v)
	why := "the path was never handed to a containment test"
	found := false
	okWhy := ""
	// (c) result of a confiner
	if e, isE := path.(*ssa.Extract); isE && e.Index == 0 {
		if hc, isCall := e.Tuple.(*ssa.Call); isCall && hc.Call.StaticCallee() != nil {
			if sm := ce.summary(hc.Call.StaticCallee()); sm != nil && sm.kind == "confiner" {
				for _, ref := range *hc.Referrers() {
					if e1, ok := ref.(*ssa.Extract); ok && e1.Index == 1 {
						if st.Get(e1, o) == AvNil {
							ce.usedSummary[hc.Call.StaticCallee()] = true
							return true, "the result of " + hc.Call.StaticCallee().Name() + "(), which returns only paths it established to lie inside the root; its error is nil here"
						}
						why = "reached on a path where the error of " + hc.Call.StaticCallee().Name() + "() is not known to be nil"
					}
				}
			}
		}
	}
	allInstrs(fn, func(x ssa.Instruction) {
		call, ok := x.(*ssa.Call)
		if !ok || found || (at != nil && !dominates(call, at)) {
			return
		}
		// (a) the test written out
		if callName(call) == "path/filepath.Rel" && len(call.Call.Args) == 2 {
			if st.canon(call.Call.Args[1]) != path {
				if why == "the path was never handed to a containment test" {
					why = fmt.Sprintf("the value checked (%s) is not the value opened (%s)", accessPath(call.Call.Args[1]), accessPath(v))
				}
				return
			}
			if rootOf(call.Call.Args[0]) == rootOf(call.Call.Args[1]) || st.canon(call.Call.Args[0]) == path {
				why = "filepath.Rel is not applied to (root, path)"
				return
			}
			var relV, errV ssa.Value
			for _, ref := range *call.Referrers() {
				if e, isE := ref.(*ssa.Extract); isE {
					if e.Index == 0 {
						relV = e
					} else {
						errV = e
					}
				}
			}
			if relV == nil || errV == nil {
				why = "a result of filepath.Rel is ignored"
				return
			}
			if st.Get(errV, o) != AvNil {
				why = "reached on a path where the error of filepath.Rel is not known to be nil (Rel returns \"\" when it fails, which passes the test)"
				return
			}
			if okT, w := ce.relTestHolds(fn, st, o, relV); okT {
				found = true
				ce.usedInline[call] = true
				okWhy = "filepath.Rel(root, p) succeeded on this path and its first element is known not to be `..`, for the very value that is opened"
			} else {
				why = w
			}
			return
		}
		// (b) a summarised predicate / check
		g := call.Call.StaticCallee()
		if g == nil || depth > 2 {
			return
		}
		sm := ce.summary(g)
		if sm == nil || sm.kind == "confiner" {
			return
		}
		args := call.Call.Args
		if sm.param >= len(args) {
			return
		}
		if st.canon(args[sm.param]) != path {
			if why == "the path was never handed to a containment test" {
				why = fmt.Sprintf("the value checked (%s) is not the value opened (%s)", accessPath(args[sm.param]), accessPath(v))
			}
			return
		}
		switch sm.kind {
		case "predicate":
			var okV, errV ssa.Value
			for _, ref := range *call.Referrers() {
				if e, isE := ref.(*ssa.Extract); isE {
					if e.Index == 0 {
						okV = e
					} else {
						errV = e
					}
				}
			}
			switch {
			case okV == nil || errV == nil:
				why = "a result of the containment predicate is ignored"
			case st.Get(okV, o) != AvNonNil:
				why = "reached on a path where the predicate's boolean is not known to be true"
			case st.Get(errV, o) != AvNil:
				why = "reached on a path where the predicate's error is not known to be nil"
			default:
				found = true
				ce.usedSummary[g] = true
				okWhy = "same value as checked by " + g.Name() + "(); on this path ok=true ∧ err=nil"
			}
		case "check":
			if st.Get(call, o) != AvNil {
				why = "reached on a path where the error of " + g.Name() + "() is not known to be nil"
			} else {
				found = true
				ce.usedSummary[g] = true
				okWhy = "same value as checked by " + g.Name() + "(); its error is nil on this path"
			}
		}
	})
	if found {
		return true, okWhy
	}
	return false, why
}

// summary decides whether g establishes containment of one of its string parameters (its string
// result) whenever it signals success.
func (ce *containment) summary(g *ssa.Function) *cSummary {
	if sm, ok := ce.memo[g]; ok {
		return sm
	}
	if ce.busy[g] || g == nil || len(g.Blocks) == 0 || !ce.c.inModule(g) || g.Parent() != nil {
		return nil
	}
	res := g.Signature.Results()
	kind := ""
	switch {
	case res.Len() == 2 && res.At(0).Type().String() == "bool" && res.At(1).Type().String() == "error":
		kind = "predicate"
	case res.Len() == 1 && res.At(0).Type().String() == "error":
		kind = "check"
	case res.Len() == 2 && res.At(0).Type().String() == "string" && res.At(1).Type().String() == "error":
		kind = "confiner"
	default:
		ce.memo[g] = nil
		return nil
	}
	// cheap filter: the function (or something it statically calls) uses filepath.Rel
	usesRel := false
	var scan func(f *ssa.Function, d int)
	seen := map[*ssa.Function]bool{}
	scan = func(f *ssa.Function, d int) {
		if seen[f] || d > 2 || usesRel {
			return
		}
		seen[f] = true
		allInstrs(f, func(in ssa.Instruction) {
			if callName(in) == "path/filepath.Rel" {
				usesRel = true
			}
			if ci, ok := in.(ssa.CallInstruction); ok {
				if h := ci.Common().StaticCallee(); h != nil && ce.c.inModule(h) {
					scan(h, d+1)
				}
			}
		})
	}
	scan(g, 0)
	if !usesRel {
		ce.memo[g] = nil
		return nil
	}
	ce.busy[g] = true
	defer delete(ce.busy, g)
	var cands []int
	if kind == "confiner" {
		cands = []int{-1}
	} else {
		for i, p := range g.Params {
			if p.Type().String() == "string" {
				cands = append(cands, i)
			}
		}
	}
	// prefer later parameters (root, sub): try in reverse order
	for k := len(cands) - 1; k >= 0; k-- {
		pi := cands[k]
		good, success := true, 0
		o := &PathOracle{}
		o.AtReturn = func(st *PState, ret *ssa.Return) {
			if !good {
				return
			}
			s2 := st.clone()
			var subject ssa.Value
			switch kind {
			case "predicate":
				if !s2.refineCond(ret.Results[0], true, o) {
					return // cannot return true here
				}
				subject = g.Params[pi]
			case "check":
				if s2.Get(ret.Results[0], o) == AvNonNil {
					return
				}
				s2.refineVal(ret.Results[0], AvNil, o)
				subject = g.Params[pi]
			case "confiner":
				if s2.Get(ret.Results[1], o) == AvNonNil {
					return
				}
				s2.refineVal(ret.Results[1], AvNil, o)
				subject = ret.Results[0]
			}
			success++
			if okc, _ := ce.contained(g, s2, o, nil, subject, 1); !okc {
				good = false
			}
		}
		if !ExplorePaths(g, o) || !good || success == 0 {
			continue
		}
		sig := map[string]string{"predicate": "true with a nil error", "check": "a nil error", "confiner": "a nil error"}[kind]
		sm := &cSummary{kind: kind, param: pi, signal: sig, successPaths: success}
		if pi < 0 {
			sm.param = 0
		}
		ce.memo[g] = sm
		return sm
	}
	ce.memo[g] = nil
	return nil
}

// c17Diagnose names the usual ways a containment test goes wrong, for functions of package util
// that look like one.
func c17Diagnose(c *Ctx, r *Result) {
	for _, fn := range c.ModFuncs() {
		if c.PkgOf(fn) != "util" || fn.Parent() != nil || fn.Signature.Results().Len() == 0 {
			continue
		}
		nStr := 0
		for i := 0; i < fn.Signature.Params().Len(); i++ {
			if fn.Signature.Params().At(i).Type().String() == "string" {
				nStr++
			}
		}
		if nStr < 2 || fn.Signature.Results().At(0).Type().String() != "bool" {
			continue
		}
		key := c.FuncKey(fn)
		pos := c.Pos(fn.Pos())
		rels := callSites(fn, func(name string, _ ssa.CallInstruction) bool { return name == "path/filepath.Rel" })
		prefix := callSites(fn, func(name string, _ ssa.CallInstruction) bool { return name == "strings.HasPrefix" })
		switch {
		case len(rels) > 0 && fn.Signature.Results().Len() == 1:
			r.Instance("R17b", key+"#rel-error", pos, "finding", "error of filepath.Rel dropped", true)
			r.Report(Finding{Rule: "R17b", Site: key + "#rel-error", Pos: pos,
				Msg: key + ": the containment test calls filepath.Rel but cannot report its error (it returns only a bool): when Rel fails it returns \"\", which does not start with `..`, so the path counts as inside the root — an empty root with a rooted import path reads any absolute file"})
		case len(rels) == 0 && len(prefix) > 0:
			r.Instance("R17b", key+"#string-prefix", pos, "finding", "containment by string prefix", true)
			r.Report(Finding{Rule: "R17b", Site: key + "#string-prefix", Pos: pos,
				Msg: key + ": containment is decided by strings.HasPrefix on path strings instead of on the relative path's first component: the separator boundary is lost — root `code` contains `code.bak/secret` and `code2/x`, reachable with `..` segments"})
		case len(rels) > 0:
			r.Instance("R17c", key+"#result", pos, "finding", "the test does not establish containment on every success path", true)
			r.Report(Finding{Rule: "R17c", Site: key + "#result", Pos: pos,
				Msg: key + ": can signal success on a path where filepath.Rel failed, or where the first element of the relative path was not compared with `..` (both HasPrefix(rel, \"..\"+separator) and rel == \"..\", or Split(rel, separator)[0]): a path outside the root is accepted"})
		}
	}
}
