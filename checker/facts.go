package main

// facts: conditions that hold at an instruction, collected from dominating
// branches and from asserting calls, normalised to comparisons over terms.

import (
	"go/constant"
	"go/token"
	"go/types"
	"strings"

	"golang.org/x/tools/go/ssa"
)

// Term is const | len(x)+off | v+off.
type Term struct {
	IsConst bool
	K       int64
	LenPath string    // access path of x for len(x)
	LenVal  ssa.Value // x
	V       ssa.Value
	Off     int64
}

func (t Term) isLen() bool { return t.LenVal != nil }

// Cmp: L Op R holds.
type Cmp struct {
	L  Term
	Op token.Token
	R  Term
}

// Facts at one program point.
type Facts struct {
	Cmps    []Cmp
	NonNil  map[string]bool     // access paths known non-nil
	IsNil   map[string]bool     // access paths known nil
	TypeIs  map[string][]string // access path -> concrete/asserted types known (type strings)
	TrueV   map[ssa.Value]bool  // boolean SSA values known true
	FalseV  map[ssa.Value]bool  // boolean SSA values known false
	NameIs  map[string][]string // access path of a string value -> constants it equals (disjunction if several from switch) — only single equalities recorded
	NameNot map[string][]string
}

func newFacts() *Facts {
	return &Facts{NonNil: map[string]bool{}, IsNil: map[string]bool{}, TypeIs: map[string][]string{}, TrueV: map[ssa.Value]bool{}, FalseV: map[ssa.Value]bool{},
		NameIs: map[string][]string{}, NameNot: map[string][]string{}}
}

// stripNumConv removes numeric conversions and interface conversions.
func stripNumConv(v ssa.Value) ssa.Value {
	for {
		switch x := v.(type) {
		case *ssa.Convert:
			if isIntegerType(x.Type()) && isIntegerType(x.X.Type()) {
				v = x.X
				continue
			}
			return v
		case *ssa.ChangeType:
			v = x.X
			continue
		}
		return v
	}
}

func isIntegerType(t types.Type) bool {
	b, ok := t.Underlying().(*types.Basic)
	return ok && b.Info()&types.IsInteger != 0
}

func isUnsignedType(t types.Type) bool {
	b, ok := t.Underlying().(*types.Basic)
	return ok && b.Info()&types.IsUnsigned != 0
}

// termOf normalises a value.
func termOf(v ssa.Value) Term {
	v = stripNumConv(v)
	if k, ok := constInt(v); ok {
		return Term{IsConst: true, K: k}
	}
	switch x := v.(type) {
	case *ssa.Call:
		if isBuiltinCall(x, "len") && len(x.Call.Args) == 1 {
			a := x.Call.Args[0]
			return Term{LenPath: accessPath(a), LenVal: a}
		}
	case *ssa.BinOp:
		if x.Op == token.ADD || x.Op == token.SUB {
			if k, ok := constInt(stripNumConv(x.Y)); ok {
				t := termOf(x.X)
				if !t.IsConst {
					if x.Op == token.ADD {
						t.Off += k
					} else {
						t.Off -= k
					}
					return t
				}
			}
			if x.Op == token.ADD {
				if k, ok := constInt(stripNumConv(x.X)); ok {
					t := termOf(x.Y)
					if !t.IsConst {
						t.Off += k
						return t
					}
				}
			}
		}
	}
	return Term{V: v}
}

// equivValue: two SSA values denote the same location/value structurally: the same value,
// or loads of the same field / constant index of equivalent bases (go/ssa does not CSE
// repeated selections x.f.g). As everywhere in this checker, no store to the location is
// assumed between the two uses.
func equivValue(a, b ssa.Value, d int) bool {
	if a == b {
		return true
	}
	if a == nil || b == nil || d > 8 {
		return false
	}
	a, b = stripConv(a), stripConv(b)
	if a == b {
		return true
	}
	switch x := a.(type) {
	case *ssa.UnOp:
		y, ok := b.(*ssa.UnOp)
		return ok && x.Op == y.Op && equivValue(x.X, y.X, d+1)
	case *ssa.FieldAddr:
		y, ok := b.(*ssa.FieldAddr)
		return ok && x.Field == y.Field && equivValue(x.X, y.X, d+1)
	case *ssa.Field:
		y, ok := b.(*ssa.Field)
		return ok && x.Field == y.Field && equivValue(x.X, y.X, d+1)
	case *ssa.IndexAddr:
		y, ok := b.(*ssa.IndexAddr)
		if !ok || !equivValue(x.X, y.X, d+1) {
			return false
		}
		kx, okx := constInt(x.Index)
		ky, oky := constInt(y.Index)
		return (okx && oky && kx == ky) || x.Index == y.Index
	}
	return false
}

func sameTerm(a, b Term) bool {
	if a.IsConst || b.IsConst {
		return a.IsConst && b.IsConst && a.K == b.K
	}
	if a.isLen() != b.isLen() {
		return false
	}
	if a.isLen() {
		return a.LenVal == b.LenVal || equivValue(a.LenVal, b.LenVal, 0) || (a.LenPath == b.LenPath && isPathLike(a.LenVal) && isPathLike(b.LenVal))
	}
	return a.V == b.V || equivValue(a.V, b.V, 0) || (accessPath(a.V) == accessPath(b.V) && isPathLike(a.V) && isPathLike(b.V))
}

// isPathLike: the value is reached from a named variable through field selections,
// loads and constant indexing only (so equal paths denote the same location).
func isPathLike(v ssa.Value) bool {
	if v == nil {
		return false
	}
	if strings.Contains(accessPath(v), "*]") || strings.Contains(accessPath(v), "φ") || strings.Contains(accessPath(v), "()") {
		return false
	}
	switch rootOf(v).(type) {
	case *ssa.Parameter, *ssa.FreeVar, *ssa.Global, *ssa.Alloc:
		return true
	}
	return false
}

func negateOp(op token.Token) token.Token {
	switch op {
	case token.EQL:
		return token.NEQ
	case token.NEQ:
		return token.EQL
	case token.LSS:
		return token.GEQ
	case token.GEQ:
		return token.LSS
	case token.GTR:
		return token.LEQ
	case token.LEQ:
		return token.GTR
	}
	return token.ILLEGAL
}

func flipOp(op token.Token) token.Token {
	switch op {
	case token.LSS:
		return token.GTR
	case token.GTR:
		return token.LSS
	case token.LEQ:
		return token.GEQ
	case token.GEQ:
		return token.LEQ
	}
	return op
}

// addCond records that boolean value `cond` has truth value `truth`.
func (f *Facts) addCond(cond ssa.Value, truth bool, depth int) {
	if depth > 6 {
		return
	}
	cond = unspillBool(cond)
	if truth {
		f.TrueV[cond] = true
	} else {
		f.FalseV[cond] = true
	}
	switch x := cond.(type) {
	case *ssa.UnOp:
		if x.Op == token.NOT {
			f.addCond(x.X, !truth, depth+1)
		}
	case *ssa.BinOp:
		op := x.Op
		switch op {
		case token.EQL, token.NEQ, token.LSS, token.LEQ, token.GTR, token.GEQ:
		default:
			return
		}
		if !truth {
			op = negateOp(op)
		}
		// nil comparisons
		if isNilConst(x.Y) || isNilConst(x.X) {
			v := x.X
			if isNilConst(x.X) {
				v = x.Y
			}
			p := accessPath(v)
			if op == token.NEQ {
				f.NonNil[p] = true
			} else if op == token.EQL {
				f.IsNil[p] = true
			}
			return
		}
		// string constant comparisons
		if s, ok := constString(x.Y); ok {
			p := accessPath(x.X)
			if op == token.EQL {
				f.NameIs[p] = append(f.NameIs[p], s)
			} else if op == token.NEQ {
				f.NameNot[p] = append(f.NameNot[p], s)
			}
			return
		}
		if isIntegerType(x.X.Type()) || isFloatType(x.X.Type()) {
			f.Cmps = append(f.Cmps, Cmp{termOf(x.X), op, termOf(x.Y)})
		}
	case *ssa.Extract:
		// comma-ok of a type assertion / map lookup
		if x.Index == 1 {
			if ta, ok := x.Tuple.(*ssa.TypeAssert); ok && ta.CommaOk && truth {
				p := accessPath(ta.X)
				f.TypeIs[p] = append(f.TypeIs[p], types.TypeString(ta.AssertedType, nil))
				f.NonNil[p] = true
			}
		}
	case *ssa.Phi:
		// a && b (a || b) lowered to a phi of constants and conditions (switch cases, flag
		// variables): if all but one edge are the constant !truth, the phi has the value truth
		// only when control came over the remaining edge — then that edge's value is truth and
		// everything that holds at the end of that predecessor holds too.
		if x.Type().String() != "bool" {
			return
		}
		rest := -1
		for i, e := range x.Edges {
			cv, isC := e.(*ssa.Const)
			if isC && cv.Value != nil && ((cv.Value.String() == "false") == truth) {
				continue
			}
			if rest >= 0 {
				return
			}
			rest = i
		}
		if rest < 0 || rest >= len(x.Block().Preds) {
			return
		}
		f.addCond(x.Edges[rest], truth, depth+1)
		pb := x.Block().Preds[rest]
		if len(pb.Instrs) > 0 && depth < 3 {
			pf := FactsAt(pb.Instrs[len(pb.Instrs)-1])
			f.merge(pf)
		}
	}
}

// merge adds the facts of g to f.
func (f *Facts) merge(g *Facts) {
	f.Cmps = append(f.Cmps, g.Cmps...)
	for k := range g.NonNil {
		f.NonNil[k] = true
	}
	for k := range g.IsNil {
		f.IsNil[k] = true
	}
	for k, v := range g.TypeIs {
		f.TypeIs[k] = append(f.TypeIs[k], v...)
	}
	for k := range g.TrueV {
		f.TrueV[k] = true
	}
	for k := range g.FalseV {
		f.FalseV[k] = true
	}
	for k, v := range g.NameIs {
		f.NameIs[k] = append(f.NameIs[k], v...)
	}
	for k, v := range g.NameNot {
		f.NameNot[k] = append(f.NameNot[k], v...)
	}
}

func isFloatType(t types.Type) bool {
	b, ok := t.Underlying().(*types.Basic)
	return ok && b.Info()&types.IsFloat != 0
}

func unspillBool(v ssa.Value) ssa.Value {
	return unspill(v)
}

// assertingCall: calls after which their boolean argument is known true.
func assertingCall(in ssa.Instruction) (ssa.Value, bool) {
	name := callName(in)
	if strings.HasSuffix(name, "errorutil.AssertTrue") {
		ci := in.(ssa.CallInstruction)
		if len(ci.Common().Args) >= 1 {
			return ci.Common().Args[0], true
		}
	}
	return nil, false
}

// assertedPost: per function, the length comparisons over parameter-rooted paths that an
// errorutil.AssertTrue call establishes on every normal return (the assertion dominates every
// return, and the function stores to no field named in the path).
type postCmp struct {
	cmp   Cmp
	param int
}

var assertedPostCache = map[*ssa.Function][]postCmp{}

func assertedPost(fn *ssa.Function) []postCmp {
	if r, ok := assertedPostCache[fn]; ok {
		return r
	}
	assertedPostCache[fn] = nil
	if len(fn.Blocks) == 0 || len(fn.Blocks) > 200 {
		return nil
	}
	var rets []ssa.Instruction
	stores := map[string]bool{}
	allInstrs(fn, func(in ssa.Instruction) {
		switch x := in.(type) {
		case *ssa.Return:
			if in.Block() != fn.Recover {
				rets = append(rets, in)
			}
		case *ssa.Store:
			if fa, ok := x.Addr.(*ssa.FieldAddr); ok {
				stores[fieldName(fa.X.Type(), fa.Field)] = true
			}
		}
	})
	var out []postCmp
	allInstrs(fn, func(in ssa.Instruction) {
		cond, ok := assertingCall(in)
		if !ok {
			return
		}
		for _, rt := range rets {
			if !dominates(in, rt) {
				return
			}
		}
		tf := newFacts()
		tf.addCond(cond, true, 0)
		for _, cm := range tf.Cmps {
			lt, other := cm.L, cm.R
			if !lt.isLen() {
				lt, other = cm.R, cm.L
			}
			if !lt.isLen() || !other.IsConst || !isPathLike(lt.LenVal) {
				continue
			}
			pr, isP := rootOf(lt.LenVal).(*ssa.Parameter)
			if !isP {
				continue
			}
			clean := true
			for _, seg := range strings.Split(lt.LenPath, ".")[1:] {
				if stores[seg] {
					clean = false
				}
			}
			idx := -1
			for i, p := range fn.Params {
				if p == pr {
					idx = i
				}
			}
			if clean && idx >= 0 && (lt.LenPath == pr.Name() || strings.HasPrefix(lt.LenPath, pr.Name()+".")) {
				out = append(out, postCmp{cmp: cm, param: idx})
			}
		}
	})
	assertedPostCache[fn] = out
	return out
}

// helperPostCmps: the asserted postconditions of a statically called helper, rewritten to the
// caller's access paths (the callee's parameter name replaced by the path of the argument).
func helperPostCmps(call *ssa.Call) []Cmp {
	cal := call.Call.StaticCallee()
	if cal == nil || call.Call.IsInvoke() {
		return nil
	}
	post := assertedPost(cal)
	if len(post) == 0 || len(call.Call.Args) != len(cal.Params) {
		return nil
	}
	var out []Cmp
	for _, pc := range post {
		arg := call.Call.Args[pc.param]
		if !isPathLike(arg) {
			continue
		}
		pn := cal.Params[pc.param].Name()
		re := func(t Term) Term {
			if t.isLen() {
				t.LenPath = accessPath(arg) + strings.TrimPrefix(t.LenPath, pn)
			}
			return t
		}
		out = append(out, Cmp{L: re(pc.cmp.L), Op: pc.cmp.Op, R: re(pc.cmp.R)})
	}
	return out
}

// pathFactsCache: per function, per instruction: conditions with the same truth value in every
// abstract state (errpath) that reaches the instruction.
var pathFactsCache = map[*ssa.Function]map[ssa.Instruction]map[ssa.Value]bool{}

// pathFacts explores the function once and intersects, per instruction, the known branch
// conditions of all states reaching it. This sees correlations that dominance cannot:
// `if n == 0 { err = … }; if err == nil { use args[0] }`.
func pathFacts(fn *ssa.Function) map[ssa.Instruction]map[ssa.Value]bool {
	if m, ok := pathFactsCache[fn]; ok {
		return m
	}
	out := map[ssa.Instruction]map[ssa.Value]bool{}
	pathFactsCache[fn] = out
	// conditions of interest
	var conds []ssa.Value
	for _, b := range fn.Blocks {
		if ifi, ok := b.Instrs[len(b.Instrs)-1].(*ssa.If); ok {
			conds = append(conds, ifi.Cond)
		}
	}
	if len(conds) == 0 || len(fn.Blocks) > 400 {
		return out
	}
	interesting := func(in ssa.Instruction) bool {
		switch x := in.(type) {
		case *ssa.IndexAddr, *ssa.Index, *ssa.Slice, *ssa.Lookup, *ssa.MapUpdate:
			return true
		case *ssa.TypeAssert:
			return !x.CommaOk
		case *ssa.BinOp:
			return true
		case *ssa.FieldAddr:
			return true
		case ssa.CallInstruction:
			return true
		}
		return false
	}
	visits := map[ssa.Instruction]int{}
	o := &PathOracle{MaxStates: 60000}
	o.Visit = func(st *PState, in ssa.Instruction) {
		if !interesting(in) {
			return
		}
		cur := map[ssa.Value]bool{}
		for _, cv := range conds {
			switch st.Get(cv, o) {
			case AvNonNil:
				cur[cv] = true
			case AvNil:
				cur[cv] = false
			}
		}
		visits[in]++
		if visits[in] == 1 {
			out[in] = cur
			return
		}
		old := out[in]
		for k, v := range old {
			if nv, ok := cur[k]; !ok || nv != v {
				delete(old, k)
			}
		}
	}
	if !ExplorePaths(fn, o) {
		// incomplete exploration: the intersection is not over all paths — discard
		for k := range out {
			delete(out, k)
		}
	}
	return out
}

// FactsAt collects the facts holding just before instruction `at`.
func FactsAt(at ssa.Instruction) *Facts {
	f := newFacts()
	fn := at.Parent()
	if pf := pathFacts(fn)[at]; pf != nil {
		for cv, truth := range pf {
			// a condition computed after `at` in a loop may be stale: only conditions whose
			// definition dominates `at` are facts about the current iteration
			if ci, ok := cv.(ssa.Instruction); ok && !dominates(ci, at) {
				continue
			}
			f.addCond(cv, truth, 0)
		}
	}
	ab := at.Block()
	for _, b := range fn.Blocks {
		if b != ab && !b.Dominates(ab) {
			continue
		}
		// asserting calls in dominating blocks (and earlier in the same block)
		for _, in := range b.Instrs {
			if in == at {
				break
			}
			if cond, ok := assertingCall(in); ok {
				if b != ab || instrIndex(in) < instrIndex(at) {
					f.addCond(cond, true, 0)
				}
			} else if call, isCall := in.(*ssa.Call); isCall {
				if b != ab || instrIndex(in) < instrIndex(at) {
					f.Cmps = append(f.Cmps, helperPostCmps(call)...)
				}
			}
		}
		if b == ab {
			continue
		}
		ifi, ok := b.Instrs[len(b.Instrs)-1].(*ssa.If)
		if !ok {
			continue
		}
		t, e := b.Succs[0], b.Succs[1]
		tDom := (t == ab || t.Dominates(ab)) && len(t.Preds) == 1
		eDom := (e == ab || e.Dominates(ab)) && len(e.Preds) == 1
		if tDom && !eDom {
			f.addCond(ifi.Cond, true, 0)
		} else if eDom && !tDom {
			f.addCond(ifi.Cond, false, 0)
		} else if !tDom && !eDom {
			// the branch target may have several predecessors: `if c { return }` leaves a
			// join-free fallthrough when the other successor cannot reach `at`
			reachT := t == ab || blockReach(t, true)[ab]
			reachE := e == ab || blockReach(e, true)[ab]
			if reachT && !reachE && edgeOnlyWayIn(b, t, ab) {
				f.addCond(ifi.Cond, true, 0)
			} else if reachE && !reachT && edgeOnlyWayIn(b, e, ab) {
				f.addCond(ifi.Cond, false, 0)
			}
		}
	}
	return f
}

// edgeOnlyWayIn: b dominates ab and only the successor s of b can reach ab, so the
// condition of the taken edge holds at ab provided ab is not re-entered through a
// loop which bypasses b (b dominates ab, so every path passes b; the last passage
// of b took the edge to s).
func edgeOnlyWayIn(b, s, ab *ssa.BasicBlock) bool {
	return b.Dominates(ab)
}

// ---- queries -------------------------------------------------------------------------------------

// suffixOf: b is a itself or a[i:] / b'[i:] of such a value on every way it is defined (a slice
// variable that only ever drops leading elements): len(b) ≤ len(a).
func suffixOf(b, a ssa.Value, seen map[ssa.Value]bool, d int) bool {
	if b == a || equivValue(b, a, 0) {
		return true
	}
	if seen[b] {
		return true // around the loop: co-inductive
	}
	if d > 8 {
		return false
	}
	seen[b] = true
	switch x := b.(type) {
	case *ssa.Phi:
		for _, e := range x.Edges {
			if !suffixOf(e, a, seen, d+1) {
				return false
			}
		}
		return true
	case *ssa.Slice:
		if x.High == nil && x.Max == nil {
			return suffixOf(x.X, a, seen, d+1)
		}
	}
	return false
}

var lenPhiBusy = map[*ssa.Phi]bool{}

// phiLenAtLeast: every value flowing into the slice variable has at least k elements: an edge
// y[j:] is computed where len(y) ≥ j+k is known (y may be the variable itself: the fact is about the
// iteration that computes the edge).
func phiLenAtLeast(ph *ssa.Phi, k int64) bool {
	if lenPhiBusy[ph] {
		return false
	}
	lenPhiBusy[ph] = true
	defer delete(lenPhiBusy, ph)
	for _, e := range ph.Edges {
		sl, ok := e.(*ssa.Slice)
		if !ok || sl.High != nil || sl.Max != nil {
			return false
		}
		j := int64(0)
		if sl.Low != nil {
			var isC bool
			if j, isC = constInt(sl.Low); !isC || j < 0 {
				return false
			}
		}
		if !FactsAt(sl).lenAtLeast(sl.X, j+k) {
			return false
		}
	}
	return len(ph.Edges) > 0
}

// lenAtLeast: facts imply len(x) >= k.
func (f *Facts) lenAtLeast(x ssa.Value, k int64) bool {
	if k <= 0 {
		return true
	}
	if ph, isPhi := x.(*ssa.Phi); isPhi && phiLenAtLeast(ph, k) {
		return true
	}
	want := Term{LenPath: accessPath(x), LenVal: x}
	for _, c := range f.Cmps {
		l, op, r := c.L, c.Op, c.R
		if sameLenTerm(r, want) && l.IsConst {
			l, r = r, l
			op = flipOp(op)
		}
		if !sameLenTerm(l, want) || !r.IsConst {
			continue
		}
		// len(x)+off OP K  =>  len(x) OP K-off
		K := r.K - l.Off
		switch op {
		case token.GTR:
			if K+1 >= k {
				return true
			}
		case token.GEQ, token.EQL:
			if K >= k {
				return true
			}
		case token.NEQ:
			if K == 0 && k <= 1 {
				return true
			}
		}
	}
	if lenLowerBoundByDef(x) >= k {
		return true
	}
	// all smaller lengths excluded: by a known lower bound (len ≥ m) and by disequalities
	// (len != m, len != m+1, …)
	excluded := map[int64]bool{}
	lower := lenLowerBoundByDef(x)
	for _, c := range f.Cmps {
		l, op, r := c.L, c.Op, c.R
		if sameLenTerm(r, want) && l.IsConst {
			l, r = r, l
			op = flipOp(op)
		}
		if !sameLenTerm(l, want) || !r.IsConst {
			continue
		}
		K := r.K - l.Off
		switch op {
		case token.NEQ:
			excluded[K] = true
		case token.GEQ:
			if K > lower {
				lower = K
			}
		case token.GTR:
			if K+1 > lower {
				lower = K + 1
			}
		}
	}
	if len(excluded) > 0 {
		for i := lower; i < k; i++ {
			if i >= 0 && !excluded[i] {
				return false
			}
		}
		return true
	}
	return false
}

func sameLenTerm(a, want Term) bool {
	if !a.isLen() {
		return false
	}
	return a.LenVal == want.LenVal || equivValue(a.LenVal, want.LenVal, 0) || (a.LenPath == want.LenPath && isPathLike(a.LenVal) && isPathLike(want.LenVal))
}

// lenLowerBoundByDef: a lower bound of len(x) known from the definition of x.
func lenLowerBoundByDef(x ssa.Value) int64 {
	x = stripConv(x)
	switch v := x.(type) {
	case *ssa.Call:
		name := callName(v)
		switch name {
		case "strings.Split", "strings.SplitN", "strings.SplitAfter":
			return 1 // never empty unless sep and s are both empty with n==0; Split always ≥ 1 for non-empty sep
		}
		if isBuiltinCall(v, "append") {
			// append(s, a, b...) lowers to a variadic slice; elements counted below
			if len(v.Call.Args) == 2 {
				n := lenLowerBoundByDef(v.Call.Args[0])
				if sl, ok := v.Call.Args[1].(*ssa.Slice); ok {
					if a, ok := sl.X.(*ssa.Alloc); ok {
						if arr, ok := derefType(a.Type()).Underlying().(*types.Array); ok {
							return n + arr.Len()
						}
					}
				}
				return n
			}
		}
	case *ssa.Slice:
		if a, ok := v.X.(*ssa.Alloc); ok && v.Low == nil && v.High == nil {
			if arr, ok := derefType(a.Type()).Underlying().(*types.Array); ok {
				return arr.Len()
			}
		}
	case *ssa.MakeSlice:
		if k, ok := constInt(v.Len); ok {
			return k
		}
	case *ssa.Const:
		if s, ok := constString(v); ok {
			return int64(len(s))
		}
	}
	return 0
}

// nonNeg: the value is known >= 0.
func (f *Facts) nonNeg(v ssa.Value) bool {
	return f.nonNegD(v, 0, map[ssa.Value]bool{})
}

func (f *Facts) nonNegD(v ssa.Value, d int, seen map[ssa.Value]bool) bool {
	if d > 8 {
		return false
	}
	if seen[v] {
		return true // cycle through a loop counter: assume (co-inductive with the increments below)
	}
	seen[v] = true
	if isUnsignedType(v.Type()) {
		return true
	}
	if k, ok := constInt(v); ok {
		return k >= 0
	}
	if _, ok := f.helperChecked(v); ok {
		return true
	}
	t := termOf(v)
	if t.isLen() && t.Off >= 0 {
		return true
	}
	// facts: v >= 0, v > -1, v == K>=0, 0 <= v
	for _, c := range f.Cmps {
		l, op, r := c.L, c.Op, c.R
		if r.V != nil && sameTerm(Term{V: r.V}, Term{V: stripNumConv(v)}) && l.IsConst {
			l, r = r, l
			op = flipOp(op)
		}
		if l.V == nil || !r.IsConst || !sameTerm(Term{V: l.V}, Term{V: stripNumConv(v)}) {
			continue
		}
		K := r.K - l.Off
		switch op {
		case token.GEQ, token.EQL:
			if K >= 0 {
				return true
			}
		case token.GTR:
			if K >= -1 {
				return true
			}
		}
	}
	switch x := stripNumConv(v).(type) {
	case *ssa.Phi:
		for _, e := range x.Edges {
			if !f.nonNegD(e, d+1, seen) {
				return false
			}
		}
		return true
	case *ssa.BinOp:
		switch x.Op {
		case token.ADD:
			return f.nonNegD(x.X, d+1, seen) && f.nonNegD(x.Y, d+1, seen)
		case token.MUL, token.QUO, token.REM, token.AND, token.SHR:
			return f.nonNegD(x.X, d+1, seen) && f.nonNegD(x.Y, d+1, seen)
		case token.SUB:
			// len(x) - k with len(x) >= k
			if k, ok := constInt(x.Y); ok {
				tx := termOf(x.X)
				if tx.isLen() && f.lenAtLeast(tx.LenVal, k-tx.Off) {
					return true
				}
			}
			// len(a) - len(b) where b is always a suffix of a
			ta, tb := termOf(x.X), termOf(x.Y)
			if ta.isLen() && tb.isLen() && ta.Off == 0 && tb.Off == 0 && suffixOf(tb.LenVal, ta.LenVal, map[ssa.Value]bool{}, 0) {
				return true
			}
		}
	case *ssa.Extract:
		// index of a range over string / result of strings.Index is not nonneg; Next index is
		if n, ok := x.Tuple.(*ssa.Next); ok && x.Index == 1 && n.IsString {
			return true
		}
	case *ssa.Call:
		if isBuiltinCall(x, "len") || isBuiltinCall(x, "cap") || isBuiltinCall(x, "copy") {
			return true
		}
	}
	return false
}

// appendBase: x = append(s, k elements) → (s, k).
func appendBase(x ssa.Value) (ssa.Value, int64, bool) {
	call, ok := stripConv(x).(*ssa.Call)
	if !ok || !isBuiltinCall(call, "append") || len(call.Call.Args) != 2 {
		return nil, 0, false
	}
	if sl, ok := call.Call.Args[1].(*ssa.Slice); ok {
		if a, ok := sl.X.(*ssa.Alloc); ok {
			if arr, ok := derefType(a.Type()).Underlying().(*types.Array); ok {
				return call.Call.Args[0], arr.Len(), true
			}
		}
	}
	return nil, 0, false
}

// shifted: a throw-away value v - k for bound queries.
func shifted(v ssa.Value, k int64) ssa.Value {
	return &ssa.BinOp{Op: token.SUB, X: v, Y: ssa.NewConst(constant.MakeInt64(k), types.Typ[types.Int])}
}

// ltLen: facts imply v < len(x) (v + off < len(x)).
func (f *Facts) ltLen(v ssa.Value, x ssa.Value) bool {
	// v was checked by a bounds helper against len(x)
	if l, ok := f.helperChecked(v); ok {
		if call, isCall := stripNumConv(l).(*ssa.Call); isCall && isBuiltinCall(call, "len") && (call.Call.Args[0] == x || equivValue(call.Call.Args[0], x, 0)) {
			return true
		}
	}
	// x = append(s, k elements): v < len(s)+k ⇐ v-k < len(s)
	if s0, k, ok := appendBase(x); ok {
		if f.ltLen(shifted(v, k), s0) {
			return true
		}
	}
	tv := termOf(v)
	want := Term{LenPath: accessPath(x), LenVal: x}
	if tv.IsConst {
		return f.lenAtLeast(x, tv.K+1)
	}
	// v is len(x)-k itself
	if tv.isLen() && sameLenTerm(tv, want) {
		return tv.Off < 0 && f.lenAtLeast(x, -tv.Off)
	}
	for _, c := range f.Cmps {
		l, op, r := c.L, c.Op, c.R
		if sameLenTerm(l, want) {
			l, r = r, l
			op = flipOp(op)
		}
		if !sameLenTerm(r, want) || l.IsConst || l.isLen() {
			continue
		}
		if l.V == nil || tv.V == nil || !sameTerm(Term{V: l.V}, Term{V: tv.V}) {
			continue
		}
		// l.V + l.Off OP len(x) + r.Off   want: tv.V + tv.Off < len(x)
		// i.e. tv.V < len(x) - tv.Off
		d := r.Off - l.Off // l.V OP len(x) + d
		switch op {
		case token.LSS:
			if d <= -tv.Off {
				return true
			}
		case token.LEQ:
			if d < -tv.Off {
				return true
			}
		}
	}
	// v is a counter 0,1,2,… that is only advanced while it differs from len(x) (for i := 0; ;
	// i++ { if i == len(x) { break } … }): i ≤ len(x) is inductive, so i ≠ len(x) gives i < len(x)
	if ph, isPhi := tv.V.(*ssa.Phi); isPhi && tv.Off == 0 {
		for _, c := range f.Cmps {
			if c.Op != token.NEQ {
				continue
			}
			l, r := c.L, c.R
			if l.isLen() {
				l, r = r, l
			}
			if !r.isLen() || r.Off != 0 || r.LenVal != x || l.V != ssa.Value(ph) || l.Off != 0 {
				continue
			}
			if counterStaysBelowLen(ph, x) {
				return true
			}
		}
	}
	// len(x) == len(y) established: v < len(y) suffices
	for _, c := range f.Cmps {
		if c.Op != token.EQL || !c.L.isLen() || !c.R.isLen() || c.L.Off != 0 || c.R.Off != 0 {
			continue
		}
		var other ssa.Value
		if sameLenTerm(c.L, want) {
			other = c.R.LenVal
		} else if sameLenTerm(c.R, want) {
			other = c.L.LenVal
		}
		if other != nil && other != x && accessPath(other) != accessPath(x) {
			if f.ltLenNoEq(v, other) {
				return true
			}
		}
	}
	// x was made with make([]T, n): v < n suffices
	if ms, ok := stripConv(x).(*ssa.MakeSlice); ok {
		lt := termOf(ms.Len)
		for _, c := range f.Cmps {
			l, op, r := c.L, c.Op, c.R
			if sameTermFull(l, lt) {
				l, r = r, l
				op = flipOp(op)
			}
			if !sameTermFull(r, lt) || l.V == nil || tv.V == nil || !sameTerm(Term{V: l.V}, Term{V: tv.V}) {
				continue
			}
			if (op == token.LSS && l.Off >= tv.Off) || (op == token.LEQ && l.Off > tv.Off) {
				return true
			}
		}
	}
	return false
}

// counterStaysBelowLen: ph ≤ len(x) at the loop header by induction — every edge of the phi is the
// constant 0 or ph+1 computed where ph < len(x) or ph ≠ len(x) is known (with the hypothesis
// ph ≤ len(x) the latter is ph < len(x)); x is one slice/string value defined before the loop, so
// its length does not change between iterations.
func counterStaysBelowLen(ph *ssa.Phi, x ssa.Value) bool {
	if xi, ok := x.(ssa.Instruction); ok {
		if xi.Block() == nil || xi.Block() == ph.Block() || !xi.Block().Dominates(ph.Block()) {
			return false
		}
	}
	for _, e := range ph.Edges {
		if k, ok := constInt(e); ok {
			if k != 0 {
				return false
			}
			continue
		}
		bo, ok := e.(*ssa.BinOp)
		if !ok || bo.Op != token.ADD || bo.X != ssa.Value(ph) {
			return false
		}
		if k, ok := constInt(bo.Y); !ok || k != 1 {
			return false
		}
		ef := FactsAt(bo)
		found := false
		for _, c := range ef.Cmps {
			l, op, r := c.L, c.Op, c.R
			if l.isLen() {
				l, r = r, l
				op = flipOp(op)
			}
			if !r.isLen() || r.Off != 0 || r.LenVal != x || l.V != ssa.Value(ph) || l.Off != 0 {
				continue
			}
			if op == token.NEQ || op == token.LSS {
				found = true
			}
		}
		if !found {
			return false
		}
	}
	return true
}

// ltLenNoEq is ltLen without following length equalities (no recursion).
func (f *Facts) ltLenNoEq(v ssa.Value, x ssa.Value) bool {
	saved := f.Cmps
	var filtered []Cmp
	for _, c := range saved {
		if c.Op == token.EQL && c.L.isLen() && c.R.isLen() {
			continue
		}
		filtered = append(filtered, c)
	}
	f.Cmps = filtered
	defer func() { f.Cmps = saved }()
	return f.ltLen(v, x)
}

// leLen: v <= len(x).
func (f *Facts) leLen(v ssa.Value, x ssa.Value) bool {
	if s0, k, ok := appendBase(x); ok {
		if f.leLen(shifted(v, k), s0) {
			return true
		}
	}
	tv := termOf(v)
	want := Term{LenPath: accessPath(x), LenVal: x}
	if tv.IsConst {
		return f.lenAtLeast(x, tv.K)
	}
	if tv.isLen() && sameLenTerm(tv, want) {
		return tv.Off <= 0 && f.lenAtLeast(x, -tv.Off)
	}
	if f.ltLen(v, x) {
		return true
	}
	for _, c := range f.Cmps {
		l, op, r := c.L, c.Op, c.R
		if sameLenTerm(l, want) {
			l, r = r, l
			op = flipOp(op)
		}
		if !sameLenTerm(r, want) || l.IsConst || l.isLen() || l.V == nil || tv.V == nil {
			continue
		}
		if !sameTerm(Term{V: l.V}, Term{V: tv.V}) {
			continue
		}
		d := r.Off - l.Off
		switch op {
		case token.LEQ:
			if d <= -tv.Off {
				return true
			}
		case token.LSS:
			if d <= -tv.Off+1 {
				return true
			}
		case token.EQL:
			if d <= -tv.Off {
				return true
			}
		}
	}
	return false
}

// upperBound: facts imply v < K (strict).
func (f *Facts) upperBound(v ssa.Value, K int64) bool {
	tv := termOf(v)
	if tv.IsConst {
		return tv.K < K
	}
	for _, c := range f.Cmps {
		l, op, r := c.L, c.Op, c.R
		if l.IsConst && !r.IsConst {
			l, r = r, l
			op = flipOp(op)
		}
		if !r.IsConst || l.IsConst {
			continue
		}
		same := false
		if tv.isLen() && l.isLen() {
			same = sameLenTerm(l, tv)
		} else if tv.V != nil && l.V != nil {
			same = sameTerm(Term{V: l.V}, Term{V: tv.V})
		}
		if !same {
			continue
		}
		// l + l.Off OP r.K ; want tv + tv.Off < K  i.e. base < K - tv.Off ; have base OP r.K - l.Off
		b := r.K - l.Off
		switch op {
		case token.LSS:
			if b <= K-tv.Off {
				return true
			}
		case token.LEQ, token.EQL:
			if b < K-tv.Off {
				return true
			}
		}
	}
	return false
}

// nonZero: facts imply v != 0.
func (f *Facts) nonZero(v ssa.Value) bool {
	if k, ok := constInt(v); ok {
		return k != 0
	}
	tv := termOf(v)
	for _, c := range f.Cmps {
		l, op, r := c.L, c.Op, c.R
		if l.IsConst && !r.IsConst {
			l, r = r, l
			op = flipOp(op)
		}
		if !r.IsConst || l.V == nil || tv.V == nil || !sameTerm(Term{V: l.V}, Term{V: tv.V}) || l.Off != tv.Off {
			continue
		}
		switch op {
		case token.NEQ:
			if r.K == 0 {
				return true
			}
		case token.GTR:
			if r.K >= 0 {
				return true
			}
		case token.GEQ:
			if r.K > 0 {
				return true
			}
		case token.LSS:
			if r.K <= 0 {
				return true
			}
		case token.EQL:
			if r.K != 0 {
				return true
			}
		}
	}
	return false
}

// ---- bounds helpers --------------------------------------------------------------------------------

// A function  h(index int, length int) (int, bool)  whose bool result is, on every return,
// `i ≥ 0 ∧ i < length` for the returned i summarises a bounds check: where the caller knows the
// bool is true, the returned index is a valid index of anything whose length was passed.
var boundsHelperMemo = map[*ssa.Function]int{}

// boundsHelper returns the index of the length parameter (-1: not a bounds helper).
func boundsHelper(fn *ssa.Function) int {
	if v, ok := boundsHelperMemo[fn]; ok {
		return v
	}
	boundsHelperMemo[fn] = -1
	sig := fn.Signature
	if len(fn.Blocks) == 0 || sig.Results().Len() != 2 || !isIntegerType(sig.Results().At(0).Type()) || sig.Results().At(1).Type().String() != "bool" {
		return -1
	}
	res := -2
	allInstrs(fn, func(in ssa.Instruction) {
		ret, ok := in.(*ssa.Return)
		if !ok || in.Block() == fn.Recover || res == -1 {
			return
		}
		i, b := ret.Results[0], ret.Results[1]
		// b = phi(false [i>=0 fails], i < length [i>=0 holds])  or  const false
		if cv, isC := b.(*ssa.Const); isC && cv.Value != nil && cv.Value.String() == "false" {
			return
		}
		phi, isPhi := b.(*ssa.Phi)
		if !isPhi || len(phi.Edges) != 2 {
			res = -1
			return
		}
		lenIdx := -1
		okShape := false
		for j, e := range phi.Edges {
			bo, isB := e.(*ssa.BinOp)
			if !isB || bo.Op != token.LSS || stripNumConv(bo.X) != stripNumConv(i) {
				continue
			}
			prm, isPrm := stripNumConv(bo.Y).(*ssa.Parameter)
			if !isPrm {
				continue
			}
			other := phi.Edges[1-j]
			cv, isC := other.(*ssa.Const)
			if !isC || cv.Value == nil || cv.Value.String() != "false" {
				continue
			}
			// the comparison is evaluated only where i >= 0
			pb := phi.Block().Preds[j]
			if len(pb.Instrs) == 0 {
				continue
			}
			if FactsAt(pb.Instrs[len(pb.Instrs)-1]).nonNeg(i) || FactsAt(bo).nonNeg(i) {
				for k, p := range fn.Params {
					if p == prm {
						lenIdx = k
						okShape = true
					}
				}
			}
		}
		if !okShape || (res >= 0 && res != lenIdx) {
			res = -1
			return
		}
		res = lenIdx
	})
	if res < 0 {
		res = -1
	}
	boundsHelperMemo[fn] = res
	return res
}

// helperChecked: v is the index returned by a bounds helper whose bool result is known true here;
// returns the value passed as length.
func (f *Facts) helperChecked(v ssa.Value) (ssa.Value, bool) {
	e, ok := stripNumConv(v).(*ssa.Extract)
	if !ok || e.Index != 0 {
		return nil, false
	}
	call, ok := e.Tuple.(*ssa.Call)
	if !ok || call.Call.StaticCallee() == nil {
		return nil, false
	}
	li := boundsHelper(call.Call.StaticCallee())
	if li < 0 {
		return nil, false
	}
	for _, ref := range *call.Referrers() {
		if e1, isE := ref.(*ssa.Extract); isE && e1.Index == 1 && f.TrueV[e1] {
			args := callArgs(call.Common())
			if li < len(args) {
				return args[li], true
			}
		}
	}
	return nil, false
}
