package main

// C09 — the thread pool runs every accepted task exactly once without outside help.

import (
	"fmt"
	"go/token"
	"go/types"
	"sort"

	"golang.org/x/tools/go/ssa"
)

func init() { register("C09", checkC09) }

func checkC09(c *Ctx, r *Result, tier string) {
	r.Explanation = "Decides structural necessary conditions of C09 on the pool's source: (R09a) the condition-variable protocol — every Wait decides under the cond's lock, " +
		"every Signal/Broadcast holds that lock (or follows a critical section on the predicate, or is repaired by a polling loop) and the predicate update precedes the signal — which is the textbook argument that no wake-up is lost under any interleaving; " +
		"(R09b) queue mutators only under queueLock, worker table only under workerMapLock, one Run per popped task, popped task always handed to the worker, deregistration deferred; (R09c) acyclic lock order."
	r.RuleText = "R09a cond protocol (W),(S),(S') per sync.Cond of package pool; R09b guarded-by {ThreadPool.queue.Push/Pop/Clear→queueLock; workerMap,workerKill→workerMapLock}, run-once, pop-returned, deferred deregistration; R09c lock-order graph acyclic"
	r.NotCovered = "Liveness beyond lost wake-ups (fairness, convergence of SetWorkerCount), the sleeping/polling loops' timing, behaviour of user-supplied TaskQueue implementations."
	r.Assumptions = []string{"sync.Cond/sync.Mutex semantics per the Go memory model", "critical sections are intra-procedural; callees are followed for field reads (depth 3) and lock acquisition (transitively)"}

	lfs := NewLockFlows(c)
	tp := c.NamedType("engine/pool", "ThreadPool")
	if tp == nil {
		r.Undecide("type pool.ThreadPool not found")
		return
	}

	// R09a
	nc, nw, ns := checkCondProtocol(c, r, lfs, "R09a", func(class string) bool { return len(class) >= 5 && class[:5] == "pool." })
	r.Floor("R09a-conds", nc, 1)
	r.Floor("R09a-waits", nw, 1)
	r.Floor("R09a-signals", ns, 4)

	// R09b guarded-by
	g := newGuardChecker(c, lfs)
	var poolFuncs []*ssa.Function
	for _, fn := range c.ModFuncs() {
		if c.PkgOf(fn) == "engine/pool" {
			poolFuncs = append(poolFuncs, fn)
		}
	}
	noExempt := func(*ssa.Function) string { return "" }
	total := 0
	if f := c.Field("engine/pool", "ThreadPool", "queue"); f != nil {
		total += g.check(r, "R09b-guard", GuardSpec{Field: f, FieldName: "ThreadPool.queue", Lock: "pool.ThreadPool.queueLock",
			OnlyMethod: map[string]bool{"Push": true, "Pop": true, "Clear": true}}, poolFuncs, noExempt)
	} else {
		r.Undecide("field ThreadPool.queue not found")
	}
	for _, fname := range []string{"workerMap", "workerKill"} {
		if f := c.Field("engine/pool", "ThreadPool", fname); f != nil {
			total += g.check(r, "R09b-guard", GuardSpec{Field: f, FieldName: "ThreadPool." + fname, Lock: "pool.ThreadPool.workerMapLock"}, poolFuncs, noExempt)
		} else {
			r.Undecide("field ThreadPool.%s not found", fname)
		}
	}
	r.Floor("R09b-guard", total, 12)

	// R09b worker loop
	c09WorkerLoop(c, r)

	// R09d polling-loop exit conditions
	c09ExitConditions(c, r)

	// R09e no stop request pending where a worker is started
	c09StartWithoutPendingStop(c, r)

	// R09c
	checkLockOrder(c, r, lfs, "R09c", engineLockClass)
	r.Extra["reentrance_call_sites"] = checkReentrance(c, r, lfs, "R09c-reentry", func(class string) bool { return len(class) >= 5 && class[:5] == "pool." })
}

// c09WorkerLoop: the function of package pool which invokes Task.Run.
func c09WorkerLoop(c *Ctx, r *Result) {
	taskIface := c.Interface("engine/pool", "Task")
	queueIface := c.Interface("engine/pool", "TaskQueue")
	if taskIface == nil || queueIface == nil {
		r.Undecide("interfaces pool.Task / pool.TaskQueue not found")
		return
	}
	var runSites, handleSites, popSites []ssa.CallInstruction
	for _, fn := range c.ModFuncs() {
		if c.PkgOf(fn) != "engine/pool" {
			continue
		}
		allInstrs(fn, func(in ssa.Instruction) {
			ci, ok := in.(ssa.CallInstruction)
			if !ok || !ci.Common().IsInvoke() {
				return
			}
			m := ci.Common().Method
			recvT := ci.Common().Value.Type()
			if types.Identical(recvT.Underlying(), taskIface) {
				switch m.Name() {
				case "Run":
					runSites = append(runSites, ci)
				case "HandleError":
					handleSites = append(handleSites, ci)
				}
			}
			if types.Identical(recvT.Underlying(), queueIface) && m.Name() == "Pop" {
				popSites = append(popSites, ci)
			}
		})
	}
	r.Floor("R09b-run-sites", len(runSites), 1)
	if len(runSites) != 1 {
		if len(runSites) > 1 {
			r.Report(Finding{Rule: "R09b-run-once", Site: "pool#task.Run-sites", Msg: fmt.Sprintf("Task.Run is invoked at %d places in package pool; expected exactly one (a task must run exactly once)", len(runSites))})
		}
		return
	}
	run := runSites[0]
	realRun := run
	// the Run may sit in a helper that runs the task it is handed (runTask(task), runIdle(idle) →
	// runTask(idle)): the helper must run its parameter outside any loop, and the calls of the helper
	// stand for the Run in the worker loop — they must exclude one another
	stripTask := func(v ssa.Value) ssa.Value {
		for d := 0; d < 6; d++ {
			switch x := v.(type) {
			case *ssa.MakeInterface:
				v = x.X
			case *ssa.ChangeInterface:
				v = x.X
			case *ssa.ChangeType:
				v = x.X
			case *ssa.TypeAssert:
				v = x.X
			case *ssa.Extract:
				if ta, ok := x.Tuple.(*ssa.TypeAssert); ok && x.Index == 0 {
					v = ta.X
				} else {
					return v
				}
			default:
				return v
			}
		}
		return v
	}
	effSites := []ssa.CallInstruction{run}
	helperWhy := ""
	for depth := 0; depth < 3 && helperWhy == ""; depth++ {
		prm, isPrm := stripTask(effSites[0].Common().Value).(*ssa.Parameter)
		if effSites[0] != run {
			prm, isPrm = nil, false
			// a helper call: the task is one of its arguments
			h := effSites[0].Common().StaticCallee()
			for _, a := range effSites[0].Common().Args {
				if p, ok := stripTask(a).(*ssa.Parameter); ok && h != nil && (types.Identical(p.Type().Underlying(), taskIface) || types.Implements(p.Type(), taskIface)) {
					prm, isPrm = p, true
				}
			}
		}
		if !isPrm {
			break
		}
		h := prm.Parent()
		for _, es := range effSites {
			if es.Parent() != h {
				helperWhy = "the task is run through helpers that do not agree on the function they are called from"
			}
			if inLoop(es.Block()) {
				helperWhy = c.FuncKey(h) + " runs the task it is handed inside a loop"
			}
		}
		if len(effSites) > 1 {
			for _, a := range effSites {
				for _, b := range effSites {
					if a != b && canReach(a, b) {
						helperWhy = c.FuncKey(h) + " can run the task it is handed twice"
					}
				}
			}
		}
		idx := paramIndex(h, prm)
		var next []ssa.CallInstruction
		if node := c.CHA().Nodes[h]; node != nil {
			for _, e := range node.In {
				if e.Caller.Func.Synthetic != "" {
					continue
				}
				if e.Site == nil || e.Site.Common().StaticCallee() != h {
					helperWhy = c.FuncKey(h) + " (which runs the task it is handed) is called dynamically"
					continue
				}
				args := callArgs(e.Site.Common())
				if idx < 0 || idx >= len(args) {
					continue
				}
				next = append(next, e.Site)
			}
		}
		if len(next) == 0 {
			helperWhy = c.FuncKey(h) + " runs the task it is handed but is never called"
			break
		}
		sort.Slice(next, func(i, j int) bool { return c.Pos(c.InstrPos(next[i])) < c.Pos(c.InstrPos(next[j])) })
		// all callers in one function?
		same := true
		for _, nx := range next {
			if nx.Parent() != next[0].Parent() {
				same = false
			}
		}
		if !same {
			// runIdle → runTask and run → runTask: follow the callers that are themselves helpers first
			var inLoopFn, inHelpers []ssa.CallInstruction
			for _, nx := range next {
				hasTaskParam := false
				for _, a := range callArgs(nx.Common()) {
					if _, ok := stripTask(a).(*ssa.Parameter); ok {
						hasTaskParam = true
					}
				}
				if hasTaskParam {
					inHelpers = append(inHelpers, nx)
				} else {
					inLoopFn = append(inLoopFn, nx)
				}
			}
			// resolve the helper callers one level up and merge with the direct ones
			merged := append([]ssa.CallInstruction{}, inLoopFn...)
			for _, hx := range inHelpers {
				hh := hx.Parent()
				if inLoop(hx.Block()) {
					helperWhy = c.FuncKey(hh) + " runs the task it is handed inside a loop"
				}
				if node := c.CHA().Nodes[hh]; node != nil {
					for _, e := range node.In {
						if e.Caller.Func.Synthetic != "" {
							continue
						}
						if e.Site == nil || e.Site.Common().StaticCallee() != hh {
							helperWhy = c.FuncKey(hh) + " (which runs the task it is handed) is called dynamically"
							continue
						}
						merged = append(merged, e.Site)
					}
				}
			}
			next = merged
			for _, nx := range next {
				if nx.Parent() != next[0].Parent() {
					helperWhy = "the helpers that run a task are called from more than one function"
				}
			}
		}
		effSites = next
	}
	if len(effSites) > 0 && effSites[0] != run {
		run = effSites[0]
	}
	fn := run.Parent()
	key := c.FuncKey(fn)
	pos := c.Pos(c.InstrPos(run))
	// the task run is the value obtained from the dequeue call of this iteration
	taskOf := func(site ssa.CallInstruction) ssa.Value {
		if site == realRun {
			return stripConv(site.Common().Value)
		}
		for _, a := range callArgs(site.Common()) {
			sv := stripTask(a)
			if types.Identical(sv.Type().Underlying(), taskIface) {
				return stripConv(sv)
			}
		}
		return nil
	}
	recv := taskOf(run)
	if recv == nil {
		recv = stripConv(run.Common().Value)
	}
	getCall, _ := recv.(*ssa.Call)
	ok := false
	why := ""
	// several helper calls in the loop: all on the same dequeued value, and none reaches another
	// without a new dequeue (checked below for `run`; here pairwise)
	for _, a := range effSites {
		if ta := taskOf(a); a != run && ta != recv {
			helperWhy = "the helpers that run a task are not all applied to the task dequeued in this iteration"
		}
	}
	if phi, isPhi := recv.(*ssa.Phi); isPhi && getCall == nil && isLoopHeaderPhi(phi) {
		// `for task := get(); task != nil; task = get()`: every value entering the loop variable is
		// the result of a call of the same dequeue function, and Run cannot run again without
		// passing the call on the back edge
		var callee *ssa.Function
		all := true
		var backBlocks []*ssa.BasicBlock
		for i, e := range phi.Edges {
			call, isCall := stripConv(e).(*ssa.Call)
			if !isCall || call.Call.StaticCallee() == nil || (callee != nil && call.Call.StaticCallee() != callee) {
				all = false
				break
			}
			callee = call.Call.StaticCallee()
			if phi.Block().Dominates(phi.Block().Preds[i]) {
				backBlocks = append(backBlocks, call.Block())
			}
		}
		switch {
		case !all || callee == nil:
			why = "receiver of Task.Run is not the result of a dequeue call on every way into the loop (" + accessPath(recv) + ")"
		case len(backBlocks) != 1:
			why = "the worker loop has no single dequeue on its back edge"
		case reachesWithout(run, run, backBlocks[0]):
			why = "Run can execute again without a new dequeue"
		default:
			ok = true
		}
	} else if getCall == nil {
		why = "receiver of Task.Run is not the direct result of a dequeue call (" + accessPath(recv) + ")"
	} else {
		sccRun := sccOf(run.Block())
		sccGet := sccOf(getCall.Block())
		switch {
		case sccRun == nil || sccGet == nil:
			why = "dequeue and Run are not in the worker loop"
		case !sccRun[getCall.Block()]:
			why = "dequeue and Run are in different loops"
		case !dominates(getCall, run):
			why = "the dequeue does not dominate Run"
		default:
			// no inner loop around Run that excludes the dequeue
			inner := false
			for b := range sccRun {
				_ = b
			}
			// Run must not be able to reach itself without passing the dequeue
			if reachesWithout(run, run, getCall.Block()) {
				inner = true
			}
			if inner {
				why = "Run can execute again without a new dequeue"
			} else {
				ok = true
			}
		}
	}
	if ok && helperWhy != "" {
		ok, why = false, helperWhy
	}
	if ok && len(effSites) > 1 {
		var avoid *ssa.BasicBlock
		if getCall != nil {
			avoid = getCall.Block()
		} else if phi, isPhi := recv.(*ssa.Phi); isPhi {
			avoid = phi.Block()
		}
		for _, a := range effSites {
			for _, b := range effSites {
				ai, _ := a.(ssa.Instruction)
				bi, _ := b.(ssa.Instruction)
				if avoid != nil && ai != nil && bi != nil && reachesWithout(ai, bi, avoid) {
					ok, why = false, "a task can be run a second time (through another helper call) without a new dequeue"
				}
			}
		}
	}
	if ok {
		r.Instance("R09b-run-once", key+"#task.Run", pos, "ok", "Run is applied to the result of the dequeue of the same iteration; cannot repeat without a new dequeue", true)
	} else {
		r.Instance("R09b-run-once", key+"#task.Run", pos, "finding", why, true)
		r.Report(Finding{Rule: "R09b-run-once", Site: key + "#task.Run", Pos: pos, Msg: key + ": " + why})
	}
	// HandleError iff Run returned non-nil
	for i, h := range handleSites {
		site := fmt.Sprintf("%s#task.HandleError#%d", c.FuncKey(h.Parent()), i)
		hp := c.Pos(c.InstrPos(h))
		good := false
		if h.Parent() == realRun.Parent() {
			runVal, _ := realRun.(ssa.Value)
			// find an If on runVal != nil whose true successor dominates the HandleError block
			for _, b := range realRun.Parent().Blocks {
				ifi, isIf := b.Instrs[len(b.Instrs)-1].(*ssa.If)
				if !isIf {
					continue
				}
				bo, isBin := ifi.Cond.(*ssa.BinOp)
				if !isBin {
					continue
				}
				var branch *ssa.BasicBlock
				if (bo.X == runVal && isNilConst(bo.Y)) || (bo.Y == runVal && isNilConst(bo.X)) {
					if bo.Op == token.NEQ {
						branch = b.Succs[0]
					} else if bo.Op == token.EQL {
						branch = b.Succs[1]
					}
				}
				if branch != nil && (branch == h.Block() || branch.Dominates(h.Block())) && len(branch.Preds) == 1 {
					good = true
				}
			}
			// the error handed over is Run's result
			if good && (len(h.Common().Args) != 1 || h.Common().Args[0] != runVal) {
				good = false
			}
		}
		if good {
			r.Instance("R09b-handle-error", site, hp, "ok", "HandleError(err) is control dependent on err != nil of this task's Run", true)
		} else {
			r.Instance("R09b-handle-error", site, hp, "finding", "HandleError not tied to Run's error", true)
			r.Report(Finding{Rule: "R09b-handle-error", Site: site, Pos: hp,
				Msg: c.FuncKey(h.Parent()) + ": Task.HandleError is not called exactly when this task's Run returned a non-nil error, with that error"})
		}
	}
	r.Floor("R09b-handle-error", len(handleSites), 1)

	// deregistration deferred before the loop
	deferOK := false
	allInstrs(fn, func(in ssa.Instruction) {
		d, isDefer := in.(*ssa.Defer)
		if !isDefer {
			return
		}
		// a deferred closure or a deferred method / function; the delete may sit in a helper it calls
		cf := d.Call.StaticCallee()
		if cf == nil || !c.inModule(cf) {
			return
		}
		deletes := false
		var look func(f *ssa.Function, depth int)
		look = func(f *ssa.Function, depth int) {
			allInstrs(f, func(x ssa.Instruction) {
				if isBuiltinCall(x, "delete") {
					deletes = true
				}
				if ci, ok := x.(*ssa.Call); ok && depth < 2 {
					if g := ci.Call.StaticCallee(); g != nil && c.inModule(g) && g != f {
						look(g, depth+1)
					}
				}
			})
		}
		look(cf, 0)
		if deletes && dominates(in, run) && !inLoop(in.Block()) {
			deferOK = true
		}
	})
	if deferOK {
		r.Instance("R09b-deregister", key+"#defer", c.Pos(fn.Pos()), "ok", "a deferred closure removing the worker from the table is registered before the loop (runs on panic too)", true)
	} else {
		r.Instance("R09b-deregister", key+"#defer", c.Pos(fn.Pos()), "finding", "no deferred deregistration", true)
		r.Report(Finding{Rule: "R09b-deregister", Site: key + "#defer", Pos: c.Pos(fn.Pos()),
			Msg: key + ": the worker's removal from the worker table is not a deferred call registered before the task loop (a panicking task would leave a dead worker registered; JoinAll/SetWorkerCount would never converge)"})
	}

	// every popped task is handed on: result of TaskQueue.Pop is returned when non-nil
	r.Floor("R09b-pop-sites", len(popSites), 1)
	for i, p := range popSites {
		pf := p.Parent()
		site := fmt.Sprintf("%s#queue.Pop#%d", c.FuncKey(pf), i)
		pp := c.Pos(c.InstrPos(p))
		pv, _ := p.(ssa.Value)
		returned, guarded := c09PopHandedOn(c, pv, pf, 2)
		if len(popSites) > 1 && i > 0 {
			r.Report(Finding{Rule: "R09b-pop", Site: site, Pos: pp, Msg: "more than one dequeue site in package pool: a task popped twice or at two places can be dropped or run twice"})
			continue
		}
		if returned && guarded {
			r.Instance("R09b-pop", site, pp, "ok", "the popped task is returned to the worker whenever it is non-nil, decided directly after the Pop", true)
		} else {
			r.Instance("R09b-pop", site, pp, "finding", "popped task may be dropped", true)
			r.Report(Finding{Rule: "R09b-pop", Site: site, Pos: pp,
				Msg: c.FuncKey(pf) + ": the result of TaskQueue.Pop is not returned to the worker on the branch taken directly after the Pop when it is non-nil (a dequeued task could be dropped)"})
		}
	}
}

// reachesWithout: is there a path from just after `from` to `to` that avoids block `avoid`?
func reachesWithout(from, to ssa.Instruction, avoid *ssa.BasicBlock) bool {
	if from.Block() == avoid {
		return false
	}
	seen := map[*ssa.BasicBlock]bool{}
	work := append([]*ssa.BasicBlock{}, from.Block().Succs...)
	for len(work) > 0 {
		b := work[len(work)-1]
		work = work[:len(work)-1]
		if seen[b] || b == avoid {
			continue
		}
		seen[b] = true
		if b == to.Block() {
			return true
		}
		work = append(work, b.Succs...)
	}
	return false
}

// engineLockClass: locks of the event engine (pool, processor, monitors, task queue, event pump).
func engineLockClass(class string) bool {
	for _, p := range []string{"pool.", "engine.", "pubsub."} {
		if len(class) >= len(p) && class[:len(p)] == p {
			return true
		}
	}
	return false
}

// c09PopHandedOn: the popped value is returned when non-nil, decided directly after the
// Pop; a wrapper returning the Pop result unconditionally is followed to its callers.
func c09PopHandedOn(c *Ctx, pv ssa.Value, pf *ssa.Function, depth int) (returned, guarded bool) {
	def, _ := pv.(ssa.Instruction)
	nReturns, nReturnPv := 0, 0
	allInstrs(pf, func(in ssa.Instruction) {
		ret, ok := in.(*ssa.Return)
		if !ok || in.Block() == pf.Recover {
			return
		}
		nReturns++
		for _, res := range ret.Results {
			if unspill(res) != pv {
				continue
			}
			nReturnPv++
			returned = true
			for _, b := range pf.Blocks {
				if ifi, ok := b.Instrs[len(b.Instrs)-1].(*ssa.If); ok {
					if bo, ok := ifi.Cond.(*ssa.BinOp); ok && bo.Op == token.NEQ && stripConv(bo.X) == pv && isNilConst(bo.Y) {
						if b.Succs[0] == in.Block() && def != nil && b == def.Block() {
							guarded = true
						}
					}
				}
			}
		}
	})
	if returned && !guarded && nReturns == nReturnPv && depth > 0 {
		// pure wrapper: the decision is taken by the callers
		n := c.CHA().Nodes[pf]
		if n == nil || len(n.In) == 0 {
			return returned, false
		}
		all := true
		for _, e := range n.In {
			cv, ok := e.Site.(ssa.Value)
			if !ok || !c.modFuncSet[e.Caller.Func] {
				all = false
				continue
			}
			r2, g2 := c09PopHandedOn(c, cv, e.Caller.Func, depth-1)
			if !r2 || !g2 {
				all = false
			}
		}
		return returned, all
	}
	return
}

// c09ExitConditions (R09d): the polling loops of WaitAll / JoinAll / SetWorkerCount leave only
// under the condition their contract names, decided path-sensitively at every loop exit.
func c09ExitConditions(c *Ctx, r *Result) {
	fWorkers := c.Field("engine/pool", "ThreadPool", "workerMap")
	fIdle := c.Field("engine/pool", "ThreadPool", "workerIdleMap")
	queueIface := c.Interface("engine/pool", "TaskQueue")
	if fWorkers == nil || fIdle == nil || queueIface == nil {
		r.Undecide("R09d: ThreadPool.workerMap / workerIdleMap / TaskQueue not found")
		return
	}
	isLenOf := func(v ssa.Value, f *types.Var) bool {
		call, ok := unspill(v).(*ssa.Call)
		if !ok || !isBuiltinCall(call, "len") {
			return false
		}
		ch := fieldChain(call.Call.Args[0])
		return len(ch) > 0 && ch[len(ch)-1] == f
	}
	isQueueSize := func(v ssa.Value) bool {
		call, ok := unspill(v).(*ssa.Call)
		return ok && call.Call.IsInvoke() && call.Call.Method.Name() == "Size" && types.Identical(call.Call.Value.Type().Underlying(), queueIface)
	}
	// quantity: which of the three polled quantities a value is ("workers", "idle", "tasks"), also
	// when it is the result of a same-package helper that reads it (tp.WorkerCount(), a counts()
	// helper with several results); helperOf is that helper call.
	var quantity func(v ssa.Value, depth int) (string, *ssa.Call)
	quantity = func(v ssa.Value, depth int) (string, *ssa.Call) {
		v = unspill(stripNumConv(v))
		switch {
		case isLenOf(v, fWorkers):
			return "workers", nil
		case isLenOf(v, fIdle):
			return "idle", nil
		case isQueueSize(v):
			return "tasks", nil
		}
		if depth > 2 {
			return "", nil
		}
		idx := 0
		var call *ssa.Call
		switch x := v.(type) {
		case *ssa.Extract:
			call, _ = x.Tuple.(*ssa.Call)
			idx = x.Index
		case *ssa.Call:
			call = x
		}
		if call == nil {
			return "", nil
		}
		cal := call.Call.StaticCallee()
		if cal == nil || !c.inModule(cal) || c.PkgOf(cal) != "engine/pool" {
			return "", nil
		}
		q := ""
		for _, rv := range returnedValues(cal, idx) {
			rq, _ := quantity(rv, depth+1)
			if rq == "" || (q != "" && rq != q) {
				return "", nil
			}
			q = rq
		}
		return q, call
	}
	isQ := func(v ssa.Value, want string) bool {
		q, _ := quantity(v, 0)
		return q == want
	}
	type polCond struct {
		v   ssa.Value
		neg bool // the condition holds when v is false (a != comparison)
	}
	type spec struct {
		name string
		want string
	}
	n := 0
	nSnap := 0
	lfsExit := NewLockFlows(c)
	for _, sp := range []spec{
		{"WaitAll", "no workers, or (all workers idle and no task queued)"},
		{"JoinAll", "no workers and no task queued"},
		{"SetWorkerCount", "the worker count equals the requested count"},
	} {
		fn := c.Method("engine/pool", "ThreadPool", sp.name)
		if fn == nil {
			r.Undecide("R09d: ThreadPool.%s not found", sp.name)
			continue
		}
		key := c.FuncKey(fn)
		// the polling loop: the SCC containing a Broadcast
		var loop map[*ssa.BasicBlock]bool
		allInstrs(fn, func(in ssa.Instruction) {
			if op, ok := condOpOf(in); ok && op.Kind == "Broadcast" {
				if scc := sccOf(in.Block()); scc != nil {
					loop = scc
				}
			}
		})
		// the loop may live in a helper of the package (waitForWorkerCount(count)): analyse the helper,
		// with the parameter that receives the requested count standing for it
		var countParam *ssa.Parameter
		if loop == nil {
			outer := fn
			allInstrs(outer, func(in ssa.Instruction) {
				call, ok := in.(*ssa.Call)
				if !ok || loop != nil {
					return
				}
				h := call.Call.StaticCallee()
				if h == nil || !c.inModule(h) || c.PkgOf(h) != "engine/pool" || len(h.Blocks) == 0 {
					return
				}
				var hl map[*ssa.BasicBlock]bool
				allInstrs(h, func(hin ssa.Instruction) {
					if op, ok := condOpOf(hin); ok && op.Kind == "Broadcast" {
						if scc := sccOf(hin.Block()); scc != nil {
							hl = scc
						}
					}
				})
				if hl == nil {
					return
				}
				args := call.Call.Args
				for i, a := range args {
					if i < len(h.Params) && isCountParam(a, outer, nil) {
						countParam = h.Params[i]
					}
				}
				if sp.name == "SetWorkerCount" && countParam == nil {
					return
				}
				loop, fn = hl, h
			})
		}
		if loop == nil {
			r.Undecide("R09d: no polling loop (re-broadcasting) found in %s", key)
			continue
		}
		// conditions
		var noWorkers, allIdle, noTasks, countReached []polCond
		allInstrs(fn, func(in ssa.Instruction) {
			bo, ok := in.(*ssa.BinOp)
			if !ok || (bo.Op != token.EQL && bo.Op != token.NEQ) || !loop[bo.Block()] {
				return
			}
			pc := polCond{v: bo, neg: bo.Op == token.NEQ}
			k, isC := constInt(bo.Y)
			switch {
			case isQ(bo.X, "workers") && isC && k == 0:
				noWorkers = append(noWorkers, pc)
			case (isQ(bo.X, "workers") && isQ(bo.Y, "idle")) || (isQ(bo.Y, "workers") && isQ(bo.X, "idle")):
				allIdle = append(allIdle, pc)
			case isQ(bo.X, "tasks") && isC && k == 0:
				noTasks = append(noTasks, pc)
			case isQ(bo.X, "workers") && len(fn.Params) > 1 && stripNumConv(bo.Y) != nil && isCountParam(bo.Y, fn, countParam):
				countReached = append(countReached, pc)
			case isQ(bo.Y, "workers") && isCountParam(bo.X, fn, countParam):
				countReached = append(countReached, pc)
			}
		})
		// R09d-snapshot: the quantities the exit decision combines are read in one critical
		// section (one lock held from the first read to the last): read one after the other
		// under separate locks, "all workers idle" and "queue empty" can each be true at its
		// own moment while a task is being taken in between
		if sp.name != "SetWorkerCount" {
			// the reads in the loop: direct reads and calls of helpers that return a quantity
			var reads []ssa.Instruction
			quantities := map[string]bool{}
			allInstrs(fn, func(in ssa.Instruction) {
				call, ok := in.(*ssa.Call)
				if !ok || !loop[in.Block()] {
					return
				}
				if _, isTup := call.Type().(*types.Tuple); !isTup {
					if q, _ := quantity(call, 0); q != "" {
						reads = append(reads, in)
						quantities[q] = true
					}
					return
				}
				// a helper with several results, each a quantity
				if tup, isTup := call.Type().(*types.Tuple); isTup {
					any := false
					for k := 0; k < tup.Len(); k++ {
						if cal := call.Call.StaticCallee(); cal != nil && c.inModule(cal) && c.PkgOf(cal) == "engine/pool" {
							q := ""
							okAll := true
							for _, rv := range returnedValues(cal, k) {
								rq, _ := quantity(rv, 1)
								if rq == "" || (q != "" && q != rq) {
									okAll = false
								}
								q = rq
							}
							if okAll && q != "" {
								quantities[q] = true
								any = true
							}
						}
					}
					if any {
						reads = append(reads, in)
					}
				}
			})
			site := key + "#poll-snapshot"
			pos := c.Pos(fn.Pos())
			// oneSection: all reads (instructions of f) sit in one block under one lock that is held
			// from the first to the last of them
			oneSection := func(f *ssa.Function, rds []ssa.Instruction) bool {
				lf := lfsExit.Of(f)
				if lf == nil || len(rds) == 0 {
					return false
				}
				for _, rd := range rds {
					if rd.Block() != rds[0].Block() {
						return false
					}
				}
				lo, hi := instrIndex(rds[0]), instrIndex(rds[0])
				for _, rd := range rds {
					if i := instrIndex(rd); i < lo {
						lo = i
					} else if i > hi {
						hi = i
					}
				}
				for p := range lf.ClassOf {
					all := true
					for _, rd := range rds {
						if !lf.MustHoldPath(rd, p, false) {
							all = false
						}
					}
					if !all {
						continue
					}
					released := false
					for i := lo; i <= hi; i++ {
						if op, ok := lockOpOf(rds[0].Block().Instrs[i]); ok && !op.acquire() && op.Path == p {
							released = true
						}
					}
					if !released {
						return true
					}
				}
				return false
			}
			whyBad := ""
			if len(quantities) >= 2 {
				good := oneSection(fn, reads)
				if !good && len(reads) == 1 {
					// one helper call delivers all quantities: the section is inside the helper
					if call, ok := reads[0].(*ssa.Call); ok {
						if cal := call.Call.StaticCallee(); cal != nil {
							var inner []ssa.Instruction
							allInstrs(cal, func(in ssa.Instruction) {
								if ic, ok := in.(*ssa.Call); ok {
									if q, _ := quantity(ic, 1); q != "" {
										inner = append(inner, in)
									}
								}
							})
							good = len(inner) >= 2 && oneSection(cal, inner)
						}
					}
				}
				if !good {
					whyBad = "the worker tables and the queue size that decide the exit are not read within one critical section (no lock is held from the first of these reads to the last)"
				}
				nSnap++
				if whyBad != "" {
					r.Instance("R09d-snapshot", site, pos, "finding", whyBad, true)
					r.Report(Finding{Rule: "R09d-snapshot", Site: site, Pos: pos,
						Msg: key + ": " + whyBad + " — each can hold at its own moment while a worker leaves the idle table and takes a task in between: the call returns while a task accepted before it is still running"})
				} else {
					r.Instance("R09d-snapshot", site, pos, "ok", fmt.Sprintf("%d quantities read under one continuously held lock", len(quantities)), true)
				}
			}
		}
		bad := ""
		exits := 0
		o := &PathOracle{}
		anyTrue := func(st *PState, vs []polCond) bool {
			for _, pc := range vs {
				got := st.Get(pc.v, o)
				if (!pc.neg && got == AvNonNil) || (pc.neg && got == AvNil) {
					return true
				}
			}
			return false
		}
		inLoopPrev := map[*PState]bool{}
		_ = inLoopPrev
		o.Visit = func(st *PState, in ssa.Instruction) {
			b := in.Block()
			if loop[b] || instrIndex(in) != 0 {
				return
			}
			// first instruction of a block outside the loop: did we come from inside?
			if len(st.Trace) < 2 || !loop[st.Trace[len(st.Trace)-2]] {
				return
			}
			exits++
			ok := false
			switch sp.name {
			case "WaitAll":
				ok = anyTrue(st, noWorkers) || (anyTrue(st, allIdle) && anyTrue(st, noTasks))
			case "JoinAll":
				ok = anyTrue(st, noWorkers) && anyTrue(st, noTasks)
			case "SetWorkerCount":
				ok = anyTrue(st, countReached)
				// `for wait && count not reached`: left at once when the caller did not ask to wait
				if !ok {
					for _, p := range fn.Params {
						if b, isB := p.Type().Underlying().(*types.Basic); isB && b.Kind() == types.Bool && st.Get(p, o) == AvNil {
							ok = true
						}
					}
				}
			}
			if !ok {
				bad = "the polling loop can be left although not (" + sp.want + ")"
			}
		}
		if !ExplorePaths(fn, o) {
			r.Undecide("R09d: path exploration of %s exceeded its bound", key)
			continue
		}
		n++
		site := key + "#poll-exit"
		pos := c.Pos(fn.Pos())
		if exits == 0 {
			r.Undecide("R09d: no exit of the polling loop of %s was explored", key)
		} else if bad != "" {
			r.Instance("R09d", site, pos, "finding", bad, true)
			r.Report(Finding{Rule: "R09d", Site: site, Pos: pos, Msg: key + ": " + bad + " — the call returns before its contract holds"})
		} else {
			r.Instance("R09d", site, pos, "ok", fmt.Sprintf("every exit of the polling loop (%d explored) is taken under: %s", exits, sp.want), true)
		}
	}
	r.Floor("R09d", n, 3)
	r.Floor("R09d-snapshot", nSnap, 2)
}

func isCountParam(v ssa.Value, fn *ssa.Function, standIn *ssa.Parameter) bool {
	v = unspill(stripNumConv(v))
	if standIn != nil {
		return v == ssa.Value(standIn)
	}
	// the count parameter may be clamped (`if count < 0 { count = 0 }`): a phi of the parameter and a constant
	if p, ok := v.(*ssa.Parameter); ok {
		return p.Parent() == fn && p.Name() == "count"
	}
	if phi, ok := v.(*ssa.Phi); ok {
		for _, e := range phi.Edges {
			if p, ok := e.(*ssa.Parameter); ok && p.Name() == "count" {
				return true
			}
		}
	}
	return false
}
