package main

// Helpers over go/ssa: access paths, callee identification, dominance between
// instructions, simple reachability inside a function.

import (
	"fmt"
	"go/constant"
	"go/token"
	"go/types"
	"strings"

	"golang.org/x/tools/go/ssa"
)

// ---- callee identification ------------------------------------------------------------------

// calleeObj returns the *types.Func a call resolves to (static callee or the
// interface method of an invoke), nil for calls of function values and builtins.
func calleeObj(cc *ssa.CallCommon) *types.Func {
	if cc.IsInvoke() {
		return cc.Method
	}
	if f := cc.StaticCallee(); f != nil {
		if o, ok := f.Object().(*types.Func); ok {
			return o
		}
		return nil
	}
	return nil
}

// funcFullName gives "pkgpath.Func" or "pkgpath.Type.Method" (pointer receivers
// without the star), the form used by the tables of this checker.
func funcFullName(o *types.Func) string {
	if o == nil {
		return ""
	}
	sig := o.Type().(*types.Signature)
	pkg := ""
	if o.Pkg() != nil {
		pkg = o.Pkg().Path()
	}
	if r := sig.Recv(); r != nil {
		t := r.Type()
		if p, ok := t.(*types.Pointer); ok {
			t = p.Elem()
		}
		if n, ok := t.(*types.Named); ok {
			if n.Obj().Pkg() != nil {
				pkg = n.Obj().Pkg().Path()
			}
			return pkg + "." + n.Obj().Name() + "." + o.Name()
		}
		return pkg + "." + types.TypeString(t, nil) + "." + o.Name()
	}
	return pkg + "." + o.Name()
}

// callName returns funcFullName of the callee of an instruction, "" if none.
func callName(in ssa.Instruction) string {
	ci, ok := in.(ssa.CallInstruction)
	if !ok {
		return ""
	}
	return funcFullName(calleeObj(ci.Common()))
}

// isBuiltinCall reports a call of the named builtin.
func isBuiltinCall(in ssa.Instruction, name string) bool {
	ci, ok := in.(ssa.CallInstruction)
	if !ok {
		return false
	}
	b, ok := ci.Common().Value.(*ssa.Builtin)
	return ok && b.Name() == name
}

// callArgs returns the arguments of a call including the receiver first.
func callArgs(cc *ssa.CallCommon) []ssa.Value {
	if cc.IsInvoke() {
		return append([]ssa.Value{cc.Value}, cc.Args...)
	}
	return cc.Args
}

// ---- access paths -----------------------------------------------------------------------------

// accessPath normalises a value to root(.field|[*]|())*. Loads are transparent:
// the path of *(&x.f) is x.f. Two values with the same path denote the same
// location provided no store to a prefix of the path lies between them.
func accessPath(v ssa.Value) string {
	return accessPathDepth(v, 0)
}

func accessPathDepth(v ssa.Value, d int) string {
	if d > 24 {
		return "…"
	}
	switch x := v.(type) {
	case *ssa.Parameter:
		return x.Name()
	case *ssa.FreeVar:
		return x.Name()
	case *ssa.Global:
		return x.Pkg.Pkg.Name() + "." + x.Name()
	case *ssa.FieldAddr:
		return accessPathDepth(x.X, d+1) + "." + fieldName(x.X.Type(), x.Field)
	case *ssa.Field:
		return accessPathDepth(x.X, d+1) + "." + fieldName(x.X.Type(), x.Field)
	case *ssa.UnOp:
		if x.Op == token.MUL {
			return accessPathDepth(x.X, d+1)
		}
		return fmt.Sprintf("%s(%s)", x.Op, accessPathDepth(x.X, d+1))
	case *ssa.IndexAddr:
		return accessPathDepth(x.X, d+1) + "[" + idxString(x.Index, d) + "]"
	case *ssa.Index:
		return accessPathDepth(x.X, d+1) + "[" + idxString(x.Index, d) + "]"
	case *ssa.Lookup:
		return accessPathDepth(x.X, d+1) + "[" + idxString(x.Index, d) + "]"
	case *ssa.Alloc:
		if x.Comment != "" {
			return x.Comment
		}
		return "alloc@" + fmt.Sprint(x.Pos())
	case *ssa.MakeInterface:
		return accessPathDepth(x.X, d+1)
	case *ssa.ChangeInterface:
		return accessPathDepth(x.X, d+1)
	case *ssa.ChangeType:
		return accessPathDepth(x.X, d+1)
	case *ssa.Convert:
		return accessPathDepth(x.X, d+1)
	case *ssa.TypeAssert:
		return accessPathDepth(x.X, d+1) + ".(" + typeShort(x.AssertedType) + ")"
	case *ssa.Extract:
		return accessPathDepth(x.Tuple, d+1) + "#" + fmt.Sprint(x.Index)
	case *ssa.Call:
		if o := calleeObj(x.Common()); o != nil {
			args := callArgs(x.Common())
			if len(args) > 0 && o.Type().(*types.Signature).Recv() != nil {
				return accessPathDepth(args[0], d+1) + "." + o.Name() + "()"
			}
			return o.Name() + "()"
		}
		if b, ok := x.Common().Value.(*ssa.Builtin); ok {
			var as []string
			for _, a := range x.Common().Args {
				as = append(as, accessPathDepth(a, d+1))
			}
			return b.Name() + "(" + strings.Join(as, ",") + ")"
		}
		return "call(" + accessPathDepth(x.Common().Value, d+1) + ")"
	case *ssa.Const:
		if x.Value == nil {
			return "nil"
		}
		return x.Value.ExactString()
	case *ssa.Phi:
		return "φ" + x.Name()
	case *ssa.Slice:
		return accessPathDepth(x.X, d+1) + "[:]"
	case *ssa.MakeClosure:
		return "closure(" + x.Fn.Name() + ")"
	case *ssa.Function:
		return x.Name()
	}
	return v.Name()
}

func idxString(v ssa.Value, d int) string {
	if c, ok := v.(*ssa.Const); ok && c.Value != nil {
		return c.Value.ExactString()
	}
	return "*"
}

func fieldName(t types.Type, i int) string {
	if p, ok := t.Underlying().(*types.Pointer); ok {
		t = p.Elem()
	}
	if st, ok := t.Underlying().(*types.Struct); ok && i < st.NumFields() {
		return st.Field(i).Name()
	}
	return fmt.Sprint("#", i)
}

// fieldVar returns the types.Var of the field selected by a FieldAddr/Field.
func fieldVar(v ssa.Value) *types.Var {
	var t types.Type
	var i int
	switch x := v.(type) {
	case *ssa.FieldAddr:
		t, i = x.X.Type(), x.Field
	case *ssa.Field:
		t, i = x.X.Type(), x.Field
	default:
		return nil
	}
	if p, ok := t.Underlying().(*types.Pointer); ok {
		t = p.Elem()
	}
	if st, ok := t.Underlying().(*types.Struct); ok && i < st.NumFields() {
		return st.Field(i)
	}
	return nil
}

// fieldChain lists the struct fields traversed by the access path of v, outermost last.
func fieldChain(v ssa.Value) []*types.Var {
	var out []*types.Var
	for d := 0; d < 24; d++ {
		switch x := v.(type) {
		case *ssa.FieldAddr:
			out = append([]*types.Var{fieldVar(x)}, out...)
			v = x.X
		case *ssa.Field:
			out = append([]*types.Var{fieldVar(x)}, out...)
			v = x.X
		case *ssa.UnOp:
			if x.Op != token.MUL {
				return out
			}
			v = x.X
		case *ssa.MakeInterface:
			v = x.X
		case *ssa.ChangeInterface:
			v = x.X
		case *ssa.ChangeType:
			v = x.X
		default:
			return out
		}
	}
	return out
}

// rootOf returns the root value of an access path (parameter, free variable,
// global, allocation, call ...).
func rootOf(v ssa.Value) ssa.Value {
	for d := 0; d < 32; d++ {
		switch x := v.(type) {
		case *ssa.FieldAddr:
			v = x.X
		case *ssa.Field:
			v = x.X
		case *ssa.IndexAddr:
			v = x.X
		case *ssa.Index:
			v = x.X
		case *ssa.Lookup:
			v = x.X
		case *ssa.Slice:
			v = x.X
		case *ssa.UnOp:
			if x.Op != token.MUL {
				return v
			}
			v = x.X
		case *ssa.MakeInterface:
			v = x.X
		case *ssa.ChangeInterface:
			v = x.X
		case *ssa.ChangeType:
			v = x.X
		case *ssa.Convert:
			v = x.X
		case *ssa.TypeAssert:
			v = x.X
		case *ssa.Extract:
			v = x.Tuple
		default:
			return v
		}
	}
	return v
}

// ---- ordering inside a function -------------------------------------------------------------

func instrIndex(in ssa.Instruction) int {
	for i, x := range in.Block().Instrs {
		if x == in {
			return i
		}
	}
	return -1
}

// dominates: a executes before b on every path reaching b.
func dominates(a, b ssa.Instruction) bool {
	if a.Block() == b.Block() {
		return instrIndex(a) < instrIndex(b)
	}
	return a.Block().Dominates(b.Block())
}

// blockReach returns the blocks reachable from b (including b if on a cycle or start=true).
func blockReach(from *ssa.BasicBlock, includeStart bool) map[*ssa.BasicBlock]bool {
	seen := map[*ssa.BasicBlock]bool{}
	var work []*ssa.BasicBlock
	if includeStart {
		seen[from] = true
	}
	work = append(work, from.Succs...)
	for len(work) > 0 {
		x := work[len(work)-1]
		work = work[:len(work)-1]
		if seen[x] {
			continue
		}
		seen[x] = true
		work = append(work, x.Succs...)
	}
	return seen
}

// canReachInstr: is there a CFG path from just after a to b?
func canReach(a, b ssa.Instruction) bool {
	if a.Block() == b.Block() && instrIndex(a) < instrIndex(b) {
		return true
	}
	return blockReach(a.Block(), false)[b.Block()]
}

// inLoop reports whether the block lies on a CFG cycle.
func inLoop(b *ssa.BasicBlock) bool {
	return blockReach(b, false)[b]
}

// ---- misc -------------------------------------------------------------------------------------

func constInt(v ssa.Value) (int64, bool) {
	c, ok := v.(*ssa.Const)
	if !ok || c.Value == nil {
		return 0, false
	}
	if c.Value.Kind() != constant.Int {
		return 0, false
	}
	i, ok := constant.Int64Val(c.Value)
	return i, ok
}

func constString(v ssa.Value) (string, bool) {
	c, ok := v.(*ssa.Const)
	if !ok || c.Value == nil || c.Value.Kind() != constant.String {
		return "", false
	}
	return constant.StringVal(c.Value), true
}

func isNilConst(v ssa.Value) bool {
	c, ok := v.(*ssa.Const)
	return ok && c.Value == nil
}

// allInstrs iterates over the instructions of a function.
func allInstrs(fn *ssa.Function, f func(ssa.Instruction)) {
	for _, b := range fn.Blocks {
		for _, in := range b.Instrs {
			f(in)
		}
	}
}

// derefType strips one pointer.
func derefType(t types.Type) types.Type {
	if p, ok := t.Underlying().(*types.Pointer); ok {
		return p.Elem()
	}
	return t
}

func namedOf(t types.Type) *types.Named {
	t = derefType(t)
	n, _ := t.(*types.Named)
	return n
}

// isNamed checks for pkgpath.Name (through one pointer).
func isNamed(t types.Type, pkgPath, name string) bool {
	n := namedOf(t)
	if n == nil || n.Obj().Name() != name {
		return false
	}
	if n.Obj().Pkg() == nil {
		return pkgPath == ""
	}
	return n.Obj().Pkg().Path() == pkgPath
}

// stripConv removes interface/type conversions around a value.
func stripConv(v ssa.Value) ssa.Value {
	for {
		switch x := v.(type) {
		case *ssa.MakeInterface:
			v = x.X
		case *ssa.ChangeInterface:
			v = x.X
		case *ssa.ChangeType:
			v = x.X
		default:
			return v
		}
	}
}

// ordinalKey builds "<fn>#<kind>:<desc>#<n>" where n counts identical constructs in
// the function in instruction order; the result is stable under line shifts.
type ordinals struct{ m map[string]int }

func newOrdinals() *ordinals { return &ordinals{m: map[string]int{}} }

func (o *ordinals) key(fn, kind, desc string) string {
	base := sanitizeSite(fn + "#" + kind + ":" + desc)
	n := o.m[base]
	o.m[base] = n + 1
	return fmt.Sprintf("%s#%d", base, n)
}

// unspill looks through go/ssa's spills: a load of a local cell which is stored
// exactly once (defer-spilled results, single-assignment captured variables)
// denotes the stored value. Conversions are stripped as well.
func unspill(v ssa.Value) ssa.Value {
	for d := 0; d < 8; d++ {
		v = stripConv(v)
		u, ok := v.(*ssa.UnOp)
		if !ok || u.Op != token.MUL {
			return v
		}
		a, ok := u.X.(*ssa.Alloc)
		if !ok {
			return v
		}
		var stored ssa.Value
		n := 0
		for _, ref := range *a.Referrers() {
			if st, ok := ref.(*ssa.Store); ok && st.Addr == a {
				n++
				stored = st.Val
			}
		}
		if n != 1 {
			return v
		}
		v = stored
	}
	return v
}

// returnedValues lists, per result index, the values a function may return,
// looking through defer-spilled result cells (all values stored to the cell).
func returnedValues(fn *ssa.Function, idx int) []ssa.Value {
	var out []ssa.Value
	seen := map[ssa.Value]bool{}
	add := func(v ssa.Value) {
		if !seen[v] {
			seen[v] = true
			out = append(out, v)
		}
	}
	allInstrs(fn, func(in ssa.Instruction) {
		ret, ok := in.(*ssa.Return)
		if !ok || in.Block() == fn.Recover || idx >= len(ret.Results) {
			return
		}
		v := ret.Results[idx]
		if u, ok := v.(*ssa.UnOp); ok && u.Op == token.MUL {
			if a, ok := u.X.(*ssa.Alloc); ok {
				for _, s := range cellSources(a) {
					add(s)
				}
				return
			}
		}
		add(v)
	})
	return out
}

func sprintf(format string, a ...interface{}) string { return fmt.Sprintf(format, a...) }
