package main

// Rules added after the fourth seeding round.

import (
	"fmt"
	"go/token"
	"go/types"
	"sort"
	"strings"

	"golang.org/x/tools/go/ssa"
)

// ---- R12f / R11g: a sink body runs under the thread id of the worker that runs it ------------------

// The engine hands the action of a rule the id of the pool thread that executes it. Everything the
// action evaluates has to be evaluated under that id — the mutex owner test compares it. An action
// that passes on a captured id (the id of the thread that declared the sink) makes every sink
// thread look like one thread: a second sink thread passes the owner test of a mutex the first
// holds. Rule: in every function literal stored into engine.Rule.Action, each thread-id argument
// (the trailing uint64) of a Runtime.Eval / ECALFunction.Run call is the literal's own parameter.
func cActionThreadID(c *Ctx, r *Result, rule string) {
	fAction := c.Field("engine", "Rule", "Action")
	rtIface := c.Interface("parser", "Runtime")
	if fAction == nil || rtIface == nil {
		r.Undecide("%s: engine.Rule.Action / parser.Runtime not found", rule)
		return
	}
	n := 0
	for _, fn := range c.ModFuncs() {
		allInstrs(fn, func(in ssa.Instruction) {
			st, ok := in.(*ssa.Store)
			if !ok || fieldVar(st.Addr) != fAction {
				return
			}
			mc, ok := stripConv(st.Val).(*ssa.MakeClosure)
			if !ok {
				return
			}
			act, _ := mc.Fn.(*ssa.Function)
			if act == nil || len(act.Params) == 0 {
				return
			}
			own := act.Params[len(act.Params)-1]
			if b, isB := own.Type().Underlying().(*types.Basic); !isB || b.Kind() != types.Uint64 {
				return
			}
			key := c.FuncKey(act)
			ord := newOrdinals()
			// the body of the action may be a method the literal calls (rt.runAction(…, tid)): the id is
			// followed into module callees through the parameter that receives it (two levels)
			var visit func(f *ssa.Function, own ssa.Value, depth int)
			visit = func(f *ssa.Function, own ssa.Value, depth int) {
				allInstrs(f, func(x ssa.Instruction) {
					ci, ok := x.(ssa.CallInstruction)
					if !ok {
						return
					}
					if g := ci.Common().StaticCallee(); g != nil && depth < 2 && c.inModule(g) && len(g.Blocks) > 0 {
						handed := false
						for i, a := range ci.Common().Args {
							if own != nil && unspill(a) == own && i < len(g.Params) {
								handed = true
								visit(g, g.Params[i], depth+1)
							}
						}
						if !handed && c.PkgOf(g) == c.PkgOf(act) {
							visit(g, nil, depth+1) // a body that is not given the id cannot evaluate under it
						}
						return
					}
					if !ci.Common().IsInvoke() {
						return
					}
					m := ci.Common().Method.Name()
					if !(m == "Eval" && types.Identical(ci.Common().Value.Type().Underlying(), rtIface)) {
						return
					}
					args := ci.Common().Args
					if len(args) == 0 {
						return
					}
					tidArg := args[len(args)-1]
					if b, isB := tidArg.Type().Underlying().(*types.Basic); !isB || b.Kind() != types.Uint64 {
						return
					}
					n++
					site := ord.key(key, "eval-tid", accessPath(tidArg))
					pos := c.Pos(c.InstrPos(x))
					if own != nil && unspill(tidArg) == own {
						r.Instance(rule, site, pos, "ok", "evaluated under the thread id the engine handed to this invocation", true)
						return
					}
					r.Instance(rule, site, pos, "finding", "evaluated under another thread id", true)
					r.Report(Finding{Rule: rule, Site: site, Pos: pos,
						Msg: fmt.Sprintf("%s: the sink body is evaluated under %s, not under the thread id the engine handed to the action (%s): every execution of the sink then runs with the id of the thread that declared it — two sink threads pass each other's mutex owner test and are inside one mutex block together", key, accessPath(tidArg), act.Params[len(act.Params)-1].Name())})
				})
			}
			visit(act, own, 0)
		})
	}
	r.Floor(rule, n, 1)
}

// ---- R01i: the global default scope stands in for a missing scope only ---------------------------

// NewRootMonitor replaces a nil scope by the global one. A scope that is given but has no
// definitions allows nothing — replacing it too ("empty") lets every rule fire for a cascade that
// was meant to reach none. The substitution must be control dependent on `scope == nil` itself.
func c01DefaultScope(c *Ctx, r *Result) {
	n := 0
	for _, fn := range c.ModFuncs() {
		if c.PkgOf(fn) != "engine" || fn.Name() != "NewRootMonitor" || fn.Signature.Recv() == nil {
			continue
		}
		key := c.FuncKey(fn)
		var scopeParam *ssa.Parameter
		for _, p := range fn.Params {
			if n := namedOf(p.Type()); n != nil && n.Obj().Name() == "RuleScope" {
				scopeParam = p
			}
		}
		if scopeParam == nil {
			continue
		}
		// the substitution may sit in a helper that is handed the scope (scopeOrGlobal(scope))
		type unit struct {
			fn    *ssa.Function
			scope *ssa.Parameter
		}
		units := []unit{{fn, scopeParam}}
		allInstrs(fn, func(in ssa.Instruction) {
			ci, ok := in.(ssa.CallInstruction)
			if !ok {
				return
			}
			g := ci.Common().StaticCallee()
			if g == nil || !c.inModule(g) || c.PkgOf(g) != "engine" || len(g.Blocks) == 0 {
				return
			}
			for i, a := range ci.Common().Args {
				if unspill(a) == ssa.Value(scopeParam) && i < len(g.Params) {
					units = append(units, unit{g, g.Params[i]})
				}
			}
		})
		for _, u := range units {
			fn, scopeParam := u.fn, u.scope
			allInstrs(fn, func(in ssa.Instruction) {
				call, ok := in.(*ssa.Call)
				if !ok || call.Call.StaticCallee() == nil || call.Call.StaticCallee().Name() != "NewRuleScope" {
					return
				}
				n++
				site := key + "#default-scope"
				pos := c.Pos(c.InstrPos(in))
				b := in.Block()
				good := false
				if len(b.Preds) == 1 {
					p := b.Preds[0]
					if ifi, isIf := p.Instrs[len(p.Instrs)-1].(*ssa.If); isIf {
						if bo, isBO := ifi.Cond.(*ssa.BinOp); isBO && (bo.Op == token.EQL || bo.Op == token.NEQ) {
							isParamNil := (unspill(bo.X) == ssa.Value(scopeParam) && isNilConst(bo.Y)) || (unspill(bo.Y) == ssa.Value(scopeParam) && isNilConst(bo.X))
							onTrue := p.Succs[0] == b
							if isParamNil && ((bo.Op == token.EQL) == onTrue) {
								good = true
							}
						}
					}
				}
				if good {
					r.Instance("R01i", site, pos, "ok", "the global scope is substituted exactly where the given scope is nil", true)
				} else {
					r.Instance("R01i", site, pos, "finding", "default scope substituted under another condition", true)
					r.Report(Finding{Rule: "R01i", Site: site, Pos: pos,
						Msg: key + ": the global default scope is substituted under a condition other than `scope == nil`: a scope that is given but allows nothing (no definitions) is replaced by one that allows everything — rules out of the cascade's scope fire, and their suppression lists take effect"})
				}
			})
		}
	}
	r.Floor("R01i", n, 1)
}

// ---- R16i: an entry looked up in a debugger table is used only where it was found ----------------

// The debugger's tables hold pointers (interrogation states). A lookup that misses yields nil; a
// field of it is a nil dereference in the command handler. Path-sensitive: every field access
// through the value of a comma-ok lookup is reached only where its ok is known true (or the value
// was tested against nil); a single-value lookup of a pointer is dereferenced only after a nil test.
func c16LookupBeforeUse(c *Ctx, r *Result, funcs []*ssa.Function) {
	n := 0
	for _, fn := range funcs {
		type lk struct {
			val, ok ssa.Value
		}
		var looks []lk
		allInstrs(fn, func(in ssa.Instruction) {
			l, isL := in.(*ssa.Lookup)
			if !isL {
				return
			}
			mt, isMap := l.X.Type().Underlying().(*types.Map)
			if !isMap {
				return
			}
			if _, isPtr := mt.Elem().Underlying().(*types.Pointer); !isPtr {
				return
			}
			if l.CommaOk {
				var v, o ssa.Value
				for _, ref := range *l.Referrers() {
					if e, isE := ref.(*ssa.Extract); isE {
						if e.Index == 0 {
							v = e
						} else {
							o = e
						}
					}
				}
				if v != nil {
					looks = append(looks, lk{v, o})
				}
			} else {
				looks = append(looks, lk{l, nil})
			}
		})
		if len(looks) == 0 {
			continue
		}
		key := c.FuncKey(fn)
		bad := map[ssa.Instruction]string{}
		seen := map[ssa.Instruction]bool{}
		o := &PathOracle{}
		o.Visit = func(st *PState, in ssa.Instruction) {
			var base ssa.Value
			switch x := in.(type) {
			case *ssa.FieldAddr:
				base = x.X
			case *ssa.UnOp:
				if x.Op == token.MUL {
					if _, isPtr := x.X.Type().Underlying().(*types.Pointer); isPtr {
						base = x.X
					}
				}
			}
			if base == nil {
				return
			}
			cb := st.canon(base)
			for _, l := range looks {
				if cb != l.val && base != l.val {
					continue
				}
				seen[in] = true
				if st.Get(l.val, o) == AvNonNil {
					continue
				}
				if l.ok != nil && st.Get(l.ok, o) == AvNonNil {
					continue
				}
				bad[in] = accessPath(l.val)
			}
		}
		if !ExplorePaths(fn, o) {
			continue
		}
		i := 0
		allInstrs(fn, func(in ssa.Instruction) {
			if !seen[in] {
				return
			}
			n++
			site := fmt.Sprintf("%s#lookup-use#%d", key, i)
			i++
			pos := c.Pos(c.InstrPos(in))
			if what, isBad := bad[in]; isBad {
				r.Instance("R16i", site, pos, "finding", "a table entry is dereferenced where the lookup may have missed", true)
				r.Report(Finding{Rule: "R16i", Site: site, Pos: pos,
					Msg: fmt.Sprintf("%s: a field of %s is read on a path where the lookup is not known to have found an entry: for a thread without such an entry (never suspended, or resumed and moved on) the command handler dereferences nil", key, what)})
			} else {
				r.Instance("R16i", site, pos, "ok", "reached only where the lookup found the entry", true)
			}
		})
	}
	r.Floor("R16i", n, 5)
}

// ---- R19g: what is handed to the caller does not go back to a pool --------------------------------

// A buffer taken from a sync.Pool and put back when the function returns must not be (the backing
// array of) what the function returns: the next call overwrites the list the ECAL program still
// holds. Forward taint from Pool.Get through assertions, loads, slicing, append, phis and local
// variables; a tainted value among the results of a function that also calls Pool.Put (itself or in
// a deferred literal) is a finding. Elements copied out of the buffer (results[0]) are not tainted.
func cPoolEscape(c *Ctx, r *Result, rule string, pkgs map[string]bool) {
	n := 0
	isPoolCall := func(in ssa.Instruction, m string) bool {
		name := callName(in)
		return name == "sync.Pool."+m || name == "(*sync.Pool)."+m
	}
	for _, fn := range c.ModFuncs() {
		if !pkgs[c.PkgOf(fn)] || fn.Parent() != nil {
			continue
		}
		var gets []ssa.Value
		puts := false
		scan := func(f *ssa.Function) {
			allInstrs(f, func(in ssa.Instruction) {
				if isPoolCall(in, "Get") {
					if v, ok := in.(ssa.Value); ok && f == fn {
						gets = append(gets, v)
					}
				}
				if isPoolCall(in, "Put") {
					puts = true
				}
			})
		}
		scan(fn)
		for _, af := range fn.AnonFuncs {
			scan(af)
		}
		if len(gets) == 0 {
			continue
		}
		n++
		key := c.FuncKey(fn)
		taint := map[ssa.Value]bool{}
		cells := map[*ssa.Alloc]bool{}
		for _, g := range gets {
			taint[g] = true
		}
		for changed := true; changed; {
			changed = false
			mark := func(v ssa.Value) {
				if !taint[v] {
					taint[v] = true
					changed = true
				}
			}
			allInstrs(fn, func(in ssa.Instruction) {
				switch x := in.(type) {
				case *ssa.TypeAssert:
					if taint[x.X] {
						mark(x)
					}
				case *ssa.Extract:
					if taint[x.Tuple] && x.Index == 0 {
						mark(x)
					}
				case *ssa.UnOp:
					if x.Op == token.MUL {
						if a, isA := x.X.(*ssa.Alloc); isA && cells[a] {
							mark(x)
						} else if taint[x.X] {
							// *buf: the pooled slice itself (not an element: elements come from IndexAddr)
							if _, isIdx := x.X.(*ssa.IndexAddr); !isIdx {
								mark(x)
							}
						}
					}
				case *ssa.Slice:
					if taint[x.X] {
						mark(x)
					}
				case *ssa.Phi:
					for _, e := range x.Edges {
						if taint[e] {
							mark(x)
						}
					}
				case *ssa.MakeInterface:
					if taint[x.X] {
						mark(x)
					}
				case *ssa.ChangeType:
					if taint[x.X] {
						mark(x)
					}
				case *ssa.Call:
					if isBuiltinCall(x, "append") && taint[x.Call.Args[0]] {
						mark(x)
					}
				case *ssa.Store:
					if a, isA := x.Addr.(*ssa.Alloc); isA && taint[x.Val] && !cells[a] {
						cells[a] = true
						changed = true
					}
				}
			})
		}
		var bad ssa.Instruction
		allInstrs(fn, func(in ssa.Instruction) {
			ret, ok := in.(*ssa.Return)
			if !ok || in.Block() == fn.Recover {
				return
			}
			for _, rv := range ret.Results {
				if taint[rv] && bad == nil {
					bad = in
				}
			}
		})
		site := key + "#pooled-result"
		if bad != nil && puts {
			pos := c.Pos(c.InstrPos(bad))
			r.Instance(rule, site, pos, "finding", "a pooled buffer is returned to the caller and put back", true)
			r.Report(Finding{Rule: rule, Site: site, Pos: pos,
				Msg: key + ": a value returned here is (a slice of) a buffer taken from a sync.Pool that the function also puts back: the caller keeps a list whose backing array the next call overwrites — a multi-result function's list changes under the program's hands (math.modf(1.5) later reads [0 1])"})
		} else {
			r.Instance(rule, site, c.Pos(fn.Pos()), "ok", "nothing derived from a pooled buffer is among the results (or nothing is put back)", true)
		}
	}
	r.Extra["functions_using_a_pool"] = n
}

// ---- R04i: a listed error type that matched stays matched ------------------------------------------

// `except "A", "B" { … }` handles an error whose type is any of the listed ones. The clause scans
// its children and keeps a flag; once a listed type has matched, a later listed type must not be
// compared any more (the comparison would overwrite the flag with false: only the last listed type
// would decide). Rule: in the methods of the try runtime, a comparison whose result flows into a
// loop-carried boolean is evaluated only where that boolean is known to be false.
func c04MatchedStaysMatched(c *Ctx, r *Result) {
	pt, err := ExtractProviders(c)
	if err != nil {
		return
	}
	tryT := pt.Kind2Type["try"]
	if tryT == nil {
		r.Undecide("R04i: no runtime registered for `try`")
		return
	}
	n := 0
	for _, fn := range c.ModFuncs() {
		if c.PkgOf(fn) != "interpreter" || fn.Signature.Recv() == nil || namedOf(fn.Signature.Recv().Type()) != tryT {
			continue
		}
		key := c.FuncKey(fn)
		ord := newOrdinals()
		allInstrs(fn, func(in ssa.Instruction) {
			ph, ok := in.(*ssa.Phi)
			if !ok || !isLoopHeaderPhi(ph) || ph.Type().Underlying().String() != "bool" {
				return
			}
			// comparisons flowing into the flag around the loop (through inner phis)
			var cmps []*ssa.BinOp
			seen := map[ssa.Value]bool{}
			var walk func(v ssa.Value, d int)
			walk = func(v ssa.Value, d int) {
				if v == nil || seen[v] || d > 6 {
					return
				}
				seen[v] = true
				switch x := v.(type) {
				case *ssa.BinOp:
					if x.Op == token.EQL && inLoop(x.Block()) {
						if _, isIface := x.X.Type().Underlying().(*types.Interface); isIface {
							cmps = append(cmps, x)
						} else if b, isB := x.X.Type().Underlying().(*types.Basic); isB && b.Kind() == types.String {
							cmps = append(cmps, x)
						}
					}
				case *ssa.Phi:
					if x != ph {
						for _, e := range x.Edges {
							walk(e, d+1)
						}
					}
				}
			}
			for i, pr := range ph.Block().Preds {
				if ph.Block().Dominates(pr) {
					walk(ph.Edges[i], 0)
				}
			}
			for _, cmp := range cmps {
				n++
				site := ord.key(key, "type-match", accessPath(cmp.X))
				pos := c.Pos(c.InstrPos(cmp))
				if FactsAt(cmp).FalseV[ph] {
					r.Instance("R04i", site, pos, "ok", "the comparison is evaluated only while no listed type has matched yet", true)
					continue
				}
				r.Instance("R04i", site, pos, "finding", "the match flag can be overwritten after a match", true)
				r.Report(Finding{Rule: "R04i", Site: site, Pos: pos,
					Msg: key + ": the comparison with a listed error type is evaluated also when an earlier listed type has already matched, and its result replaces the flag: with `except \"A\", \"B\"` only the last listed type decides — an error of type A is not handled by this clause (a later bare except runs instead, or the error escapes)"})
			}
		})
		// the other form: the first listed type that matches leaves the scan (return / break on the
		// true edge of the comparison) — there is no flag a later comparison could overwrite
		allInstrs(fn, func(in ssa.Instruction) {
			cmp, ok := in.(*ssa.BinOp)
			if !ok || cmp.Op != token.EQL {
				return
			}
			if _, isIface := cmp.X.Type().Underlying().(*types.Interface); !isIface {
				return
			}
			b := cmp.Block()
			ifi, ok := b.Instrs[len(b.Instrs)-1].(*ssa.If)
			if !ok || ifi.Cond != ssa.Value(cmp) {
				return
			}
			loop := sccOf(b)
			if loop == nil || loop[b.Succs[0]] {
				return
			}
			n++
			r.Instance("R04i", ord.key(key, "type-match-exit", accessPath(cmp.X)), c.Pos(c.InstrPos(cmp)), "ok",
				"the first listed type that matches leaves the scan: no later comparison can undo the match", true)
		})
	}
	r.Floor("R04i", n, 1)
}

// ---- R02h: user callbacks are not called under an engine lock --------------------------------------

// A finish handler, an observer or any other function value kept in a field is code of the host. It
// may call back into the object that calls it (AllErrors, HighestPriority, NewChildMonitor from a
// finish handler). The engine's mutexes are not re-entrant: calling such a function while one of
// them is held deadlocks the worker that delivers the notification — the wait of the next cascades
// never returns. Rule (package engine): no dynamic call of a function value loaded from a struct
// field is made where a lock of the module may be held.
func c02CallbacksOutsideLocks(c *Ctx, r *Result, lfs *LockFlows) {
	n := 0
	for _, fn := range c.ModFuncs() {
		if c.PkgOf(fn) != "engine" && c.PkgOf(fn) != "engine/pubsub" {
			continue
		}
		key := c.FuncKey(fn)
		ord := newOrdinals()
		lf := lfs.Of(fn)
		allInstrs(fn, func(in ssa.Instruction) {
			call, ok := in.(*ssa.Call)
			if !ok || call.Call.IsInvoke() || call.Call.StaticCallee() != nil {
				return
			}
			ld, ok := unspill(call.Call.Value).(*ssa.UnOp)
			if !ok || ld.Op != token.MUL {
				return
			}
			if _, isField := ld.X.(*ssa.FieldAddr); !isField {
				return
			}
			if _, isSig := call.Call.Value.Type().Underlying().(*types.Signature); !isSig {
				return
			}
			n++
			site := ord.key(key, "callback", accessPath(call.Call.Value))
			pos := c.Pos(c.InstrPos(in))
			var held []string
			if lf != nil {
				held = lf.MayHoldClasses(in)
			}
			if len(held) == 0 && fn.Parent() != nil {
				// a function literal: the locks its own body takes are in lf; nothing else known
			}
			if len(held) == 0 {
				r.Instance("R02h", site, pos, "ok", "the stored function is called with no lock of the module held", true)
				return
			}
			r.Instance("R02h", site, pos, "finding", "a stored function is called under "+fmt.Sprint(held), true)
			r.Report(Finding{Rule: "R02h", Site: site, Pos: pos,
				Msg: fmt.Sprintf("%s: the function value %s (code of the host) is called while %v may be held: a handler that calls back into the same object (AllErrors, HighestPriority, NewChildMonitor from a finish handler) blocks on the non-re-entrant lock — the worker never returns and later waits never end", key, accessPath(call.Call.Value), held)})
		})
	}
	r.Floor("R02h", n, 1)
}

// ---- R15j: no lock of the debug front end is held across code that can suspend ---------------------

// Evaluating ECAL code under a debugger can suspend the evaluating goroutine (VisitState waits on
// the thread's condition). A mutex of the debug server held across such a call is then held for as
// long as the thread is suspended: the continue command that would release the thread arrives on
// another connection and blocks on that mutex. Rule (package cli/tool): where a sync.Mutex /
// RWMutex of the package may be held, no call is made whose callees (class-hierarchy graph) can
// reach sync.Cond.Wait.
func c15NoLockAcrossSuspension(c *Ctx, r *Result, lfs *LockFlows) {
	// functions that can reach Cond.Wait: reverse closure over the call graph
	cg := c.CHA()
	canWait := map[*ssa.Function]bool{}
	var work []*ssa.Function
	for fn, node := range cg.Nodes {
		if fn == nil {
			continue
		}
		if fn.Name() == "Wait" && fn.Pkg != nil && fn.Pkg.Pkg.Path() == "sync" && fn.Signature.Recv() != nil && strings.Contains(fn.Signature.Recv().Type().String(), "Cond") {
			canWait[fn] = true
			work = append(work, fn)
			_ = node
		}
	}
	for len(work) > 0 {
		fn := work[len(work)-1]
		work = work[:len(work)-1]
		node := cg.Nodes[fn]
		if node == nil {
			continue
		}
		for _, e := range node.In {
			cf := e.Caller.Func
			if cf != nil && !canWait[cf] && (c.inModule(cf) || cf.Synthetic != "") {
				canWait[cf] = true
				work = append(work, cf)
			}
		}
	}
	n := 0
	for _, fn := range c.ModFuncs() {
		if c.PkgOf(fn) != "cli/tool" {
			continue
		}
		lf := lfs.Of(fn)
		if lf == nil || len(lf.Ops) == 0 {
			continue
		}
		key := c.FuncKey(fn)
		ord := newOrdinals()
		allInstrs(fn, func(in ssa.Instruction) {
			ci, ok := in.(ssa.CallInstruction)
			if !ok {
				return
			}
			if _, isOp := lockOpOf(in); isOp {
				return
			}
			if _, isDefer := in.(*ssa.Defer); isDefer {
				return
			}
			held := lf.MayHoldClasses(in)
			var own []string
			for _, h := range held {
				if strings.HasPrefix(h, "tool.") || strings.HasPrefix(h, "cli/tool.") {
					own = append(own, h)
				}
			}
			if len(own) == 0 {
				return
			}
			n++
			suspends := ""
			for _, callee := range c.Callees(ci) {
				if canWait[callee] && c.inModule(callee) {
					suspends = c.FuncKey(callee)
					break
				}
			}
			site := ord.key(key, "call-under-lock", callName(in))
			pos := c.Pos(c.InstrPos(in))
			if suspends == "" {
				r.Instance("R15j", site, pos, "ok", "no callee can reach a condition wait", true)
				return
			}
			r.Instance("R15j", site, pos, "finding", fmt.Sprintf("%v held across %s, which can suspend", own, suspends), true)
			r.Report(Finding{Rule: "R15j", Site: site, Pos: pos,
				Msg: fmt.Sprintf("%s: %v may be held across the call of %s, which can reach a condition wait (a thread suspended at a breakpoint): the lock stays held while the thread is suspended, and the continue command that would release it — arriving on another connection — blocks on the same lock", key, own, suspends)})
		})
	}
	r.Extra["calls_under_a_front_end_lock"] = n
}

// ---- R18g: a line counter is advanced only for a newline ---------------------------------------
//
// For every rune-valued SSA value v that the function compares with '\n', a forward dataflow over the
// function's CFG computes the set of constants v can equal at the advance, refined by the `v == c` /
// `v != c` branches on the way (domain: ⊤ or a finite set; a loop-carried v is ⊤ at its definition).
// "{'\n'}" at the advance is the established case. A finite set with another member is a finding: the
// branches themselves say that the advance is reached for a rune that is not a newline (the exit of
// `for r != '\n' && r != '\r' && r != EOF` followed by `line++`). ⊤ for every candidate is left to
// the other rules (the bulk form, a helper predicate): nothing is reported.
type c18RuneSet struct {
	bottom, top bool
	set         map[int64]bool
}

func (a c18RuneSet) equal(b c18RuneSet) bool {
	if a.bottom != b.bottom || a.top != b.top || len(a.set) != len(b.set) {
		return false
	}
	for k := range a.set {
		if !b.set[k] {
			return false
		}
	}
	return true
}

func (a c18RuneSet) join(b c18RuneSet) c18RuneSet {
	if a.bottom {
		return b
	}
	if b.bottom {
		return a
	}
	if a.top || b.top {
		return c18RuneSet{top: true}
	}
	out := c18RuneSet{set: map[int64]bool{}}
	for k := range a.set {
		out.set[k] = true
	}
	for k := range b.set {
		out.set[k] = true
	}
	return out
}

// c18RuneCmp: cond is `v == c` / `v != c` (possibly negated); returns c and whether the true edge means equality.
func c18RuneCmp(cond ssa.Value, v ssa.Value) (int64, bool, bool) {
	neg := false
	for {
		u, ok := cond.(*ssa.UnOp)
		if !ok || u.Op != token.NOT {
			break
		}
		neg = !neg
		cond = u.X
	}
	bo, ok := cond.(*ssa.BinOp)
	if !ok || (bo.Op != token.EQL && bo.Op != token.NEQ) {
		return 0, false, false
	}
	var k int64
	if bo.X == v {
		if k, ok = constInt(bo.Y); !ok {
			return 0, false, false
		}
	} else if bo.Y == v {
		if k, ok = constInt(bo.X); !ok {
			return 0, false, false
		}
	} else {
		return 0, false, false
	}
	eq := bo.Op == token.EQL
	if neg {
		eq = !eq
	}
	return k, eq, true
}

func c18RuneStates(fn *ssa.Function, v ssa.Value) []c18RuneSet {
	in := make([]c18RuneSet, len(fn.Blocks))
	for i := range in {
		in[i] = c18RuneSet{bottom: true}
	}
	in[0] = c18RuneSet{top: true}
	var defBlock *ssa.BasicBlock
	if vi, ok := v.(ssa.Instruction); ok {
		defBlock = vi.Block()
	}
	work := []*ssa.BasicBlock{fn.Blocks[0]}
	for steps := 0; len(work) > 0 && steps < 100000; steps++ {
		b := work[len(work)-1]
		work = work[:len(work)-1]
		st := in[b.Index]
		if st.bottom {
			continue
		}
		if b == defBlock {
			st = c18RuneSet{top: true}
		}
		for i, s := range b.Succs {
			out := st
			if t, ok := b.Instrs[len(b.Instrs)-1].(*ssa.If); ok {
				if k, eq, ok := c18RuneCmp(t.Cond, v); ok {
					isEq := eq == (i == 0)
					switch {
					case isEq && (st.top || st.set[k]):
						out = c18RuneSet{set: map[int64]bool{k: true}}
					case isEq:
						out = c18RuneSet{bottom: true}
					case !st.top:
						out = c18RuneSet{set: map[int64]bool{}}
						for x := range st.set {
							if x != k {
								out.set[x] = true
							}
						}
						if len(out.set) == 0 {
							out = c18RuneSet{bottom: true}
						}
					}
				}
			}
			j := in[s.Index].join(out)
			if !j.equal(in[s.Index]) {
				in[s.Index] = j
				work = append(work, s)
			}
		}
	}
	return in
}

// c18NewlineOnly decides R18g for one advance; it returns whether the instance was decided.
func c18NewlineOnly(c *Ctx, r *Result, fn *ssa.Function, adv *ssa.BinOp, site, pos, key string) bool {
	var cands []ssa.Value
	seen := map[ssa.Value]bool{}
	allInstrs(fn, func(in ssa.Instruction) {
		bo, ok := in.(*ssa.BinOp)
		if !ok || (bo.Op != token.EQL && bo.Op != token.NEQ) {
			return
		}
		for _, pair := range [][2]ssa.Value{{bo.X, bo.Y}, {bo.Y, bo.X}} {
			if k, ok := constInt(pair[1]); ok && k == '\n' && !seen[pair[0]] {
				if _, isConst := pair[0].(*ssa.Const); !isConst {
					seen[pair[0]] = true
					cands = append(cands, pair[0])
				}
			}
		}
	})
	bad := ""
	for _, v := range cands {
		st := c18RuneStates(fn, v)[adv.Block().Index]
		if vi, ok := v.(ssa.Instruction); ok && vi.Block() == adv.Block() {
			continue // defined in the block of the advance: no branch can have tested it
		}
		if st.bottom || st.top {
			continue
		}
		if len(st.set) == 1 && st.set['\n'] {
			r.Instance("R18g", site, pos, "ok", "the branches leading to the advance establish that the scanned rune is a newline", true)
			return true
		}
		var others []string
		for k := range st.set {
			if k != '\n' {
				others = append(others, fmt.Sprintf("%q", rune(k)))
			}
		}
		sort.Strings(others)
		if len(others) > 0 && bad == "" {
			bad = strings.Join(others, ", ")
		}
	}
	if bad == "" {
		return false
	}
	r.Instance("R18g", site, pos, "finding", "the advance is reached for a rune that is "+bad, true)
	r.Report(Finding{Rule: "R18g", Site: site, Pos: pos,
		Msg: fmt.Sprintf("%s: the line counter is advanced on a path on which the scanned rune is %s, not a newline (the comparisons on the way say so): every later token is reported one line too far down", key, bad)})
	return true
}

// ---- R09e: no stop request is pending where a worker is started --------------------------------
//
// "Changing the worker count converges to the requested number": a worker started while the counter of
// workers that should stop is non-zero is stopped again by a request that belonged to an earlier
// shrink. At every `go` statement of package pool that starts a worker, ThreadPool.workerKill is known
// to be zero: a forward must-dataflow over the CFG (zero after a store of the constant 0 or on the
// equal edge of a comparison with 0; unknown after any other store, after a call that can write the
// field, and after an unlock of the lock guarding it — another thread may set it). A function that starts a worker without
// establishing it hands the obligation to each of its call sites (two levels).
func c09StartWithoutPendingStop(c *Ctx, r *Result) {
	fKill := c.Field("engine/pool", "ThreadPool", "workerKill")
	if fKill == nil {
		r.Undecide("R09e: field ThreadPool.workerKill not found")
		return
	}
	// functions that may write the field (transitively over static callees inside the module)
	writes := map[*ssa.Function]bool{}
	for _, fn := range c.ModFuncs() {
		allInstrs(fn, func(in ssa.Instruction) {
			if st, ok := in.(*ssa.Store); ok && fieldVar(st.Addr) == fKill {
				writes[fn] = true
			}
		})
	}
	for changed := true; changed; {
		changed = false
		for _, fn := range c.ModFuncs() {
			if writes[fn] {
				continue
			}
			allInstrs(fn, func(in ssa.Instruction) {
				if _, isGo := in.(*ssa.Go); isGo {
					return // a started thread writes the field under the lock its starter holds, i.e. later
				}
				if ci, ok := in.(ssa.CallInstruction); ok && !writes[fn] {
					for _, callee := range c.Callees(ci) {
						if writes[callee] {
							writes[fn] = true
							changed = true
						}
					}
				}
			})
		}
	}
	isKillLoad := func(v ssa.Value) bool {
		u, ok := stripNumConv(v).(*ssa.UnOp)
		return ok && u.Op == token.MUL && fieldVar(u.X) == fKill
	}
	// zeroBefore: the field is known to be zero just before `at` in fn
	zeroBefore := func(fn *ssa.Function, at ssa.Instruction) bool {
		in := make([]int8, len(fn.Blocks)) // 0 = unvisited, 1 = zero, 2 = unknown
		in[0] = 2
		res := false
		seenAt := false
		work := []*ssa.BasicBlock{fn.Blocks[0]}
		for len(work) > 0 {
			b := work[len(work)-1]
			work = work[:len(work)-1]
			zero := in[b.Index] == 1
			for _, x := range b.Instrs {
				if x == at {
					if !seenAt {
						res, seenAt = zero, true
					} else {
						res = res && zero
					}
				}
				switch y := x.(type) {
				case *ssa.Store:
					if fieldVar(y.Addr) == fKill {
						k, ok := constInt(y.Val)
						zero = ok && k == 0
					}
				case ssa.CallInstruction:
					if _, isDefer := x.(*ssa.Defer); isDefer {
						continue
					}
					if op, ok := lockOpOf(x); ok {
						if (op.Kind == "Unlock" || op.Kind == "RUnlock") && op.Class == "pool.ThreadPool.workerMapLock" {
							zero = false // the lock that guards the field (R09b-guard) is given up: another thread may set it
						}
						continue
					}
					if _, isGo := x.(*ssa.Go); isGo {
						continue // the started thread needs the lock the starter holds
					}
					for _, callee := range c.Callees(y) {
						if writes[callee] {
							zero = false
						}
					}
				}
			}
			for i, s := range b.Succs {
				out := zero
				if t, ok := b.Instrs[len(b.Instrs)-1].(*ssa.If); ok {
					if bo, ok := t.Cond.(*ssa.BinOp); ok && (bo.Op == token.EQL || bo.Op == token.NEQ) {
						var other ssa.Value
						if isKillLoad(bo.X) {
							other = bo.Y
						} else if isKillLoad(bo.Y) {
							other = bo.X
						}
						if k, isC := constInt(other); other != nil && isC && k == 0 && (bo.Op == token.EQL) == (i == 0) {
							// the load is of this block or a dominating one with no store between: require the same block
							if ld, ok := stripNumConv(pick(isKillLoad(bo.X), bo.X, bo.Y)).(*ssa.UnOp); ok && ld.Block() == b && noKillStoreAfter(b, ld, fKill) {
								out = true
							}
						}
					}
				}
				var nv int8 = 2
				if out {
					nv = 1
				}
				old := in[s.Index]
				if old == 0 || (old == 1 && nv == 2) {
					in[s.Index] = nv
					work = append(work, s)
				}
			}
		}
		return seenAt && res
	}
	n := 0
	for _, fn := range c.ModFuncs() {
		if c.PkgOf(fn) != "engine/pool" {
			continue
		}
		key := c.FuncKey(fn)
		ord := newOrdinals()
		allInstrs(fn, func(in ssa.Instruction) {
			g, ok := in.(*ssa.Go)
			if !ok {
				return
			}
			n++
			site := ord.key(key, "start", callName(g))
			pos := c.Pos(c.InstrPos(in))
			// the obligation at this statement, or at every call site of the function (two levels up)
			var holds func(fn *ssa.Function, at ssa.Instruction, depth int) (bool, string)
			holds = func(fn *ssa.Function, at ssa.Instruction, depth int) (bool, string) {
				if zeroBefore(fn, at) {
					return true, ""
				}
				if depth == 0 {
					return false, c.FuncKey(fn)
				}
				node := c.CHA().Nodes[fn]
				if node == nil || len(node.In) == 0 {
					return false, c.FuncKey(fn)
				}
				sites := 0
				for _, e := range node.In {

					if e.Caller.Func != nil && e.Caller.Func.Synthetic != "" {
						continue // a compiler-generated wrapper: its own callers are edges of the wrapped function
					}
					if e.Site == nil || e.Caller.Func == nil || !c.inModule(e.Caller.Func) {
						return false, c.FuncKey(fn)
					}
					sites++
					if ok, where := holds(e.Caller.Func, e.Site, depth-1); !ok {
						return false, where
					}
				}
				return sites > 0, c.FuncKey(fn)
			}
			if ok, _ := holds(fn, in, 2); ok {
				r.Instance("R09e", site, pos, "ok", "the counter of workers to stop is zero on every path to the start of the worker", true)
			} else {
				r.Instance("R09e", site, pos, "finding", "a stop request can be pending (not established here nor at every call site of the function)", true)
				r.Report(Finding{Rule: "R09e", Site: site, Pos: pos,
					Msg: fmt.Sprintf("%s: a worker is started while ThreadPool.workerKill is not known to be zero (neither on every path to the statement nor at every call site of the function): a stop request left from an earlier shrink is consumed afterwards and the pool ends up with fewer workers than SetWorkerCount was asked for", key)})
			}
		})
	}
	r.Floor("R09e", n, 1)
}

func pick(first bool, a, b ssa.Value) ssa.Value {
	if first {
		return a
	}
	return b
}

// noKillStoreAfter: no store to the field between the load and the end of its block.
func noKillStoreAfter(b *ssa.BasicBlock, ld ssa.Instruction, f *types.Var) bool {
	after := false
	for _, x := range b.Instrs {
		if x == ld {
			after = true
			continue
		}
		if after {
			if st, ok := x.(*ssa.Store); ok && fieldVar(st.Addr) == f {
				return false
			}
			if _, ok := x.(ssa.CallInstruction); ok {
				return false
			}
		}
	}
	return after
}

// ---- publish-then-write: an object handed to a shared container under a lock is complete -------
//
// A freshly allocated object that is stored into a map or field while a lock is held (that is how the
// module shares an object between threads: the next holder of the lock can see it) is not written by
// the same function after that lock has been given up — the reader that found it in the container
// would race with the write and could see the object half initialised. Instances: every store of a
// local allocation into a map element / field under a must-held lock; the writes examined are the
// field stores through the same allocation that can follow the store (without passing the allocation
// again: a loop creates a new object).
func cPublishThenWrite(c *Ctx, r *Result, rule string, lfs *LockFlows, pkgs map[string]bool) int {
	n := 0
	for _, fn := range c.ModFuncs() {
		if !pkgs[c.PkgOf(fn)] {
			continue
		}
		lf := lfs.Of(fn)
		if lf == nil || len(lf.ClassOf) == 0 {
			continue
		}
		key := c.FuncKey(fn)
		ord := newOrdinals()
		allocOf := func(v ssa.Value) *ssa.Alloc {
			for d := 0; d < 4; d++ {
				switch x := v.(type) {
				case *ssa.Alloc:
					if x.Heap {
						return x
					}
					return nil
				case *ssa.MakeInterface:
					v = x.X
				case *ssa.ChangeInterface:
					v = x.X
				case *ssa.ChangeType:
					v = x.X
				default:
					return nil
				}
			}
			return nil
		}
		allInstrs(fn, func(in ssa.Instruction) {
			var obj *ssa.Alloc
			shared := false
			switch x := in.(type) {
			case *ssa.MapUpdate:
				obj = allocOf(x.Value)
				if u, ok := x.Map.(*ssa.UnOp); ok && u.Op == token.MUL {
					if fieldVar(u.X) != nil {
						shared = true
					} else if _, ok := u.X.(*ssa.Global); ok {
						shared = true
					}
				}
			case *ssa.Store:
				obj = allocOf(x.Val)
				if fieldVar(x.Addr) != nil {
					if _, local := rootOf(x.Addr).(*ssa.Alloc); !local {
						shared = true
					}
				} else if _, ok := x.Addr.(*ssa.Global); ok {
					shared = true
				}
			}
			if obj == nil || !shared {
				return
			}
			if _, isStruct := obj.Type().Underlying().(*types.Pointer).Elem().Underlying().(*types.Struct); !isStruct {
				return
			}
			var held []string
			for p := range lf.ClassOf {
				if lf.MustHoldPath(in, p, false) {
					held = append(held, p)
				}
			}
			if len(held) == 0 {
				return
			}
			sort.Strings(held)
			n++
			site := ord.key(key, "publish", accessPath(obj))
			pos := c.Pos(c.InstrPos(in))
			// instructions that can follow the publication without creating the object anew
			var late ssa.Instruction
			seen := map[*ssa.BasicBlock]bool{}
			var scan func(b *ssa.BasicBlock, from int)
			scan = func(b *ssa.BasicBlock, from int) {
				for i := from; i < len(b.Instrs) && late == nil; i++ {
					x := b.Instrs[i]
					if x == ssa.Instruction(obj) {
						return
					}
					st, ok := x.(*ssa.Store)
					if !ok {
						continue
					}
					fa, ok := st.Addr.(*ssa.FieldAddr)
					if !ok || fa.X != ssa.Value(obj) {
						continue
					}
					stillHeld := false
					for _, p := range held {
						if lf.MustHoldPath(x, p, false) {
							stillHeld = true
						}
					}
					if !stillHeld {
						late = x
					}
				}
				for _, s := range b.Succs {
					if !seen[s] && late == nil {
						seen[s] = true
						scan(s, 0)
					}
				}
			}
			b := in.Block()
			for i, x := range b.Instrs {
				if x == in {
					scan(b, i+1)
				}
			}
			if late == nil {
				r.Instance(rule, site, pos, "ok", "no field of the object is written after the lock under which it was stored is given up", true)
				return
			}
			r.Instance(rule, site, pos, "finding", "written at "+c.Pos(c.InstrPos(late))+" after the lock was given up", true)
			r.Report(Finding{Rule: rule, Site: site, Pos: pos,
				Msg: fmt.Sprintf("%s: the new object is stored into a shared container under %v and one of its fields is written afterwards at %s without that lock: a thread that finds the object in the container reads the field while it is written (a data race, and it can see the object before it is complete)", key, held, c.Pos(c.InstrPos(late)))})
		})
	}
	return n
}
