package main

// Matching of open obligations with the reviewed tables (C06, C16).
//
// Reviewed entries are keyed by construct (function, kind, operand expression). A rewrite that only
// changes how the construct is spelled or where it sits must not void the argument, while a new
// construct must not inherit one. An obligation without an exact entry adopts an entry
//   - whose function no longer exists, with the same construct text in the same package (unique);
//   - of the same function and shape (kind + asserted type / sliced operand / construct text) whose
//     exact construct is gone, if all such entries carry one common argument and there are at least
//     as many of them as open obligations of that shape (two assertions merged into one);
//   - of a function that statically calls this one, same shape, construct gone there, one common
//     argument, at least as many as open obligations here (the construct moved into a helper).

import (
	"sort"
	"strings"

	"golang.org/x/tools/go/ssa"
)

func reviewedNormKey(site string) string {
	if i := strings.Index(site, "#slice:"); i >= 0 {
		// a slice expression is matched by (function, sliced operand): fn#slice:l.input
		rest := site[i+len("#slice:"):]
		if j := strings.Index(rest, "["); j > 0 {
			return site[:i] + "#slice:" + rest[:j]
		}
		return ""
	}
	if i := strings.Index(site, "#tokennil:"); i >= 0 {
		// a token dereference is matched by (function, last field of the node path): the node of an
		// interrogation state is the same whether it is read as ed.interrogationStates[tid].node
		// or through a local copy of the state
		rest := site[i+len("#tokennil:"):]
		if k := strings.LastIndex(rest, "#"); k > 0 {
			rest = rest[:k]
		}
		if j := strings.LastIndex(rest, "."); j >= 0 {
			return site[:i] + "#tokennil:*" + rest[j:]
		}
		return site[:i] + "#tokennil:" + rest
	}
	i := strings.Index(site, "#assert:")
	if i < 0 {
		// other kinds: the construct as written, without its ordinal
		if k := strings.LastIndex(site, "#"); k > strings.Index(site, "#") {
			allDigits := k+1 < len(site)
			for _, ch := range site[k+1:] {
				if ch < '0' || ch > '9' {
					allDigits = false
				}
			}
			if allDigits {
				return site[:k]
			}
		}
		return ""
	}
	j := strings.LastIndex(site, ".(")
	if j < i {
		return ""
	}
	k := strings.LastIndex(site, "#")
	if k < j {
		k = len(site)
	}
	return site[:i] + "#assert" + site[j:k]
}

// matchReviewed rewrites the Site of adopted obligations to the key of the entry they adopt.
func matchReviewed(c *Ctx, table map[string]string, funcs []*ssa.Function, obsByFn map[*ssa.Function][]Obligation) {
	normKey := reviewedNormKey
	reviewedByNorm := map[string][]string{}
	for site := range table {
		if nk := normKey(site); nk != "" {
			reviewedByNorm[nk] = append(reviewedByNorm[nk], site)
		}
	}
	funcKeys := map[string]bool{}
	for _, fn := range c.ModFuncs() {
		funcKeys[c.FuncKey(fn)] = true
	}
	tailOf := func(site string) (fn, tail string) {
		i := strings.Index(site, "#")
		if i < 0 {
			return site, ""
		}
		return site[:i], site[i:]
	}
	pkgOfKey := func(fnKey string) string {
		if i := strings.Index(fnKey, "."); i >= 0 {
			return fnKey[:i]
		}
		return fnKey
	}
	orphanByTail := map[string][]string{} // pkg + "#" + construct -> entries
	for site := range table {
		fnKey, tail := tailOf(site)
		if !funcKeys[fnKey] && tail != "" {
			k := pkgOfKey(fnKey) + tail
			orphanByTail[k] = append(orphanByTail[k], site)
		}
	}
	allSites := map[string]bool{}
	fnByKey := map[string]*ssa.Function{}
	used := map[string]bool{}
	for _, fn := range funcs {
		fnByKey[c.FuncKey(fn)] = fn
		for _, ob := range obsByFn[fn] {
			// an entry is taken by the construct at its site only if that construct needs it: when the
			// ordinal now names a construct the facts discharge, the entry is free to follow the one that moved
			if !ob.Discharged || table[ob.Site] == "" {
				allSites[ob.Site] = true
			}
			if !ob.Discharged && table[ob.Site] != "" {
				used[ob.Site] = true
			}
		}
	}
	for _, fn := range funcs {
		obs := obsByFn[fn]
		openByNorm := map[string]int{}
		adoptedByNorm := map[string]int{}
		for _, ob := range obs {
			if !ob.Discharged && table[ob.Site] == "" {
				if nk := normKey(ob.Site); nk != "" {
					openByNorm[nk]++
				}
			}
		}
		for i := range obs {
			ob := &obs[i]
			if ob.Discharged || table[ob.Site] != "" {
				continue
			}
			if fnKey, tail := tailOf(ob.Site); tail != "" {
				if cands := orphanByTail[pkgOfKey(fnKey)+tail]; len(cands) == 1 && !used[cands[0]] {
					ob.Site = cands[0]
					used[cands[0]] = true
					continue
				}
			}
			nk := normKey(ob.Site)
			if nk == "" {
				continue
			}
			var gone []string
			same := true
			for _, site := range reviewedByNorm[nk] {
				if table[site] != table[reviewedByNorm[nk][0]] {
					same = false
				}
				if !allSites[site] && !used[site] {
					gone = append(gone, site)
				}
			}
			sort.Strings(gone)
			if len(gone) == 0 && len(reviewedByNorm[nk]) == 0 {
				tailNk := nk[strings.Index(nk, "#"):]
				var cands []string
				arg := ""
				sameArg := true
				for site := range table {
					snk := normKey(site)
					if snk == "" || !strings.HasSuffix(snk, tailNk) || snk[:len(snk)-len(tailNk)] == c.FuncKey(fn) {
						continue
					}
					efn := fnByKey[snk[:len(snk)-len(tailNk)]]
					if efn == nil || allSites[site] || used[site] {
						continue
					}
					if !callsWithin(c, efn, fn, 2) {
						continue
					}
					if arg == "" {
						arg = table[site]
					} else if arg != table[site] {
						sameArg = false
					}
					cands = append(cands, site)
				}
				sort.Strings(cands)
				if sameArg && len(cands) > 0 && openByNorm[nk] <= len(cands)+adoptedByNorm[nk] {
					ob.Site = cands[0]
					used[cands[0]] = true
					adoptedByNorm[nk]++
				}
				continue
			}
			if !same || len(gone) == 0 || openByNorm[nk] > len(gone)+adoptedByNorm[nk] {
				continue
			}
			ob.Site = gone[0]
			used[gone[0]] = true
			adoptedByNorm[nk]++
		}
	}
}

// callsWithin: `from` reaches `to` over at most depth static calls inside the package (a construct that
// moved into a helper of a helper is still the construct the reviewed argument is about).
func callsWithin(c *Ctx, from, to *ssa.Function, depth int) bool {
	if depth == 0 {
		return false
	}
	for g := range staticCalleesIn(c, from) {
		if g == to || callsWithin(c, g, to, depth-1) {
			return true
		}
	}
	return false
}
