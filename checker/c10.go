package main

// C10 — priorities order execution; the first failing rule ends a trigger sequence.

import (
	"fmt"
	"go/token"
	"go/types"
	"strings"

	"golang.org/x/tools/go/ssa"
)

func init() { register("C10", checkC10) }

func checkC10(c *Ctx, r *Result, tier string) {
	r.Explanation = "Decides four structural necessary conditions of C10: (R10a) activation accounting is balanced — every function marking a monitor activated also counts its priority in the root monitor, and the finish path decrements only under the activated test; " +
		"(R10b) the rule loop executes exactly the slice that was sorted, the sort dominates the loop, and the ordering function is 'Priority <' in index order; (R10c) a task is queued with its own monitor's priority and the dequeue returns the priority queue's own Pop; " +
		"(R10d) the rule loop has an exit controlled by failOnFirstError ∧ errors≠∅ placed after the action ran and its error was recorded."
	r.RuleText = "R10a pairing (store activated=true ⇒ counting call on every path; decrement control-dependent on IsActivated); R10b same-SSA-value sort→loop + Less shape; R10c provenance of the priority argument / of Pop's result; R10d loop-exit condition shape and position"
	r.NotCovered = "The dequeue order under all schedules (the heap of krotik/common, trusted), HighestPriority's value for arbitrary histories beyond the accounting balance, stability among equal priorities."
	r.Assumptions = []string{"sortutil.PriorityQueue orders by (priority, insertion) as documented", "sort.Sort orders by Less"}

	fActivated := c.Field("engine", "monitorBase", "activated")
	fIncomplete := c.Field("engine", "RootMonitor", "incomplete")
	monIface := c.Interface("engine", "Monitor")
	procIface := c.Interface("engine", "Processor")
	if fActivated == nil || fIncomplete == nil || monIface == nil || procIface == nil {
		r.Undecide("anchors monitorBase.activated / RootMonitor.incomplete / Monitor / Processor not found")
		return
	}

	// functions that increment / decrement incomplete[...]
	incr, decr := map[*ssa.Function]bool{}, map[*ssa.Function][]*ssa.MapUpdate{}
	for _, fn := range c.ModFuncs() {
		for _, a := range elemAccessesOf(fn, fIncomplete) {
			mu, ok := a.Instr.(*ssa.MapUpdate)
			if !ok {
				continue
			}
			if bo, ok := mu.Value.(*ssa.BinOp); ok {
				if k, isC := constInt(bo.Y); isC && k > 0 {
					if bo.Op == token.ADD {
						incr[fn] = true
					} else if bo.Op == token.SUB {
						decr[fn] = append(decr[fn], mu)
					}
				}
			}
		}
	}
	r.Floor("R10a-incrementers", len(incr), 1)
	r.Floor("R10a-decrementers", len(decr), 1)

	// ---- R10a ----------------------------------------------------------------------------------
	n := 0
	for _, st := range fieldStores(c, fActivated) {
		cv, isC := st.Val.(*ssa.Const)
		if !isC || cv.Value == nil || cv.Value.String() != "true" {
			continue
		}
		fn := st.Parent()
		if freshIn(baseOf(st.Addr)) {
			continue
		}
		n++
		key := c.FuncKey(fn)
		site := key + "#activated=true"
		pos := c.Pos(c.InstrPos(st))
		ok := false
		allInstrs(fn, func(in ssa.Instruction) {
			ci, isCall := in.(ssa.CallInstruction)
			if !isCall || !callReaches(c, ci, incr, 2) {
				return
			}
			if dominates(in, st) {
				ok = true
			} else if dominates(st, in) {
				// every return reachable from the store is dominated by the call
				all := true
				allInstrs(fn, func(x ssa.Instruction) {
					if _, isRet := x.(*ssa.Return); isRet && x.Block() != fn.Recover && canReach(st, x) && !dominates(in, x) {
						all = false
					}
				})
				if all {
					ok = true
				}
			}
		})
		if ok {
			r.Instance("R10a", site, pos, "ok", "the root's per-priority counter is incremented on every path through this store", true)
		} else {
			r.Instance("R10a", site, pos, "finding", "activated without being counted", true)
			r.Report(Finding{Rule: "R10a", Site: site, Pos: pos,
				Msg: key + ": marks the monitor activated without counting its priority in the root monitor; its Finish then decrements an entry that was never incremented — HighestPriority() is wrong (or the entry goes negative) after such an event"})
		}
	}
	r.Floor("R10a", n, 1)
	for fn, mus := range decr {
		key := c.FuncKey(fn)
		for i, mu := range mus {
			site := fmt.Sprintf("%s#decrement#%d", key, i)
			pos := c.Pos(c.InstrPos(mu))
			guardedAt := func(f *ssa.Function, at ssa.Instruction) bool {
				for _, b := range f.Blocks {
					ifi, isIf := b.Instrs[len(b.Instrs)-1].(*ssa.If)
					if !isIf {
						continue
					}
					call, isCall := unspill(ifi.Cond).(*ssa.Call)
					if !isCall {
						continue
					}
					if o := calleeObj(call.Common()); o == nil || o.Name() != "IsActivated" {
						continue
					}
					br := b.Succs[0]
					if len(br.Preds) == 1 && (br == at.Block() || br.Dominates(at.Block())) {
						return true
					}
				}
				return false
			}
			ok := guardedAt(fn, mu)
			if !ok {
				// the decrement as a helper (rm.priorityCompleted(m.Priority())): the guard is owed by every call site
				if node := c.CHA().Nodes[fn]; node != nil {
					sites := 0
					all := true
					for _, e := range node.In {
						if e.Caller.Func == nil || e.Caller.Func.Synthetic != "" {
							continue
						}
						if e.Site == nil || !c.inModule(e.Caller.Func) || !guardedAt(e.Caller.Func, e.Site) {
							all = false
						}
						sites++
					}
					ok = all && sites > 0
				}
			}
			if ok {
				r.Instance("R10a-dec", site, pos, "ok", "decrement is control dependent on IsActivated()", true)
			} else {
				r.Instance("R10a-dec", site, pos, "finding", "unconditional decrement", true)
				r.Report(Finding{Rule: "R10a-dec", Site: site, Pos: pos,
					Msg: key + ": the per-priority counter is decremented on a path not guarded by the monitor's activated flag (skipped monitors were never counted)"})
			}
		}
	}

	// ---- R10b / R10d: the rule loop -------------------------------------------------------------
	fAction := c.Field("engine", "Rule", "Action")
	fFail := c.Field("engine", "eventProcessor", "failOnFirstError")
	n = 0
	for _, fn := range c.Implementations(procIface, "ProcessEvent") {
		n++
		c10RuleLoop(c, r, fn, fAction, fFail)
	}
	r.Floor("R10b-loop", n, 1)
	c10Less(c, r)

	// ---- R10c -------------------------------------------------------------------------------------
	c10Queue(c, r, monIface)
	c10HeapMapSync(c, r, fIncomplete)
	c10PriorityWidth(c, r, monIface)
	c10SettingFrame(c, r)
}

func c10RuleLoop(c *Ctx, r *Result, fn *ssa.Function, fAction, fFail *types.Var) {
	key := c.FuncKey(fn)
	if fAction == nil || fFail == nil {
		r.Undecide("Rule.Action / eventProcessor.failOnFirstError not found")
		return
	}
	// the action call — possibly in a helper the loop was extracted into
	rl := findRuleLoop(c, fn, fAction)
	if rl == nil {
		r.Undecide("R10b: the call of Rule.Action on an element of a slice was not found in %s", key)
		return
	}
	actionCall := rl.Action
	pos := c.Pos(c.InstrPos(actionCall))
	selFn, selVals, selCall := rl.selection(c)
	isSort := func(name string, _ ssa.CallInstruction) bool {
		return strings.HasSuffix(name, "engine.SortRuleSlice") || name == "sort.Sort" || name == "sort.Stable"
	}
	ok := false
	why := "no sort call"
	// where the loop starts, seen from the function that holds the sort
	loopStart := func(in *ssa.Function) ssa.Instruction {
		switch {
		case in == rl.LoopFn:
			return actionCall
		case rl.LoopCall != nil && in == rl.Proc:
			return rl.LoopCall
		}
		return nil
	}
	if selCall != nil {
		// the executing slice is the result of a selection helper; sorted in the processor method ...
		if cv, isVal := selCall.(ssa.Value); isVal {
			for _, s := range callSites(rl.Proc, isSort) {
				if unspill(stripConv(s.Common().Args[0])) != unspill(cv) {
					continue
				}
				if ls := loopStart(rl.Proc); ls != nil && dominates(s, ls) && !(inLoop(s.Block()) && sccOf(s.Block())[ls.Block()]) {
					ok = true
				} else {
					why = "the sort does not dominate the rule loop"
				}
			}
		}
	}
	if selCall != nil && !ok {
		// ... or in the helper: the sort is applied there to the value that is returned, and
		// dominates every return
		for _, s := range callSites(selFn, isSort) {
			arg := stripConv(s.Common().Args[0])
			all := len(selVals) > 0
			for _, rv := range selVals {
				if unspill(rv) != unspill(arg) {
					all = false
				}
			}
			if !all {
				why = fmt.Sprintf("the sorted value (%s) is not the slice %s returns", accessPath(arg), selFn.Name())
				continue
			}
			dom := true
			allInstrs(selFn, func(in ssa.Instruction) {
				if ret, isRet := in.(*ssa.Return); isRet && in.Block() != selFn.Recover && len(ret.Results) > 0 {
					if _, isNil := ret.Results[0].(*ssa.Const); !isNil && !dominates(s, in) {
						dom = false
					}
				}
			})
			if !dom {
				why = "the sort does not dominate the return of the selected rules"
				continue
			}
			ok = true
		}
	} else {
		e := selVals[0]
		for _, s := range callSites(selFn, isSort) {
			arg := s.Common().Args[0]
			if unspill(stripConv(arg)) != unspill(e) {
				why = fmt.Sprintf("the sorted value (%s) is not the slice the loop executes (%s)", accessPath(arg), accessPath(e))
				continue
			}
			ls := loopStart(selFn)
			if ls == nil || !dominates(s, ls) {
				why = "the sort does not dominate the rule loop"
				continue
			}
			if inLoop(s.Block()) && ls == ssa.Instruction(actionCall) && sccOf(s.Block())[actionCall.Block()] {
				why = "the sort is inside the rule loop"
				continue
			}
			ok = true
		}
	}
	if ok {
		r.Instance("R10b", key+"#sort-then-loop", pos, "ok", "the slice whose elements' Action is called is the value that was sorted, and the sort precedes the loop", true)
	} else {
		r.Instance("R10b", key+"#sort-then-loop", pos, "finding", why, true)
		r.Report(Finding{Rule: "R10b", Site: key + "#sort-then-loop", Pos: pos,
			Msg: key + ": " + why + " — rules of one event would not run in ascending priority"})
	}

	// R10d
	loop := sccOf(actionCall.Block())
	if loop == nil {
		r.Undecide("R10d: the action call of %s is not in a loop", key)
		return
	}
	found := false
	whyD := "no exit of the rule loop is controlled by failOnFirstError"
	for b := range loop {
		ifi, isIf := b.Instrs[len(b.Instrs)-1].(*ssa.If)
		if !isIf {
			continue
		}
		ld, isLoad := unspill(ifi.Cond).(*ssa.UnOp)
		if !isLoad || fieldVar(ld.X) != fFail {
			continue
		}
		// true branch: test len(errors) > 0 then leave the loop
		t := b.Succs[0]
		if len(t.Instrs) == 0 {
			continue
		}
		if if2, ok := t.Instrs[len(t.Instrs)-1].(*ssa.If); ok {
			bo, isBin := if2.Cond.(*ssa.BinOp)
			lenOK := false
			if isBin && bo.Op == token.GTR {
				if k, isC := constInt(bo.Y); isC && k == 0 {
					if call, isCall := bo.X.(*ssa.Call); isCall && isBuiltinCall(call, "len") {
						if _, isMap := call.Call.Args[0].Type().Underlying().(*types.Map); isMap {
							lenOK = true
						}
					}
				}
			}
			if lenOK && !loop[t.Succs[0]] {
				if !dominates(actionCall, ifi) {
					whyD = "the fail-first exit is tested before the action ran"
					continue
				}
				// the error is recorded before the test: no map update of the errors after the test in this iteration
				late := false
				for lb := range loop {
					for _, in := range lb.Instrs {
						if mu, isMU := in.(*ssa.MapUpdate); isMU {
							if _, isErr := mu.Value.Type().Underlying().(*types.Interface); isErr && dominates(ifi, mu) {
								late = true
							}
						}
					}
				}
				if late {
					whyD = "the error is recorded after the fail-first test"
					continue
				}
				found = true
			}
		}
	}
	if !found {
		// flag form: `stop = failOnFirstError && len(errors) > 0` after the action, loop condition `... && !stop`
		for b := range loop {
			for _, in := range b.Instrs {
				phi, isPhi := in.(*ssa.Phi)
				if !isPhi {
					break
				}
				if !isLoopHeaderPhi(phi) || phi.Type().String() != "bool" {
					continue
				}
				// the back-edge value: false when the flag field is false, len(errors) > 0 otherwise
				okBack := false
				for i, pr := range b.Preds {
					if !b.Dominates(pr) {
						continue
					}
					v, isV := phi.Edges[i].(*ssa.Phi)
					if !isV || len(v.Edges) != 2 {
						continue
					}
					hasFalse, hasLen, underFail := false, false, false
					for j, e := range v.Edges {
						if cv, isC := e.(*ssa.Const); isC && cv.Value != nil && cv.Value.String() == "false" {
							hasFalse = true
							continue
						}
						if bo, isB := e.(*ssa.BinOp); isB && bo.Op == token.GTR {
							if k, isC := constInt(bo.Y); isC && k == 0 {
								if call, isCall := bo.X.(*ssa.Call); isCall && isBuiltinCall(call, "len") {
									if _, isMap := call.Call.Args[0].Type().Underlying().(*types.Map); isMap {
										hasLen = true
										// computed under failOnFirstError == true
										pb := v.Block().Preds[j]
										if len(pb.Instrs) > 0 {
											for fv := range FactsAt(pb.Instrs[len(pb.Instrs)-1]).TrueV {
												if ld, isLd := fv.(*ssa.UnOp); isLd && fieldVar(ld.X) == fFail {
													underFail = true
												}
											}
										}
										if dominates(actionCall, bo) {
											// after the action
										} else {
											hasLen = false
										}
									}
								}
							}
						}
					}
					if hasFalse && hasLen && underFail {
						okBack = true
					}
				}
				if !okBack {
					continue
				}
				// the loop is left when the flag is true: some exit edge of the loop is taken under phi == true / !phi == false
				for lb := range loop {
					ifi, isIf := lb.Instrs[len(lb.Instrs)-1].(*ssa.If)
					if !isIf {
						continue
					}
					cond := ifi.Cond
					neg := false
					if u, isU := cond.(*ssa.UnOp); isU && u.Op == token.NOT {
						cond, neg = u.X, true
					}
					if cond != ssa.Value(phi) {
						continue
					}
					exitSucc := lb.Succs[0] // taken when cond true
					if neg {
						exitSucc = lb.Succs[1]
					}
					if !loop[exitSucc] {
						found = true
					}
				}
			}
		}
	}
	if found {
		r.Instance("R10d", key+"#fail-first", pos, "ok", "loop exit under failOnFirstError ∧ len(errors) > 0, after the action and the recording of its error", true)
	} else {
		r.Instance("R10d", key+"#fail-first", pos, "finding", whyD, true)
		r.Report(Finding{Rule: "R10d", Site: key + "#fail-first", Pos: pos, Msg: key + ": " + whyD})
	}
}

// c10Less: RuleSlice.Less is s[i].Priority < s[j].Priority.
func c10Less(c *Ctx, r *Result) {
	fn := c.Method("engine", "RuleSlice", "Less")
	fPrio := c.Field("engine", "Rule", "Priority")
	if fn == nil || fPrio == nil {
		r.Undecide("R10b: engine.RuleSlice.Less / Rule.Priority not found")
		return
	}
	key := c.FuncKey(fn)
	ok := false
	allInstrs(fn, func(in ssa.Instruction) {
		ret, isRet := in.(*ssa.Return)
		if !isRet || len(ret.Results) != 1 {
			return
		}
		bo, isBin := ret.Results[0].(*ssa.BinOp)
		if !isBin || bo.Op != token.LSS {
			return
		}
		side := func(v ssa.Value) string {
			ld, isLoad := v.(*ssa.UnOp)
			if !isLoad || fieldVar(ld.X) != fPrio {
				return ""
			}
			// &(*(&s[idx])).Priority
			fa := ld.X.(*ssa.FieldAddr)
			l2, isL := fa.X.(*ssa.UnOp)
			if !isL {
				return ""
			}
			switch ia := l2.X.(type) {
			case *ssa.IndexAddr:
				return accessPath(ia.Index)
			case *ssa.Index:
				return accessPath(ia.Index)
			}
			return ""
		}
		if len(fn.Params) == 3 && side(bo.X) == fn.Params[1].Name() && side(bo.Y) == fn.Params[2].Name() {
			ok = true
		}
	})
	if ok {
		r.Instance("R10b-less", key, c.Pos(fn.Pos()), "ok", "Less(i,j) = s[i].Priority < s[j].Priority", true)
	} else {
		r.Instance("R10b-less", key, c.Pos(fn.Pos()), "finding", "ordering function is not Priority < in index order", true)
		r.Report(Finding{Rule: "R10b-less", Site: key, Pos: c.Pos(fn.Pos()),
			Msg: key + ": the ordering function is not 's[i].Priority < s[j].Priority' over its parameters in order: rules of one event would not run in ascending priority number"})
	}
}

// c10Queue: Push uses the task's own monitor's priority; Pop returns PriorityQueue.Pop's result.
func c10Queue(c *Ctx, r *Result, monIface *types.Interface) {
	fM := c.Field("engine", "Task", "m")
	if fM == nil {
		r.Undecide("R10c: engine.Task.m not found")
		return
	}
	nPush, nPop := 0, 0
	for _, fn := range c.ModFuncs() {
		if c.PkgOf(fn) != "engine" {
			continue
		}
		key := c.FuncKey(fn)
		allInstrs(fn, func(in ssa.Instruction) {
			ci, ok := in.(ssa.CallInstruction)
			if !ok {
				return
			}
			name := callName(in)
			if strings.HasSuffix(name, "sortutil.PriorityQueue.Push") {
				nPush++
				args := callArgs(ci.Common()) // q, value, priority
				site := fmt.Sprintf("%s#pq.Push#%d", key, nPush)
				pos := c.Pos(c.InstrPos(in))
				good := false
				if len(args) == 3 {
					task := stripConv(args[1])
					if pc, isCall := args[2].(*ssa.Call); isCall && pc.Call.IsInvoke() && pc.Call.Method.Name() == "Priority" &&
						types.Identical(pc.Call.Value.Type().Underlying(), monIface) {
						// receiver = task.m
						if ld, isLoad := pc.Call.Value.(*ssa.UnOp); isLoad {
							if fa, isFA := ld.X.(*ssa.FieldAddr); isFA && fieldVar(fa) == fM && fa.X == task {
								good = true
							}
						}
					}
				}
				if good {
					r.Instance("R10c", site, pos, "ok", "queued with task.m.Priority() of the same task", true)
				} else {
					r.Instance("R10c", site, pos, "finding", "priority is not the task's own monitor's priority", true)
					r.Report(Finding{Rule: "R10c", Site: site, Pos: pos,
						Msg: key + ": the priority a task is queued with is not the Priority() of that task's own monitor: events would be taken in the wrong order"})
				}
			}
			if strings.HasSuffix(name, "sortutil.PriorityQueue.Pop") {
				nPop++
				site := fmt.Sprintf("%s#pq.Pop#%d", key, nPop)
				pos := c.Pos(c.InstrPos(in))
				v := in.(ssa.Value)
				returned := false
				for _, res := range returnedValues(fn, 0) {
					rv := stripConv(res)
					if ta, isTA := rv.(*ssa.TypeAssert); isTA {
						rv = ta.X
					}
					if e, isE := rv.(*ssa.Extract); isE {
						if ta, isTA := e.Tuple.(*ssa.TypeAssert); isTA {
							rv = ta.X
						}
					}
					if rv == v {
						returned = true
					}
				}
				if returned {
					r.Instance("R10c-pop", site, pos, "ok", "the dequeue returns the priority queue's own Pop", true)
				} else {
					r.Instance("R10c-pop", site, pos, "finding", "Pop result not returned", true)
					r.Report(Finding{Rule: "R10c-pop", Site: site, Pos: pos,
						Msg: key + ": the result of PriorityQueue.Pop is not what the dequeue returns (a popped event would be lost or another one returned)"})
				}
			}
		})
	}
	r.Floor("R10c", nPush, 1)
	r.Floor("R10c-pop", nPop, 1)
}

// ---- R10e: the priority heap and the per-priority counters stay in step --------------------------

// The root monitor reports its highest priority from a heap (priorities) whose membership is
// maintained through the key set of a map (incomplete): a priority is pushed when its key is
// absent and removed when its counter reaches zero. The report is right only while
// "p ∈ heap ⇔ p ∈ keys(incomplete)" holds; structurally: every removal from the heap is paired
// with the deletion of the same key (and vice versa) on every path, every push is made under
// the absence test of the same key and followed by the insertion of that key on every path.
func c10HeapMapSync(c *Ctx, r *Result, fIncomplete *types.Var) {
	fPrio := c.Field("engine", "RootMonitor", "priorities")
	if fPrio == nil {
		r.Undecide("R10e: RootMonitor.priorities not found")
		return
	}
	loadsField := func(v ssa.Value, f *types.Var) bool {
		ld, ok := stripConv(v).(*ssa.UnOp)
		if !ok || ld.Op != token.MUL {
			return false
		}
		fa, ok := ld.X.(*ssa.FieldAddr)
		return ok && fieldVar(fa) == f
	}
	// every path from `from` to a return passes one of `stops`
	allPathsPass := func(fn *ssa.Function, from ssa.Instruction, stops map[ssa.Instruction]bool) bool {
		seenB := map[*ssa.BasicBlock]bool{}
		var escape func(b *ssa.BasicBlock, i0 int) bool
		escape = func(b *ssa.BasicBlock, i0 int) bool {
			for i := i0; i < len(b.Instrs); i++ {
				if stops[b.Instrs[i]] {
					return false
				}
				if _, isRet := b.Instrs[i].(*ssa.Return); isRet && b != fn.Recover {
					return true
				}
			}
			for _, s := range b.Succs {
				if !seenB[s] {
					seenB[s] = true
					if escape(s, 0) {
						return true
					}
				}
			}
			return false
		}
		return !escape(from.Block(), instrIndex(from)+1)
	}
	nPairs := 0
	for _, fn := range c.ModFuncs() {
		if c.PkgOf(fn) != "engine" {
			continue
		}
		type op struct {
			in  ssa.Instruction
			key ssa.Value
		}
		var removes, pushes, deletes, inserts []op
		allInstrs(fn, func(in ssa.Instruction) {
			switch x := in.(type) {
			case *ssa.Call:
				args := callArgs(x.Common())
				name := callName(x)
				switch {
				case isBuiltinCall(x, "delete") && len(args) == 2 && loadsField(args[0], fIncomplete):
					deletes = append(deletes, op{in, args[1]})
				case len(args) >= 2 && loadsField(args[0], fPrio) && (strings.HasSuffix(name, ".RemoveFirst") || strings.HasSuffix(name, ".RemoveAll")):
					removes = append(removes, op{in, args[1]})
				case name == "container/heap.Push" && len(args) == 2 && loadsField(args[0], fPrio):
					pushes = append(pushes, op{in, args[1]})
				case name == "container/heap.Pop" && len(args) == 1 && loadsField(args[0], fPrio):
					removes = append(removes, op{in, nil})
				}
			case *ssa.MapUpdate:
				if loadsField(x.Map, fIncomplete) {
					inserts = append(inserts, op{in, x.Key})
				}
			}
		})
		if len(removes)+len(pushes)+len(deletes) == 0 {
			continue
		}
		key := c.FuncKey(fn)
		sameKey := func(a, b ssa.Value) bool {
			if a == nil || b == nil {
				return false
			}
			a, b = stripConv(a), stripConv(b)
			return a == b || equivValue(a, b, 0)
		}
		paired := func(x op, others []op) bool {
			for _, o := range others {
				if !sameKey(x.key, o.key) {
					continue
				}
				if dominates(x.in, o.in) && allPathsPass(fn, x.in, map[ssa.Instruction]bool{o.in: true}) {
					return true
				}
				if dominates(o.in, x.in) && allPathsPass(fn, o.in, map[ssa.Instruction]bool{x.in: true}) {
					return true
				}
			}
			return false
		}
		ord := newOrdinals()
		report := func(kind string, in ssa.Instruction, msg string) {
			site := ord.key(key, "heap-map", kind)
			pos := c.Pos(c.InstrPos(in))
			r.Instance("R10e", site, pos, "finding", msg, true)
			r.Report(Finding{Rule: "R10e", Site: site, Pos: pos,
				Msg: key + ": " + msg + " — the heap of active priorities and the key set of the per-priority counters fall out of step, and HighestPriority() omits an activated, unfinished monitor (or reports a finished one)"})
		}
		okAll := true
		for _, x := range removes {
			nPairs++
			if !paired(x, deletes) {
				okAll = false
				report("remove", x.in, "a priority is removed from the heap without the deletion of the same key from the counter map on every path")
			}
		}
		for _, x := range deletes {
			nPairs++
			if !paired(x, removes) {
				okAll = false
				report("delete", x.in, "a key is deleted from the counter map without the removal of the same priority from the heap on every path")
			}
		}
		for _, x := range pushes {
			nPairs++
			// under the absence test of the same key
			absent := false
			for v := range FactsAt(x.in).FalseV {
				if e, ok := v.(*ssa.Extract); ok && e.Index == 1 {
					if lk, ok := e.Tuple.(*ssa.Lookup); ok && lk.CommaOk && loadsField(lk.X, fIncomplete) && sameKey(lk.Index, keyOfPush(x.key)) {
						absent = true
					}
				}
			}
			stops := map[ssa.Instruction]bool{}
			for _, ins := range inserts {
				if sameKey(ins.key, keyOfPush(x.key)) {
					stops[ins.in] = true
				}
			}
			switch {
			case !absent:
				okAll = false
				report("push", x.in, "a priority is pushed onto the heap on a path where its key is not known to be absent from the counter map (it could be pushed twice, or never again)")
			case len(stops) == 0 || !allPathsPass(fn, x.in, stops):
				okAll = false
				report("push", x.in, "a priority is pushed onto the heap without its key being inserted into the counter map on every path")
			}
		}
		if okAll {
			r.Instance("R10e", key+"#heap-map", c.Pos(fn.Pos()), "ok", fmt.Sprintf("%d removal(s)/deletion(s) paired on the same key, %d push(es) under the absence test and followed by the insertion", len(removes)+len(deletes), len(pushes)), true)
		}
	}
	r.Floor("R10e", nPairs, 2)
}

// keyOfPush: heap.Push takes interface{}: the boxed int.
func keyOfPush(v ssa.Value) ssa.Value {
	if mi, ok := v.(*ssa.MakeInterface); ok {
		return mi.X
	}
	return v
}

// ---- R10f: a priority is carried as an int from the API to the queue ------------------------------

// The public API takes priorities as int; the task queue and the root monitor's report compare
// them as int. Anything narrower in between (a field, a conversion) folds distinct priorities
// onto each other and reverses their order (MaxInt64 becomes -1 in 32 bits).
func c10PriorityWidth(c *Ctx, r *Result, monIface *types.Interface) {
	n := 0
	intT := types.Typ[types.Int]
	narrower := func(t types.Type) bool {
		b, ok := t.Underlying().(*types.Basic)
		if !ok || b.Info()&types.IsInteger == 0 {
			return false
		}
		switch b.Kind() {
		case types.Int8, types.Int16, types.Int32, types.Uint8, types.Uint16, types.Uint32:
			return true
		}
		return false
	}
	// fields named like a priority in package engine
	for _, nt := range c.allNamed() {
		if nt.Obj().Pkg() == nil || !strings.HasSuffix(nt.Obj().Pkg().Path(), "/engine") {
			continue
		}
		st, ok := nt.Underlying().(*types.Struct)
		if !ok {
			continue
		}
		for i := 0; i < st.NumFields(); i++ {
			f := st.Field(i)
			if !strings.EqualFold(f.Name(), "priority") {
				continue
			}
			n++
			site := "engine." + nt.Obj().Name() + "." + f.Name() + "#width"
			if !types.Identical(f.Type(), intT) && narrower(f.Type()) {
				r.Instance("R10f", site, c.Pos(f.Pos()), "finding", "priority stored as "+f.Type().String(), true)
				r.Report(Finding{Rule: "R10f", Site: site, Pos: c.Pos(f.Pos()),
					Msg: fmt.Sprintf("the priority of engine.%s is stored as %s although the API takes and the queue compares int: large priority numbers are truncated (MaxInt64 becomes -1), such an event is taken before events with small numbers and the root monitor reports a wrong highest priority", nt.Obj().Name(), f.Type().String())})
			} else {
				r.Instance("R10f", site, c.Pos(f.Pos()), "ok", "stored as "+f.Type().String(), true)
			}
		}
	}
	// narrowing conversions of values that are priorities: results of Priority(), parameters named priority
	for _, fn := range c.ModFuncs() {
		if c.PkgOf(fn) != "engine" {
			continue
		}
		key := c.FuncKey(fn)
		ord := newOrdinals()
		allInstrs(fn, func(in ssa.Instruction) {
			cv, ok := in.(*ssa.Convert)
			if !ok || !narrower(cv.Type()) {
				return
			}
			isPrio := false
			switch x := unspill(cv.X).(type) {
			case *ssa.Parameter:
				isPrio = strings.EqualFold(x.Name(), "priority")
			case *ssa.Call:
				isPrio = (x.Call.IsInvoke() && x.Call.Method.Name() == "Priority") || strings.HasSuffix(callName(x), ".Priority")
			case *ssa.UnOp:
				if fa, ok := x.X.(*ssa.FieldAddr); ok {
					if f := fieldVar(fa); f != nil && strings.EqualFold(f.Name(), "priority") {
						isPrio = true
					}
				}
			}
			if !isPrio {
				return
			}
			n++
			site := ord.key(key, "priority-narrowed", cv.Type().String())
			pos := c.Pos(c.InstrPos(in))
			r.Instance("R10f", site, pos, "finding", "priority converted to "+cv.Type().String(), true)
			r.Report(Finding{Rule: "R10f", Site: site, Pos: pos,
				Msg: fmt.Sprintf("%s converts a priority to %s: distinct priority numbers fold onto each other and large ones change sign — the ascending order of rules and queued events is no longer the order of the numbers the caller gave", key, cv.Type().String())})
		})
	}
	r.Floor("R10f", n, 2)
}
