package main

// C01 — exactly the matching, in-scope, unsuppressed rules fire once per event.

import (
	"fmt"
	"go/token"
	"go/types"
	"sort"
	"strings"

	"golang.org/x/tools/go/ssa"
)

func init() { register("C01", checkC01) }

func checkC01(c *Ctx, r *Result, tier string) {
	r.Explanation = "Decides four structural necessary conditions of C01 on the rule index: (R01a) the trigger memo is sound — every field of the event the memoised pre-check reads (transitively, over all index implementations) is part of the memo key; " +
		"(R01b) every mutation of the rule index resets the memo in the same function; (R01c) every shift whose count depends on the number of rules is dominated by a bound below the mask width; " +
		"(R01d) sibling cross-check: for each index implementation the negative length guard of the pre-check implies that of the full match and the match descends only into sub-indexes the pre-check also descends into (pre-check ⊇ match)."
	r.RuleText = "R01a Reads(G) ⊆ KeyFields for each lookup–miss–call–store memo in package engine; R01b reset-store paired with each index mutation; R01c dominating bound < 64 for non-constant shift counts; R01d relation-set inclusion of length guards and field-set inclusion of descents"
	r.NotCovered = "The match semantics itself (which rules match which event), suppression and scope filtering values, duplicate firing of a rule whose two kind patterns both match (a property of two pattern strings), unhashable state values (decided under C06)."
	r.Assumptions = []string{"CHA call graph for the transitive read set", "accessor methods are followed one level when deriving key fields"}

	c01Memo(c, r)
	c01Shifts(c, r)
	c01Siblings(c, r)
}

// structFieldsRead: fields of struct type T read by fn and everything it reaches in the module.
func structFieldsRead(c *Ctx, roots []*ssa.Function, T *types.Named) map[*types.Var][]string {
	out := map[*types.Var][]string{}
	reach := c.Reachable(roots, nil)
	for _, fn := range reach.Order {
		allInstrs(fn, func(in ssa.Instruction) {
			var f *types.Var
			var base types.Type
			switch x := in.(type) {
			case *ssa.FieldAddr:
				f, base = fieldVar(x), x.X.Type()
			case *ssa.Field:
				f, base = fieldVar(x), x.X.Type()
			default:
				return
			}
			if f == nil || namedOf(base) != T {
				return
			}
			// a FieldAddr that is only stored to is a write, not a read
			if fa, ok := in.(*ssa.FieldAddr); ok {
				onlyStore := true
				for _, ref := range *fa.Referrers() {
					if st, ok := ref.(*ssa.Store); !ok || st.Addr != fa {
						onlyStore = false
					}
				}
				if onlyStore {
					return
				}
			}
			out[f] = append(out[f], c.FuncKey(fn))
		})
	}
	return out
}

// keyFields: fields of T (reached from parameter p) the key value is derived from.
func keyFields(c *Ctx, key ssa.Value, p *ssa.Parameter, T *types.Named) map[*types.Var]bool {
	out := map[*types.Var]bool{}
	seen := map[ssa.Value]bool{}
	var walk func(v ssa.Value, d int)
	walk = func(v ssa.Value, d int) {
		if v == nil || seen[v] || d > 14 {
			return
		}
		seen[v] = true
		switch x := v.(type) {
		case *ssa.FieldAddr:
			if namedOf(x.X.Type()) == T {
				out[fieldVar(x)] = true
			}
			walk(x.X, d+1)
		case *ssa.Field:
			if namedOf(x.X.Type()) == T {
				out[fieldVar(x)] = true
			}
			walk(x.X, d+1)
		case *ssa.Call:
			if f := x.Call.StaticCallee(); f != nil && c.modFuncSet[f] {
				// accessor of T: the fields it reads
				for _, a := range x.Call.Args {
					if namedOf(a.Type()) == T {
						for fv := range structFieldsRead(c, []*ssa.Function{f}, T) {
							out[fv] = true
						}
					}
				}
			}
			for _, a := range callArgs(x.Common()) {
				walk(a, d+1)
			}
		case *ssa.Alloc:
			// variadic argument array / local cell: everything stored into it
			for _, ref := range *x.Referrers() {
				switch r := ref.(type) {
				case *ssa.Store:
					walk(r.Val, d+1)
				case *ssa.IndexAddr:
					for _, ref2 := range *r.Referrers() {
						if st, ok := ref2.(*ssa.Store); ok {
							walk(st.Val, d+1)
						}
					}
				}
			}
		default:
			if in, ok := v.(ssa.Instruction); ok {
				for _, op := range in.Operands(nil) {
					if *op != nil {
						walk(*op, d+1)
					}
				}
			}
		}
	}
	walk(key, 0)
	return out
}

// c01Memo finds lookup–miss–call–store memos in package engine and checks R01a / R01b.
func c01Memo(c *Ctx, r *Result) {
	nMemo := 0
	for _, fn := range c.ModFuncs() {
		if c.PkgOf(fn) != "engine" || fn.Signature.Recv() == nil {
			continue
		}
		// a comma-ok lookup and a map update on the same map field with the same key
		var looks []*ssa.Lookup
		var upds []*ssa.MapUpdate
		allInstrs(fn, func(in ssa.Instruction) {
			switch x := in.(type) {
			case *ssa.Lookup:
				if x.CommaOk && len(fieldChain(x.X)) > 0 {
					looks = append(looks, x)
				}
			case *ssa.MapUpdate:
				if len(fieldChain(x.Map)) > 0 {
					upds = append(upds, x)
				}
			}
		})
		for _, l := range looks {
			for _, u := range upds {
				lf, uf := fieldChain(l.X), fieldChain(u.Map)
				if lf[len(lf)-1] != uf[len(uf)-1] || accessPath(l.Index) != accessPath(u.Key) {
					continue
				}
				// the stored value comes from a call taking a parameter of struct pointer type
				call, _ := unspill(u.Value).(*ssa.Call)
				if call == nil {
					continue
				}
				var p *ssa.Parameter
				for _, a := range callArgs(call.Common()) {
					if pa, ok := a.(*ssa.Parameter); ok {
						if n := namedOf(pa.Type()); n != nil {
							if _, isStruct := n.Underlying().(*types.Struct); isStruct {
								p = pa
							}
						}
					}
				}
				if p == nil {
					continue
				}
				nMemo++
				T := namedOf(p.Type())
				cacheField := lf[len(lf)-1]
				key := c.FuncKey(fn)
				site := key + "#memo:" + cacheField.Name()
				pos := c.Pos(c.InstrPos(u))
				callees := c.Callees(call)
				reads := structFieldsRead(c, callees, T)
				kf := keyFields(c, l.Index, p, T)
				var missing, rs, ks []string
				for f := range reads {
					rs = append(rs, f.Name())
					if !kf[f] {
						missing = append(missing, f.Name())
					}
				}
				for f := range kf {
					ks = append(ks, f.Name())
				}
				sort.Strings(missing)
				sort.Strings(rs)
				sort.Strings(ks)
				if len(reads) == 0 {
					r.Undecide("R01a: the memoised function of %s reads no field of %s (read-set analysis failed)", key, T.Obj().Name())
				}
				if len(missing) > 0 {
					r.Instance("R01a", site, pos, "finding", fmt.Sprintf("Reads={%s} KeyFields={%s}", strings.Join(rs, ","), strings.Join(ks, ",")), true)
					r.Report(Finding{Rule: "R01a", Site: site, Pos: pos,
						Msg: fmt.Sprintf("%s memoises %s by a key derived from {%s}, but the memoised function reads {%s} of the %s: two events equal in the key and different in {%s} share one answer — an event that should trigger is reported as not triggering (or vice versa) depending on the events added before it",
							key, accessPath(call), strings.Join(ks, ","), strings.Join(rs, ","), T.Obj().Name(), strings.Join(missing, ","))})
				} else {
					r.Instance("R01a", site, pos, "ok", fmt.Sprintf("Reads={%s} ⊆ KeyFields={%s}", strings.Join(rs, ","), strings.Join(ks, ",")), true)
				}
				c01Invalidation(c, r, fn, cacheField)
			}
		}
	}
	r.Floor("R01a-memos", nMemo, 1)
}

// c01Invalidation: every method of the memo's owner that mutates the rule index resets the memo.
func c01Invalidation(c *Ctx, r *Result, memoFn *ssa.Function, cacheField *types.Var) {
	recvT := namedOf(memoFn.Signature.Recv().Type())
	idxIface := c.Interface("engine", "RuleIndex")
	if recvT == nil || idxIface == nil {
		r.Undecide("R01b: owner type / engine.RuleIndex not found")
		return
	}
	n := 0
	for _, fn := range c.ModFuncs() {
		if fn.Signature.Recv() == nil || namedOf(fn.Signature.Recv().Type()) != recvT {
			continue
		}
		var muts []ssa.Instruction
		allInstrs(fn, func(in ssa.Instruction) {
			if ci, ok := in.(ssa.CallInstruction); ok && ci.Common().IsInvoke() && ci.Common().Method.Name() == "AddRule" &&
				types.Identical(ci.Common().Value.Type().Underlying(), idxIface) {
				muts = append(muts, in)
			}
			if st, ok := in.(*ssa.Store); ok {
				if fa, ok := st.Addr.(*ssa.FieldAddr); ok && types.Identical(fieldVar(fa).Type().Underlying(), idxIface) && !freshIn(fa.X) {
					muts = append(muts, in)
				}
			}
		})
		if len(muts) == 0 {
			continue
		}
		var resets []ssa.Instruction
		for _, a := range accessesOf(fn, cacheField) {
			if st, ok := a.Instr.(*ssa.Store); ok && a.Write {
				resets = append(resets, st)
			}
		}
		key := c.FuncKey(fn)
		for i, m := range muts {
			n++
			site := fmt.Sprintf("%s#index-mutation#%d", key, i)
			pos := c.Pos(c.InstrPos(m))
			ok := false
			for _, rs := range resets {
				if dominates(rs, m) {
					ok = true
				} else if dominates(m, rs) {
					all := true
					allInstrs(fn, func(x ssa.Instruction) {
						if _, isRet := x.(*ssa.Return); isRet && x.Block() != fn.Recover && canReach(m, x) && !dominates(rs, x) {
							all = false
						}
					})
					if all {
						ok = true
					}
				}
			}
			if ok {
				r.Instance("R01b", site, pos, "ok", "the memo is reset on every path through this mutation of the rule index", true)
			} else {
				r.Instance("R01b", site, pos, "finding", "index mutated without resetting the memo", true)
				r.Report(Finding{Rule: "R01b", Site: site, Pos: pos,
					Msg: key + ": mutates the rule index without resetting " + cacheField.Name() + " on every path: stale 'not triggering' answers survive the change and events for the new rule are skipped"})
			}
		}
	}
	r.Floor("R01b", n, 2)
}

// c01Shifts: non-constant shift counts in package engine need a dominating bound < 64.
func c01Shifts(c *Ctx, r *Result) {
	n := 0
	for _, fn := range c.ModFuncs() {
		if c.PkgOf(fn) != "engine" {
			continue
		}
		key := c.FuncKey(fn)
		ord := newOrdinals()
		allInstrs(fn, func(in ssa.Instruction) {
			bo, ok := in.(*ssa.BinOp)
			if !ok || (bo.Op != token.SHL && bo.Op != token.SHR) {
				return
			}
			if _, isC := constInt(bo.Y); isC {
				return
			}
			n++
			width := int64(64)
			if b, ok := bo.Type().Underlying().(*types.Basic); ok {
				switch b.Kind() {
				case types.Uint32, types.Int32:
					width = 32
				case types.Uint16, types.Int16:
					width = 16
				case types.Uint8, types.Int8:
					width = 8
				}
			}
			site := ord.key(key, "shift", accessPath(bo.Y))
			pos := c.Pos(c.InstrPos(in))
			f := FactsAt(in)
			if f.upperBound(bo.Y, width) {
				r.Instance("R01c", site, pos, "ok", fmt.Sprintf("shift count %s is bounded below %d by a dominating condition", accessPath(bo.Y), width), true)
				return
			}
			r.Instance("R01c", site, pos, "finding", "unbounded shift count", true)
			r.Report(Finding{Rule: "R01c", Site: site, Pos: pos,
				Msg: fmt.Sprintf("%s: shift by %s, which grows with the number of rules, has no dominating bound below the mask width %d: with more rules than bits the mask wraps and rules are lost or matched wrongly (today: the collection loop never ends)", key, accessPath(bo.Y), width)})
		})
	}
	r.Extra["nonconstant_shifts_in_engine"] = n
}

// ---- R01d ---------------------------------------------------------------------------------------

// relset bits: 1 = len < level, 2 = len == level, 4 = len > level
func relsetOf(op token.Token) int {
	switch op {
	case token.LSS:
		return 1
	case token.LEQ:
		return 3
	case token.EQL:
		return 2
	case token.NEQ:
		return 5
	case token.GEQ:
		return 6
	case token.GTR:
		return 4
	}
	return 0
}

// negativeGuard extracts the set of relations between len(event.kind) and level under
// which the function returns its negative result (false / nil) because of the length guard.
func negativeGuard(fn *ssa.Function, fKind *types.Var) (int, bool) {
	if len(fn.Params) < 3 {
		return 0, false
	}
	level := fn.Params[2]
	isLenKind := func(v ssa.Value) bool {
		t := termOf(v)
		if !t.isLen() || t.Off != 0 {
			return false
		}
		ch := fieldChain(t.LenVal)
		return len(ch) > 0 && ch[len(ch)-1] == fKind
	}
	cmpOf := func(v ssa.Value) (token.Token, bool) {
		bo, ok := unspill(v).(*ssa.BinOp)
		if !ok {
			return 0, false
		}
		if isLenKind(bo.X) && stripNumConv(bo.Y) == ssa.Value(level) {
			return bo.Op, true
		}
		if isLenKind(bo.Y) && stripNumConv(bo.X) == ssa.Value(level) {
			return flipOp(bo.Op), true
		}
		return 0, false
	}
	// form 1: return <cmp> directly (boolean result): negative when the comparison is false
	for _, v := range returnedValues(fn, 0) {
		if op, ok := cmpOf(v); ok {
			return relsetOf(negateOp(op)), true
		}
	}
	// form 2: if <cmp> { return false/nil } — every branch that leads directly to a negative
	// return must be a recognised length guard (accumulated) or a descent condition
	// (loop termination, map lookup ok, result of the recursive call)
	neg := func(blk *ssa.BasicBlock) bool {
		if len(blk.Instrs) == 0 {
			return false
		}
		ret, ok := blk.Instrs[len(blk.Instrs)-1].(*ssa.Return)
		if !ok || len(ret.Results) != 1 || len(blk.Instrs) > 2 {
			return false
		}
		cv, ok := ret.Results[0].(*ssa.Const)
		return ok && (cv.Value == nil || cv.Value.String() == "false")
	}
	rel, found := 0, false
	for _, b := range fn.Blocks {
		ifi, ok := b.Instrs[len(b.Instrs)-1].(*ssa.If)
		if !ok || (!neg(b.Succs[0]) && !neg(b.Succs[1])) {
			continue
		}
		if op, ok := cmpOf(ifi.Cond); ok {
			found = true
			if neg(b.Succs[0]) {
				rel |= relsetOf(op)
			}
			if neg(b.Succs[1]) {
				rel |= relsetOf(negateOp(op))
			}
			continue
		}
		cond := unspill(ifi.Cond)
		if inLoop(b) {
			continue // loop termination / condition inside the descent loop
		}
		if e, ok := cond.(*ssa.Extract); ok {
			if _, isLookup := e.Tuple.(*ssa.Lookup); isLookup {
				continue
			}
		}
		if call, ok := cond.(*ssa.Call); ok && call.Call.IsInvoke() {
			continue
		}
		if bo, ok := cond.(*ssa.BinOp); ok && (bo.Op == token.EQL || bo.Op == token.NEQ) {
			// matchBits == 0 style tests on computed values (not on the event's kind length)
			tx, ty := termOf(bo.X), termOf(bo.Y)
			if !tx.isLen() && !ty.isLen() {
				continue
			}
		}
		return -1, true // an additional negative guard that is not understood
	}
	if found {
		return rel, true
	}
	return 0, false
}

// descentFields: fields of the receiver's struct whose elements a recursive call is applied to.
func descentFields(fn *ssa.Function, method string) map[string]bool {
	out := map[string]bool{}
	recv := namedOf(fn.Signature.Recv().Type())
	allInstrs(fn, func(in ssa.Instruction) {
		ci, ok := in.(ssa.CallInstruction)
		if !ok || !ci.Common().IsInvoke() || ci.Common().Method.Name() != method {
			return
		}
		// receiver value comes from a range / index over a field of the receiver
		for _, f := range fieldChainDeep(ci.Common().Value) {
			if f != nil {
				out[f.Name()] = true
			}
		}
		_ = recv
	})
	return out
}

// fieldChainDeep follows phis, extracts, lookups and range iteration back to struct fields.
func fieldChainDeep(v ssa.Value) []*types.Var {
	var out []*types.Var
	seen := map[ssa.Value]bool{}
	var walk func(v ssa.Value, d int)
	walk = func(v ssa.Value, d int) {
		if v == nil || seen[v] || d > 16 {
			return
		}
		seen[v] = true
		switch x := v.(type) {
		case *ssa.FieldAddr:
			out = append(out, fieldVar(x))
		case *ssa.Field:
			out = append(out, fieldVar(x))
		case *ssa.Phi:
			for _, e := range x.Edges {
				walk(e, d+1)
			}
		case *ssa.UnOp:
			walk(x.X, d+1)
		case *ssa.IndexAddr:
			walk(x.X, d+1)
		case *ssa.Index:
			walk(x.X, d+1)
		case *ssa.Lookup:
			walk(x.X, d+1)
		case *ssa.Extract:
			walk(x.Tuple, d+1)
		case *ssa.Next:
			walk(x.Iter, d+1)
		case *ssa.Range:
			walk(x.X, d+1)
		case *ssa.Alloc:
			for _, s := range cellSources(x) {
				walk(s, d+1)
			}
		}
	}
	walk(v, 0)
	return out
}

func c01Siblings(c *Ctx, r *Result) {
	sub := c.Interface("engine", "ruleSubIndex")
	fKind := c.Field("engine", "Event", "kind")
	if sub == nil || fKind == nil {
		r.Undecide("R01d: engine.ruleSubIndex / Event.kind not found")
		return
	}
	pre := c.Implementations(sub, "isTriggeringAtLevel")
	full := c.Implementations(sub, "matchAtLevel")
	byRecv := func(fs []*ssa.Function) map[*types.Named]*ssa.Function {
		m := map[*types.Named]*ssa.Function{}
		for _, f := range fs {
			m[namedOf(f.Signature.Recv().Type())] = f
		}
		return m
	}
	pm, fm := byRecv(pre), byRecv(full)
	n := 0
	var names []*types.Named
	for t := range pm {
		names = append(names, t)
	}
	sort.Slice(names, func(i, j int) bool { return names[i].Obj().Name() < names[j].Obj().Name() })
	for _, t := range names {
		p, f := pm[t], fm[t]
		if f == nil {
			r.Undecide("R01d: %s has a pre-check but no match", t.Obj().Name())
			continue
		}
		n++
		site := "engine." + t.Obj().Name() + "#precheck-vs-match"
		pos := c.Pos(p.Pos())
		pg, ok1 := negativeGuard(p, fKind)
		mg, ok2 := negativeGuard(f, fKind)
		if !ok1 || !ok2 {
			r.Undecide("R01d: the length guard of %s could not be extracted (pre-check: %v, match: %v) — guard is not a direct comparison of len(event.kind) with the level", t.Obj().Name(), ok1, ok2)
			continue
		}
		pd, md := descentFields(p, "isTriggeringAtLevel"), descentFields(f, "matchAtLevel")
		var missing []string
		for d := range md {
			if !pd[d] {
				missing = append(missing, d)
			}
		}
		sort.Strings(missing)
		rel := func(s int) string {
			var xs []string
			if s&1 != 0 {
				xs = append(xs, "<")
			}
			if s&2 != 0 {
				xs = append(xs, "=")
			}
			if s&4 != 0 {
				xs = append(xs, ">")
			}
			return "{" + strings.Join(xs, "") + "}"
		}
		switch {
		case pg < 0:
			r.Instance("R01d", site, pos, "finding", "unrecognised negative guard in the pre-check", true)
			r.Report(Finding{Rule: "R01d", Site: site, Pos: pos,
				Msg: fmt.Sprintf("%s: the pre-check has a branch returning false whose condition is neither the length guard shared with the full match nor a descent condition: it can reject events the index matches", t.Obj().Name())})
		case mg >= 0 && pg&^mg != 0:
			r.Instance("R01d", site, pos, "finding", "pre-check rejects where match accepts", true)
			r.Report(Finding{Rule: "R01d", Site: site, Pos: pos,
				Msg: fmt.Sprintf("%s: the pre-check returns false for len(kind) %s level, the full match rejects only for %s: an event the index would match is reported as not triggering and is skipped", t.Obj().Name(), rel(pg), rel(mg))})
		case len(missing) > 0:
			r.Instance("R01d", site, pos, "finding", "match descends where the pre-check does not", true)
			r.Report(Finding{Rule: "R01d", Site: site, Pos: pos,
				Msg: fmt.Sprintf("%s: the full match descends into {%s}, the pre-check does not: events matched only through these sub-indexes are skipped", t.Obj().Name(), strings.Join(missing, ","))})
		default:
			r.Instance("R01d", site, pos, "ok", fmt.Sprintf("negative guard pre %s ⊆ match %s; descents match {%s} ⊆ pre {%s}", rel(pg), rel(mg), keysOf(md), keysOf(pd)), true)
		}
	}
	r.Floor("R01d", n, 2)
}

func keysOf(m map[string]bool) string {
	var s []string
	for k := range m {
		s = append(s, k)
	}
	sort.Strings(s)
	return strings.Join(s, ",")
}
