package main

// C01 — exactly the matching, in-scope, unsuppressed rules fire once per event.

import (
	"fmt"
	"go/token"
	"go/types"
	"sort"
	"strings"

	"golang.org/x/tools/go/ssa"
)

func init() { register("C01", checkC01) }

func checkC01(c *Ctx, r *Result, tier string) {
	r.Explanation = "Decides four structural necessary conditions of C01 on the rule index: (R01a) the trigger memo is sound — every field of the event the memoised pre-check reads (transitively, over all index implementations) is part of the memo key; " +
		"(R01b) every mutation of the rule index resets the memo in the same function; (R01c) every shift whose count depends on the number of rules is dominated by a bound below the mask width; " +
		"(R01d) sibling cross-check: for each index implementation the negative length guard of the pre-check implies that of the full match and the match descends only into sub-indexes the pre-check also descends into (pre-check ⊇ match)."
	r.RuleText = "R01a Reads(G) ⊆ KeyFields for each lookup–miss–call–store memo in package engine; R01b reset-store paired with each index mutation; R01c dominating bound < 64 for non-constant shift counts; R01d relation-set inclusion of length guards and field-set inclusion of descents"
	r.NotCovered = "The match semantics itself (which rules match which event), suppression and scope filtering values, duplicate firing of a rule whose two kind patterns both match (a property of two pattern strings), unhashable state values (decided under C06)."
	r.Assumptions = []string{"CHA call graph for the transitive read set", "accessor methods are followed one level when deriving key fields"}

	c01Memo(c, r)
	c01Shifts(c, r)
	c01Siblings(c, r)
	c01Pipeline(c, r)
	c01Fresh(c, r)
	c01MatchFormula(c, r)
	c01ScopeWalk(c, r)
	c01DefaultScope(c, r)
}

// structFieldsRead: fields of struct type T read by fn and everything it reaches in the module.
func structFieldsRead(c *Ctx, roots []*ssa.Function, T *types.Named) map[*types.Var][]string {
	out := map[*types.Var][]string{}
	// reachability with one level of context for function-valued parameters: a helper that is
	// handed a function literal and calls it (a visitor) reaches, from this call site, that
	// literal only — not every literal any caller hands to it
	type item struct {
		fn   *ssa.Function
		bind map[*ssa.Parameter]*ssa.Function
	}
	keyOf := func(it item) string {
		var parts []string
		for p, f := range it.bind {
			parts = append(parts, p.Name()+"="+c.FuncKey(f))
		}
		sort.Strings(parts)
		return c.FuncKey(it.fn) + "|" + strings.Join(parts, ",")
	}
	seenCtx := map[string]bool{}
	seenFn := map[*ssa.Function]bool{}
	var order []*ssa.Function
	var work []item
	for _, r0 := range roots {
		work = append(work, item{r0, nil})
	}
	for len(work) > 0 {
		it := work[len(work)-1]
		work = work[:len(work)-1]
		k := keyOf(it)
		if seenCtx[k] || len(it.fn.Blocks) == 0 && it.fn.Synthetic == "" {
			continue
		}
		seenCtx[k] = true
		if !seenFn[it.fn] {
			seenFn[it.fn] = true
			order = append(order, it.fn)
		}
		allInstrs(it.fn, func(in ssa.Instruction) {
			if mc, ok := in.(*ssa.MakeClosure); ok {
				_ = mc // reached when called
			}
			ci, ok := in.(ssa.CallInstruction)
			if !ok {
				return
			}
			if prm, isPrm := ci.Common().Value.(*ssa.Parameter); isPrm && !ci.Common().IsInvoke() {
				if f, bound := it.bind[prm]; bound {
					work = append(work, item{f, nil})
					return
				}
			}
			for _, callee := range c.Callees(ci) {
				if !c.inModule(callee) {
					continue
				}
				var nb map[*ssa.Parameter]*ssa.Function
				args := callArgs(ci.Common())
				for i, a := range args {
					if mc, isMC := stripConv(a).(*ssa.MakeClosure); isMC && i < len(callee.Params) {
						if cf, isF := mc.Fn.(*ssa.Function); isF {
							if nb == nil {
								nb = map[*ssa.Parameter]*ssa.Function{}
							}
							nb[callee.Params[i]] = cf
						}
					}
				}
				work = append(work, item{callee, nb})
			}
		})
	}
	sort.Slice(order, func(i, j int) bool { return c.FuncKey(order[i]) < c.FuncKey(order[j]) })
	for _, fn := range order {
		allInstrs(fn, func(in ssa.Instruction) {
			var f *types.Var
			var base types.Type
			switch x := in.(type) {
			case *ssa.FieldAddr:
				f, base = fieldVar(x), x.X.Type()
			case *ssa.Field:
				f, base = fieldVar(x), x.X.Type()
			default:
				return
			}
			if f == nil || namedOf(base) != T {
				return
			}
			// a FieldAddr that is only stored to is a write, not a read
			if fa, ok := in.(*ssa.FieldAddr); ok {
				onlyStore := true
				for _, ref := range *fa.Referrers() {
					if st, ok := ref.(*ssa.Store); !ok || st.Addr != fa {
						onlyStore = false
					}
				}
				if onlyStore {
					return
				}
			}
			out[f] = append(out[f], c.FuncKey(fn))
		})
	}
	return out
}

// keyFields: fields of T (reached from parameter p) the key value is derived from.
func keyFields(c *Ctx, key ssa.Value, p *ssa.Parameter, T *types.Named) map[*types.Var]bool {
	out := map[*types.Var]bool{}
	seen := map[ssa.Value]bool{}
	var walk func(v ssa.Value, d int)
	walk = func(v ssa.Value, d int) {
		if v == nil || seen[v] || d > 14 {
			return
		}
		seen[v] = true
		switch x := v.(type) {
		case *ssa.FieldAddr:
			if namedOf(x.X.Type()) == T {
				out[fieldVar(x)] = true
			}
			walk(x.X, d+1)
		case *ssa.Field:
			if namedOf(x.X.Type()) == T {
				out[fieldVar(x)] = true
			}
			walk(x.X, d+1)
		case *ssa.Call:
			if f := x.Call.StaticCallee(); f != nil && c.modFuncSet[f] {
				// accessor of T: the fields it reads
				for _, a := range x.Call.Args {
					if namedOf(a.Type()) == T {
						for fv := range structFieldsRead(c, []*ssa.Function{f}, T) {
							out[fv] = true
						}
					}
				}
			}
			for _, a := range callArgs(x.Common()) {
				walk(a, d+1)
			}
		case *ssa.Alloc:
			// variadic argument array / local cell: everything stored into it
			for _, ref := range *x.Referrers() {
				switch r := ref.(type) {
				case *ssa.Store:
					walk(r.Val, d+1)
				case *ssa.IndexAddr:
					for _, ref2 := range *r.Referrers() {
						if st, ok := ref2.(*ssa.Store); ok {
							walk(st.Val, d+1)
						}
					}
				}
			}
		default:
			if in, ok := v.(ssa.Instruction); ok {
				for _, op := range in.Operands(nil) {
					if *op != nil {
						walk(*op, d+1)
					}
				}
			}
		}
	}
	walk(key, 0)
	return out
}

// c01Memo finds lookup–miss–call–store memos in package engine and checks R01a / R01b.
func c01Memo(c *Ctx, r *Result) {
	nMemo := 0
	for _, fn := range c.ModFuncs() {
		if c.PkgOf(fn) != "engine" || fn.Signature.Recv() == nil {
			continue
		}
		// a comma-ok lookup and a map update on the same map field with the same key
		var looks []*ssa.Lookup
		var upds []*ssa.MapUpdate
		allInstrs(fn, func(in ssa.Instruction) {
			switch x := in.(type) {
			case *ssa.Lookup:
				if x.CommaOk && len(fieldChain(x.X)) > 0 {
					looks = append(looks, x)
				}
			case *ssa.MapUpdate:
				if len(fieldChain(x.Map)) > 0 {
					upds = append(upds, x)
				}
			}
		})
		for _, l := range looks {
			for _, u := range upds {
				lf, uf := fieldChain(l.X), fieldChain(u.Map)
				if lf[len(lf)-1] != uf[len(uf)-1] || accessPath(l.Index) != accessPath(u.Key) {
					continue
				}
				// the stored value comes from a call taking a parameter of struct pointer type
				call, _ := unspill(u.Value).(*ssa.Call)
				if call == nil {
					continue
				}
				var p *ssa.Parameter
				for _, a := range callArgs(call.Common()) {
					if pa, ok := a.(*ssa.Parameter); ok {
						if n := namedOf(pa.Type()); n != nil {
							if _, isStruct := n.Underlying().(*types.Struct); isStruct {
								p = pa
							}
						}
					}
				}
				if p == nil {
					continue
				}
				nMemo++
				T := namedOf(p.Type())
				cacheField := lf[len(lf)-1]
				key := c.FuncKey(fn)
				site := key + "#memo:" + cacheField.Name()
				pos := c.Pos(c.InstrPos(u))
				callees := c.Callees(call)
				reads := structFieldsRead(c, callees, T)
				kf := keyFields(c, l.Index, p, T)
				var missing, rs, ks []string
				for f := range reads {
					rs = append(rs, f.Name())
					if !kf[f] {
						missing = append(missing, f.Name())
					}
				}
				for f := range kf {
					ks = append(ks, f.Name())
				}
				sort.Strings(missing)
				sort.Strings(rs)
				sort.Strings(ks)
				if len(reads) == 0 {
					r.Undecide("R01a: the memoised function of %s reads no field of %s (read-set analysis failed)", key, T.Obj().Name())
				}
				if len(missing) > 0 {
					r.Instance("R01a", site, pos, "finding", fmt.Sprintf("Reads={%s} KeyFields={%s}", strings.Join(rs, ","), strings.Join(ks, ",")), true)
					r.Report(Finding{Rule: "R01a", Site: site, Pos: pos,
						Msg: fmt.Sprintf("%s memoises %s by a key derived from {%s}, but the memoised function reads {%s} of the %s: two events equal in the key and different in {%s} share one answer — an event that should trigger is reported as not triggering (or vice versa) depending on the events added before it",
							key, accessPath(call), strings.Join(ks, ","), strings.Join(rs, ","), T.Obj().Name(), strings.Join(missing, ","))})
				} else {
					r.Instance("R01a", site, pos, "ok", fmt.Sprintf("Reads={%s} ⊆ KeyFields={%s}", strings.Join(rs, ","), strings.Join(ks, ",")), true)
				}
				c01Invalidation(c, r, fn, cacheField)
			}
		}
	}
	r.Floor("R01a-memos", nMemo, 1)
}

// c01Invalidation: every method of the memo's owner that mutates the rule index resets the memo.
func c01Invalidation(c *Ctx, r *Result, memoFn *ssa.Function, cacheField *types.Var) {
	recvT := namedOf(memoFn.Signature.Recv().Type())
	idxIface := c.Interface("engine", "RuleIndex")
	if recvT == nil || idxIface == nil {
		r.Undecide("R01b: owner type / engine.RuleIndex not found")
		return
	}
	n := 0
	for _, fn := range c.ModFuncs() {
		if fn.Signature.Recv() == nil || namedOf(fn.Signature.Recv().Type()) != recvT {
			continue
		}
		var muts []ssa.Instruction
		allInstrs(fn, func(in ssa.Instruction) {
			if ci, ok := in.(ssa.CallInstruction); ok && ci.Common().IsInvoke() && ci.Common().Method.Name() == "AddRule" &&
				types.Identical(ci.Common().Value.Type().Underlying(), idxIface) {
				muts = append(muts, in)
			}
			if st, ok := in.(*ssa.Store); ok {
				if fa, ok := st.Addr.(*ssa.FieldAddr); ok && types.Identical(fieldVar(fa).Type().Underlying(), idxIface) && !freshIn(fa.X) {
					muts = append(muts, in)
				}
			}
		})
		if len(muts) == 0 {
			continue
		}
		var resets []ssa.Instruction
		for _, a := range accessesOf(fn, cacheField) {
			if st, ok := a.Instr.(*ssa.Store); ok && a.Write {
				resets = append(resets, st)
			}
		}
		// a helper on the same receiver that resets the memo on every path through it
		allInstrs(fn, func(in ssa.Instruction) {
			ci, ok := in.(ssa.CallInstruction)
			if !ok {
				return
			}
			if _, isDefer := in.(*ssa.Defer); isDefer {
				return
			}
			h := ci.Common().StaticCallee()
			if h == nil || h == fn || !c.modFuncSet[h] || h.Signature.Recv() == nil || namedOf(h.Signature.Recv().Type()) != recvT {
				return
			}
			args := callArgs(ci.Common())
			if len(args) == 0 || len(fn.Params) == 0 || args[0] != ssa.Value(fn.Params[0]) {
				return
			}
			for _, a := range accessesOf(h, cacheField) {
				st, isSt := a.Instr.(*ssa.Store)
				if !isSt || !a.Write {
					continue
				}
				all := true
				allInstrs(h, func(x ssa.Instruction) {
					if _, isRet := x.(*ssa.Return); isRet && x.Block() != h.Recover && !dominates(st, x) {
						all = false
					}
				})
				if all {
					resets = append(resets, in)
				}
			}
		})
		key := c.FuncKey(fn)
		for i, m := range muts {
			n++
			site := fmt.Sprintf("%s#index-mutation#%d", key, i)
			pos := c.Pos(c.InstrPos(m))
			ok := false
			for _, rs := range resets {
				if dominates(rs, m) {
					ok = true
				} else if dominates(m, rs) {
					all := true
					allInstrs(fn, func(x ssa.Instruction) {
						if _, isRet := x.(*ssa.Return); isRet && x.Block() != fn.Recover && canReach(m, x) && !dominates(rs, x) {
							all = false
						}
					})
					if all {
						ok = true
					}
				}
			}
			if ok {
				r.Instance("R01b", site, pos, "ok", "the memo is reset on every path through this mutation of the rule index", true)
			} else {
				r.Instance("R01b", site, pos, "finding", "index mutated without resetting the memo", true)
				r.Report(Finding{Rule: "R01b", Site: site, Pos: pos,
					Msg: key + ": mutates the rule index without resetting " + cacheField.Name() + " on every path: stale 'not triggering' answers survive the change and events for the new rule are skipped"})
			}
		}
	}
	r.Floor("R01b", n, 2)
}

// c01Shifts: non-constant shift counts in package engine need a dominating bound < 64.
func c01Shifts(c *Ctx, r *Result) {
	n := 0
	for _, fn := range c.ModFuncs() {
		if c.PkgOf(fn) != "engine" {
			continue
		}
		key := c.FuncKey(fn)
		ord := newOrdinals()
		allInstrs(fn, func(in ssa.Instruction) {
			bo, ok := in.(*ssa.BinOp)
			if !ok || (bo.Op != token.SHL && bo.Op != token.SHR) {
				return
			}
			if _, isC := constInt(bo.Y); isC {
				return
			}
			n++
			width := int64(64)
			if b, ok := bo.Type().Underlying().(*types.Basic); ok {
				switch b.Kind() {
				case types.Uint32, types.Int32:
					width = 32
				case types.Uint16, types.Int16:
					width = 16
				case types.Uint8, types.Int8:
					width = 8
				}
			}
			site := ord.key(key, "shift", accessPath(bo.Y))
			pos := c.Pos(c.InstrPos(in))
			if bo.Op == token.SHL && bitTestOnly(bo) {
				// 1<<i used only as `mask & (1<<i) <cmp> 0`: a count at or beyond the width gives 0 in
				// Go (no wrap), i.e. "bit not set" — the right answer for a bit no rule can own
				// because the allocating shift (the instance above) is bounded.
				r.Instance("R01c", site, pos, "ok", "the shifted value is only used to test a bit of a mask (x & (1<<i) compared with 0): an over-wide count reads as 'not set', nothing is stored", true)
				return
			}
			f := FactsAt(in)
			if f.upperBound(bo.Y, width) {
				r.Instance("R01c", site, pos, "ok", fmt.Sprintf("shift count %s is bounded below %d by a dominating condition", accessPath(bo.Y), width), true)
				return
			}
			r.Instance("R01c", site, pos, "finding", "unbounded shift count", true)
			r.Report(Finding{Rule: "R01c", Site: site, Pos: pos,
				Msg: fmt.Sprintf("%s: shift by %s, which grows with the number of rules, has no dominating bound below the mask width %d: with more rules than bits the mask wraps and rules are lost or matched wrongly (today: the collection loop never ends)", key, accessPath(bo.Y), width)})
		})
	}
	r.Extra["nonconstant_shifts_in_engine"] = n
}

// bitTestOnly: every use of the shift is an AND whose every use is a comparison with the constant 0.
func bitTestOnly(sh *ssa.BinOp) bool {
	if c, ok := constInt(sh.X); !ok || c != 1 {
		if cv, isConv := sh.X.(*ssa.Convert); !isConv {
			return false
		} else if c, ok := constInt(cv.X); !ok || c != 1 {
			return false
		}
	}
	refs := sh.Referrers()
	if refs == nil || len(*refs) == 0 {
		return false
	}
	for _, u := range *refs {
		and, ok := u.(*ssa.BinOp)
		if !ok || and.Op != token.AND {
			return false
		}
		ar := and.Referrers()
		if ar == nil || len(*ar) == 0 {
			return false
		}
		for _, cu := range *ar {
			if _, isDbg := cu.(*ssa.DebugRef); isDbg {
				continue
			}
			cmp, ok := cu.(*ssa.BinOp)
			if !ok {
				return false
			}
			switch cmp.Op {
			case token.EQL, token.NEQ, token.GTR:
			default:
				return false
			}
			other := cmp.Y
			if other == ssa.Value(and) {
				other = cmp.X
			}
			if z, ok := constInt(other); !ok || z != 0 {
				return false
			}
		}
	}
	return true
}

// ---- R01d ---------------------------------------------------------------------------------------

// relset bits: 1 = len < level, 2 = len == level, 4 = len > level
func relsetOf(op token.Token) int {
	switch op {
	case token.LSS:
		return 1
	case token.LEQ:
		return 3
	case token.EQL:
		return 2
	case token.NEQ:
		return 5
	case token.GEQ:
		return 6
	case token.GTR:
		return 4
	}
	return 0
}

// negativeGuard extracts the set of relations between len(event.kind) and level under
// which the function returns its negative result (false / nil) because of the length guard.
func negativeGuard(fn *ssa.Function, fKind *types.Var) (int, bool) {
	if len(fn.Params) < 3 {
		return 0, false
	}
	level := fn.Params[2]
	isLenKind := func(v ssa.Value) bool {
		t := termOf(v)
		if !t.isLen() || t.Off != 0 {
			return false
		}
		ch := fieldChain(t.LenVal)
		return len(ch) > 0 && ch[len(ch)-1] == fKind
	}
	cmpOf := func(v ssa.Value) (token.Token, bool) {
		bo, ok := unspill(v).(*ssa.BinOp)
		if !ok {
			return 0, false
		}
		if isLenKind(bo.X) && stripNumConv(bo.Y) == ssa.Value(level) {
			return bo.Op, true
		}
		if isLenKind(bo.Y) && stripNumConv(bo.X) == ssa.Value(level) {
			return flipOp(bo.Op), true
		}
		return 0, false
	}
	// form 1: return <cmp> directly (boolean result): negative when the comparison is false
	for _, v := range returnedValues(fn, 0) {
		if op, ok := cmpOf(v); ok {
			return relsetOf(negateOp(op)), true
		}
	}
	// form 2: if <cmp> { return false/nil } — every branch that leads directly to a negative
	// return must be a recognised length guard (accumulated) or a descent condition
	// (loop termination, map lookup ok, result of the recursive call)
	neg := func(blk *ssa.BasicBlock) bool {
		if len(blk.Instrs) == 0 {
			return false
		}
		ret, ok := blk.Instrs[len(blk.Instrs)-1].(*ssa.Return)
		if !ok || len(ret.Results) != 1 || len(blk.Instrs) > 2 {
			return false
		}
		cv, ok := ret.Results[0].(*ssa.Const)
		return ok && (cv.Value == nil || cv.Value.String() == "false")
	}
	rel, found := 0, false
	for _, b := range fn.Blocks {
		ifi, ok := b.Instrs[len(b.Instrs)-1].(*ssa.If)
		if !ok || (!neg(b.Succs[0]) && !neg(b.Succs[1])) {
			continue
		}
		if op, ok := cmpOf(ifi.Cond); ok {
			found = true
			if neg(b.Succs[0]) {
				rel |= relsetOf(op)
			}
			if neg(b.Succs[1]) {
				rel |= relsetOf(negateOp(op))
			}
			continue
		}
		cond := unspill(ifi.Cond)
		if inLoop(b) {
			continue // loop termination / condition inside the descent loop
		}
		if e, ok := cond.(*ssa.Extract); ok {
			if _, isLookup := e.Tuple.(*ssa.Lookup); isLookup {
				continue
			}
		}
		if call, ok := cond.(*ssa.Call); ok && call.Call.IsInvoke() {
			continue
		}
		if bo, ok := cond.(*ssa.BinOp); ok && (bo.Op == token.EQL || bo.Op == token.NEQ) {
			// matchBits == 0 style tests on computed values (not on the event's kind length)
			tx, ty := termOf(bo.X), termOf(bo.Y)
			if !tx.isLen() && !ty.isLen() {
				continue
			}
		}
		return -1, true // an additional negative guard that is not understood
	}
	if found {
		return rel, true
	}
	return 0, false
}

// descentFields: fields of the receiver's struct whose elements a recursive call is applied to.
func descentFields(fn *ssa.Function, method string) map[string]bool {
	out := map[string]bool{}
	recv := namedOf(fn.Signature.Recv().Type())
	allInstrs(fn, func(in ssa.Instruction) {
		ci, ok := in.(ssa.CallInstruction)
		if !ok || !ci.Common().IsInvoke() || ci.Common().Method.Name() != method {
			return
		}
		// receiver value comes from a range / index over a field of the receiver
		for _, f := range fieldChainDeep(ci.Common().Value) {
			if f != nil {
				out[f.Name()] = true
			}
		}
		_ = recv
	})
	return out
}

// fieldChainDeep follows phis, extracts, lookups and range iteration back to struct fields.
func fieldChainDeep(v ssa.Value) []*types.Var {
	var out []*types.Var
	seen := map[ssa.Value]bool{}
	var walk func(v ssa.Value, d int)
	walk = func(v ssa.Value, d int) {
		if v == nil || seen[v] || d > 16 {
			return
		}
		seen[v] = true
		switch x := v.(type) {
		case *ssa.FieldAddr:
			out = append(out, fieldVar(x))
		case *ssa.Field:
			out = append(out, fieldVar(x))
		case *ssa.Phi:
			for _, e := range x.Edges {
				walk(e, d+1)
			}
		case *ssa.UnOp:
			walk(x.X, d+1)
		case *ssa.IndexAddr:
			walk(x.X, d+1)
		case *ssa.Index:
			walk(x.X, d+1)
		case *ssa.Lookup:
			walk(x.X, d+1)
		case *ssa.Extract:
			walk(x.Tuple, d+1)
		case *ssa.Next:
			walk(x.Iter, d+1)
		case *ssa.Range:
			walk(x.X, d+1)
		case *ssa.Alloc:
			for _, s := range cellSources(x) {
				walk(s, d+1)
			}
		}
	}
	walk(v, 0)
	return out
}

func c01Siblings(c *Ctx, r *Result) {
	sub := c.Interface("engine", "ruleSubIndex")
	fKind := c.Field("engine", "Event", "kind")
	if sub == nil || fKind == nil {
		r.Undecide("R01d: engine.ruleSubIndex / Event.kind not found")
		return
	}
	pre := c.Implementations(sub, "isTriggeringAtLevel")
	full := c.Implementations(sub, "matchAtLevel")
	byRecv := func(fs []*ssa.Function) map[*types.Named]*ssa.Function {
		m := map[*types.Named]*ssa.Function{}
		for _, f := range fs {
			m[namedOf(f.Signature.Recv().Type())] = f
		}
		return m
	}
	pm, fm := byRecv(pre), byRecv(full)
	n := 0
	var names []*types.Named
	for t := range pm {
		names = append(names, t)
	}
	sort.Slice(names, func(i, j int) bool { return names[i].Obj().Name() < names[j].Obj().Name() })
	for _, t := range names {
		p, f := pm[t], fm[t]
		if f == nil {
			r.Undecide("R01d: %s has a pre-check but no match", t.Obj().Name())
			continue
		}
		n++
		site := "engine." + t.Obj().Name() + "#precheck-vs-match"
		pos := c.Pos(p.Pos())
		pg, ok1 := negativeGuard(p, fKind)
		mg, ok2 := negativeGuard(f, fKind)
		if !ok1 || !ok2 {
			r.Undecide("R01d: the length guard of %s could not be extracted (pre-check: %v, match: %v) — guard is not a direct comparison of len(event.kind) with the level", t.Obj().Name(), ok1, ok2)
			continue
		}
		pd, md := descentFields(p, "isTriggeringAtLevel"), descentFields(f, "matchAtLevel")
		var missing []string
		for d := range md {
			if !pd[d] {
				missing = append(missing, d)
			}
		}
		sort.Strings(missing)
		rel := func(s int) string {
			var xs []string
			if s&1 != 0 {
				xs = append(xs, "<")
			}
			if s&2 != 0 {
				xs = append(xs, "=")
			}
			if s&4 != 0 {
				xs = append(xs, ">")
			}
			return "{" + strings.Join(xs, "") + "}"
		}
		switch {
		case pg < 0:
			r.Instance("R01d", site, pos, "finding", "unrecognised negative guard in the pre-check", true)
			r.Report(Finding{Rule: "R01d", Site: site, Pos: pos,
				Msg: fmt.Sprintf("%s: the pre-check has a branch returning false whose condition is neither the length guard shared with the full match nor a descent condition: it can reject events the index matches", t.Obj().Name())})
		case mg >= 0 && pg&^mg != 0:
			r.Instance("R01d", site, pos, "finding", "pre-check rejects where match accepts", true)
			r.Report(Finding{Rule: "R01d", Site: site, Pos: pos,
				Msg: fmt.Sprintf("%s: the pre-check returns false for len(kind) %s level, the full match rejects only for %s: an event the index would match is reported as not triggering and is skipped", t.Obj().Name(), rel(pg), rel(mg))})
		case len(missing) > 0:
			r.Instance("R01d", site, pos, "finding", "match descends where the pre-check does not", true)
			r.Report(Finding{Rule: "R01d", Site: site, Pos: pos,
				Msg: fmt.Sprintf("%s: the full match descends into {%s}, the pre-check does not: events matched only through these sub-indexes are skipped", t.Obj().Name(), strings.Join(missing, ","))})
		default:
			r.Instance("R01d", site, pos, "ok", fmt.Sprintf("negative guard pre %s ⊆ match %s; descents match {%s} ⊆ pre {%s}", rel(pg), rel(mg), keysOf(md), keysOf(pd)), true)
		}
	}
	r.Floor("R01d", n, 2)
}

func keysOf(m map[string]bool) string {
	var s []string
	for k := range m {
		s = append(s, k)
	}
	sort.Strings(s)
	return strings.Join(s, ",")
}

// ---- R01e: the filter pipeline of ProcessEvent --------------------------------------------------

// appendedElems: for an append call, the element values appended (through the varargs array).
func appendedElems(call *ssa.Call) []ssa.Value {
	var out []ssa.Value
	if len(call.Call.Args) != 2 {
		return nil
	}
	sl, ok := call.Call.Args[1].(*ssa.Slice)
	if !ok {
		return nil
	}
	a, ok := sl.X.(*ssa.Alloc)
	if !ok {
		return nil
	}
	for _, ref := range *a.Referrers() {
		if ia, ok := ref.(*ssa.IndexAddr); ok {
			for _, ref2 := range *ia.Referrers() {
				if st, ok := ref2.(*ssa.Store); ok && st.Addr == ia {
					out = append(out, st.Val)
				}
			}
		}
	}
	return out
}

// sliceAppends: the append calls a slice value is built from (through phis and the
// destination chain of appends); bases = other origins (calls, parameters, fields).
func sliceAppends(v ssa.Value) (apps []*ssa.Call, bases []ssa.Value) {
	seen := map[ssa.Value]bool{}
	var walk func(v ssa.Value, d int)
	walk = func(v ssa.Value, d int) {
		if v == nil || seen[v] || d > 30 {
			return
		}
		seen[v] = true
		v = unspill(v)
		switch x := v.(type) {
		case *ssa.Phi:
			for _, e := range x.Edges {
				walk(e, d+1)
			}
		case *ssa.Call:
			if isBuiltinCall(x, "append") {
				apps = append(apps, x)
				walk(x.Call.Args[0], d+1)
				return
			}
			bases = append(bases, x)
		case *ssa.Const:
		case *ssa.Slice:
			// a window of the list (rules[i:j]) holds the list's elements
			if _, isArr := x.X.(*ssa.Alloc); isArr {
				bases = append(bases, x)
				return
			}
			walk(x.X, d+1)
		case *ssa.UnOp:
			if a, ok := x.X.(*ssa.Alloc); ok {
				for _, s := range cellSources(a) {
					walk(s, d+1)
				}
				return
			}
			bases = append(bases, x)
		default:
			bases = append(bases, v)
		}
	}
	walk(v, 0)
	return
}

// elemOfSlice: v is *(&S[i]): returns S.
func elemOfSlice(v ssa.Value) ssa.Value {
	ld, ok := unspill(v).(*ssa.UnOp)
	if !ok {
		return nil
	}
	ia, ok := ld.X.(*ssa.IndexAddr)
	if !ok {
		return nil
	}
	return ia.X
}

func c01Pipeline(c *Ctx, r *Result) {
	procIface := c.Interface("engine", "Processor")
	idxIface := c.Interface("engine", "RuleIndex")
	fAction := c.Field("engine", "Rule", "Action")
	fScopeMatch := c.Field("engine", "Rule", "ScopeMatch")
	fSuppr := c.Field("engine", "Rule", "SuppressionList")
	fName := c.Field("engine", "Rule", "Name")
	if procIface == nil || idxIface == nil || fAction == nil || fScopeMatch == nil || fSuppr == nil || fName == nil {
		r.Undecide("R01e: anchors of the ProcessEvent pipeline not found")
		return
	}
	n := 0
	for _, fn := range c.Implementations(procIface, "ProcessEvent") {
		n++
		key := c.FuncKey(fn)
		pos := c.Pos(fn.Pos())
		fail := func(site, msg string, p string) {
			r.Instance("R01e", key+"#"+site, p, "finding", msg, true)
			r.Report(Finding{Rule: "R01e", Site: key + "#" + site, Pos: p, Msg: key + ": " + msg})
		}
		// the candidates: the Match call on the event parameter
		var match *ssa.Call
		allInstrs(fn, func(in ssa.Instruction) {
			if call, ok := in.(*ssa.Call); ok && call.Call.IsInvoke() && call.Call.Method.Name() == "Match" && types.Identical(call.Call.Value.Type().Underlying(), idxIface) {
				match = call
			}
		})
		if match == nil {
			r.Undecide("R01e: no RuleIndex.Match call in %s", key)
			continue
		}
		// the action call and its slice — possibly in a helper the loop was extracted into
		rl := findRuleLoop(c, fn, fAction)
		if rl == nil {
			r.Undecide("R01e: the rule loop of %s was not found", key)
			continue
		}
		selFn, selVals, _ := rl.selection(c)
		_ = selFn
		// scope test facts helper: a call IsAllowedAll(load elem.ScopeMatch) known true at `at`, on the cascade's scope
		scopeOK := func(at ssa.Instruction, elem ssa.Value) bool {
			for v := range FactsAt(at).TrueV {
				call, ok := v.(*ssa.Call)
				if !ok || !strings.HasSuffix(callName(call), "RuleScope.IsAllowedAll") {
					continue
				}
				args := callArgs(call.Common())
				if len(args) != 2 {
					continue
				}
				ld, ok := args[1].(*ssa.UnOp)
				if !ok {
					continue
				}
				fa, ok := ld.X.(*ssa.FieldAddr)
				if !ok || fieldVar(fa) != fScopeMatch || !equivValue(fa.X, elem, 0) {
					continue
				}
				// the scope is the cascade's: Monitor.Scope() of a parameter
				if sc, ok := rl.resolve(args[0]).(*ssa.Call); ok && sc.Call.IsInvoke() && sc.Call.Method.Name() == "Scope" {
					if prm, isParam := rl.resolve(sc.Call.Value).(*ssa.Parameter); isParam && prm.Parent() == fn {
						return true
					}
				}
			}
			return false
		}
		notSuppressed := func(at ssa.Instruction, elem ssa.Value) bool {
			for v := range FactsAt(at).FalseV {
				var lk *ssa.Lookup
				if e, ok := v.(*ssa.Extract); ok && e.Index == 1 {
					lk, _ = e.Tuple.(*ssa.Lookup)
				} else if l, ok := v.(*ssa.Lookup); ok && !l.CommaOk {
					// the bool value itself: only `true` is ever stored (checked below for every update)
					lk = l
				}
				if lk == nil {
					continue
				}
				kl, ok := lk.Index.(*ssa.UnOp)
				if !ok {
					continue
				}
				fa, ok := kl.X.(*ssa.FieldAddr)
				if ok && fieldVar(fa) == fName && equivValue(fa.X, elem, 0) {
					return true
				}
			}
			return false
		}
		// executing slice: built from appends
		var eApps []*ssa.Call
		var eBases []ssa.Value
		for _, sv := range selVals {
			a, b := sliceAppends(sv)
			eApps = append(eApps, a...)
			eBases = append(eBases, b...)
		}
		if len(eBases) > 0 || len(eApps) == 0 {
			fail("executing", "the executed slice is not built only by appending filtered rules", pos)
			continue
		}
		ok := true
		var tSlice ssa.Value
		for _, app := range eApps {
			for _, el := range appendedElems(app) {
				src := elemOfSlice(el)
				if src == nil {
					fail("executing-elem", "a rule appended to the executed list is not an element of the triggering list", c.Pos(c.InstrPos(app)))
					ok = false
					continue
				}
				tSlice = src
				if !notSuppressed(app, unspill(el)) {
					fail("suppression-filter", "a rule is appended to the executed list on a path where it is not known to be absent from the suppression list", c.Pos(c.InstrPos(app)))
					ok = false
				}
			}
		}
		if tSlice == nil {
			continue
		}
		// triggering slice: built from appends of candidates under the scope test
		tApps, tBases := sliceAppends(tSlice)
		if len(tBases) > 0 || len(tApps) == 0 {
			fail("triggering", "the executed rules are taken from a list that is not built by appending scope-checked candidates (the scope filter is bypassed)", pos)
			continue
		}
		for _, app := range tApps {
			for _, el := range appendedElems(app) {
				src := elemOfSlice(el)
				if src == nil || rl.resolve(src) != ssa.Value(match) {
					fail("candidates", "a rule enters the triggering list that is not an element of RuleIndex.Match(event)", c.Pos(c.InstrPos(app)))
					ok = false
					continue
				}
				if !scopeOK(app, unspill(el)) {
					fail("scope-filter", "a candidate enters the triggering list without a successful IsAllowedAll(candidate.ScopeMatch) on the cascade's scope", c.Pos(c.InstrPos(app)))
					ok = false
				}
			}
		}
		// suppression entries only from in-scope candidates
		nSup := 0
		supFns := []*ssa.Function{fn}
		if selFn != fn {
			supFns = append(supFns, selFn)
		}
		for _, sfn := range supFns {
			allInstrs(sfn, func(in ssa.Instruction) {
				mu, isMU := in.(*ssa.MapUpdate)
				if !isMU {
					return
				}
				mt, isMap := mu.Map.Type().Underlying().(*types.Map)
				if !isMap || mt.Elem().String() != "bool" {
					return
				}
				nSup++
				if cv, isC := mu.Value.(*ssa.Const); !isC || cv.Value == nil || cv.Value.String() != "true" {
					fail("suppression-value", "a value other than true is stored in the suppression set", c.Pos(c.InstrPos(in)))
					ok = false
				}
				// key = element of <cand>.SuppressionList
				ks := elemOfSlice(mu.Key)
				good := false
				if ks != nil {
					if ld, isLoad := unspill(ks).(*ssa.UnOp); isLoad {
						if fa, isFA := ld.X.(*ssa.FieldAddr); isFA && fieldVar(fa) == fSuppr {
							cand := fa.X
							if src := elemOfSlice(cand); src != nil && rl.resolve(src) == ssa.Value(match) && scopeOK(in, unspill(cand)) {
								good = true
							} else if src != nil {
								// the candidate is taken from the triggering list itself, which holds
								// only scope-checked candidates (its appends were verified above)
								sApps, sBases := sliceAppends(src)
								inT := len(sApps) > 0 && len(sBases) == 0
								for _, sa := range sApps {
									found := false
									for _, ta := range tApps {
										if ta == sa {
											found = true
										}
									}
									if !found {
										inT = false
									}
								}
								if inT {
									good = true
								}
							}
						}
					}
				}
				if !good {
					fail("suppression-source", "a name enters the suppression list that does not come from the SuppressionList of a matching candidate under a successful scope test (an out-of-scope rule could suppress others)", c.Pos(c.InstrPos(in)))
					ok = false
				}
			})
		}
		if nSup == 0 {
			fail("suppression-none", "no suppression list is built", pos)
			ok = false
		}
		if ok {
			r.Instance("R01e", key+"#pipeline", pos, "ok", "executed ⊆ triggering∖suppressed; triggering = Match(event) filtered by IsAllowedAll on the cascade's scope; suppression entries only from in-scope candidates", true)
		}
	}
	r.Floor("R01e", n, 1)
}

// ---- R01f: the Match path never appends into, or returns, index storage -------------------------

type freshCtx struct {
	c       *Ctx
	callers map[*ssa.Function][]*ssa.Call // static + CHA callers inside the analysed set
	memo    map[ssa.Value]int             // 0 unknown, 1 in progress (assumed fresh), 2 fresh, 3 not fresh
	why     map[ssa.Value]string
}

// fresh: the slice value does not share its backing array with anything stored in the heap
// before the current Match call (nil, make, append onto a fresh slice, a fresh callee result).
func (fc *freshCtx) fresh(v ssa.Value) (bool, string) {
	v = unspill(v)
	switch fc.memo[v] {
	case 1, 2:
		return true, ""
	case 3:
		return false, fc.why[v]
	}
	fc.memo[v] = 1
	ok, why := fc.fresh1(v)
	if ok {
		fc.memo[v] = 2
	} else {
		fc.memo[v] = 3
		fc.why[v] = why
	}
	return ok, why
}

func (fc *freshCtx) fresh1(v ssa.Value) (bool, string) {
	c := fc.c
	switch x := v.(type) {
	case *ssa.Const:
		return true, ""
	case *ssa.MakeSlice:
		return true, ""
	case *ssa.MakeMap:
		return true, ""
	case *ssa.Phi:
		for _, e := range x.Edges {
			if ok, why := fc.fresh(e); !ok {
				return false, why
			}
		}
		return true, ""
	case *ssa.Slice:
		// a reslice of a fresh slice is fresh; a slice of an array allocation is fresh
		if a, ok := x.X.(*ssa.Alloc); ok && a.Heap || ok {
			return true, ""
		}
		return fc.fresh(x.X)
	case *ssa.Call:
		if isBuiltinCall(x, "append") {
			return fc.fresh(x.Call.Args[0])
		}
		callees := c.Callees(x)
		if len(callees) == 0 {
			return false, "result of an unresolved call at " + c.Pos(c.InstrPos(x))
		}
		for _, callee := range callees {
			if !c.inModule(callee) || len(callee.Blocks) == 0 {
				return false, "result of " + c.FuncKey(callee)
			}
			for _, rv := range returnedValues(callee, 0) {
				if ok, why := fc.fresh(rv); !ok {
					return false, "result of " + c.FuncKey(callee) + " ← " + why
				}
			}
		}
		return true, ""
	case *ssa.TypeAssert:
		return false, "the list held by " + accessPath(x.X) + " (an existing list)"
	case *ssa.Extract:
		if ta, ok := x.Tuple.(*ssa.TypeAssert); ok {
			return false, "the list held by " + accessPath(ta.X) + " (an existing list)"
		}
		if call, ok := x.Tuple.(*ssa.Call); ok {
			callees := c.Callees(call)
			if len(callees) == 0 {
				return false, "result of an unresolved call at " + c.Pos(c.InstrPos(call))
			}
			for _, callee := range callees {
				if !c.inModule(callee) || len(callee.Blocks) == 0 {
					return false, "result of " + c.FuncKey(callee)
				}
				for _, rv := range returnedValues(callee, x.Index) {
					if ok, why := fc.fresh(rv); !ok {
						return false, "result of " + c.FuncKey(callee) + " ← " + why
					}
				}
			}
			return true, ""
		}
	case *ssa.Parameter:
		fn := x.Parent()
		idx := -1
		for i, p := range fn.Params {
			if p == x {
				idx = i
			}
		}
		calls := fc.callers[fn]
		if len(calls) == 0 || idx < 0 {
			return false, "parameter " + x.Name() + " of " + c.FuncKey(fn) + " (callers unknown)"
		}
		for _, call := range calls {
			args := callArgs(call.Common())
			if idx >= len(args) {
				return false, "parameter " + x.Name() + " of " + c.FuncKey(fn)
			}
			if ok, why := fc.fresh(args[idx]); !ok {
				return false, "argument at " + c.Pos(c.InstrPos(call)) + " ← " + why
			}
		}
		return true, ""
	case *ssa.UnOp:
		if a, ok := x.X.(*ssa.Alloc); ok {
			for _, s := range cellSources(a) {
				if ok, why := fc.fresh(s); !ok {
					return false, why
				}
			}
			return true, ""
		}
		if fa, ok := x.X.(*ssa.FieldAddr); ok {
			if f := fieldVar(fa); f != nil {
				return false, "the stored slice " + typeShort(derefType(fa.X.Type())) + "." + f.Name() + " (loaded in " + c.FuncKey(x.Parent()) + ")"
			}
		}
		// a local of the enclosing function captured by this closure: what is stored in its cell
		// (there, and by the closures sharing it)
		if fv, ok := x.X.(*ssa.FreeVar); ok {
			cf := fv.Parent()
			if par := cf.Parent(); par != nil {
				idx := -1
				for i, f := range cf.FreeVars {
					if f == fv {
						idx = i
					}
				}
				found, allOK, whyNot := false, true, ""
				allInstrs(par, func(in ssa.Instruction) {
					mc, isMC := in.(*ssa.MakeClosure)
					if !isMC || mc.Fn != ssa.Value(cf) || idx < 0 || idx >= len(mc.Bindings) {
						return
					}
					cell, isAlloc := mc.Bindings[idx].(*ssa.Alloc)
					if !isAlloc {
						allOK = false
						return
					}
					found = true
					for _, s := range cellSources(cell) {
						if ok, why := fc.fresh(s); !ok {
							allOK, whyNot = false, why
						}
					}
				})
				// stores made by the closure itself
				allInstrs(cf, func(in ssa.Instruction) {
					if st, isSt := in.(*ssa.Store); isSt && st.Addr == ssa.Value(fv) {
						if ok, why := fc.fresh(st.Val); !ok {
							allOK, whyNot = false, why
						}
					}
				})
				if found && allOK {
					return true, ""
				}
				if whyNot != "" {
					return false, whyNot
				}
			}
		}
		return false, "a slice loaded from memory at " + c.Pos(c.InstrPos(x))
	}
	return false, fmt.Sprintf("%T at %s", v, c.Pos(v.Pos()))
}

func c01Fresh(c *Ctx, r *Result) {
	idxIface := c.Interface("engine", "RuleIndex")
	if idxIface == nil {
		r.Undecide("R01f: engine.RuleIndex not found")
		return
	}
	roots := c.Implementations(idxIface, "Match")
	reach := c.Reachable(roots, func(f *ssa.Function) bool { return c.PkgOf(f) != "engine" })
	fc := &freshCtx{c: c, callers: map[*ssa.Function][]*ssa.Call{}, memo: map[ssa.Value]int{}, why: map[ssa.Value]string{}}
	inSet := map[*ssa.Function]bool{}
	for _, fn := range reach.Order {
		inSet[fn] = true
	}
	for _, fn := range reach.Order {
		allInstrs(fn, func(in ssa.Instruction) {
			if call, ok := in.(*ssa.Call); ok {
				for _, callee := range c.Callees(call) {
					if inSet[callee] {
						fc.callers[callee] = append(fc.callers[callee], call)
					}
				}
			}
		})
	}
	n := 0
	for _, fn := range reach.Order {
		key := c.FuncKey(fn)
		k := 0
		allInstrs(fn, func(in ssa.Instruction) {
			call, ok := in.(*ssa.Call)
			if !ok || !isBuiltinCall(call, "append") {
				return
			}
			if _, isSlice := call.Type().Underlying().(*types.Slice); !isSlice {
				return
			}
			n++
			site := fmt.Sprintf("%s#append#%d", key, k)
			k++
			pos := c.Pos(c.InstrPos(call))
			if ok, why := fc.fresh(call.Call.Args[0]); !ok {
				r.Instance("R01f", site, pos, "finding", "append destination may alias "+why, true)
				r.Report(Finding{Rule: "R01f", Site: site, Pos: pos, Path: reach.PathTo(c, fn),
					Msg: key + ": on the Match path an append extends a slice that may share its backing array with " + why + " — a match would write into the shared index (and concurrent matches into each other)"})
				return
			}
			r.Instance("R01f", site, pos, "ok", "append destination is fresh (nil / make / append chain / fresh callee result)", true)
		})
	}
	for _, fn := range roots {
		key := c.FuncKey(fn)
		n++
		bad := ""
		for _, rv := range returnedValues(fn, 0) {
			if ok, why := fc.fresh(rv); !ok {
				bad = why
			}
		}
		pos := c.Pos(fn.Pos())
		if bad != "" {
			r.Instance("R01f", key+"#result", pos, "finding", "Match result may alias "+bad, true)
			r.Report(Finding{Rule: "R01f", Site: key + "#result", Pos: pos,
				Msg: key + ": the slice returned by Match may share its backing array with " + bad + " — callers filter, sort and extend it"})
			continue
		}
		r.Instance("R01f", key+"#result", pos, "ok", "Match returns a fresh slice", true)
	}
	r.Floor("R01f", n, 3)
}

// ---- R01g: the bit formula of the state matcher ---------------------------------------------------

// RuleMatcherKey.match computes, with bit-parallel operators only (| & ^ &^), which candidate rules
// survive the test of one state key. Bit-parallel formulas agree on all 64-bit words iff they
// agree on single bits, so the formula is decided by its truth table over
//
//	in   — the rule is still a candidate,        rb  — the rule constrains this key (rm.bits),
//	any  — it accepts any value / a regex,        val — it demands exactly the event's value,
//
// restricted by what addRule establishes (any ⇒ rb, val ⇒ rb, ¬(any ∧ val)). Specification:
// survive = in ∧ (¬rb ∨ any ∨ val); when the event's value is not registered, val = 0.
func c01MatchFormula(c *Ctx, r *Result) {
	fn := c.Method("engine", "RuleMatcherKey", "match")
	fBits := c.Field("engine", "RuleMatcherKey", "bits")
	fAny := c.Field("engine", "RuleMatcherKey", "bitsAny")
	fVal := c.Field("engine", "RuleMatcherKey", "bitsValue")
	if fn == nil || fBits == nil || fAny == nil || fVal == nil || len(fn.Params) < 2 {
		r.Undecide("R01g: RuleMatcherKey.match / its fields not found")
		return
	}
	key := c.FuncKey(fn)
	pos := c.Pos(fn.Pos())
	inParam := fn.Params[1]
	// the value entering the regex loop: the phi of the candidate mask in a loop header, edge from outside the loop
	var start ssa.Value
	for _, b := range fn.Blocks {
		for _, in := range b.Instrs {
			p, ok := in.(*ssa.Phi)
			if !ok {
				break
			}
			if !isLoopHeaderPhi(p) || !isIntType(p.Type()) {
				continue
			}
			for i, pr := range b.Preds {
				if !b.Dominates(pr) && start == nil {
					start = p.Edges[i]
				}
			}
		}
	}
	if start == nil {
		// no regex loop: the returned value
		rvs := returnedValues(fn, 0)
		if len(rvs) == 1 {
			start = rvs[0]
		}
	}
	if start == nil {
		r.Undecide("R01g: the candidate mask computed by %s before the regex loop was not found", key)
		return
	}
	// A small concrete interpreter over single bits: the function (and the same-package helpers it
	// calls) is executed block by block for every admissible assignment of one bit position and
	// every scenario of the event's value (nil / not hashable / hashable and not registered /
	// registered); it stops where control enters the regex loop (or returns).
	type env struct{ in, rb, any, val, found, nonnil, hashable uint64 }
	type sym struct {
		kind int // 0 number / bool, 1 the event's value, 2 the receiver, 3 tuple
		n    uint64
		tup  []uint64
	}
	var stopBlock *ssa.BasicBlock
	for _, b := range fn.Blocks {
		for _, in := range b.Instrs {
			if p, ok := in.(*ssa.Phi); ok && isLoopHeaderPhi(p) && isIntType(p.Type()) && stopBlock == nil {
				stopBlock = b
			}
		}
	}
	var run func(f *ssa.Function, args []sym, e env, top bool, depth int) ([]uint64, bool)
	run = func(f *ssa.Function, args []sym, e env, top bool, depth int) ([]uint64, bool) {
		if depth > 3 || len(f.Blocks) == 0 || len(args) != len(f.Params) {
			return nil, false
		}
		vals := map[ssa.Value]sym{}
		for i, p := range f.Params {
			vals[p] = args[i]
		}
		var val func(v ssa.Value, d int) (sym, bool)
		val = func(v ssa.Value, d int) (sym, bool) {
			if d > 60 {
				return sym{}, false
			}
			if s, ok := vals[v]; ok {
				return s, true
			}
			num := func(n uint64) (sym, bool) { return sym{n: n}, true }
			switch x := v.(type) {
			case *ssa.Const:
				if x.Value == nil {
					return sym{}, false
				}
				if b, isB := x.Type().Underlying().(*types.Basic); isB && b.Info()&types.IsBoolean != 0 {
					if x.Value.String() == "true" {
						return num(1)
					}
					return num(0)
				}
				if k, ok := constInt(x); ok && k == 0 {
					return num(0)
				}
				return sym{}, false
			case *ssa.Convert:
				return val(x.X, d+1)
			case *ssa.ChangeType:
				return val(x.X, d+1)
			case *ssa.UnOp:
				switch x.Op {
				case token.MUL:
					if fa, ok := x.X.(*ssa.FieldAddr); ok {
						if base, ok := val(fa.X, d+1); ok && base.kind == 2 {
							switch fieldVar(fa) {
							case fBits:
								return num(e.rb)
							case fAny:
								return num(e.any)
							}
						}
					}
				case token.XOR:
					a, ok := val(x.X, d+1)
					return sym{n: ^a.n & 1}, ok && a.kind == 0
				case token.NOT:
					a, ok := val(x.X, d+1)
					return sym{n: a.n ^ 1}, ok && a.kind == 0
				}
			case *ssa.BinOp:
				if isNilConst(x.Y) || isNilConst(x.X) {
					o := x.X
					if isNilConst(x.X) {
						o = x.Y
					}
					if a, ok := val(o, d+1); ok && a.kind == 1 {
						switch x.Op {
						case token.NEQ:
							return num(e.nonnil)
						case token.EQL:
							return num(e.nonnil ^ 1)
						}
					}
					return sym{}, false
				}
				a, ok1 := val(x.X, d+1)
				b, ok2 := val(x.Y, d+1)
				if !ok1 || !ok2 || a.kind != 0 || b.kind != 0 {
					return sym{}, false
				}
				switch x.Op {
				case token.OR:
					return num(a.n | b.n)
				case token.AND:
					return num(a.n & b.n)
				case token.XOR:
					return num(a.n ^ b.n)
				case token.AND_NOT:
					return num(a.n &^ b.n)
				}
			case *ssa.Lookup:
				ld, ok := x.X.(*ssa.UnOp)
				if !ok {
					return sym{}, false
				}
				fa, ok := ld.X.(*ssa.FieldAddr)
				if !ok || fieldVar(fa) != fVal {
					return sym{}, false
				}
				if k, ok := val(x.Index, d+1); !ok || k.kind != 1 {
					return sym{}, false
				}
				if e.nonnil == 1 && e.hashable == 0 {
					return sym{}, false // hashing an unhashable value panics
				}
				got := uint64(0)
				if e.found == 1 {
					got = e.val
				}
				if x.CommaOk {
					return sym{kind: 3, tup: []uint64{got, e.found}}, true
				}
				return num(got)
			case *ssa.Extract:
				t, ok := val(x.Tuple, d+1)
				if !ok || t.kind != 3 || x.Index >= len(t.tup) {
					return sym{}, false
				}
				return num(t.tup[x.Index])
			case *ssa.Call:
				if x.Call.IsInvoke() && x.Call.Method.Name() == "Comparable" {
					// reflect.TypeOf(value).Comparable()
					if tc, ok := x.Call.Value.(*ssa.Call); ok {
						if cal := tc.Call.StaticCallee(); cal != nil && cal.Pkg != nil && cal.Pkg.Pkg.Path() == "reflect" && cal.Name() == "TypeOf" && len(tc.Call.Args) == 1 {
							if a, ok := val(tc.Call.Args[0], d+1); ok && a.kind == 1 && e.nonnil == 1 {
								return num(e.hashable)
							}
						}
					}
					return sym{}, false
				}
				cal := x.Call.StaticCallee()
				if cal == nil || !c.inModule(cal) {
					return sym{}, false
				}
				var as []sym
				for _, a := range x.Call.Args {
					sv, ok := val(a, d+1)
					if !ok {
						return sym{}, false
					}
					as = append(as, sv)
				}
				res, ok := run(cal, as, e, false, depth+1)
				if !ok {
					return sym{}, false
				}
				if len(res) == 1 {
					return num(res[0])
				}
				return sym{kind: 3, tup: res}, true
			}
			return sym{}, false
		}
		cur := f.Blocks[0]
		var prev *ssa.BasicBlock
		for steps := 0; steps < 200; steps++ {
			// phis
			newPhis := map[ssa.Value]sym{}
			for _, in := range cur.Instrs {
				p, ok := in.(*ssa.Phi)
				if !ok {
					break
				}
				for i, pr := range cur.Preds {
					if pr == prev {
						if top && cur == stopBlock && isLoopHeaderPhi(p) && isIntType(p.Type()) {
							sv, ok := val(p.Edges[i], 0)
							if !ok || sv.kind != 0 {
								return nil, false
							}
							return []uint64{sv.n}, true
						}
						if sv, ok := val(p.Edges[i], 0); ok {
							newPhis[p] = sv
						}
						break
					}
				}
			}
			for k, v := range newPhis {
				vals[k] = v
			}
			// values defined in this block are evaluated on demand, but must not be cached across a
			// revisit — there is no loop before the stop block, so nothing is revisited
			last := cur.Instrs[len(cur.Instrs)-1]
			switch t := last.(type) {
			case *ssa.If:
				cv, ok := val(t.Cond, 0)
				if !ok || cv.kind != 0 {
					return nil, false
				}
				prev = cur
				if cv.n&1 == 1 {
					cur = cur.Succs[0]
				} else {
					cur = cur.Succs[1]
				}
			case *ssa.Jump:
				prev = cur
				cur = cur.Succs[0]
			case *ssa.Return:
				var out []uint64
				for _, rv := range t.Results {
					sv, ok := val(rv, 0)
					if !ok || sv.kind != 0 {
						return nil, false
					}
					out = append(out, sv.n)
				}
				return out, true
			default:
				return nil, false
			}
		}
		return nil, false
	}
	eval := func(e env) (uint64, bool) {
		args := make([]sym, len(fn.Params))
		for i, p := range fn.Params {
			switch {
			case i == 0:
				args[i] = sym{kind: 2}
			case p == inParam:
				args[i] = sym{n: e.in}
			default:
				args[i] = sym{kind: 1}
			}
		}
		res, ok := run(fn, args, e, true, 0)
		if !ok || len(res) != 1 {
			return 0, false
		}
		return res[0], true
	}
	var bad []string
	n := 0
	for sc := 0; sc < 4; sc++ {
		// 0: nil value, 1: not hashable, 2: hashable and not registered, 3: registered
		for m := 0; m < 16; m++ {
			e := env{in: uint64(m & 1), rb: uint64(m >> 1 & 1), any: uint64(m >> 2 & 1), val: uint64(m >> 3 & 1)}
			if sc >= 1 {
				e.nonnil = 1
			}
			if sc >= 2 {
				e.hashable = 1
			}
			if sc == 3 {
				e.found = 1
			}
			found := e.found
			if (e.any == 1 && e.rb == 0) || (e.val == 1 && e.rb == 0) || (e.any == 1 && e.val == 1) {
				continue
			}
			if found == 0 && e.val == 1 {
				continue
			}
			n++
			got, ok := eval(e)
			if !ok {
				r.Undecide("R01g: the candidate mask of %s is not a bit-parallel formula over its parameter, rm.bits, rm.bitsAny and rm.bitsValue[value]", key)
				return
			}
			want := e.in & ((^e.rb & 1) | e.any | e.val)
			if got&1 != want {
				bad = append(bad, fmt.Sprintf("candidate=%d constrains-key=%d any/regex=%d demands-event-value=%d value-registered=%d: survives=%d, expected %d", e.in, e.rb, e.any, e.val, found, got&1, want))
			}
		}
	}
	if len(bad) > 0 {
		r.Instance("R01g", key+"#formula", pos, "finding", strings.Join(bad, "; "), true)
		r.Report(Finding{Rule: "R01g", Site: key + "#formula", Pos: pos,
			Msg: key + ": the bit formula deciding which rules survive a state key disagrees with `candidate ∧ (rule does not constrain the key ∨ accepts any value ∨ demands the event's value)` for: " + strings.Join(bad, "; ")})
		return
	}
	r.Instance("R01g", key+"#formula", pos, "ok", fmt.Sprintf("truth table (%d admissible single-bit assignments) equals the specification", n), true)
	r.Floor("R01g", n, 10)
}
