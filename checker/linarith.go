package main

// A small linear-arithmetic prover for slice bounds around the strings.Index idiom.
//
// Values are decomposed into linear forms over atoms (results of strings.Index*, lengths of
// strings / slices); len(s[a:]) is rewritten to len(s) − a and len(s[a:b]) to b − a. Known
// non-negative forms come from the library contract of strings.Index (for I = Index(S, sep) with
// I ≥ 0 established on the path: I ≥ 0 and len(S) − I − len(sep) ≥ 0) and from lengths being
// non-negative. A goal F ≥ 0 is proven by subtracting at most three known forms until every
// remaining coefficient and the constant are non-negative over non-negative atoms.

import (
	"go/token"
	"sort"

	"golang.org/x/tools/go/ssa"
)

type linForm struct {
	k int64
	t map[string]int64
}

func newLin() linForm { return linForm{t: map[string]int64{}} }

func (a linForm) add(b linForm, sign int64) linForm {
	out := newLin()
	out.k = a.k + sign*b.k
	for n, c := range a.t {
		out.t[n] += c
	}
	for n, c := range b.t {
		out.t[n] += sign * c
	}
	for n, c := range out.t {
		if c == 0 {
			delete(out.t, n)
		}
	}
	return out
}

type linCtx struct {
	f       *Facts
	idx     map[string]*ssa.Call // atom -> Index call
	nonneg  map[string]bool      // atoms known ≥ 0
	unknown bool
}

var indexFuncs = map[string]bool{"strings.Index": true, "strings.IndexByte": true, "strings.LastIndex": true, "strings.IndexRune": true}

func (lc *linCtx) lenOf(x ssa.Value, d int) linForm {
	x = stripConv(x)
	if d > 10 {
		lc.unknown = true
		return newLin()
	}
	if s, ok := constString(x); ok {
		l := newLin()
		l.k = int64(len(s))
		return l
	}
	if sl, ok := x.(*ssa.Slice); ok && sl.Max == nil {
		if _, isArr := sl.X.(*ssa.Alloc); !isArr {
			hi := lc.lenOf(sl.X, d+1)
			if sl.High != nil {
				hi = lc.of(sl.High, d+1)
			}
			if sl.Low != nil {
				return hi.add(lc.of(sl.Low, d+1), -1)
			}
			return hi
		}
	}
	l := newLin()
	name := "len(" + x.Name() + ")"
	l.t[name] = 1
	lc.nonneg[name] = true
	return l
}

func (lc *linCtx) of(v ssa.Value, d int) linForm {
	v = stripNumConv(v)
	if d > 10 {
		lc.unknown = true
		return newLin()
	}
	if k, ok := constInt(v); ok {
		l := newLin()
		l.k = k
		return l
	}
	switch x := v.(type) {
	case *ssa.BinOp:
		switch x.Op {
		case token.ADD:
			return lc.of(x.X, d+1).add(lc.of(x.Y, d+1), 1)
		case token.SUB:
			return lc.of(x.X, d+1).add(lc.of(x.Y, d+1), -1)
		}
	case *ssa.Call:
		if isBuiltinCall(x, "len") {
			return lc.lenOf(x.Call.Args[0], d+1)
		}
		if indexFuncs[callName(x)] {
			l := newLin()
			name := "idx(" + x.Name() + ")"
			l.t[name] = 1
			lc.idx[name] = x
			if lc.f.nonNeg(x) {
				lc.nonneg[name] = true
			}
			return l
		}
	}
	l := newLin()
	name := "v(" + v.Name() + ")"
	l.t[name] = 1
	if lc.f.nonNeg(v) {
		lc.nonneg[name] = true
	}
	return l
}

func (lc *linCtx) trivially(f linForm) bool {
	if f.k < 0 {
		return false
	}
	for n, c := range f.t {
		if c < 0 || !lc.nonneg[n] {
			return false
		}
	}
	return true
}

// known non-negative forms from the Index contract
func (lc *linCtx) known() []linForm {
	var out []linForm
	var names []string
	for n := range lc.idx {
		names = append(names, n)
	}
	sort.Strings(names)
	for _, n := range names {
		if !lc.nonneg[n] {
			continue
		}
		call := lc.idx[n]
		if len(call.Call.Args) < 2 {
			continue
		}
		sepLen := newLin()
		if s, ok := constString(call.Call.Args[1]); ok {
			sepLen.k = int64(len(s))
		} else if callName(call) == "strings.IndexByte" || callName(call) == "strings.IndexRune" {
			sepLen.k = 1
		} else {
			sepLen = lc.lenOf(call.Call.Args[1], 0)
		}
		k := lc.lenOf(call.Call.Args[0], 0)
		me := newLin()
		me.t[n] = 1
		k = k.add(me, -1).add(sepLen, -1)
		out = append(out, k)
	}
	return out
}

// proveNonNeg: goal ≥ 0.
func (lc *linCtx) proveNonNeg(goal linForm) bool {
	if lc.unknown {
		return false
	}
	if lc.trivially(goal) {
		return true
	}
	// the decomposition of the known forms may register further atoms; iterate to a fixpoint
	var ks []linForm
	for i := 0; i < 3; i++ {
		n := len(lc.idx)
		ks = lc.known()
		if len(lc.idx) == n {
			break
		}
	}
	var rec func(f linForm, from, depth int) bool
	rec = func(f linForm, from, depth int) bool {
		if lc.trivially(f) {
			return true
		}
		if depth == 0 {
			return false
		}
		for i := from; i < len(ks); i++ {
			if rec(f.add(ks[i], -1), i, depth-1) {
				return true
			}
		}
		return false
	}
	return rec(goal, 0, 3)
}

// linLeq: a ≤ b at `at`.
func linLeq(f *Facts, a, b linFormSrc) bool {
	lc := &linCtx{f: f, idx: map[string]*ssa.Call{}, nonneg: map[string]bool{}}
	la, lb := a(lc), b(lc)
	return lc.proveNonNeg(lb.add(la, -1))
}

type linFormSrc func(lc *linCtx) linForm

func linVal(v ssa.Value) linFormSrc { return func(lc *linCtx) linForm { return lc.of(v, 0) } }
func linLen(x ssa.Value) linFormSrc { return func(lc *linCtx) linForm { return lc.lenOf(x, 0) } }
func linConst(k int64) linFormSrc {
	return func(lc *linCtx) linForm { l := newLin(); l.k = k; return l }
}
