package main

// The rule loop of ProcessEvent and the functions it may have been split into (shared by R01e,
// R02e, R10b, R10d). A maintenance edit that extracts the selection of the executing rules or
// the loop over them into a helper of the same package must not change what the rules see:
// values are resolved across the boundary of such helpers (parameter ↔ argument at the static
// call site in the processor method, call result ↔ returned values).

import (
	"go/types"

	"golang.org/x/tools/go/ssa"
)

type ruleLoop struct {
	Proc     *ssa.Function       // the Processor.ProcessEvent implementation
	LoopFn   *ssa.Function       // function containing the call of Rule.Action
	LoopCall ssa.CallInstruction // call of LoopFn in Proc (nil when LoopFn == Proc)
	Action   *ssa.Call
	Slice    ssa.Value // the slice whose elements' Action is called, in LoopFn
	bind     map[*ssa.Parameter]ssa.Value
}

// staticCalleesIn lists static same-package callees of fn (with their call sites).
func staticCalleesIn(c *Ctx, fn *ssa.Function) map[*ssa.Function][]ssa.CallInstruction {
	out := map[*ssa.Function][]ssa.CallInstruction{}
	allInstrs(fn, func(in ssa.Instruction) {
		ci, ok := in.(ssa.CallInstruction)
		if !ok {
			return
		}
		if _, isGo := in.(*ssa.Go); isGo {
			return
		}
		if f := ci.Common().StaticCallee(); f != nil && c.modFuncSet[f] && c.PkgOf(f) == c.PkgOf(fn) && f != fn && len(f.Blocks) > 0 {
			out[f] = append(out[f], ci)
		}
	})
	return out
}

// bindParams records parameter → argument for a static call.
func bindParams(bind map[*ssa.Parameter]ssa.Value, callee *ssa.Function, ci ssa.CallInstruction) {
	args := callArgs(ci.Common())
	for i, p := range callee.Params {
		if i < len(args) {
			bind[p] = args[i]
		}
	}
}

func findRuleLoop(c *Ctx, proc *ssa.Function, fAction *types.Var) *ruleLoop {
	rl := &ruleLoop{Proc: proc, bind: map[*ssa.Parameter]ssa.Value{}}
	find := func(fn *ssa.Function) bool {
		found := false
		allInstrs(fn, func(in ssa.Instruction) {
			call, ok := in.(*ssa.Call)
			if !ok || call.Call.IsInvoke() {
				return
			}
			ld, ok := call.Call.Value.(*ssa.UnOp)
			if !ok {
				return
			}
			fa, ok := ld.X.(*ssa.FieldAddr)
			if !ok || fieldVar(fa) != fAction {
				return
			}
			if s := elemOfSlice(fa.X); s != nil {
				rl.Action, rl.Slice, rl.LoopFn = call, s, fn
				found = true
			}
		})
		return found
	}
	if find(proc) {
		return rl
	}
	for callee, sites := range staticCalleesIn(c, proc) {
		if len(sites) == 1 && find(callee) {
			rl.LoopCall = sites[0]
			bindParams(rl.bind, callee, sites[0])
			return rl
		}
	}
	return nil
}

// resolve looks through spills, windows of a slice, and parameters of the helpers bound so far.
func (rl *ruleLoop) resolve(v ssa.Value) ssa.Value {
	for i := 0; i < 12; i++ {
		v = unspill(v)
		switch x := v.(type) {
		case *ssa.Parameter:
			if b, ok := rl.bind[x]; ok {
				v = b
				continue
			}
		case *ssa.Slice:
			if _, isArr := x.X.(*ssa.Alloc); !isArr {
				v = x.X
				continue
			}
		}
		return v
	}
	return v
}

// selection: the executing slice as seen in Proc is either built there, or the result of a
// static same-package helper (then the analysis continues in that helper with its parameters
// bound to the arguments). Returns the function to analyse and the slice values there.
func (rl *ruleLoop) selection(c *Ctx) (*ssa.Function, []ssa.Value, ssa.CallInstruction) {
	e := rl.resolve(rl.Slice)
	if call, ok := e.(*ssa.Call); ok {
		if g := call.Call.StaticCallee(); g != nil && c.modFuncSet[g] && c.PkgOf(g) == c.PkgOf(rl.Proc) && len(g.Blocks) > 0 && !isBuiltinCall(call, "append") {
			bindParams(rl.bind, g, call)
			return g, returnedValues(g, 0), call
		}
	}
	fn := rl.Proc
	if p, ok := e.(ssa.Instruction); ok && p.Parent() != nil {
		fn = p.Parent()
	}
	return fn, []ssa.Value{e}, nil
}
