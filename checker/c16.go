package main

// C16 — the debugger command interface is total.

import (
	"fmt"
	"go/types"
	"sort"
	"strings"

	"golang.org/x/tools/go/ssa"
)

func init() { register("C16", checkC16) }

// reviewed obligations of C16 (same discipline as C06: one construct, one reason)
var c16Reviewed = map[string]string{
	"interpreter.(*ecalDebugger).VisitStepOutState#index:ed.callStacks[*][(len(ed.callStacks[*])-1)]#0":                  "executeFunction calls VisitStepInState before and VisitStepOutState after every function run with the same node: the stack holds at least the entry pushed by the matching step-in",
	"interpreter.(*ecalDebugger).VisitStepOutState#slice:ed.callStacks[*][:(len(ed.callStacks[*])-1)]#0":                 "see the index above: the stack is not empty when a step-out is recorded",
	"interpreter.(*ecalDebugger).VisitStepOutState#slice:ed.callStackVsSnapshots[*][:(len(ed.callStacks[*])-1)]#0":       "the three per-thread stacks are pushed and popped together (VisitStepInState / VisitStepOutState) and deleted together: equal lengths",
	"interpreter.(*ecalDebugger).VisitStepOutState#slice:ed.callStackGlobalVsSnapshots[*][:(len(ed.callStacks[*])-1)]#0": "the three per-thread stacks are pushed and popped together (VisitStepInState / VisitStepOutState) and deleted together: equal lengths",
	"interpreter.(*ecalDebugger).VisitStepOutState#panicapi:errorutil.AssertTrue:ed.callStacks[*][*].Equals()#0#0":       "sanity assertion of the step-in/step-out pairing established by executeFunction (same node object on both calls)",
	"interpreter.(*ecalDebugger).VisitState#panicapi:runtime.Goexit#0":                                                   "deliberate: a thread resumed with the Kill command (StopThreads) ends its goroutine; deferred calls (mutex release, worker deregistration) still run",
	"interpreter.(*ecalDebugger).VisitState#tokennil:ed.interrogationStates[*]#0.node#0":                                 "an interrogation state's node is only ever set from a visited node inside `if node.Token != nil` or from the identifier node of a function call (VisitStepOutState)",
	"interpreter.(*ecalDebugger).VisitState#tokennil:ed.interrogationStates[*]#0.node#1":                                 "an interrogation state's node is only ever set from a visited node inside `if node.Token != nil` or from the identifier node of a function call (VisitStepOutState)",
	"interpreter.(*ecalDebugger).prettyPrintCallStack#tokennil:threadCallStack[*]#0":                                     "call stack entries are the identifier nodes executeFunction passes to VisitStepInState",
}

func checkC16(c *Ctx, r *Result, tier string) {
	r.Explanation = "Decides structural necessary conditions of a total command interface on the debugger's source: (R16a) every panic-capable instruction (same obligation classes as C06) in the command implementations and in the debugger methods they reach is discharged by a dominating argument/state check, by the reviewed table, or reported; " +
		"(R16b) lazily initialised debugger fields — assigned only outside the constructor — are nil-tested before a method is called on them or they are dereferenced (commands can arrive before any code ran); (R16c) every debugger method releases the debugger lock on every path, including the temporary unlock/relock windows."
	r.RuleText = "R16a obligation enumeration over Reach(DebugCommand.Run ∪ HandleInput) within the debugger's own types; R16b lazy-field rule (constructor stores nil ∧ assigned elsewhere ⇒ uses need a dominating non-nil fact); R16c lockflow pairing"
	r.NotCovered = "JSON-encodability of the returned values; evaluation of injected expressions (their obligations are C06's); blocking of a command on a program-held lock."
	r.Assumptions = []string{"commands reach the debugger only through HandleInput / DebugCommand.Run / the ECALDebugger interface"}

	cmdIface := c.Interface("util", "DebugCommand")
	dbgIface := c.Interface("util", "ECALDebugger")
	if cmdIface == nil || dbgIface == nil {
		r.Undecide("util.DebugCommand / util.ECALDebugger not found")
		return
	}
	var entries []*ssa.Function
	entries = append(entries, c.Implementations(cmdIface, "Run")...)
	for i := 0; i < dbgIface.NumMethods(); i++ {
		entries = append(entries, c.Implementations(dbgIface, dbgIface.Method(i).Name())...)
	}
	r.Floor("R16-entries", len(entries), 20)
	// the debugger's own types
	own := func(f *ssa.Function) bool {
		root := f
		for root.Parent() != nil {
			root = root.Parent()
		}
		if c.PkgOf(root) != "interpreter" {
			return false
		}
		recv := root.Signature.Recv()
		if recv == nil {
			return strings.Contains(strings.ToLower(root.Name()), "interrogation")
		}
		n := namedOf(recv.Type())
		if n == nil {
			return false
		}
		name := n.Obj().Name()
		return types.Implements(recv.Type(), dbgIface) || types.Implements(recv.Type(), cmdIface) ||
			strings.HasSuffix(name, "DebugCommand") || name == "interrogationState"
	}
	reach := c.Reachable(entries, func(f *ssa.Function) bool { return !own(f) })
	funcs := append([]*ssa.Function{}, reach.Order...)
	sort.Slice(funcs, func(i, j int) bool { return c.FuncKey(funcs[i]) < c.FuncKey(funcs[j]) })
	r.Floor("R16a-functions", len(funcs), 20)

	// ---- R16a -----------------------------------------------------------------------------------
	oc := newObligCtx(c)
	if pt, err := ExtractProviders(c); err == nil {
		oc.prov = pt
	}
	if gr, err := ExtractGrammar(c); err == nil {
		oc.grammar = gr
	}
	obsByFn := map[*ssa.Function][]Obligation{}
	for _, fn := range funcs {
		obs := oc.enumerate(fn, nil)
		obs = append(obs, oc.tokenObligations(fn)...)
		sortObligations(obs)
		obsByFn[fn] = obs
	}
	matchReviewed(c, c16Reviewed, funcs, obsByFn)
	for _, fn := range funcs {
		for _, ob := range obsByFn[fn] {
			r.Obligations++
			rule := "R16a-" + ob.Kind
			switch {
			case ob.Discharged:
				r.Discharged++
				r.Instance(rule, ob.Site, ob.Pos, "discharged", ob.Why, true)
			case c16Reviewed[ob.Site] != "":
				r.Discharged++
				r.Instance(rule, ob.Site, ob.Pos, "reviewed", c16Reviewed[ob.Site], true)
			default:
				r.Instance(rule, ob.Site, ob.Pos, "finding", ob.Why, true)
				r.Report(Finding{Rule: rule, Site: ob.Site, Pos: ob.Pos, Path: reach.PathTo(c, fn),
					Msg: fmt.Sprintf("%s: %s — a debug command line can reach this in some debugger state", c.FuncKey(fn), ob.Why)})
			}
		}
	}
	r.Floor("R16a-obligations", r.Obligations, 15)

	// ---- R16b lazy fields -----------------------------------------------------------------------
	dbgT := c.NamedType("interpreter", "ecalDebugger")
	if dbgT == nil {
		r.Undecide("interpreter.ecalDebugger not found")
		return
	}
	st, _ := dbgT.Underlying().(*types.Struct)
	nLazy := 0
	for i := 0; i < st.NumFields(); i++ {
		f := st.Field(i)
		if !isPointerLike(f.Type()) || isLockType(f.Type()) {
			continue
		}
		// stores to the field: in the constructor (composite literal: fresh) and elsewhere
		ctorNil, assignedElsewhere := false, false
		for _, s := range fieldStores(c, f) {
			if freshIn(baseOf(s.Addr)) {
				if isNilConst(s.Val) {
					ctorNil = true
				}
			} else {
				assignedElsewhere = true
			}
		}
		if !(ctorNil && assignedElsewhere) {
			continue
		}
		nLazy++
		// uses: the loaded value is a receiver / dereferenced
		for _, fn := range c.ModFuncs() {
			if c.PkgOf(fn) != "interpreter" {
				continue
			}
			key := c.FuncKey(fn)
			ord := newOrdinals()
			for _, a := range accessesOf(fn, f) {
				ld, ok := a.Instr.(*ssa.UnOp)
				var user ssa.Instruction
				if a.Method != "" {
					user = a.Instr
				} else if ok {
					for _, ref := range *ld.Referrers() {
						switch x := ref.(type) {
						case *ssa.FieldAddr, *ssa.IndexAddr:
							user = x.(ssa.Instruction)
						case *ssa.MapUpdate:
							if x.Map == ssa.Value(ld) {
								user = x
							}
						}
					}
				}
				if user == nil {
					continue
				}
				site := ord.key(key, "lazyfield", f.Name())
				pos := c.Pos(c.InstrPos(user))
				facts := FactsAt(user)
				p := accessPath(a.Addr)
				if facts.NonNil[p] {
					r.Instance("R16b", site, pos, "ok", "use of the lazily set field "+f.Name()+" under a non-nil test", true)
					continue
				}
				r.Instance("R16b", site, pos, "finding", "lazily set field used without nil test", true)
				r.Report(Finding{Rule: "R16b", Site: site, Pos: pos,
					Msg: fmt.Sprintf("%s uses ecalDebugger.%s, which is nil until code has been executed, without a nil test: the command crashes the debugger when it arrives before any evaluation (`lockstate` as the first command)", key, f.Name())})
			}
		}
	}
	r.Floor("R16b-lazy-fields", nLazy, 2)

	// ---- R16c lock pairing -----------------------------------------------------------------------
	lfs := NewLockFlows(c)
	var dfuncs []*ssa.Function
	for _, fn := range c.ModFuncs() {
		if own(fn) {
			dfuncs = append(dfuncs, fn)
		}
	}
	n := checkLockPairing(c, r, lfs, "R16c", dfuncs)
	r.Floor("R16c-acquisitions", n, 15)

	// ---- R16d: no command handler blocks on a debugger lock it already holds ---------------------
	isDbg := func(class string) bool { return strings.HasPrefix(class, "interpreter.ecalDebugger") }
	nRe := checkReentrance(c, r, lfs, "R16d", isDbg)
	nSelf := checkSelfDeadlock(c, r, lfs, "R16d", isDbg)
	r.Extra["reentrance_call_sites"] = nRe
	r.Extra["self_deadlock_call_sites"] = nSelf
	r.Floor("R16d", nRe+nSelf, 10)

	// ---- R16e: results are JSON-encodable ---------------------------------------------------------
	c16JSONSafe(c, r, reach)

	// ---- R16f: no live references in results -------------------------------------------------------
	c16NoLiveReferences(c, r, dbgIface)

	// ---- R16g: the debugger's tables are written only with its lock held exclusively -------------
	// (the same rule as C15 R15c: a command handler that writes a table under the read lock races
	// with the next command — concurrent map writes are a fatal error, not a panic one can recover)
	var ifuncs []*ssa.Function
	for _, fn := range c.ModFuncs() {
		if c.PkgOf(fn) == "interpreter" {
			ifuncs = append(ifuncs, fn)
		}
	}
	nG := debuggerGuardedBy(c, r, newGuardChecker(c, lfs), "R16g", ifuncs)
	r.Floor("R16g", nG, 40)

	// ---- R16h: scope chains end in nil -------------------------------------------------------------
	c16ScopeChainEnds(c, r, dfuncs)
	c16LookupBeforeUse(c, r, dfuncs)
}
