package main

// tables: extraction of the repository's own tables (grammar astNodeMap, runtime
// providerMap) from the SSA of the package initialisers, plus the reviewed AST
// shape table (node kind -> child pattern) frozen from the parser.

import (
	"go/constant"
	"go/types"
	"sort"
	"strings"

	"golang.org/x/tools/go/ssa"
)

// GrammarEntry is one entry of parser.astNodeMap.
type GrammarEntry struct {
	Token     int64
	TokenName string
	Name      string // node kind ("" for pure symbols)
	Binding   int64
	Nd, Ld    string // names of the null / left denotation functions ("" = nil)
}

type Grammar struct {
	ByToken map[int64]*GrammarEntry
	ByTName map[string]*GrammarEntry
	ByName  map[string]*GrammarEntry
}

// initFuncs returns the package initialiser(s) of a package.
func initFuncs(c *Ctx, pkg string) []*ssa.Function {
	sp := c.ssaPkg[pkg]
	if sp == nil {
		return nil
	}
	var out []*ssa.Function
	for name, m := range sp.Members {
		if f, ok := m.(*ssa.Function); ok && (name == "init" || strings.HasPrefix(name, "init#")) {
			out = append(out, f)
		}
	}
	sort.Slice(out, func(i, j int) bool { return out[i].Name() < out[j].Name() })
	return out
}

// mapLiteralOf collects the MapUpdates that build the map finally stored in global g.
func mapLiteralOf(c *Ctx, pkg string, g *ssa.Global) []*ssa.MapUpdate {
	var out []*ssa.MapUpdate
	for _, fn := range initFuncs(c, pkg) {
		var mk ssa.Value
		allInstrs(fn, func(in ssa.Instruction) {
			if st, ok := in.(*ssa.Store); ok && st.Addr == ssa.Value(g) {
				mk = st.Val
			}
		})
		if mk == nil {
			continue
		}
		allInstrs(fn, func(in ssa.Instruction) {
			if mu, ok := in.(*ssa.MapUpdate); ok && mu.Map == mk {
				out = append(out, mu)
			}
		})
	}
	return out
}

// constNames maps the values of the constants of a named type in a package to their names.
func constNames(c *Ctx, pkg, typ string) map[string]string {
	out := map[string]string{}
	p := c.byName[pkg]
	if p == nil {
		return out
	}
	sc := p.Types.Scope()
	for _, n := range sc.Names() {
		co, ok := sc.Lookup(n).(*types.Const)
		if !ok {
			continue
		}
		if nt, ok := co.Type().(*types.Named); ok && nt.Obj().Name() == typ {
			out[co.Val().ExactString()] = n
		}
	}
	return out
}

// ExtractGrammar reads parser.astNodeMap.
func ExtractGrammar(c *Ctx) (*Grammar, error) {
	g := c.Global("parser", "astNodeMap")
	if g == nil {
		return nil, errf("parser.astNodeMap not found")
	}
	ups := mapLiteralOf(c, "parser", g)
	if len(ups) == 0 {
		return nil, errf("no initialiser of parser.astNodeMap found")
	}
	tnames := constNames(c, "parser", "LexTokenID")
	gr := &Grammar{ByToken: map[int64]*GrammarEntry{}, ByTName: map[string]*GrammarEntry{}, ByName: map[string]*GrammarEntry{}}
	for _, mu := range ups {
		k, ok := constInt(mu.Key)
		if !ok {
			return nil, errf("astNodeMap has a non-constant key")
		}
		e := &GrammarEntry{Token: k, TokenName: tnames[mu.Key.(*ssa.Const).Value.ExactString()]}
		cell, ok := mu.Value.(*ssa.Alloc)
		if !ok {
			return nil, errf("astNodeMap[%s] is not a composite literal", e.TokenName)
		}
		for _, ref := range *cell.Referrers() {
			fa, ok := ref.(*ssa.FieldAddr)
			if !ok {
				continue
			}
			fname := fieldName(fa.X.Type(), fa.Field)
			for _, ref2 := range *fa.Referrers() {
				st, ok := ref2.(*ssa.Store)
				if !ok || st.Addr != fa {
					continue
				}
				switch fname {
				case "Name":
					if s, ok := constString(st.Val); ok {
						e.Name = s
					}
				case "binding":
					if n, ok := constInt(st.Val); ok {
						e.Binding = n
					}
				case "nullDenotation":
					if f, ok := stripConv(st.Val).(*ssa.Function); ok {
						e.Nd = f.Name()
					}
				case "leftDenotation":
					if f, ok := stripConv(st.Val).(*ssa.Function); ok {
						e.Ld = f.Name()
					}
				}
			}
		}
		gr.ByToken[k] = e
		gr.ByTName[e.TokenName] = e
		if e.Name != "" {
			gr.ByName[e.Name] = e
		}
	}
	return gr, nil
}

type simpleErr string

func (e simpleErr) Error() string { return string(e) }

func errf(format string, a ...interface{}) error { return simpleErr(sprintf(format, a...)) }

// ProviderTable: node kind -> constructor -> runtime type.
type ProviderTable struct {
	Kind2Ctor map[string]*ssa.Function
	Kind2Type map[string]*types.Named
	c         *Ctx
}

func ExtractProviders(c *Ctx) (*ProviderTable, error) {
	g := c.Global("interpreter", "providerMap")
	if g == nil {
		return nil, errf("interpreter.providerMap not found")
	}
	ups := mapLiteralOf(c, "interpreter", g)
	if len(ups) == 0 {
		return nil, errf("no initialiser of interpreter.providerMap found")
	}
	pt := &ProviderTable{Kind2Ctor: map[string]*ssa.Function{}, Kind2Type: map[string]*types.Named{}, c: c}
	for _, mu := range ups {
		k, ok := constString(mu.Key)
		if !ok {
			return nil, errf("providerMap has a non-constant key")
		}
		f, ok := stripConv(mu.Value).(*ssa.Function)
		if !ok {
			return nil, errf("providerMap[%s] is not a function", k)
		}
		pt.Kind2Ctor[k] = f
		// the concrete type the constructor boxes — through constructors it delegates to
		var find func(fn *ssa.Function, d int)
		find = func(fn *ssa.Function, d int) {
			if d > 3 || len(fn.Blocks) == 0 {
				return
			}
			for _, rv := range returnedValues(fn, 0) {
				switch x := rv.(type) {
				case *ssa.MakeInterface:
					if n := namedOf(x.X.Type()); n != nil {
						pt.Kind2Type[k] = n
					}
				case *ssa.Call:
					if callee := x.Call.StaticCallee(); callee != nil && c.modFuncSet[callee] {
						find(callee, d+1)
					}
				}
			}
		}
		find(f, 0)
		if pt.Kind2Type[k] == nil {
			return nil, errf("runtime type of providerMap[%s] (%s) not determined", k, f.Name())
		}
	}
	return pt, nil
}

// embeds: struct type t embeds (transitively) named type base.
func embeds(t, base *types.Named, d int) bool {
	if t == base {
		return true
	}
	if d > 6 {
		return false
	}
	st, ok := t.Underlying().(*types.Struct)
	if !ok {
		return false
	}
	for i := 0; i < st.NumFields(); i++ {
		f := st.Field(i)
		if !f.Embedded() {
			continue
		}
		if n := namedOf(f.Type()); n != nil && embeds(n, base, d+1) {
			return true
		}
	}
	return false
}

// KindsOf: node kinds whose runtime type is t or embeds t.
func (pt *ProviderTable) KindsOf(t *types.Named) []string {
	var out []string
	for k, rt := range pt.Kind2Type {
		if embeds(rt, t, 0) {
			out = append(out, k)
		}
	}
	sort.Strings(out)
	return out
}

// NodeShape: child pattern of a node kind in a tree returned by the parser without error.
type NodeShape struct {
	Min, Max int  // number of children (Max -1 = unbounded)
	Token    bool // the node always carries a token
}

// nodeShapes is frozen from parser/parser.go (reviewed). The fixed-arity producers are
// cross-checked against the grammar table by checkShapeTable.
var nodeShapes = map[string]NodeShape{
	exprKind: {0, -1, true},
	"EOF":    {0, 0, true}, "string": {0, 0, true}, "number": {0, 0, true},
	"identifier": {0, -1, true},
	"statements": {0, -1, false}, "funccall": {0, -1, false}, "compaccess": {1, 1, false},
	"list": {0, -1, true}, "map": {0, -1, true}, "params": {0, -1, false}, "guard": {1, 1, false},
	">=": {2, 2, true}, "<=": {2, 2, true}, "!=": {2, 2, true}, "==": {2, 2, true}, ">": {2, 2, true}, "<": {2, 2, true},
	"kvp": {2, 2, true}, "preset": {2, 2, true},
	"plus": {1, 2, true}, "minus": {1, 2, true},
	"times": {2, 2, true}, "div": {2, 2, true}, "divint": {2, 2, true}, "modint": {2, 2, true},
	":=": {2, 2, true}, "let": {1, 1, true},
	"import": {2, 2, true}, "as": {1, 1, true},
	"sink": {2, -1, true}, "kindmatch": {1, 1, true}, "scopematch": {1, 1, true}, "statematch": {1, 1, true}, "priority": {1, 1, true}, "suppresses": {1, 1, true},
	"function": {2, 3, true}, "return": {0, 1, true},
	"and": {2, 2, true}, "or": {2, 2, true}, "not": {1, 1, true},
	"like": {2, 2, true}, "in": {2, 2, true}, "hasprefix": {2, 2, true}, "hassuffix": {2, 2, true}, "notin": {2, 2, true},
	"false": {0, 0, true}, "true": {0, 0, false}, "null": {0, 0, true},
	"if": {2, -1, true}, "loop": {2, 2, true}, "break": {0, 0, true}, "continue": {0, 0, true},
	"try": {1, -1, true}, "except": {1, -1, true}, "otherwise": {1, 1, true}, "finally": {1, 1, true},
	"mutex": {2, 2, true},
}

// exprKind is the pseudo kind of "any node returned by the parser's run()": instanced from a
// token, unknown number of children.
const exprKind = "<expr>"

// childKinds: the node kinds a child at position pos (-1 = any position) of a node of the
// given kind can have in a tree returned by the parser (frozen from parser/parser.go, reviewed).
func childKinds(kind string, pos int) []string {
	e := []string{exprKind}
	switch kind {
	case "if":
		if pos >= 0 && pos%2 == 0 {
			return []string{"guard"}
		} else if pos >= 0 {
			return []string{"statements"}
		}
		return []string{"guard", "statements"}
	case "guard":
		return []string{exprKind, "true"} // the else branch holds a `true` node without token
	case "loop":
		if pos == 0 {
			return []string{"guard", "in"}
		} else if pos == 1 {
			return []string{"statements"}
		}
		return []string{"guard", "in", "statements"}
	case "try":
		if pos == 0 {
			return []string{"statements"}
		} else if pos > 0 {
			return []string{"except", "otherwise", "finally"}
		}
		return []string{"statements", "except", "otherwise", "finally"}
	case "except":
		return []string{"string", "as", "identifier", "statements"}
	case "otherwise", "finally":
		return []string{"statements"}
	case "as":
		return []string{"identifier"}
	case "function":
		if pos == 0 {
			return []string{"identifier", "params"}
		}
		return []string{"identifier", "params", "statements"}
	case "mutex":
		if pos == 0 {
			return []string{"identifier"}
		} else if pos == 1 {
			return []string{"statements"}
		}
		return []string{"identifier", "statements"}
	case "import":
		if pos == 0 {
			return []string{"string"}
		} else if pos == 1 {
			return []string{"identifier"}
		}
		return []string{"string", "identifier"}
	case "sink":
		if pos == 0 {
			return []string{"identifier"}
		}
		return []string{"identifier", exprKind, "statements"}
	case "identifier":
		return []string{"identifier", "funccall", "compaccess"}
	case "statements", "funccall", "list", "map", "params", "compaccess", "return", "let":
		return e
	}
	if sh, ok := nodeShapes[kind]; ok && sh.Max != 0 {
		return e // operators and sink attributes: operands are expressions
	}
	return nil
}

// checkShapeTable cross-checks the shape table against the grammar: every node kind of the
// grammar has a shape; kinds produced by ldInfix have exactly 2 children, by ndPrefix 1
// (1..2 when both), by ndTerm 0.
func checkShapeTable(gr *Grammar) []string {
	var problems []string
	for name, e := range gr.ByName {
		sh, ok := nodeShapes[name]
		if !ok {
			problems = append(problems, "node kind "+name+" of the grammar has no entry in the checker's shape table")
			continue
		}
		switch {
		case e.Ld == "ldInfix" && e.Nd == "ndPrefix":
			if sh.Min != 1 || sh.Max != 2 {
				problems = append(problems, "shape of "+name+" should be 1..2 children (prefix and infix)")
			}
		case e.Ld == "ldInfix" && e.Nd == "":
			if sh.Min != 2 || sh.Max != 2 {
				problems = append(problems, "shape of "+name+" should be exactly 2 children (ldInfix)")
			}
		case e.Nd == "ndPrefix" && e.Ld == "":
			if sh.Min != 1 || sh.Max != 1 {
				problems = append(problems, "shape of "+name+" should be exactly 1 child (ndPrefix)")
			}
		case e.Nd == "ndTerm":
			if sh.Min != 0 || sh.Max != 0 {
				problems = append(problems, "shape of "+name+" should be 0 children (ndTerm)")
			}
		}
	}
	sort.Strings(problems)
	return problems
}

var _ = constant.MakeBool

// typeIsRuntime: t is the runtime type of some node kind (directly registered in providerMap).
func (pt *ProviderTable) typeIsRuntime(t *types.Named) (string, bool) {
	for k, rt := range pt.Kind2Type {
		if rt == t {
			return k, true
		}
	}
	return "", false
}
