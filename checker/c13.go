package main

// C13 — parsing is a pure, re-entrant function of its input.
//
// R13a: no function reachable from the exported functions of package parser and
// from the runtime provider's constructors writes package-level state.
// R13b: no nondeterminism source (map iteration order, time, rand) in that set.

import (
	"fmt"
	"go/token"
	"go/types"
	"sort"
	"strings"

	"golang.org/x/tools/go/ssa"
)

func init() { register("C13", checkC13) }

// c13Entries: exported functions and methods of package parser plus every
// implementation of parser.RuntimeProvider.Runtime (which reaches, through the
// provider's table, every runtime component constructor).
func c13Entries(c *Ctx, r *Result) []*ssa.Function {
	var entries []*ssa.Function
	sp := c.ssaPkg["parser"]
	if sp == nil {
		r.Undecide("package parser not found")
		return nil
	}
	for _, fn := range c.ModFuncs() {
		if fn.Parent() != nil || c.PkgOf(fn) != "parser" {
			continue
		}
		o := fn.Object()
		if o == nil || !o.Exported() {
			continue
		}
		entries = append(entries, fn)
	}
	if iface := c.Interface("parser", "RuntimeProvider"); iface != nil {
		impls := c.Implementations(iface, "Runtime")
		if len(impls) == 0 {
			r.Undecide("no implementation of parser.RuntimeProvider.Runtime found")
		}
		entries = append(entries, impls...)
	} else {
		r.Undecide("interface parser.RuntimeProvider not found")
	}
	return entries
}

// allowed callees when a pointer derived from a global is passed along
var c13SyncOK = map[string]bool{
	"sync/atomic": true, "sync": true,
}

func checkC13(c *Ctx, r *Result, tier string) {
	r.Explanation = "Decides a sufficient condition for C13: no function reachable (class-hierarchy call graph, dynamic calls resolved by signature) " +
		"from the exported API of package parser or from the runtime provider's component constructors writes a package-level variable, " +
		"memory reached from one (store, map update, delete, copy, send), or hands such memory to a callee that writes through the parameter; " +
		"and none of them draws on map iteration order, time or random numbers. Without shared writes a parse depends on its input only and two parses cannot race."
	r.RuleText = "R13a no-shared-write: ∀ f ∈ Reach(parser API ∪ RuntimeProvider.Runtime): no Store/MapUpdate/delete/copy/send whose target is rooted in a *ssa.Global; no call passing global-rooted pointer-like memory to a parameter the callee writes through (init, sync, sync/atomic exempt). R13b: no map range / time / math/rand in Reach."
	r.NotCovered = "Races inside the Go standard library or krotik/common called with parser-local data; a mutex-guarded shared cache would be reported although race-free (none exists); equality of results is implied by absence of shared mutable inputs, not tested."
	r.Assumptions = []string{
		"CHA call graph over-approximates dynamic calls (function values by signature, interface calls by method sets)",
		"no reflection/unsafe/linkname writes (none in parser/interpreter)",
		"functions of the standard library do not write memory passed read-only (fmt, strings, strconv, bytes)",
	}

	c13FixtureCheck(r)
	entries := c13Entries(c, r)
	if len(entries) == 0 {
		return
	}
	// The debugger, the CLI and the engine are not part of parsing; they are
	// reached only through CHA imprecision of interface calls that parsing never
	// makes. Reachability is nevertheless NOT cut there: a write stays a finding
	// wherever it is, except in package init functions.
	reach := c.Reachable(entries, func(f *ssa.Function) bool {
		return f.Name() == "init" || strings.HasPrefix(f.Name(), "init#")
	})
	pw := NewParamWrites(c)
	depth := 1
	if tier == "thorough" {
		depth = 3
	}

	funcs := reach.Order
	sort.Slice(funcs, func(i, j int) bool { return c.FuncKey(funcs[i]) < c.FuncKey(funcs[j]) })
	perPkg := map[string]int{}
	writesSeen := 0
	c13Atomics(c, r, funcs)
	c13SharedProvider(c, r)
	c13PoolReleasedOnce(c, r, funcs)
	r.Extra["objects_stored_into_shared_containers_under_a_lock"] = cPublishThenWrite(c, r, "R13f", NewLockFlows(c),
		// the packages in which a parse and the construction of runtime components run; the seeded change C13-8
		// (a cache of parsed imports whose entry is completed after it was stored) is the positive example of
		// every thorough run — the unchanged tree has no such store in these packages
		map[string]bool{"parser": true, "interpreter": true, "scope": true, "util": true, "stdlib": true, "config": true})
	for _, fn := range funcs {
		perPkg[c.PkgOf(fn)]++
		key := c.FuncKey(fn)
		ord := newOrdinals()
		ws := WritesOf(fn)
		clean := true
		for _, w := range ws {
			writesSeen++
			if w.Kind != WGlobal {
				continue
			}
			clean = false
			g := w.Root.(*ssa.Global)
			site := ord.key(key, w.What, g.Pkg.Pkg.Name()+"."+g.Name())
			r.Instance("R13a", site, c.Pos(c.InstrPos(w.Instr)), "finding", "write to package-level state", true)
			r.Report(Finding{Rule: "R13a", Site: site, Pos: c.Pos(c.InstrPos(w.Instr)),
				Msg:  fmt.Sprintf("%s: %s to package-level variable %s.%s (or memory reached from it) on a path reachable from the parser API", key, w.What, g.Pkg.Pkg.Name(), g.Name()),
				Path: reach.PathTo(c, fn)})
		}
		// global-derived memory handed to a writing callee
		allInstrs(fn, func(in ssa.Instruction) {
			ci, ok := in.(ssa.CallInstruction)
			if !ok {
				return
			}
			args := callArgs(ci.Common())
			for ai, a := range args {
				if !isPointerLike(a.Type()) {
					continue
				}
				k, root, _ := classifyTarget(a, 0)
				if k != WGlobal {
					continue
				}
				g := root.(*ssa.Global)
				if !c.inModuleGlobal(g) {
					continue // os.Stdout, os.Args ...
				}
				callees := c.Callees(ci)
				for _, callee := range callees {
					if !c.modFuncSet[callee] {
						if o := callee.Object(); o != nil && o.Pkg() != nil && c13SyncOK[o.Pkg().Path()] {
							continue
						}
						// opaque callee outside the module: trusted read-only unless known mutator
						if mutatorOutside(callee) {
							clean = false
							site := ord.key(key, "call", funcFullName(calleeObj(ci.Common()))+":"+g.Name())
							r.Instance("R13a", site, c.Pos(c.InstrPos(in)), "finding", "global passed to mutating library call", true)
							r.Report(Finding{Rule: "R13a", Site: site, Pos: c.Pos(c.InstrPos(in)),
								Msg:  fmt.Sprintf("%s passes memory of package-level variable %s to mutating call %s", key, g.Name(), callee.String()),
								Path: reach.PathTo(c, fn)})
						}
						continue
					}
					if w, ok := pw.Of(callee, depth)[ai]; ok {
						clean = false
						site := ord.key(key, "call", c.FuncKey(callee)+":"+g.Name())
						r.Instance("R13a", site, c.Pos(c.InstrPos(in)), "finding", "global passed to writing callee", true)
						r.Report(Finding{Rule: "R13a", Site: site, Pos: c.Pos(c.InstrPos(in)),
							Msg: fmt.Sprintf("%s passes memory of package-level variable %s.%s to %s, which writes through that parameter at %s",
								key, g.Pkg.Pkg.Name(), g.Name(), c.FuncKey(callee), c.Pos(c.InstrPos(w))),
							Path: reach.PathTo(c, fn)})
					}
				}
			}
		})
		// R13b nondeterminism
		allInstrs(fn, func(in ssa.Instruction) {
			switch x := in.(type) {
			case *ssa.Range:
				if _, isMap := x.X.Type().Underlying().(*types.Map); isMap {
					site := ord.key(key, "maprange", accessPath(x.X))
					if why, ok := c13MapRangeReviewed[site]; ok {
						r.Instance("R13b", site, c.Pos(c.InstrPos(in)), "reviewed", why, true)
						return
					}
					clean = false
					r.Instance("R13b", site, c.Pos(c.InstrPos(in)), "finding", "map iteration order can reach the parse result", true)
					r.Report(Finding{Rule: "R13b", Site: site, Pos: c.Pos(c.InstrPos(in)),
						Msg:  fmt.Sprintf("%s ranges over a map (%s): iteration order is a nondeterminism source on the parsing path", key, accessPath(x.X)),
						Path: reach.PathTo(c, fn)})
				}
			case ssa.CallInstruction:
				if o := calleeObj(x.Common()); o != nil && o.Pkg() != nil {
					p := o.Pkg().Path()
					if p == "math/rand" || (p == "time" && (o.Name() == "Now" || o.Name() == "Since")) {
						site := ord.key(key, "nondet", p+"."+o.Name())
						clean = false
						r.Instance("R13b", site, c.Pos(c.InstrPos(in)), "finding", "time/rand on the parsing path", true)
						r.Report(Finding{Rule: "R13b", Site: site, Pos: c.Pos(c.InstrPos(in)),
							Msg:  fmt.Sprintf("%s calls %s.%s on the parsing path", key, p, o.Name()),
							Path: reach.PathTo(c, fn)})
					}
				}
			}
		})
		if clean {
			r.Instance("R13a", key, c.Pos(fn.Pos()), "clean", fmt.Sprintf("%d write effect(s), none rooted in package-level state", len(ws)), len(ws) > 0)
		}
	}
	r.Extra["reachable_functions"] = len(funcs)
	r.Extra["reachable_per_package"] = perPkg
	r.Extra["entry_points"] = len(entries)
	r.Extra["write_effects_examined"] = writesSeen
	r.Floor("R13a-reach", len(funcs), 100)
	r.Floor("R13a-parser-reach", perPkg["parser"], 50)
	r.Floor("R13a-constructors", perPkg["interpreter"], 40)

	if tier == "thorough" {
		// reachability under VTA as a cross-check: report the difference only
		rv := c.reachable(c.VTA(), entries, func(f *ssa.Function) bool { return f.Name() == "init" })
		only := 0
		for f := range reach.Set {
			if !rv.Set[f] {
				only++
			}
		}
		r.Extra["reachable_only_under_CHA"] = only
		r.Extra["reachable_under_VTA"] = len(rv.Set)
	}
}

// map ranges on the parsing path that were read and found not to influence the result order
var c13MapRangeReviewed = map[string]string{
	"engine.(*TaskError).Error#maprange:te.ErrorMap#0": "collects the keys, which are sorted before use; on the parsing path only through CHA resolution of error.Error()",
}

const c13Fixture = `package fixture
var table = map[int]*int{}
var counter int
type node struct{ kids []int }
var shared = &node{}
func bump() { counter++ }
func swap(k int, v *int) { old := table[k]; table[k] = v; _ = old }
func grow() { shared.kids = append(shared.kids, 1) }
func viaLocal() { n := shared; n.kids[0] = 2 }
func clean() { n := &node{}; n.kids = append(n.kids, 1) }
`

// c13FixtureCheck makes sure the write detector still recognises the four shapes of a shared write.
func c13FixtureCheck(r *Result) {
	sp, err := buildFixture(c13Fixture)
	if err != nil {
		r.Undecide("C13 fixture does not build: %v", err)
		return
	}
	want := map[string]bool{"bump": true, "swap": true, "grow": true, "viaLocal": true, "clean": false}
	for name, expect := range want {
		got := false
		for _, w := range WritesOf(sp.Func(name)) {
			if w.Kind == WGlobal {
				got = true
			}
		}
		if got != expect {
			r.Undecide("C13 fixture: write detector gives %v for %s, expected %v", got, name, expect)
		}
		r.Instance("R13a-fixture", "fixture."+name, "", map[bool]string{true: "fires", false: "silent"}[got], "positive/negative fixture for the shared-write detector", true)
	}
}

func (c *Ctx) inModuleGlobal(g *ssa.Global) bool {
	if g.Pkg == nil || g.Pkg.Pkg == nil {
		return false
	}
	p := g.Pkg.Pkg.Path()
	return p == modPath || strings.HasPrefix(p, modPath+"/")
}

// mutatorOutside: library functions that write through their pointer-like arguments.
func mutatorOutside(f *ssa.Function) bool {
	o := f.Object()
	if o == nil || o.Pkg() == nil {
		return false
	}
	switch o.Pkg().Path() {
	case "sort":
		return true
	case "container/heap", "container/list":
		return true
	case "encoding/json":
		return o.Name() == "Unmarshal"
	case "text/template", "html/template":
		// methods that configure or extend a template write into it (and into the set it shares)
		if r := o.Type().(*types.Signature).Recv(); r != nil {
			switch o.Name() {
			case "Option", "Funcs", "Delims", "Parse", "ParseFiles", "ParseGlob", "ParseFS", "AddParseTree", "New":
				return true
			}
		}
	case "bytes":
		if r := o.Type().(*types.Signature).Recv(); r != nil {
			n := o.Name()
			return strings.HasPrefix(n, "Write") || n == "Truncate" || n == "Reset" || n == "Grow"
		}
	}
	return false
}

// c13Atomics: R13c — package-level state that the parsing / construction path updates through
// sync/atomic is touched only through sync/atomic there (a plain read next to an atomic add is
// a data race and can observe another goroutine's increment), and identifiers drawn from such
// counters come from a single atomic step.
func c13Atomics(c *Ctx, r *Result, funcs []*ssa.Function) {
	atomicGlobals := map[*ssa.Global]bool{}
	for _, fn := range funcs {
		allInstrs(fn, func(in ssa.Instruction) {
			call, ok := in.(*ssa.Call)
			if !ok || !strings.HasPrefix(callName(call), "sync/atomic.") || len(call.Call.Args) == 0 {
				return
			}
			if g, ok := call.Call.Args[0].(*ssa.Global); ok && c.inModuleGlobal(g) {
				atomicGlobals[g] = true
			}
		})
	}
	n := 0
	for _, fn := range funcs {
		key := c.FuncKey(fn)
		ord := newOrdinals()
		allInstrs(fn, func(in ssa.Instruction) {
			var g *ssa.Global
			what := ""
			switch x := in.(type) {
			case *ssa.UnOp:
				if gg, ok := x.X.(*ssa.Global); ok && x.Op == token.MUL {
					g, what = gg, "plain read"
				}
			case *ssa.Store:
				if gg, ok := x.Addr.(*ssa.Global); ok {
					g, what = gg, "plain write"
				}
			}
			if g == nil || !atomicGlobals[g] {
				return
			}
			site := ord.key(key, "mixed-atomic", g.Name())
			pos := c.Pos(c.InstrPos(in))
			r.Instance("R13c", site, pos, "finding", what+" of an atomically updated variable", true)
			r.Report(Finding{Rule: "R13c", Site: site, Pos: pos,
				Msg: fmt.Sprintf("%s: %s of %s.%s, which concurrent parses update through sync/atomic: the access races with the atomic update and can observe another goroutine's value", key, what, g.Pkg.Pkg.Name(), g.Name())})
		})
	}
	// the value of a process-wide counter must not decide anything a parse does: it is the sum
	// over all parses running at that moment, so the decision depends on what else runs
	for _, fn := range funcs {
		key := c.FuncKey(fn)
		ord := newOrdinals()
		allInstrs(fn, func(in ssa.Instruction) {
			call, ok := in.(*ssa.Call)
			if !ok || !strings.HasPrefix(callName(call), "sync/atomic.") || len(call.Call.Args) == 0 {
				return
			}
			g, ok := call.Call.Args[0].(*ssa.Global)
			if !ok || !c.inModuleGlobal(g) {
				return
			}
			decides := false
			seen := map[ssa.Value]bool{}
			var walk func(v ssa.Value, d int)
			walk = func(v ssa.Value, d int) {
				if v == nil || seen[v] || d > 8 || v.Referrers() == nil {
					return
				}
				seen[v] = true
				for _, ref := range *v.Referrers() {
					switch x := ref.(type) {
					case *ssa.If:
						decides = true
					case *ssa.BinOp:
						walk(x, d+1)
					case *ssa.UnOp:
						walk(x, d+1)
					case *ssa.Convert:
						walk(x, d+1)
					case *ssa.Phi:
						walk(x, d+1)
					case *ssa.Extract:
						walk(x, d+1)
					}
				}
			}
			walk(call, 0)
			if !decides {
				return
			}
			site := ord.key(key, "shared-decision", g.Name())
			pos := c.Pos(c.InstrPos(in))
			r.Instance("R13c", site, pos, "finding", "a decision depends on a process-wide counter", true)
			r.Report(Finding{Rule: "R13c", Site: site, Pos: pos,
				Msg: fmt.Sprintf("%s: a branch on the parsing / construction path depends on the value of %s.%s, a counter shared by every parse of the process: what one parse does then depends on how many other parses run at that moment (race-free, but no longer a function of the input)", key, g.Pkg.Pkg.Name(), g.Name())})
		})
	}
	for g := range atomicGlobals {
		n++
		r.Instance("R13c", "atomic-global:"+g.Pkg.Pkg.Name()+"."+g.Name(), c.Pos(g.Pos()), "ok", "accessed on the parsing / construction path through sync/atomic", true)
	}
	inSet := map[*ssa.Function]bool{}
	for _, fn := range funcs {
		inSet[fn] = true
	}
	nGen := 0
	for _, g := range findIDGenerators(c, NewLockFlows(c), func(p string) bool { return p == "parser" || p == "interpreter" }) {
		if !inSet[g.Fn] {
			continue
		}
		nGen++
		key := c.FuncKey(g.Fn)
		site := key + "#idgen:" + g.Loc
		pos := c.Pos(g.ReadPos)
		if g.OK {
			r.Instance("R13c", site, pos, "ok", g.Why, true)
			continue
		}
		r.Instance("R13c", site, pos, "finding", g.Why, true)
		r.Report(Finding{Rule: "R13c", Site: site, Pos: pos,
			Msg: fmt.Sprintf("%s hands out identifiers from %s, but %s — two runtime components built by concurrent parses get the same instance id (their per-instance state collides)", key, g.Loc, g.Why)})
	}
	r.Floor("R13c-atomic-globals", n, 1)
	r.Floor("R13c-idgen", nGen, 1)
}
