package main

// Positive fixtures: tiny in-memory packages on which a rule whose expected
// count on the repository is zero must fire on every run (so the rule cannot
// pass vacuously because its detector broke).

import (
	"go/ast"
	"go/importer"
	"go/parser"
	"go/token"
	"go/types"

	"golang.org/x/tools/go/ssa"
	"golang.org/x/tools/go/ssa/ssautil"
)

func buildFixture(src string) (*ssa.Package, error) {
	fset := token.NewFileSet()
	f, err := parser.ParseFile(fset, "fixture.go", src, 0)
	if err != nil {
		return nil, err
	}
	pkg := types.NewPackage("fixture", "fixture")
	sp, _, err := ssautil.BuildPackage(&types.Config{Importer: importer.ForCompiler(fset, "source", nil)},
		fset, pkg, []*ast.File{f}, ssa.InstantiateGenerics)
	return sp, err
}
