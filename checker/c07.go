package main

// C07 — parsing is total: an error or a well-formed tree, nothing left running.

import (
	"fmt"
	"go/token"
	"go/types"
	"sort"
	"strings"

	"golang.org/x/tools/go/ssa"
)

func init() { register("C07", checkC07) }

// returnsNodeErr: signature (..., ) (*ASTNode, error)
func returnsNodeErr(sig *types.Signature, node *types.Named) bool {
	res := sig.Results()
	if res.Len() != 2 {
		return false
	}
	return namedOf(res.At(0).Type()) == node && res.At(1).Type().String() == "error" && isPtr(res.At(0).Type())
}

func isPtr(t types.Type) bool {
	_, ok := t.Underlying().(*types.Pointer)
	return ok
}

func checkC07(c *Ctx, r *Result, tier string) {
	r.Explanation = "Decides structural necessary conditions of total parsing with a path-sensitive abstract interpretation of the parser: (R07a) assume–guarantee contract for every function of package parser returning (*ASTNode, error): on every path, err == nil ⇒ the node is non-nil and every node appended to a Children slice was non-nil (a node obtained together with an error is non-nil only where that error was observed nil); " +
		"(R07b) at every return of Parse/ParseWithRuntime exactly one of (tree, error) is non-nil; (R07c) the token channel obtained from Lex is always drained: it flows only to a receive-until-closed loop or to the look-ahead buffer, whose owner registers a deferred drain before any return; token channels are received from only there; " +
		"(R07d) the lexer's run loop always closes the channel and a state function ends the lexing (returns nil) only after emitting an error token or at end of input."
	r.RuleText = "R07a/R07b errpath over (block, env) with callee contracts as correlations; R07c typestate of the channel value (who-may-receive, deferred drain dominating all returns); R07d must-pass-through of close + guarded nil returns of state functions"
	r.NotCovered = "Termination for every byte string (that each loop consumes input); child kinds per node kind beyond the reviewed shape table of C06; memory."
	r.Assumptions = []string{"contract precondition: *ASTNode parameters are non-nil", "dynamic calls of denotation functions satisfy the same contract (they are the checked functions themselves)"}

	node := c.NamedType("parser", "ASTNode")
	if node == nil {
		r.Undecide("parser.ASTNode not found")
		return
	}
	fChildren := c.Field("parser", "ASTNode", "Children")

	// ---- R07a -----------------------------------------------------------------------------------
	var fns []*ssa.Function
	for _, fn := range c.ModFuncs() {
		if c.PkgOf(fn) == "parser" && returnsNodeErr(fn.Signature, node) {
			fns = append(fns, fn)
		}
	}
	sort.Slice(fns, func(i, j int) bool { return c.FuncKey(fns[i]) < c.FuncKey(fns[j]) })
	r.Floor("R07a-functions", len(fns), 15)
	// functions with one result that is always a fresh allocation — directly or as the result of
	// another such function (an accessor wrapping the constructor): least fixpoint
	allocOnly := map[*ssa.Function]bool{}
	for changed := true; changed; {
		changed = false
		for _, fn := range c.ModFuncs() {
			if c.PkgOf(fn) != "parser" || fn.Signature.Results().Len() != 1 || allocOnly[fn] {
				continue
			}
			rvs := returnedValues(fn, 0)
			all := len(rvs) > 0
			for _, rv := range rvs {
				switch x := rv.(type) {
				case *ssa.Alloc, *ssa.MakeInterface:
				case *ssa.Call:
					if g := x.Call.StaticCallee(); g == nil || !allocOnly[g] {
						all = false
					}
				default:
					all = false
				}
			}
			if all {
				allocOnly[fn] = true
				changed = true
			}
		}
	}
	mkOracle := func() *PathOracle {
		o := &PathOracle{NonNilParams: true}
		o.Correlate = func(call *ssa.Call) (int, []int, bool) {
			sig, ok := call.Call.Value.Type().Underlying().(*types.Signature)
			if call.Call.IsInvoke() {
				sig, ok = call.Call.Method.Type().(*types.Signature), true
			}
			if ok && returnsNodeErr(sig, node) {
				return 1, []int{0}, true
			}
			return 0, nil, false
		}
		o.NonNilCall = func(call *ssa.Call, idx int) bool {
			if f := call.Call.StaticCallee(); f != nil && allocOnly[f] {
				return true
			}
			return false
		}
		return o
	}
	for _, fn := range fns {
		key := c.FuncKey(fn)
		type pend struct {
			v   ssa.Value
			pos token.Pos
		}
		o := mkOracle()
		var violations []string
		var vioPos token.Pos
		seenV := map[string]bool{}
		report := func(msg string, pos token.Pos) {
			if !seenV[msg] {
				seenV[msg] = true
				violations = append(violations, msg)
				if !vioPos.IsValid() {
					vioPos = pos
				}
			}
		}
		nAppends := 0
		appendSites := map[ssa.Instruction]bool{}
		// pending appended values are kept in the state flags: "pend:<name>"
		pendVals := map[string]pend{}
		o.Pre = func(st *PState, in ssa.Instruction) {
			// a call is re-executed: nodes obtained from its previous execution that were appended
			// without their error having been observed nil stay possibly nil for good
			call, ok := in.(*ssa.Call)
			if !ok {
				return
			}
			for name, p := range pendVals {
				if !st.Flags["pend:"+name] {
					continue
				}
				if e, ok := st.canon(p.v).(*ssa.Extract); ok && e.Tuple == ssa.Value(call) {
					if st.Get(p.v, o) != AvNonNil {
						st.Flags["nilchild@"+c.Pos(p.pos)] = true
					}
					delete(st.Flags, "pend:"+name)
				}
			}
		}
		o.Visit = func(st *PState, in ssa.Instruction) {
			// detect `X.Children = append(X.Children, n)`: store of a *ASTNode into a varargs cell
			stv, ok := in.(*ssa.Store)
			if !ok || namedOf(stv.Val.Type()) != node || !isPtr(stv.Val.Type()) {
				return
			}
			ia, ok := stv.Addr.(*ssa.IndexAddr)
			if !ok {
				return
			}
			if a, ok := ia.X.(*ssa.Alloc); !ok || a.Comment != "varargs" {
				return
			}
			if !appendSites[in] {
				appendSites[in] = true
				nAppends++
			}
			if st.Get(stv.Val, o) == AvNonNil {
				return
			}
			cv := st.canon(stv.Val)
			name := cv.Name() + "@" + fmt.Sprint(in.Pos())
			pendVals[name] = pend{cv, in.Pos()}
			st.Flags["pend:"+name] = true
		}
		o.AtReturn = func(st *PState, ret *ssa.Return) {
			s2 := st.clone()
			if !s2.refineCond(mkIsNil(ret.Results[1]), true, o) {
				return // error certainly non-nil on this path
			}
			// world with a nil error
			s2.refineVal(ret.Results[1], AvNil, o)
			if s2.Get(ret.Results[0], o) != AvNonNil {
				report("can return a nil node together with a nil error", ret.Pos())
			}
			for f, on := range s2.Flags {
				if on && strings.HasPrefix(f, "nilchild@") {
					report("a node obtained together with an error that was never observed nil is appended as a child ("+strings.TrimPrefix(f, "nilchild@")+") and the function can still return a nil error", ret.Pos())
				}
				if on && strings.HasPrefix(f, "pend:") {
					p := pendVals[strings.TrimPrefix(f, "pend:")]
					if s2.Get(p.v, o) != AvNonNil {
						report("a possibly nil node is appended as a child ("+c.Pos(p.pos)+") on a path that can return a nil error", ret.Pos())
					}
				}
			}
		}
		if !ExplorePaths(fn, o) {
			r.Undecide("R07a: path exploration of %s exceeded its state bound", key)
			continue
		}
		if len(violations) == 0 {
			r.Instance("R07a", key, c.Pos(fn.Pos()), "ok", fmt.Sprintf("contract holds on every path (%d child append(s))", nAppends), true)
		} else {
			sort.Strings(violations)
			r.Instance("R07a", key, c.Pos(vioPos), "finding", strings.Join(violations, "; "), true)
			r.Report(Finding{Rule: "R07a", Site: key, Pos: c.Pos(vioPos),
				Msg: key + ": " + strings.Join(violations, "; ") + " — a tree with a missing node is returned as a successful parse and Validate/Eval/PrettyPrint panic on it"})
		}
	}
	_ = fChildren

	// ---- R07b -----------------------------------------------------------------------------------
	n := 0
	for _, fn := range fns {
		if fn.Object() == nil || !fn.Object().Exported() || fn.Parent() != nil {
			continue
		}
		n++
		key := c.FuncKey(fn)
		o := mkOracle()
		o.CorrelateErr = func(call *ssa.Call) (int, []int, bool) {
			// assume-guarantee among the exported entry points themselves
			if f := call.Call.StaticCallee(); f != nil && f != fn && f.Object() != nil && f.Object().Exported() && c.PkgOf(f) == "parser" && returnsNodeErr(f.Signature, node) {
				return 1, []int{0}, true
			}
			return 0, nil, false
		}
		var bad []string
		var badPos token.Pos
		// `return p.parse()`: the results are those of a helper, which is checked in its place
		passThrough := map[*ssa.Return]*ssa.Function{}
		o.AtReturn = func(st *PState, ret *ssa.Return) {
			if len(ret.Results) == 2 {
				e0, ok0 := st.canon(ret.Results[0]).(*ssa.Extract)
				e1, ok1 := st.canon(ret.Results[1]).(*ssa.Extract)
				if ok0 && ok1 && e0.Tuple == e1.Tuple && e0.Index == 0 && e1.Index == 1 {
					if call, isCall := e0.Tuple.(*ssa.Call); isCall {
						if h := call.Call.StaticCallee(); h != nil && h != fn && c.modFuncSet[h] && c.PkgOf(h) == "parser" && returnsNodeErr(h.Signature, node) {
							passThrough[ret] = h
							return
						}
					}
				}
			}
			for _, errNil := range []bool{true, false} {
				s2 := st.clone()
				if !s2.refineCond(mkIsNil(ret.Results[1]), errNil, o) {
					continue
				}
				if errNil {
					s2.refineVal(ret.Results[1], AvNil, o)
				} else {
					s2.refineVal(ret.Results[1], AvNonNil, o)
				}
				tv := s2.Get(ret.Results[0], o)
				if errNil && tv != AvNonNil {
					bad = append(bad, "nil error with a possibly nil tree")
					badPos = ret.Pos()
				}
				if !errNil && tv != AvNil {
					bad = append(bad, "a tree is returned together with an error")
					badPos = ret.Pos()
				}
			}
		}
		if !ExplorePaths(fn, o) {
			r.Undecide("R07b: path exploration of %s exceeded its state bound", key)
			continue
		}
		// helpers whose results are passed through carry the same obligation (transitively)
		doneH := map[*ssa.Function]bool{fn: true}
		var checkH func(h *ssa.Function, d int)
		checkH = func(h *ssa.Function, d int) {
			if doneH[h] || d > 4 {
				return
			}
			doneH[h] = true
			hk := c.FuncKey(h)
			ho := mkOracle()
			ho.CorrelateErr = o.CorrelateErr
			var next []*ssa.Function
			ho.AtReturn = func(st *PState, ret *ssa.Return) {
				if len(ret.Results) == 2 {
					e0, ok0 := st.canon(ret.Results[0]).(*ssa.Extract)
					e1, ok1 := st.canon(ret.Results[1]).(*ssa.Extract)
					if ok0 && ok1 && e0.Tuple == e1.Tuple && e0.Index == 0 && e1.Index == 1 {
						if call, isCall := e0.Tuple.(*ssa.Call); isCall {
							if h2 := call.Call.StaticCallee(); h2 != nil && c.modFuncSet[h2] && c.PkgOf(h2) == "parser" && returnsNodeErr(h2.Signature, node) {
								next = append(next, h2)
								return
							}
						}
					}
				}
				for _, errNil := range []bool{true, false} {
					s2 := st.clone()
					if !s2.refineCond(mkIsNil(ret.Results[1]), errNil, ho) {
						continue
					}
					if errNil {
						s2.refineVal(ret.Results[1], AvNil, ho)
					} else {
						s2.refineVal(ret.Results[1], AvNonNil, ho)
					}
					tv := s2.Get(ret.Results[0], ho)
					if errNil && tv != AvNonNil {
						bad = append(bad, "nil error with a possibly nil tree (in "+hk+")")
						badPos = ret.Pos()
					}
					if !errNil && tv != AvNil {
						bad = append(bad, "a tree is returned together with an error (in "+hk+")")
						badPos = ret.Pos()
					}
				}
			}
			if !ExplorePaths(h, ho) {
				r.Undecide("R07b: path exploration of %s exceeded its state bound", hk)
			}
			for _, h2 := range next {
				checkH(h2, d+1)
			}
		}
		for _, h := range passThrough {
			checkH(h, 0)
		}
		if len(bad) == 0 {
			r.Instance("R07b", key, c.Pos(fn.Pos()), "ok", "at every return exactly one of (tree, error) is non-nil", true)
		} else {
			sort.Strings(bad)
			bad = dedup(bad)
			r.Instance("R07b", key, c.Pos(badPos), "finding", strings.Join(bad, "; "), true)
			r.Report(Finding{Rule: "R07b", Site: key, Pos: c.Pos(badPos),
				Msg: key + ": " + strings.Join(bad, "; ") + " (input `a; b c`): callers testing only one of the two results use a partial tree"})
		}
	}
	r.Floor("R07b", n, 2)

	c07Channel(c, r)
	c07Lexer(c, r)
	c07ErrorLoss(c, r)
	c07NodeAfterError(c, r)
}

func dedup(s []string) []string {
	var out []string
	for i, x := range s {
		if i == 0 || x != s[i-1] {
			out = append(out, x)
		}
	}
	return out
}

// mkIsNil builds a throw-away `v == nil` value for refinement.
func mkIsNil(v ssa.Value) ssa.Value {
	return &ssa.BinOp{Op: token.EQL, X: v, Y: ssa.NewConst(nil, v.Type())}
}

// ---- R07c ------------------------------------------------------------------------------------------

func isTokenChan(t types.Type, tok *types.Named) bool {
	ch, ok := t.Underlying().(*types.Chan)
	return ok && namedOf(ch.Elem()) == tok
}

func c07Channel(c *Ctx, r *Result) {
	tok := c.NamedType("parser", "LexToken")
	lex := c.Func("parser", "Lex")
	labuf := c.NamedType("parser", "LABuffer")
	if tok == nil || lex == nil || labuf == nil {
		r.Undecide("R07c: parser.LexToken / parser.Lex / parser.LABuffer not found")
		return
	}
	// who may receive
	nRecv := 0
	for _, fn := range c.ModFuncs() {
		key := c.FuncKey(fn)
		ord := newOrdinals()
		allInstrs(fn, func(in ssa.Instruction) {
			u, ok := in.(*ssa.UnOp)
			if !ok || u.Op != token.ARROW || !isTokenChan(u.X.Type(), tok) {
				return
			}
			nRecv++
			site := ord.key(key, "recv", accessPath(u.X))
			pos := c.Pos(c.InstrPos(in))
			root := fn
			for root.Parent() != nil {
				root = root.Parent()
			}
			allowed := false
			why := ""
			if recv := root.Signature.Recv(); recv != nil && namedOf(recv.Type()) == labuf {
				allowed, why = true, "method of the look-ahead buffer"
			} else if len(callSites(root, func(_ string, ci ssa.CallInstruction) bool { return ci.Common().StaticCallee() == lex })) > 0 {
				// the function that called Lex: must receive until the channel is closed
				if u.CommaOk && recvUntilClosed(u) {
					allowed, why = true, "owner of the channel, receives until it is closed"
				} else {
					why = "the owner of the channel stops receiving before it is closed"
				}
			} else if root.Name() == "NewLABuffer" {
				allowed, why = true, "constructor of the look-ahead buffer"
			} else if prm, isPrm := u.X.(*ssa.Parameter); isPrm && u.CommaOk && recvUntilClosed(u) && drainOnly(root, prm) {
				allowed, why = true, "a drain function: it only receives from its channel parameter until the channel is closed"
			} else {
				why = "receives from a token channel outside the look-ahead buffer and the channel's owner"
			}
			if allowed {
				r.Instance("R07c-recv", site, pos, "ok", why, true)
			} else {
				r.Instance("R07c-recv", site, pos, "finding", why, true)
				r.Report(Finding{Rule: "R07c-recv", Site: site, Pos: pos, Msg: key + ": " + why + " — the lexer goroutine blocks forever on its next send"})
			}
		})
	}
	r.Floor("R07c-recv", nRecv, 3)

	// every Lex call: the channel is drained
	nLex := 0
	for _, fn := range c.ModFuncs() {
		if c.PkgOf(fn) == "parser" || c.PkgOf(fn) == "interpreter" || c.PkgOf(fn) == "cli/tool" {
			for i, call := range callSites(fn, func(_ string, ci ssa.CallInstruction) bool { return ci.Common().StaticCallee() == lex }) {
				nLex++
				key := c.FuncKey(fn)
				site := fmt.Sprintf("%s#Lex#%d", key, i)
				pos := c.Pos(c.InstrPos(call))
				ok, why := channelReleased(c, fn, call.(*ssa.Call), tok)
				if ok {
					r.Instance("R07c", site, pos, "ok", why, true)
				} else {
					r.Instance("R07c", site, pos, "finding", why, true)
					r.Report(Finding{Rule: "R07c", Site: site, Pos: pos,
						Msg: key + ": the token channel obtained from Lex is not certainly drained: " + why + " — every failing parse leaves the lexer goroutine blocked on a send (100 failing parses → 100 goroutines)"})
				}
			}
		}
	}
	r.Floor("R07c", nLex, 2)
}

// recvUntilClosed: the comma-ok receive is in a loop whose only exits are on !ok.
func recvUntilClosed(u *ssa.UnOp) bool {
	loop := sccOf(u.Block())
	if loop == nil {
		return false
	}
	var okV ssa.Value
	for _, ref := range *u.Referrers() {
		if e, ok := ref.(*ssa.Extract); ok && e.Index == 1 {
			okV = e
		}
	}
	for b := range loop {
		for i, s := range b.Succs {
			if loop[s] {
				continue
			}
			// exit edge: must be the false edge of If(ok)
			ifi, isIf := b.Instrs[len(b.Instrs)-1].(*ssa.If)
			if !isIf || ifi.Cond != okV || i != 1 {
				return false
			}
		}
	}
	return okV != nil
}

// channelReleased: the channel value of this Lex call is ranged over until closed in fn, or a
// deferred closure registered before any return drains it.
func channelReleased(c *Ctx, fn *ssa.Function, call *ssa.Call, tok *types.Named) (bool, string) {
	// direct range in the same function
	var direct bool
	allInstrs(fn, func(in ssa.Instruction) {
		if u, ok := in.(*ssa.UnOp); ok && u.Op == token.ARROW && unspill(u.X) == ssa.Value(call) && u.CommaOk && recvUntilClosed(u) {
			// the loop must be reached on every path after the call: it dominates all returns
			direct = true
			allInstrs(fn, func(x ssa.Instruction) {
				if _, isRet := x.(*ssa.Return); isRet && x.Block() != fn.Recover && !everyPathEnters(call, sccOf(u.Block())) {
					direct = false
				}
			})
		}
	})
	if direct {
		return true, "ranged over until closed in the calling function"
	}
	// deferred drain
	var def *ssa.Defer
	for _, b := range fn.Blocks {
		for _, in := range b.Instrs {
			d, ok := in.(*ssa.Defer)
			if !ok {
				continue
			}
			// a named drain function handed the channel: defer drainTokens(tokens)
			if df := d.Call.StaticCallee(); df != nil && c.modFuncSet[df] && c.PkgOf(df) == "parser" {
				for ai, a := range d.Call.Args {
					if unspill(a) != ssa.Value(call) || ai >= len(df.Params) {
						continue
					}
					prm := df.Params[ai]
					allInstrs(df, func(x ssa.Instruction) {
						if u, ok := x.(*ssa.UnOp); ok && u.Op == token.ARROW && u.CommaOk && u.X == ssa.Value(prm) && recvUntilClosed(u) {
							def = d
						}
					})
				}
			}
			mc, ok := d.Call.Value.(*ssa.MakeClosure)
			if !ok {
				continue
			}
			cf := mc.Fn.(*ssa.Function)
			drains := false
			allInstrs(cf, func(x ssa.Instruction) {
				u, ok := x.(*ssa.UnOp)
				if !ok || u.Op != token.ARROW || !u.CommaOk || !recvUntilClosed(u) {
					return
				}
				// the channel received from is the captured cell holding the Lex result
				if ld, ok := u.X.(*ssa.UnOp); ok {
					if fv, ok := ld.X.(*ssa.FreeVar); ok {
						for i, f := range cf.FreeVars {
							if f == fv && i < len(mc.Bindings) {
								if cell, ok := mc.Bindings[i].(*ssa.Alloc); ok {
									for _, s := range cellSources(cell) {
										if s == ssa.Value(call) {
											drains = true
										}
									}
								}
							}
						}
					}
				}
			})
			if drains {
				def = d
			}
		}
	}
	if def == nil {
		return false, "no receive-until-closed loop and no deferred drain of this channel in the calling function"
	}
	// registered before any return and after the Lex call without an intervening return
	okAll := true
	allInstrs(fn, func(x ssa.Instruction) {
		if _, isRet := x.(*ssa.Return); isRet && x.Block() != fn.Recover && !dominates(def, x) {
			okAll = false
		}
	})
	if !okAll {
		return false, "a return is reachable before the deferred drain is registered"
	}
	if !dominates(call, def) {
		return false, "the deferred drain is registered before the channel exists"
	}
	// nothing that can block forever on the channel between Lex and the defer (e.g. NewLABuffer is fine: it receives)
	return true, "a deferred closure draining the channel until it is closed is registered before any return"
}

// ---- R07d ------------------------------------------------------------------------------------------

func c07Lexer(c *Ctx, r *Result) {
	run := c.Method("parser", "lexer", "run")
	if run == nil {
		r.Undecide("R07d: (*lexer).run not found")
		return
	}
	key := c.FuncKey(run)
	var closes []ssa.Instruction
	allInstrs(run, func(in ssa.Instruction) {
		if isBuiltinCall(in, "close") {
			closes = append(closes, in)
		}
	})
	ok := len(closes) > 0
	allInstrs(run, func(in ssa.Instruction) {
		if _, isRet := in.(*ssa.Return); isRet && in.Block() != run.Recover {
			dom := false
			for _, cl := range closes {
				if dominates(cl, in) {
					dom = true
				}
			}
			if !dom {
				ok = false
			}
		}
	})
	if ok {
		r.Instance("R07d-close", key, c.Pos(run.Pos()), "ok", "close of the token channel dominates every return of the lexer's run loop", true)
	} else {
		r.Instance("R07d-close", key, c.Pos(run.Pos()), "finding", "the channel is not closed on every path", true)
		r.Report(Finding{Rule: "R07d-close", Site: key, Pos: c.Pos(run.Pos()),
			Msg: key + ": the token channel is not closed on every path out of the run loop: the parser waits forever for the next token"})
	}
	// state functions: func(*lexer) lexFunc
	lexFunc := c.NamedType("parser", "lexFunc")
	if lexFunc == nil {
		r.Undecide("R07d: type parser.lexFunc not found")
		return
	}
	emitErr := c.Method("parser", "lexer", "emitError")
	n := 0
	for _, fn := range c.ModFuncs() {
		if c.PkgOf(fn) != "parser" || fn.Signature.Results().Len() != 1 || namedOf(fn.Signature.Results().At(0).Type()) != lexFunc || fn.Signature.Recv() != nil {
			continue
		}
		fkey := c.FuncKey(fn)
		i := 0
		allInstrs(fn, func(in ssa.Instruction) {
			ret, isRet := in.(*ssa.Return)
			if !isRet || len(ret.Results) != 1 {
				return
			}
			// `return l.emitError(…)`: the emitter sends the error token and hands back the nil state
			viaEmitter := false
			if call, isCall := ret.Results[0].(*ssa.Call); isCall {
				if g := call.Call.StaticCallee(); g != nil && g == emitErr && g.Signature.Results().Len() == 1 {
					allNil := true
					for _, rv := range returnedValues(g, 0) {
						if !isNilConst(rv) {
							allNil = false
						}
					}
					viaEmitter = allNil
				}
			}
			if !isNilConst(ret.Results[0]) && !viaEmitter {
				return
			}
			n++
			i++
			site := fmt.Sprintf("%s#return-nil#%d", fkey, i)
			pos := c.Pos(c.InstrPos(in))
			good := false
			why := ""
			if viaEmitter {
				good, why = true, "the nil state is what the error emitter returns after sending its error token"
			}
			// preceded by emitError in the same block or a dominating one
			allInstrs(fn, func(x ssa.Instruction) {
				if ci, ok := x.(ssa.CallInstruction); ok && emitErr != nil && ci.Common().StaticCallee() == emitErr && dominates(x, in) {
					good, why = true, "an error token is emitted before"
				}
			})
			if !good {
				f := FactsAt(in)
				for _, cm := range f.Cmps {
					if cm.Op == token.EQL && ((cm.R.IsConst && cm.R.K == -1) || (cm.L.IsConst && cm.L.K == -1)) {
						good, why = true, "at end of input (rune == RuneEOF); the run loop then emits EOF"
					}
				}
			}
			if good {
				r.Instance("R07d-state", site, pos, "ok", why, true)
			} else {
				r.Instance("R07d-state", site, pos, "finding", "lexing stops silently", true)
				r.Report(Finding{Rule: "R07d-state", Site: site, Pos: pos,
					Msg: fkey + ": a state function ends the lexing (returns nil) without having emitted an error token and not at end of input: the rest of the input is silently dropped and the parser accepts a prefix"})
			}
		})
	}
	r.Floor("R07d-state", n, 3)
}

// ---- R07e ------------------------------------------------------------------------------------------

// c07ErrorLoss: the parser's position p.node is nil exactly when the call that advanced it
// returned an error (next() returns (nil, err)); every function of the parser relies on
// "err == nil ⇒ p.node != nil". The invariant survives only if no error of a parser function is
// ever dropped: on every path where the error is non-nil the caller returns a non-nil error or
// inspects it.
func c07ErrorLoss(c *Ctx, r *Result) {
	total := 0
	track := func(in ssa.Instruction) (int, string, bool) {
		call, ok := in.(*ssa.Call)
		if !ok {
			return 0, "", false
		}
		sig, ok := call.Call.Value.Type().Underlying().(*types.Signature)
		if call.Call.IsInvoke() {
			sig, ok = call.Call.Method.Type().(*types.Signature), true
		}
		if !ok || sig == nil || sig.Results().Len() == 0 {
			return 0, "", false
		}
		last := sig.Results().Len() - 1
		if sig.Results().At(last).Type().String() != "error" {
			return 0, "", false
		}
		// calls into the parser itself (static, closures, denotation function values)
		inParser := false
		for _, f := range c.Callees(call) {
			if c.PkgOf(f) == "parser" {
				inParser = true
			}
		}
		if !inParser {
			return 0, "", false
		}
		name := "call"
		if f := call.Call.StaticCallee(); f != nil {
			name = f.Name()
		} else if !call.Call.IsInvoke() {
			name = accessPath(call.Call.Value)
		} else {
			name = call.Call.Method.Name()
		}
		if sig.Results().Len() == 1 {
			return -1, name, true
		}
		return last, name, true
	}
	for _, fn := range c.ModFuncs() {
		if c.PkgOf(fn) != "parser" {
			continue
		}
		root := fn
		for root.Parent() != nil {
			root = root.Parent()
		}
		if root.Name() == "ASTFromJSONObject" || strings.HasPrefix(root.Name(), "init") {
			continue
		}
		key := c.FuncKey(fn)
		n, fs, complete := errorLossOf(c, fn, track)
		if n == 0 && len(fs) == 0 {
			continue
		}
		total += n
		if !complete {
			r.Undecide("R07e: path exploration of %s exceeded its state bound", key)
			continue
		}
		ord := newOrdinals()
		for _, f := range fs {
			site := ord.key(key, "errloss", f.What)
			pos := c.Pos(c.InstrPos(f.Call))
			r.Instance("R07e", site, pos, "finding", f.Msg, true)
			r.Report(Finding{Rule: "R07e", Site: site, Pos: pos,
				Msg: key + ": " + f.Msg + " — after a failed advance the parser's position is nil; continuing without the error dereferences it (Parse panics instead of returning an error) or accepts the input"})
		}
		if len(fs) == 0 {
			r.Instance("R07e", key, c.Pos(fn.Pos()), "ok", fmt.Sprintf("%d parser call(s) returning an error: on every path a non-nil error is returned or inspected", n), true)
		}
	}
	r.Floor("R07e-calls", total, 60)
}

// ---- R07f ------------------------------------------------------------------------------------------

// c07NodeAfterError: a failed advance leaves the parser position nil (next() returns (nil, err) and
// its callers store that into p.node). A value of p.node loaded *after* an advancing call may
// therefore be dereferenced only on paths where that call's error is known to be nil (or the loaded
// value was tested against nil). Dereferences inside helpers that need the position (skipToken,
// run, ...) count at their call sites.
func c07NodeAfterError(c *Ctx, r *Result) {
	fNode := c.Field("parser", "parser", "node")
	if fNode == nil {
		r.Undecide("R07f: parser.parser.node not found")
		return
	}
	isNodeLoad := func(v ssa.Value) bool {
		ld, ok := v.(*ssa.UnOp)
		if !ok || ld.Op != token.MUL {
			return false
		}
		fa, ok := ld.X.(*ssa.FieldAddr)
		return ok && fieldVar(fa) == fNode
	}
	isAdvance := func(in ssa.Instruction) (ssa.Value, bool) {
		call, ok := in.(*ssa.Call)
		if !ok {
			return nil, false
		}
		var sig *types.Signature
		if call.Call.IsInvoke() {
			return nil, false
		}
		sig, _ = call.Call.Value.Type().Underlying().(*types.Signature)
		if sig == nil || sig.Results().Len() == 0 || sig.Results().At(sig.Results().Len()-1).Type().String() != "error" {
			return nil, false
		}
		inParser := false
		for _, f := range c.Callees(call) {
			if c.PkgOf(f) == "parser" {
				inParser = true
			}
		}
		if !inParser {
			return nil, false
		}
		if sig.Results().Len() == 1 {
			return call, true
		}
		return errValueOf(call, sig.Results().Len()-1), true
	}
	// helpers that dereference the position they find on entry
	needs := map[*ssa.Function]bool{}
	needsUnless := map[*ssa.Function]int{} // uses the position only while its error parameter (index) is nil
	for _, fn := range c.ModFuncs() {
		if c.PkgOf(fn) != "parser" || len(fn.Blocks) == 0 {
			continue
		}
		seen := map[*ssa.BasicBlock]bool{}
		var walk func(b *ssa.BasicBlock) bool
		walk = func(b *ssa.BasicBlock) bool {
			if seen[b] {
				return false
			}
			seen[b] = true
			for _, in := range b.Instrs {
				if _, adv := isAdvance(in); adv {
					return false
				}
				if bo, ok := in.(*ssa.BinOp); ok && (bo.Op == token.EQL || bo.Op == token.NEQ) {
					if (isNodeLoad(bo.X) && isNilConst(bo.Y)) || (isNodeLoad(bo.Y) && isNilConst(bo.X)) {
						return false // tests the position first
					}
				}
				if fa, ok := in.(*ssa.FieldAddr); ok && isNodeLoad(fa.X) {
					// under `err == nil` of an error handed in by the caller: the caller's pending
					// error guards the use (ndOtherwiseFinally(p, try, err))
					guarded := false
					facts := FactsAt(in)
					for pi, prm := range fn.Params {
						if prm.Type().String() == "error" && facts.IsNil[accessPath(prm)] {
							guarded = true
							needsUnless[fn] = pi
						}
					}
					if !guarded {
						return true
					}
				}
			}
			for _, s := range b.Succs {
				if walk(s) {
					return true
				}
			}
			return false
		}
		if walk(fn.Blocks[0]) {
			needs[fn] = true
		}
	}
	nSites := 0
	for _, fn := range c.ModFuncs() {
		if c.PkgOf(fn) != "parser" || len(fn.Blocks) == 0 {
			continue
		}
		root := fn
		for root.Parent() != nil {
			root = root.Parent()
		}
		if root.Name() == "ASTFromJSONObject" || strings.HasPrefix(root.Name(), "init") {
			continue
		}
		type adv struct {
			in   ssa.Instruction
			errV ssa.Value
		}
		var advs []adv
		allInstrs(fn, func(in ssa.Instruction) {
			if ev, ok := isAdvance(in); ok && ev != nil {
				advs = append(advs, adv{in, ev})
			}
		})
		if len(advs) == 0 {
			continue
		}
		advIdx := map[ssa.Instruction]int{}
		for i, a := range advs {
			advIdx[a.in] = i
		}
		key := c.FuncKey(fn)
		bad := map[ssa.Instruction]string{}
		checked := map[ssa.Instruction]bool{}
		o := &PathOracle{NonNilParams: true}
		cur := func(st *PState) int {
			for i := range advs {
				if st.Flags[fmt.Sprint("cur:", i)] {
					return i
				}
			}
			return -1
		}
		check := func(st *PState, in ssa.Instruction, loaded ssa.Value, what string) {
			i := cur(st)
			if i < 0 {
				return
			}
			if loaded != nil && !st.Flags["since:"+loaded.Name()] {
				return // the position as it was before the advancing call
			}
			checked[in] = true
			if st.Get(advs[i].errV, o) == AvNil {
				return
			}
			// a position loaded since the call and known non-nil on this path
			for v, a := range st.vals {
				if a == AvNonNil && isNodeLoad(v) && st.Flags["since:"+v.Name()] {
					return
				}
			}
			if _, dup := bad[in]; !dup {
				bad[in] = what + " after " + errCallLabel(advs[i].in.(*ssa.Call), calleeLabel(advs[i].in.(ssa.CallInstruction)))
			}
		}
		o.Visit = func(st *PState, in ssa.Instruction) {
			if i, ok := advIdx[in]; ok {
				for k := range st.Flags {
					if strings.HasPrefix(k, "cur:") || strings.HasPrefix(k, "since:") {
						delete(st.Flags, k)
					}
				}
				// a helper that needs the position is itself a dereference site
				if call := in.(*ssa.Call); true {
					for _, f := range c.Callees(call) {
						_ = f
					}
				}
				st.Flags[fmt.Sprint("cur:", i)] = true
				return
			}
			switch x := in.(type) {
			case *ssa.UnOp:
				if isNodeLoad(x) {
					st.Flags["since:"+x.Name()] = true
				}
			case *ssa.FieldAddr:
				if isNodeLoad(x.X) {
					check(st, in, x.X, "dereference of the parser position")
				}
			case *ssa.Call:
				if f := x.Call.StaticCallee(); f != nil && needs[f] {
					check(st, in, nil, "call of "+f.Name()+"(), which dereferences the parser position,")
				} else if f != nil {
					if pi, ok := needsUnless[f]; ok && !needs[f] {
						// fine when the pending error itself is handed over
						if i := cur(st); i >= 0 && pi < len(x.Call.Args) && st.canon(x.Call.Args[pi]) != st.canon(advs[i].errV) {
							check(st, in, nil, "call of "+f.Name()+"() (which uses the parser position while its error argument is nil) with another error value")
						}
					}
				}
			}
		}
		// advancing calls that need the position are dereference sites too (checked before they become current)
		o.Pre = func(st *PState, in ssa.Instruction) {
			if _, ok := advIdx[in]; !ok {
				return
			}
			call := in.(*ssa.Call)
			for _, f := range c.Callees(call) {
				if needs[f] {
					check(st, in, nil, "call of "+f.Name()+"(), which dereferences the parser position,")
					return
				}
			}
		}
		if !ExplorePaths(fn, o) {
			r.Undecide("R07f: path exploration of %s exceeded its state bound", key)
			continue
		}
		nSites += len(checked)
		if len(bad) == 0 {
			if len(checked) > 0 {
				r.Instance("R07f", key, c.Pos(fn.Pos()), "ok", fmt.Sprintf("%d use(s) of the position after an advancing call: the call's error is nil (or the position was tested) on every path", len(checked)), true)
			}
			continue
		}
		var ins []ssa.Instruction
		for in := range bad {
			ins = append(ins, in)
		}
		sort.Slice(ins, func(i, j int) bool { return ins[i].Pos() < ins[j].Pos() })
		ord := newOrdinals()
		for _, in := range ins {
			site := ord.key(key, "node-after-error", "")
			pos := c.Pos(c.InstrPos(in))
			r.Instance("R07f", site, pos, "finding", bad[in], true)
			r.Report(Finding{Rule: "R07f", Site: site, Pos: pos,
				Msg: key + ": " + bad[in] + " on a path where that call's error is not known to be nil — a failed advance (lexical error, end of input) leaves the position nil: Parse panics with a nil dereference instead of returning the error"})
		}
	}
	r.Floor("R07f-uses", nSites, 40)
}

// drainOnly: the function does nothing with its channel parameter but receive from it.
func drainOnly(fn *ssa.Function, prm *ssa.Parameter) bool {
	if prm.Referrers() == nil {
		return false
	}
	for _, ref := range *prm.Referrers() {
		u, ok := ref.(*ssa.UnOp)
		if !ok || u.Op != token.ARROW {
			if _, isDbg := ref.(*ssa.DebugRef); isDbg {
				continue
			}
			return false
		}
	}
	return true
}
