package main

// effects: write effects of functions (stores to globals / through pointers
// derived from globals / through parameters / to captured variables).

import (
	"go/token"
	"go/types"

	"golang.org/x/tools/go/ssa"
)

// WriteKind classifies the root of a written location.
type WriteKind int

const (
	WLocal  WriteKind = iota // fresh allocation or local value
	WGlobal                  // package-level variable or memory reached from one
	WParam                   // memory reached from a parameter / receiver
	WFree                    // captured variable (or memory reached from one)
	WOther                   // result of a call, phi, ... (unknown provenance)
)

// Write is one write effect.
type Write struct {
	Instr  ssa.Instruction
	What   string // "store", "mapupdate", "delete", "send"
	Target ssa.Value
	Root   ssa.Value
	Kind   WriteKind
	Direct bool // the written location is the root variable itself (not memory behind it)
}

// isPointerLike: a value through which memory shared with the caller can be written.
func isPointerLike(t types.Type) bool {
	switch t.Underlying().(type) {
	case *types.Pointer, *types.Map, *types.Slice, *types.Chan, *types.Interface, *types.Signature:
		return true
	}
	return false
}

// provenance finds where a value comes from, looking through loads, field
// selections, indexing, conversions, and phis (all incoming edges).
func provenance(v ssa.Value) (roots []ssa.Value) {
	seen := map[ssa.Value]bool{}
	var walk func(v ssa.Value, d int)
	walk = func(v ssa.Value, d int) {
		if v == nil || seen[v] || d > 40 {
			return
		}
		seen[v] = true
		r := rootOf(v)
		if r != v {
			walk(r, d+1)
			return
		}
		switch x := r.(type) {
		case *ssa.Phi:
			for _, e := range x.Edges {
				walk(e, d+1)
			}
		case *ssa.Alloc:
			// A local variable cell: its content comes from the stores into it. If
			// this is used as the *target* root the caller looks at it directly.
			roots = append(roots, x)
		default:
			roots = append(roots, r)
		}
	}
	walk(v, 0)
	return
}

// cellSources: for a local Alloc cell holding a pointer-like value, the values stored into it.
func cellSources(a *ssa.Alloc) []ssa.Value {
	var out []ssa.Value
	for _, ref := range *a.Referrers() {
		if st, ok := ref.(*ssa.Store); ok && st.Addr == a {
			out = append(out, st.Val)
		}
	}
	return out
}

// classifyTarget classifies the memory written when storing through addr.
// addrIsLocation: addr is the address of the location written (Store.Addr);
// otherwise addr is a map/slice value whose elements are written.
func classifyTarget(addr ssa.Value, depth int) (WriteKind, ssa.Value, bool) {
	r := rootOf(addr)
	direct := r == addr
	switch x := r.(type) {
	case *ssa.Global:
		return WGlobal, r, direct
	case *ssa.Parameter:
		return WParam, r, direct
	case *ssa.FreeVar:
		return WFree, r, direct
	case *ssa.Alloc:
		if direct {
			return WLocal, r, true
		}
		// written through something loaded from a local cell: x := global; x.f = ...
		// If the path from the cell goes through a load, the memory is whatever was stored in the cell.
		if loadsBetween(addr, x) && depth < 6 {
			worst := WLocal
			var wr ssa.Value = r
			for _, src := range cellSources(x) {
				if !isPointerLike(src.Type()) {
					continue
				}
				k, rr, _ := classifyTarget(src, depth+1)
				if rank(k) > rank(worst) {
					worst, wr = k, rr
				}
			}
			return worst, wr, false
		}
		return WLocal, r, false
	case *ssa.Phi:
		worst := WLocal
		var wr ssa.Value = r
		if depth < 6 {
			for _, e := range x.Edges {
				k, rr, _ := classifyTarget(e, depth+1)
				if rank(k) > rank(worst) {
					worst, wr = k, rr
				}
			}
		}
		return worst, wr, false
	case *ssa.MakeMap, *ssa.MakeSlice, *ssa.MakeChan, *ssa.MakeClosure:
		return WLocal, r, false
	case *ssa.Const:
		return WLocal, r, false
	}
	return WOther, r, false
}

func rank(k WriteKind) int {
	switch k {
	case WGlobal:
		return 4
	case WFree:
		return 3
	case WParam:
		return 2
	case WOther:
		return 1
	}
	return 0
}

// loadsBetween: does the chain from v down to root contain a load (pointer dereference)?
func loadsBetween(v ssa.Value, root ssa.Value) bool {
	for d := 0; d < 32 && v != root; d++ {
		switch x := v.(type) {
		case *ssa.FieldAddr:
			v = x.X
		case *ssa.Field:
			v = x.X
		case *ssa.IndexAddr:
			v = x.X
		case *ssa.Index:
			v = x.X
		case *ssa.Lookup:
			return true
		case *ssa.Slice:
			v = x.X
		case *ssa.UnOp:
			if x.Op == token.MUL {
				return true
			}
			return false
		case *ssa.MakeInterface:
			v = x.X
		case *ssa.ChangeInterface:
			v = x.X
		case *ssa.ChangeType:
			v = x.X
		case *ssa.Convert:
			v = x.X
		case *ssa.TypeAssert:
			v = x.X
		case *ssa.Extract:
			v = x.Tuple
		default:
			return false
		}
	}
	return false
}

// WritesOf lists the write effects of one function body (not of its callees).
func WritesOf(fn *ssa.Function) []Write {
	var out []Write
	allInstrs(fn, func(in ssa.Instruction) {
		switch x := in.(type) {
		case *ssa.Store:
			k, r, d := classifyTarget(x.Addr, 0)
			out = append(out, Write{in, "store", x.Addr, r, k, d})
		case *ssa.MapUpdate:
			k, r, _ := classifyTarget(x.Map, 0)
			if _, isAlloc := r.(*ssa.Alloc); isAlloc && k == WLocal {
				// map held in a local cell: classify by what the cell holds
				k, r, _ = classifyTarget(x.Map, 0)
			}
			out = append(out, Write{in, "mapupdate", x.Map, r, k, false})
		case *ssa.Send:
			k, r, _ := classifyTarget(x.Chan, 0)
			out = append(out, Write{in, "send", x.Chan, r, k, false})
		case ssa.CallInstruction:
			if isBuiltinCall(in, "delete") {
				m := x.Common().Args[0]
				k, r, _ := classifyTarget(m, 0)
				out = append(out, Write{in, "delete", m, r, k, false})
			} else if isBuiltinCall(in, "copy") {
				m := x.Common().Args[0]
				k, r, _ := classifyTarget(m, 0)
				out = append(out, Write{in, "copy", m, r, k, false})
			}
		}
	})
	return out
}

// ParamWrites computes, for every module function, the set of parameter indexes
// (receiver = 0) through which the function (or, transitively up to `depth`
// levels, a callee it forwards the parameter to) writes memory.
type ParamWrites struct {
	c    *Ctx
	memo map[*ssa.Function]map[int]ssa.Instruction
	busy map[*ssa.Function]bool
	// SkipCall: calls whose effects are another rule's subject and are not followed here
	SkipCall func(ssa.CallInstruction) bool
}

func NewParamWrites(c *Ctx) *ParamWrites {
	return &ParamWrites{c: c, memo: map[*ssa.Function]map[int]ssa.Instruction{}, busy: map[*ssa.Function]bool{}}
}

func paramIndex(fn *ssa.Function, p *ssa.Parameter) int {
	for i, q := range fn.Params {
		if q == p {
			return i
		}
	}
	return -1
}

// Of returns param index -> one witness instruction that writes through it.
func (pw *ParamWrites) Of(fn *ssa.Function, depth int) map[int]ssa.Instruction {
	if m, ok := pw.memo[fn]; ok {
		return m
	}
	if pw.busy[fn] || fn.Blocks == nil {
		return nil
	}
	pw.busy[fn] = true
	defer delete(pw.busy, fn)
	m := map[int]ssa.Instruction{}
	for _, w := range WritesOf(fn) {
		if w.Kind == WParam && !w.Direct {
			if p, ok := w.Root.(*ssa.Parameter); ok {
				if i := paramIndex(fn, p); i >= 0 {
					if _, dup := m[i]; !dup {
						m[i] = w.Instr
					}
				}
			}
		}
	}
	if depth > 0 {
		allInstrs(fn, func(in ssa.Instruction) {
			ci, ok := in.(ssa.CallInstruction)
			if !ok {
				return
			}
			if pw.SkipCall != nil && pw.SkipCall(ci) {
				return
			}
			args := callArgs(ci.Common())
			for ai, a := range args {
				if !isPointerLike(a.Type()) {
					continue
				}
				k, r, _ := classifyTarget(a, 0)
				if k != WParam {
					continue
				}
				p, ok := r.(*ssa.Parameter)
				if !ok {
					continue
				}
				pi := paramIndex(fn, p)
				if pi < 0 {
					continue
				}
				if _, dup := m[pi]; dup {
					continue
				}
				for _, callee := range pw.c.Callees(ci) {
					if !pw.c.modFuncSet[callee] {
						continue
					}
					idx := ai
					if ci.Common().IsInvoke() {
						// receiver is args[0] in both conventions
					}
					if cw := pw.Of(callee, depth-1); cw != nil {
						if _, w := cw[idx]; w {
							m[pi] = in
						}
					}
				}
			}
		})
	}
	pw.memo[fn] = m
	return m
}
