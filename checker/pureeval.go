package main

// pureeval: partial evaluation of small pure guards over the finite table domain
// (DESIGN.md 2.1 "tables"). It interprets SSA of side-effect free integer / boolean /
// string code over abstract AST nodes {name, binding, number of children}; anything
// outside the evaluable subset makes the evaluation fail (reported as undecided).

import (
	"fmt"
	"go/constant"
	"go/token"
	"go/types"

	"golang.org/x/tools/go/ssa"
)

// absNode is an abstract parser.ASTNode.
type absNode struct {
	Name      string
	Binding   int64
	NChildren int64
	Kids      []*absNode // optional
}

type pval struct {
	kind string // int bool string node nodes tuple nil
	i    int64
	b    bool
	s    string
	n    *absNode
	ns   []*absNode
	tup  []pval
}

type pureEval struct {
	c       *Ctx
	maps    map[*ssa.Global]map[string]bool // package-level map[string]bool tables
	env     map[ssa.Value]pval
	steps   int
	failure string
}

func (pe *pureEval) fail(format string, a ...interface{}) (pval, bool) {
	if pe.failure == "" {
		pe.failure = fmt.Sprintf(format, a...)
	}
	return pval{}, false
}

func constVal(cv *ssa.Const) (pval, bool) {
	if cv.Value == nil {
		return pval{kind: "nil"}, true
	}
	switch cv.Value.Kind() {
	case constant.Int:
		i, _ := constant.Int64Val(cv.Value)
		return pval{kind: "int", i: i}, true
	case constant.Bool:
		return pval{kind: "bool", b: constant.BoolVal(cv.Value)}, true
	case constant.String:
		return pval{kind: "string", s: constant.StringVal(cv.Value)}, true
	}
	return pval{}, false
}

// eval evaluates a value in the current environment (values of the current frame are in env).
func (pe *pureEval) eval(v ssa.Value) (pval, bool) {
	pe.steps++
	if pe.steps > 20000 {
		return pe.fail("evaluation budget exceeded")
	}
	if pv, ok := pe.env[v]; ok {
		return pv, true
	}
	switch x := v.(type) {
	case *ssa.Const:
		if pv, ok := constVal(x); ok {
			return pv, true
		}
		return pe.fail("constant %s", x)
	case *ssa.UnOp:
		switch x.Op {
		case token.MUL:
			// load: of a field address of an abstract node, or of a global table
			switch a := x.X.(type) {
			case *ssa.FieldAddr:
				base, ok := pe.eval(a.X)
				if !ok {
					return pval{}, false
				}
				if base.kind != "node" || base.n == nil {
					return pe.fail("field load on a non-node value")
				}
				switch fieldName(a.X.Type(), a.Field) {
				case "Name":
					return pval{kind: "string", s: base.n.Name}, true
				case "binding":
					return pval{kind: "int", i: base.n.Binding}, true
				case "Children":
					return pval{kind: "nodes", ns: base.n.Kids, i: base.n.NChildren}, true
				}
				return pe.fail("field %s of a node is not part of the abstract domain", fieldName(a.X.Type(), a.Field))
			case *ssa.Global:
				if _, ok := pe.maps[a]; ok {
					return pval{kind: "table", s: a.Name()}, true
				}
				return pe.fail("global %s is not an extracted table", a.Name())
			case *ssa.IndexAddr:
				base, ok := pe.eval(a.X)
				idx, ok2 := pe.eval(a.Index)
				if !ok || !ok2 {
					return pval{}, false
				}
				if base.kind == "nodes" && idx.kind == "int" && int(idx.i) < len(base.ns) && idx.i >= 0 {
					return pval{kind: "node", n: base.ns[idx.i]}, true
				}
				return pe.fail("index into children outside the abstract domain")
			}
			return pe.fail("load of %s", accessPath(x.X))
		case token.NOT:
			a, ok := pe.eval(x.X)
			if !ok || a.kind != "bool" {
				return pe.fail("! on non-bool")
			}
			return pval{kind: "bool", b: !a.b}, true
		case token.SUB:
			a, ok := pe.eval(x.X)
			if !ok || a.kind != "int" {
				return pe.fail("- on non-int")
			}
			return pval{kind: "int", i: -a.i}, true
		}
	case *ssa.BinOp:
		a, ok := pe.eval(x.X)
		b, ok2 := pe.eval(x.Y)
		if !ok || !ok2 {
			return pval{}, false
		}
		if a.kind == "int" && b.kind == "int" {
			switch x.Op {
			case token.ADD:
				return pval{kind: "int", i: a.i + b.i}, true
			case token.SUB:
				return pval{kind: "int", i: a.i - b.i}, true
			case token.MUL:
				return pval{kind: "int", i: a.i * b.i}, true
			case token.EQL:
				return pval{kind: "bool", b: a.i == b.i}, true
			case token.NEQ:
				return pval{kind: "bool", b: a.i != b.i}, true
			case token.LSS:
				return pval{kind: "bool", b: a.i < b.i}, true
			case token.LEQ:
				return pval{kind: "bool", b: a.i <= b.i}, true
			case token.GTR:
				return pval{kind: "bool", b: a.i > b.i}, true
			case token.GEQ:
				return pval{kind: "bool", b: a.i >= b.i}, true
			}
		}
		if a.kind == "string" && b.kind == "string" {
			switch x.Op {
			case token.EQL:
				return pval{kind: "bool", b: a.s == b.s}, true
			case token.NEQ:
				return pval{kind: "bool", b: a.s != b.s}, true
			}
		}
		if a.kind == "bool" && b.kind == "bool" {
			switch x.Op {
			case token.EQL:
				return pval{kind: "bool", b: a.b == b.b}, true
			case token.NEQ:
				return pval{kind: "bool", b: a.b != b.b}, true
			}
		}
		if (a.kind == "node" && b.kind == "nil") || (a.kind == "nil" && b.kind == "node") {
			switch x.Op {
			case token.EQL:
				return pval{kind: "bool", b: false}, true
			case token.NEQ:
				return pval{kind: "bool", b: true}, true
			}
		}
		return pe.fail("binary %s on %s/%s", x.Op, a.kind, b.kind)
	case *ssa.Lookup:
		m, ok := pe.eval(x.X)
		k, ok2 := pe.eval(x.Index)
		if !ok || !ok2 {
			return pval{}, false
		}
		if m.kind == "table" && k.kind == "string" {
			var tbl map[string]bool
			for g, t := range pe.maps {
				if g.Name() == m.s {
					tbl = t
				}
			}
			val, present := tbl[k.s]
			if x.CommaOk {
				return pval{kind: "tuple", tup: []pval{{kind: "bool", b: val}, {kind: "bool", b: present}}}, true
			}
			return pval{kind: "bool", b: val}, true
		}
		return pe.fail("lookup outside the extracted tables")
	case *ssa.Extract:
		t, ok := pe.eval(x.Tuple)
		if !ok || t.kind != "tuple" || x.Index >= len(t.tup) {
			return pe.fail("extract")
		}
		return t.tup[x.Index], true
	case *ssa.Call:
		if isBuiltinCall(x, "len") {
			a, ok := pe.eval(x.Call.Args[0])
			if !ok {
				return pval{}, false
			}
			if a.kind == "nodes" {
				return pval{kind: "int", i: a.i}, true
			}
			if a.kind == "string" {
				return pval{kind: "int", i: int64(len(a.s))}, true
			}
			return pe.fail("len of %s", a.kind)
		}
		if f := x.Call.StaticCallee(); f != nil && pe.c.modFuncSet[f] {
			var args []pval
			for _, a := range x.Call.Args {
				av, ok := pe.eval(a)
				if !ok {
					return pval{}, false
				}
				args = append(args, av)
			}
			return pe.call(f, args)
		}
		return pe.fail("call of %s is outside the evaluable subset", callName(x))
	case *ssa.Convert:
		a, ok := pe.eval(x.X)
		if ok && a.kind == "int" && isIntegerType(x.Type()) {
			return a, true
		}
		return pe.fail("conversion")
	case *ssa.ChangeType:
		return pe.eval(x.X)
	}
	return pe.fail("value %s (%T) is outside the evaluable subset", v.Name(), v)
}

// call interprets a pure function.
func (pe *pureEval) call(fn *ssa.Function, args []pval) (pval, bool) {
	if len(fn.Blocks) == 0 || len(args) != len(fn.Params) {
		return pe.fail("cannot interpret %s", fn.Name())
	}
	saved := pe.env
	pe.env = map[ssa.Value]pval{}
	defer func() { pe.env = saved }()
	for i, p := range fn.Params {
		pe.env[p] = args[i]
	}
	b := fn.Blocks[0]
	var pred *ssa.BasicBlock
	for steps := 0; steps < 500; steps++ {
		// phis
		phiVals := map[ssa.Value]pval{}
		for _, in := range b.Instrs {
			phi, ok := in.(*ssa.Phi)
			if !ok {
				break
			}
			for i, p := range b.Preds {
				if p == pred {
					v, ok := pe.eval(phi.Edges[i])
					if !ok {
						return pval{}, false
					}
					phiVals[phi] = v
				}
			}
		}
		for k, v := range phiVals {
			pe.env[k] = v
		}
		for _, in := range b.Instrs {
			switch x := in.(type) {
			case *ssa.Phi, *ssa.DebugRef:
				continue
			case *ssa.Return:
				if len(x.Results) != 1 {
					return pe.fail("multi-result return")
				}
				return pe.eval(x.Results[0])
			case *ssa.If:
				cv, ok := pe.eval(x.Cond)
				if !ok || cv.kind != "bool" {
					return pe.fail("branch on a non-evaluable condition")
				}
				pred = b
				if cv.b {
					b = b.Succs[0]
				} else {
					b = b.Succs[1]
				}
				goto next
			case *ssa.Jump:
				pred = b
				b = b.Succs[0]
				goto next
			case ssa.Value:
				// evaluate lazily on demand (pure); cache after evaluation in loops is not needed
				_ = x
			default:
				if _, isVal := in.(ssa.Value); !isVal {
					switch in.(type) {
					case *ssa.Store, *ssa.MapUpdate, *ssa.Send, *ssa.Go, *ssa.Defer, *ssa.Panic:
						return pe.fail("function %s has side effects (%T)", fn.Name(), in)
					}
				}
			}
		}
		return pe.fail("block without terminator")
	next:
		// values computed in the previous block stay valid (SSA); drop cached phis of the new block lazily
		for _, in := range b.Instrs {
			if phi, ok := in.(*ssa.Phi); ok {
				delete(pe.env, phi)
			}
		}
	}
	return pe.fail("interpretation of %s did not terminate", fn.Name())
}

// extractBoolTables reads package level map[string]bool composite literals of a package.
func extractBoolTables(c *Ctx, pkg string) map[*ssa.Global]map[string]bool {
	out := map[*ssa.Global]map[string]bool{}
	sp := c.ssaPkg[pkg]
	if sp == nil {
		return out
	}
	for _, m := range sp.Members {
		g, ok := m.(*ssa.Global)
		if !ok {
			continue
		}
		mt, ok := g.Type().(*types.Pointer).Elem().Underlying().(*types.Map)
		if !ok {
			continue
		}
		if kb, ok := mt.Key().Underlying().(*types.Basic); !ok || kb.Kind() != types.String {
			continue
		}
		if vb, ok := mt.Elem().Underlying().(*types.Basic); !ok || vb.Kind() != types.Bool {
			continue
		}
		tbl := map[string]bool{}
		for _, mu := range mapLiteralOf(c, pkg, g) {
			k, ok1 := constString(mu.Key)
			if cv, ok2 := mu.Value.(*ssa.Const); ok1 && ok2 && cv.Value != nil {
				tbl[k] = constant.BoolVal(cv.Value)
			}
		}
		out[g] = tbl
	}
	return out
}
