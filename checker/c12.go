package main

// C12 — mutex blocks: exclusive, re-entrant, always released.

import (
	"fmt"
	"go/token"
	"go/types"
	"sort"
	"strings"

	"golang.org/x/tools/go/ssa"
)

func init() { register("C12", checkC12) }

func checkC12(c *Ctx, r *Result, tier string) {
	r.Explanation = "Decides the structural conditions that make ECAL mutex blocks correct, given sync.Mutex: (R12a) every Lock in the module — in particular the named mutex of a mutex block — is released on every exit (through the deferred closure, registered with no return in between); " +
		"(R12b) the mutex and owner tables are touched only under the table lock, the owner is recorded after Lock and cleared before Unlock, all table operations use the block's name as key; " +
		"(R12c) the Lock is bypassed exactly for (present, owner = this thread); (R12d) the 'free' owner value is outside the range of pool thread ids."
	r.RuleText = "R12a lock pairing on every CFG path (lockflow, deferred closures summarised); R12b guarded-by MutexesMutex for element accesses of Mutexes/MutexeOwners + ordering + same key; R12c enumeration of the 4 abstract cases (present?, owner==tid?) through the branch conditions; R12d sentinel < initial thread id, ids only incremented"
	r.NotCovered = "Mutual exclusion itself is sync.Mutex's contract; thread ids chosen by an embedding host (the API lets a host pass any tid, including 0); fairness."
	r.Assumptions = []string{"sync.Mutex semantics", "the deferred release runs on every exit including panics (Go semantics of defer)"}

	lfs := NewLockFlows(c)

	// R12a: all functions of the module
	nAcq := checkLockPairing(c, r, lfs, "R12a", c.ModFuncs())
	r.Floor("R12a-acquisitions", nAcq, 50)

	// R12e: thread ids are unique
	nGen := checkIDGenerators(c, r, lfs, "R12e",
		"two threads get the same thread id, so the re-entrancy test owner == tid lets the second thread into a mutex block the first one is still in",
		func(p string) bool { return p == "engine/pool" })
	r.Floor("R12e", nGen, 1)

	// locate the mutex block runtime: the Eval method (of a parser.Runtime implementation)
	// that locks a mutex obtained from the provider's Mutexes table
	fMutexes := c.Field("interpreter", "ECALRuntimeProvider", "Mutexes")
	fOwners := c.Field("interpreter", "ECALRuntimeProvider", "MutexeOwners")
	if fMutexes == nil || fOwners == nil {
		r.Undecide("fields ECALRuntimeProvider.Mutexes / MutexeOwners not found")
		return
	}

	// R12b guarded-by (element accesses)
	g := newGuardChecker(c, lfs)
	total := 0
	for _, f := range []*types.Var{fMutexes, fOwners} {
		total += g.checkElems(r, "R12b-guard", f, "ECALRuntimeProvider."+f.Name(), "MutexesMutex", c.ModFuncs())
	}
	r.Floor("R12b-guard", total, 4)

	var blockFn *ssa.Function
	var userLock LockOp
	for _, fn := range c.ModFuncs() {
		if c.PkgOf(fn) != "interpreter" {
			continue
		}
		lf := lfs.Of(fn)
		if lf == nil {
			continue
		}
		for _, op := range lf.Ops {
			if op.Kind == "Lock" && strings.HasPrefix(op.Class, "local:") && (comesFromField(op.Recv, fMutexes) || fromLookupHelper(c, op.Recv, fMutexes) != nil) {
				if blockFn != nil && blockFn != fn {
					r.Undecide("more than one function locks a named ECAL mutex: %s and %s", c.FuncKey(blockFn), c.FuncKey(fn))
				}
				blockFn, userLock = fn, op
			}
		}
	}
	if blockFn == nil {
		r.Undecide("no function locking a mutex of ECALRuntimeProvider.Mutexes found (anchor of R12b/R12c)")
		return
	}
	key := c.FuncKey(blockFn)
	r.Instance("R12-anchor", key, c.Pos(c.InstrPos(userLock.Instr)), "found", "function locking the named mutex: "+userLock.Path, false)

	// collect table operations in the function and its closures
	type tableOp struct {
		in    ssa.Instruction
		fn    *ssa.Function
		field *types.Var
		kind  string
		key   ssa.Value
		val   ssa.Value
	}
	var ops []tableOp
	fns := append([]*ssa.Function{blockFn}, blockFn.AnonFuncs...)
	for _, base := range append([]*ssa.Function{blockFn}, blockFn.AnonFuncs...) {
		for h := range staticCalleesIn(c, base) {
			touches := false
			for _, f := range []*types.Var{fMutexes, fOwners} {
				if len(elemAccessesOf(h, f)) > 0 {
					touches = true
				}
			}
			dup := false
			for _, x := range fns {
				if x == h {
					dup = true
				}
			}
			if touches && !dup {
				fns = append(fns, h)
			}
		}
	}
	helperFns := fns[1+len(blockFn.AnonFuncs):]
	for _, fn := range fns {
		for _, f := range []*types.Var{fMutexes, fOwners} {
			for _, a := range elemAccessesOf(fn, f) {
				// a helper that stores a value it is handed (setOwner(name, owner)) is one table
				// operation per call: at the call site, with the arguments for key and value
				if vp, isPrm := unspill(a.Val).(*ssa.Parameter); isPrm && a.Kind == "mapupdate" && fn != blockFn && fn.Parent() == nil && vp.Parent() == fn {
					inst := 0
					for _, base := range append([]*ssa.Function{blockFn}, blockFn.AnonFuncs...) {
						for _, site := range staticCalleesIn(c, base)[fn] {
							args := callArgs(site.Common())
							sub := func(v ssa.Value) ssa.Value {
								if prm, ok := unspill(v).(*ssa.Parameter); ok {
									for i, p := range fn.Params {
										if p == prm && i < len(args) {
											return args[i]
										}
									}
								}
								return v
							}
							ops = append(ops, tableOp{site.(ssa.Instruction), base, f, a.Kind, sub(a.Key), sub(a.Val)})
							inst++
						}
					}
					if inst > 0 {
						continue
					}
				}
				ops = append(ops, tableOp{a.Instr, fn, f, a.Kind, a.Key, a.Val})
			}
		}
	}
	r.Floor("R12b-table-ops", len(ops), 4)
	// same key (a helper's parameter stands for the argument it is called with)
	keyPath := func(o tableOp) string {
		if prm, isPrm := unspill(o.key).(*ssa.Parameter); isPrm && o.fn != blockFn && o.fn.Parent() == nil {
			for _, base := range append([]*ssa.Function{blockFn}, blockFn.AnonFuncs...) {
				for _, site := range staticCalleesIn(c, base)[o.fn] {
					args := callArgs(site.Common())
					for i, p := range o.fn.Params {
						if p == prm && i < len(args) {
							return accessPath(args[i])
						}
					}
				}
			}
		}
		return accessPath(o.key)
	}
	keys := map[string]int{}
	for _, o := range ops {
		keys[keyPath(o)]++
	}
	if len(keys) != 1 {
		var ks []string
		for k := range keys {
			ks = append(ks, k)
		}
		sort.Strings(ks)
		r.Instance("R12b-key", key+"#keys", c.Pos(blockFn.Pos()), "finding", "different keys: "+strings.Join(ks, ","), true)
		r.Report(Finding{Rule: "R12b-key", Site: key + "#keys", Pos: c.Pos(blockFn.Pos()),
			Msg: fmt.Sprintf("%s: the mutex/owner table operations do not all use the same key (%s): the owner recorded and the mutex taken can belong to different names", key, strings.Join(ks, ", "))})
	} else {
		for k := range keys {
			r.Instance("R12b-key", key+"#keys", c.Pos(blockFn.Pos()), "ok", fmt.Sprintf("all %d table operations use key %s", len(ops), k), true)
			// the key must be the block's name: derived from the node's first child token
			_ = k
		}
	}
	// owner set after Lock with the thread id; cleared (to a constant) before Unlock
	var setOwner, clearOwner *tableOp
	for i := range ops {
		o := &ops[i]
		if o.field != fOwners || o.kind != "mapupdate" {
			continue
		}
		if _, isConst := o.val.(*ssa.Const); isConst {
			clearOwner = o
		} else {
			setOwner = o
		}
	}
	lfBlock := lfs.Of(blockFn)
	if setOwner == nil || setOwner.fn != blockFn || !dominates(userLock.Instr, setOwner.in) || !lfBlock.MustHoldPath(setOwner.in, userLock.Path, false) {
		r.Instance("R12b-order", key+"#set-owner", c.Pos(blockFn.Pos()), "finding", "owner not recorded after Lock", true)
		r.Report(Finding{Rule: "R12b-order", Site: key + "#set-owner", Pos: c.Pos(blockFn.Pos()),
			Msg: key + ": the owner table is not updated with the thread id after (dominated by) the Lock of the named mutex while it is held"})
	} else {
		tidOK := false
		if p, ok := unspill(setOwner.val).(*ssa.Parameter); ok && p.Name() == "tid" {
			tidOK = true
		} else if accessPath(setOwner.val) == "tid" {
			tidOK = true
		}
		if !tidOK {
			r.Report(Finding{Rule: "R12b-order", Site: key + "#set-owner-value", Pos: c.Pos(c.InstrPos(setOwner.in)),
				Msg: key + ": the owner recorded for the mutex is not the executing thread's id"})
		}
		r.Instance("R12b-order", key+"#set-owner", c.Pos(c.InstrPos(setOwner.in)), "ok", "owner := tid after Lock, while the mutex is held", true)
	}
	// release side
	var unlockOp *LockOp
	for _, fn := range blockFn.AnonFuncs {
		if lf := lfs.Of(fn); lf != nil {
			for i := range lf.Ops {
				if lf.Ops[i].Kind == "Unlock" && lf.Ops[i].Path == userLock.Path {
					unlockOp = &lf.Ops[i]
				}
			}
		}
	}
	if unlockOp == nil {
		// a deferred release helper that is handed the mutex: defer rt.release(name, mutex, tid)
		allInstrs(blockFn, func(in ssa.Instruction) {
			d, isDefer := in.(*ssa.Defer)
			if !isDefer || d.Call.StaticCallee() == nil {
				return
			}
			h := d.Call.StaticCallee()
			args := callArgs(d.Common())
			for i, a := range args {
				if accessPath(a) != userLock.Path || i >= len(h.Params) {
					continue
				}
				if hl := lfs.Of(h); hl != nil {
					for j := range hl.Ops {
						if hl.Ops[j].Kind == "Unlock" && hl.Ops[j].Recv == ssa.Value(h.Params[i]) {
							unlockOp = &hl.Ops[j]
						}
					}
				}
			}
		})
	}
	_ = helperFns
	if unlockOp == nil {
		// maybe a plain deferred Unlock in the function itself
		for i := range lfBlock.Ops {
			if lfBlock.Ops[i].Kind == "Unlock" && lfBlock.Ops[i].Path == userLock.Path {
				unlockOp = &lfBlock.Ops[i]
			}
		}
	}
	// two deferred calls: `defer mutex.Unlock()` registered first and the closure that clears the
	// owner registered after it — deferred calls run in reverse order, so the clearing runs first
	lifoOK := false
	if unlockOp != nil && clearOwner != nil && unlockOp.Instr.Parent() == blockFn && clearOwner.fn != blockFn {
		if ud, isDefer := unlockOp.Instr.(*ssa.Defer); isDefer && !inLoop(ud.Block()) {
			allInstrs(blockFn, func(in ssa.Instruction) {
				d, ok := in.(*ssa.Defer)
				if !ok || d == ud {
					return
				}
				if mc, isMC := d.Call.Value.(*ssa.MakeClosure); isMC && mc.Fn == ssa.Value(clearOwner.fn) && dominates(ud, d) && !inLoop(d.Block()) {
					// the clearing happens on every path through the closure
					all := true
					allInstrs(clearOwner.fn, func(x ssa.Instruction) {
						if _, isRet := x.(*ssa.Return); isRet && x.Block() != clearOwner.fn.Recover && !dominates(clearOwner.in, x) {
							all = false
						}
					})
					if all {
						lifoOK = true
					}
				}
			})
		}
	}
	if lifoOK {
		r.Instance("R12b-order", key+"#clear-owner", c.Pos(c.InstrPos(clearOwner.in)), "ok", "owner cleared by a deferred closure registered after the deferred Unlock: it runs before it", true)
	} else if unlockOp == nil || clearOwner == nil || clearOwner.fn != unlockOp.Instr.Parent() || !dominates(clearOwner.in, unlockOp.Instr) {
		r.Instance("R12b-order", key+"#clear-owner", c.Pos(blockFn.Pos()), "finding", "owner not cleared before Unlock", true)
		r.Report(Finding{Rule: "R12b-order", Site: key + "#clear-owner", Pos: c.Pos(blockFn.Pos()),
			Msg: key + ": the owner entry is not cleared before (dominating) the Unlock of the named mutex: a later entrant could see itself or a stale owner and bypass the lock"})
	} else {
		r.Instance("R12b-order", key+"#clear-owner", c.Pos(c.InstrPos(clearOwner.in)), "ok", "owner cleared before Unlock in the release path", true)
	}

	// R12c
	c12Bypass(c, r, blockFn, userLock, fOwners)

	// R12d
	cActionThreadID(c, r, "R12f")
	c12Sentinel(c, r, clearOwner != nil, func() ssa.Value {
		if clearOwner != nil {
			return clearOwner.val
		}
		return nil
	}())
}

// comesFromField: v is (a phi/cell of) a value looked up in the given map field.
func comesFromField(v ssa.Value, f *types.Var) bool {
	seen := map[ssa.Value]bool{}
	var walk func(v ssa.Value, d int) bool
	walk = func(v ssa.Value, d int) bool {
		if v == nil || seen[v] || d > 12 {
			return false
		}
		seen[v] = true
		v = stripConv(v)
		switch x := v.(type) {
		case *ssa.Phi:
			for _, e := range x.Edges {
				if walk(e, d+1) {
					return true
				}
			}
		case *ssa.Extract:
			return walk(x.Tuple, d+1)
		case *ssa.Lookup:
			for _, fv := range fieldChain(x.X) {
				if fv == f {
					return true
				}
			}
		case *ssa.UnOp:
			if a, ok := x.X.(*ssa.Alloc); ok && x.Op == token.MUL {
				for _, s := range cellSources(a) {
					if walk(s, d+1) {
						return true
					}
				}
				return false
			}
			if fr, ok := x.X.(*ssa.FreeVar); ok && x.Op == token.MUL {
				_ = fr
				return false
			}
			return walk(x.X, d+1)
		}
		return false
	}
	return walk(v, 0)
}

// elemAccess is an element access of a map held in a struct field.
type elemAccess struct {
	Instr ssa.Instruction
	Kind  string // lookup mapupdate delete range
	Key   ssa.Value
	Val   ssa.Value
	Base  ssa.Value // object holding the field
}

func elemAccessesOf(fn *ssa.Function, f *types.Var) []elemAccess {
	var out []elemAccess
	isField := func(m ssa.Value) (ssa.Value, bool) {
		ch := fieldChain(m)
		if len(ch) > 0 && ch[len(ch)-1] == f {
			u, ok := m.(*ssa.UnOp)
			if ok {
				if fa, ok := u.X.(*ssa.FieldAddr); ok {
					return fa.X, true
				}
			}
			return nil, true
		}
		return nil, false
	}
	allInstrs(fn, func(in ssa.Instruction) {
		switch x := in.(type) {
		case *ssa.Lookup:
			if b, ok := isField(x.X); ok {
				out = append(out, elemAccess{in, "lookup", x.Index, nil, b})
			}
		case *ssa.MapUpdate:
			if b, ok := isField(x.Map); ok {
				out = append(out, elemAccess{in, "mapupdate", x.Key, x.Value, b})
			}
		case *ssa.Range:
			if b, ok := isField(x.X); ok {
				out = append(out, elemAccess{in, "range", nil, nil, b})
			}
		case ssa.CallInstruction:
			if isBuiltinCall(in, "delete") {
				if b, ok := isField(x.Common().Args[0]); ok {
					out = append(out, elemAccess{in, "delete", x.Common().Args[1], nil, b})
				}
			}
		}
	})
	return out
}

// checkElems: element accesses of the map field need base.<lockField> held.
func (g *guardChecker) checkElems(r *Result, rule string, f *types.Var, fname, lockField string, funcs []*ssa.Function) int {
	n := 0
	for _, fn := range funcs {
		accs := elemAccessesOf(fn, f)
		if len(accs) == 0 {
			continue
		}
		key := g.c.FuncKey(fn)
		ord := newOrdinals()
		lf := g.lfs.Of(fn)
		for _, a := range accs {
			n++
			site := ord.key(key, a.Kind, fname)
			pos := g.c.Pos(g.c.InstrPos(a.Instr))
			lp := ""
			if a.Base != nil {
				lp = accessPath(a.Base) + "." + lockField
			}
			if lf != nil && lp != "" && lf.MustHoldPath(a.Instr, lp, false) {
				r.Instance(rule, site, pos, "ok", "holds "+lp, true)
				continue
			}
			r.Instance(rule, site, pos, "finding", "table element accessed without the table lock", true)
			r.Report(Finding{Rule: rule, Site: site, Pos: pos,
				Msg: fmt.Sprintf("%s: %s of %s without %s held (a concurrent map read/write is a fatal runtime error; the owner test would be unreliable)", key, a.Kind, fname, lp)})
		}
	}
	return n
}

// c12Bypass enumerates (present?, owner==tid?) over the branch conditions leading to the Lock.
func c12Bypass(c *Ctx, r *Result, fn *ssa.Function, lock LockOp, fOwners *types.Var) {
	key := c.FuncKey(fn)
	// the owners lookup (comma-ok)
	var look *ssa.Lookup
	for _, a := range elemAccessesOf(fn, fOwners) {
		if l, ok := a.Instr.(*ssa.Lookup); ok && l.CommaOk {
			look = l
		}
	}
	var okV, ownerV ssa.Value
	var startBlock *ssa.BasicBlock
	if look == nil {
		// the lookup may sit in a helper that returns (…, owner, present): map its results
		allInstrs(fn, func(in ssa.Instruction) {
			call, ok := in.(*ssa.Call)
			if !ok || call.Call.StaticCallee() == nil || okV != nil {
				return
			}
			h := call.Call.StaticCallee()
			if !c.modFuncSet[h] || len(h.Blocks) == 0 {
				return
			}
			var hl *ssa.Lookup
			for _, a := range elemAccessesOf(h, fOwners) {
				if l, ok := a.Instr.(*ssa.Lookup); ok && l.CommaOk {
					hl = l
				}
			}
			if hl == nil {
				return
			}
			for i := 0; i < h.Signature.Results().Len(); i++ {
				rvs := returnedValues(h, i)
				if len(rvs) != 1 {
					continue
				}
				if e, isE := unspill(rvs[0]).(*ssa.Extract); isE && e.Tuple == ssa.Value(hl) {
					for _, ref := range *call.Referrers() {
						if ce, isCE := ref.(*ssa.Extract); isCE && ce.Index == i {
							if e.Index == 1 {
								okV = ce
							} else {
								ownerV = ce
							}
						}
					}
				}
			}
			if okV != nil {
				startBlock = call.Block()
			}
		})
		if okV == nil || ownerV == nil {
			r.Undecide("R12c: no comma-ok lookup of the owner table in %s", key)
			return
		}
	} else {
		for _, ref := range *look.Referrers() {
			if e, ok := ref.(*ssa.Extract); ok {
				if e.Index == 1 {
					okV = e
				} else {
					ownerV = e
				}
			}
		}
		startBlock = look.Block()
	}
	// evaluate a condition under an assignment; returns (value, known)
	var eval func(v ssa.Value, present, same bool) (bool, bool)
	eval = func(v ssa.Value, present, same bool) (bool, bool) {
		v = unspill(v)
		if v == okV {
			return present, true
		}
		if cv, isC := v.(*ssa.Const); isC && cv.Value != nil {
			switch cv.Value.String() {
			case "true":
				return true, true
			case "false":
				return false, true
			}
		}
		switch x := v.(type) {
		case *ssa.Phi:
			// a flag built by && / ||: follow the branches from the dominator of the phi's block
			// under this assignment and take the edge that is reached
			idom := x.Block().Idom()
			if idom == nil {
				return false, false
			}
			b, prev := idom, (*ssa.BasicBlock)(nil)
			for steps := 0; steps < 20 && b != x.Block(); steps++ {
				last := b.Instrs[len(b.Instrs)-1]
				prev = b
				switch t := last.(type) {
				case *ssa.If:
					cv, k := eval(t.Cond, present, same)
					if !k {
						return false, false
					}
					if cv {
						b = b.Succs[0]
					} else {
						b = b.Succs[1]
					}
				case *ssa.Jump:
					b = b.Succs[0]
				default:
					return false, false
				}
			}
			if b != x.Block() || prev == nil {
				return false, false
			}
			for i, pr := range x.Block().Preds {
				if pr == prev {
					return eval(x.Edges[i], present, same)
				}
			}
			return false, false
		case *ssa.UnOp:
			if x.Op == token.NOT {
				b, k := eval(x.X, present, same)
				return !b, k
			}
		case *ssa.BinOp:
			xa, ya := unspill(x.X), unspill(x.Y)
			isOwner := func(a ssa.Value) bool { return a == ownerV }
			isTid := func(a ssa.Value) bool { return accessPath(a) == "tid" }
			if (isOwner(xa) && isTid(ya)) || (isOwner(ya) && isTid(xa)) {
				// when the entry is absent the owner value is the zero value: owner==tid unknown -> treat as 'same' given
				if x.Op == token.EQL {
					return same, true
				}
				if x.Op == token.NEQ {
					return !same, true
				}
			}
		}
		return false, false
	}
	start := startBlock
	lockBlock := lock.Instr.Block()
	type res struct{ locks, known bool }
	results := map[[2]bool]res{}
	// walk the branches under an assignment; a condition that is not about (present, owner) — the
	// lookup-or-create of the mutex itself, say — is independent of it: both ways must agree
	var walk func(b *ssa.BasicBlock, present, same bool, steps int) res
	walk = func(b *ssa.BasicBlock, present, same bool, steps int) res {
		for ; steps < 60; steps++ {
			if b == lockBlock {
				return res{locks: true, known: true}
			}
			last := b.Instrs[len(b.Instrs)-1]
			switch t := last.(type) {
			case *ssa.If:
				v, k := eval(t.Cond, present, same)
				if !k {
					if !blockReach(b, true)[lockBlock] {
						return res{known: true}
					}
					r0 := walk(b.Succs[0], present, same, steps+1)
					r1 := walk(b.Succs[1], present, same, steps+1)
					if r0.known && r1.known && r0.locks == r1.locks {
						return r0
					}
					return res{known: false}
				}
				if v {
					b = b.Succs[0]
				} else {
					b = b.Succs[1]
				}
			case *ssa.Jump:
				b = b.Succs[0]
				if !blockReach(b, true)[lockBlock] && b != lockBlock {
					return res{known: true}
				}
			default:
				return res{known: true}
			}
		}
		return res{known: false}
	}
	for _, present := range []bool{false, true} {
		for _, same := range []bool{false, true} {
			results[[2]bool{present, same}] = walk(start, present, same, 0)
		}
	}
	bad := []string{}
	for _, present := range []bool{false, true} {
		for _, same := range []bool{false, true} {
			o := results[[2]bool{present, same}]
			caseName := fmt.Sprintf("(present=%v,owner==tid=%v)", present, same)
			if !o.known {
				r.Undecide("R12c: branch condition on the way to the Lock of %s is not a function of (present, owner==tid) in case %s", key, caseName)
				continue
			}
			wantBypass := present && same
			verdict := "ok"
			if o.locks == wantBypass {
				verdict = "finding"
				bad = append(bad, caseName)
			}
			r.Instance("R12c", key+"#case"+caseName, c.Pos(c.InstrPos(lock.Instr)), verdict, fmt.Sprintf("locks=%v, expected locks=%v", o.locks, !wantBypass), true)
		}
	}
	if len(bad) > 0 {
		r.Report(Finding{Rule: "R12c", Site: key + "#bypass", Pos: c.Pos(c.InstrPos(lock.Instr)),
			Msg: fmt.Sprintf("%s: the named mutex is taken/bypassed wrongly in case(s) %s — it must be bypassed exactly when an owner entry is present and equals the executing thread", key, strings.Join(bad, " "))})
	}
}

// c12Sentinel: the value written on release is below the initial thread id and ids only grow.
func c12Sentinel(c *Ctx, r *Result, haveClear bool, clearVal ssa.Value) {
	f := c.Field("engine/pool", "ThreadPool", "workerIDCount")
	if f == nil {
		r.Undecide("field ThreadPool.workerIDCount not found (R12d)")
		return
	}
	var initVals []int64
	var resets []string
	okInc := true
	n := 0
	for _, fn := range c.ModFuncs() {
		for _, a := range accessesOf(fn, f) {
			st, ok := a.Instr.(*ssa.Store)
			if !ok || !a.Write {
				continue
			}
			n++
			if v, ok := constInt(st.Val); ok {
				// a constant is an initial value only when it is stored into a pool that is being
				// constructed (a fresh allocation of this function); stored into a live pool it is a
				// reset: ids handed out before are handed out again
				fresh := false
				if fa, isFA := st.Addr.(*ssa.FieldAddr); isFA {
					_, fresh = fa.X.(*ssa.Alloc)
				}
				if fresh {
					initVals = append(initVals, v)
				} else {
					resets = append(resets, c.FuncKey(fn)+" ("+c.Pos(c.InstrPos(st))+")")
				}
				continue
			}
			bo, ok := st.Val.(*ssa.BinOp)
			if !ok || bo.Op != token.ADD {
				okInc = false
				continue
			}
			k, isC := constInt(bo.Y)
			if !isC || k <= 0 || accessPath(bo.X) != accessPath(st.Addr) {
				okInc = false
			}
		}
	}
	sentinel := int64(-1)
	if haveClear {
		if v, ok := constInt(clearVal); ok {
			sentinel = v
		}
	}
	min := int64(1 << 62)
	for _, v := range initVals {
		if v < min {
			min = v
		}
	}
	site := "pool.ThreadPool.workerIDCount#sentinel"
	if len(resets) > 0 {
		sort.Strings(resets)
		r.Instance("R12d", site+"#reset", "", "finding", "the id counter is reset in "+strings.Join(resets, ", "), true)
		r.Report(Finding{Rule: "R12d", Site: site + "#reset",
			Msg: "the thread id counter of a live pool is set back to a constant in " + strings.Join(resets, ", ") + ": an id handed out before (NewThreadID for a direct evaluation, a worker) is handed out again — two threads then pass each other's owner test and are inside one mutex block together"})
	}
	if n == 0 || len(initVals) == 0 {
		r.Undecide("R12d: no initialisation of ThreadPool.workerIDCount found")
		return
	}
	if !okInc || sentinel < 0 || sentinel >= min {
		r.Instance("R12d", site, "", "finding", fmt.Sprintf("sentinel=%d initial id=%d only-incremented=%v", sentinel, min, okInc), true)
		r.Report(Finding{Rule: "R12d", Site: site,
			Msg: fmt.Sprintf("the owner value written on release (%d) is not below the first pool thread id (%d), or thread ids are not only incremented (%v): a thread could be taken for the owner of a free mutex and bypass the lock", sentinel, min, okInc)})
		return
	}
	r.Instance("R12d", site, "", "ok", fmt.Sprintf("free value %d < first thread id %d; the id counter is only incremented (%d stores)", sentinel, min, n), true)
}

// fromLookupHelper: v is result #0 of a static helper whose every returned value #0 comes from the
// given map field (a get-or-create lookup moved into a helper). Returns the call.
func fromLookupHelper(c *Ctx, v ssa.Value, f *types.Var) *ssa.Call {
	e, ok := unspill(v).(*ssa.Extract)
	var call *ssa.Call
	idx := 0
	if ok {
		call, _ = e.Tuple.(*ssa.Call)
		idx = e.Index
	} else {
		call, _ = unspill(v).(*ssa.Call)
	}
	if call == nil {
		return nil
	}
	h := call.Call.StaticCallee()
	if h == nil || !c.modFuncSet[h] || len(h.Blocks) == 0 {
		return nil
	}
	rvs := returnedValues(h, idx)
	if len(rvs) == 0 {
		return nil
	}
	for _, rv := range rvs {
		if !comesFromField(rv, f) {
			return nil
		}
	}
	return call
}
