package main

// Loading of /repo: packages, types, SSA, call graph. Every run loads the
// current working tree of the repository; nothing is cached between runs.

import (
	"fmt"
	"go/ast"
	"go/token"
	"go/types"
	"os"
	"path/filepath"
	"sort"
	"strings"

	"golang.org/x/tools/go/callgraph"
	"golang.org/x/tools/go/callgraph/cha"
	"golang.org/x/tools/go/callgraph/vta"
	"golang.org/x/tools/go/packages"
	"golang.org/x/tools/go/ssa"
	"golang.org/x/tools/go/ssa/ssautil"
)

const modPath = "github.com/krotik/ecal"

// BuildConfig is one element of the configuration matrix of the thorough tier.
type BuildConfig struct {
	GOOS, GOARCH string
	Tags         string
}

func (b BuildConfig) String() string {
	s := b.GOOS + "/" + b.GOARCH
	if b.Tags != "" {
		s += " tags=" + b.Tags
	}
	return s
}

// Ctx is the loaded program.
type Ctx struct {
	Repo   string
	Config BuildConfig
	Fset   *token.FileSet
	Pkgs   []*packages.Package // module packages
	Prog   *ssa.Program
	byName map[string]*packages.Package // short path ("parser", "engine/pool") -> package
	ssaPkg map[string]*ssa.Package

	cgCHA *callgraph.Graph
	cgVTA *callgraph.Graph

	modFuncs    []*ssa.Function // all functions of the module incl. anonymous ones, sorted by key
	modFuncSet  map[*ssa.Function]bool
	funcKeyMemo map[*ssa.Function]string
	astOf       map[*ssa.Function]ast.Node
	namedCache  []*types.Named
}

func short(pkgPath string) string {
	if pkgPath == modPath {
		return "."
	}
	return strings.TrimPrefix(pkgPath, modPath+"/")
}

// Load loads the repository for one build configuration.
func Load(repo string, bc BuildConfig) (*Ctx, error) {
	env := append(os.Environ(),
		"GOFLAGS=-mod=mod", "GOPROXY=off", "GOSUMDB=off", "GOTOOLCHAIN=local", "GOWORK=off",
		"CGO_ENABLED=0")
	if bc.GOOS != "" {
		env = append(env, "GOOS="+bc.GOOS)
	}
	if bc.GOARCH != "" {
		env = append(env, "GOARCH="+bc.GOARCH)
	}
	cfg := &packages.Config{
		Mode:  packages.LoadAllSyntax,
		Dir:   repo,
		Env:   env,
		Tests: false,
	}
	if bc.Tags != "" {
		cfg.BuildFlags = []string{"-tags=" + bc.Tags}
	}
	pkgs, err := packages.Load(cfg, "./...")
	if err != nil {
		return nil, fmt.Errorf("load: %v", err)
	}
	var mod []*packages.Package
	var errs []string
	for _, p := range pkgs {
		if p.PkgPath == modPath || strings.HasPrefix(p.PkgPath, modPath+"/") {
			mod = append(mod, p)
		}
	}
	packages.Visit(pkgs, nil, func(p *packages.Package) {
		for _, e := range p.Errors {
			errs = append(errs, fmt.Sprintf("%s: %v", p.PkgPath, e))
		}
	})
	if len(mod) == 0 {
		return nil, fmt.Errorf("load: no packages of %s found under %s", modPath, repo)
	}
	if len(errs) > 0 {
		sort.Strings(errs)
		if len(errs) > 10 {
			errs = errs[:10]
		}
		return nil, fmt.Errorf("load: the tree does not type-check (undecided, not 'held'):\n  %s", strings.Join(errs, "\n  "))
	}
	sort.Slice(mod, func(i, j int) bool { return mod[i].PkgPath < mod[j].PkgPath })

	prog, _ := ssautil.AllPackages(pkgs, ssa.InstantiateGenerics)
	prog.Build()

	c := &Ctx{Repo: repo, Config: bc, Fset: prog.Fset, Pkgs: mod, Prog: prog,
		byName: map[string]*packages.Package{}, ssaPkg: map[string]*ssa.Package{},
		modFuncSet: map[*ssa.Function]bool{}, funcKeyMemo: map[*ssa.Function]string{},
		astOf: map[*ssa.Function]ast.Node{}}
	for _, p := range mod {
		c.byName[short(p.PkgPath)] = p
		if sp := prog.Package(p.Types); sp != nil {
			c.ssaPkg[short(p.PkgPath)] = sp
		}
	}
	for fn := range ssautil.AllFunctions(prog) {
		// compiler generated wrappers / thunks / bound methods are looked through, never analysed
		if c.inModule(fn) && fn.Blocks != nil && fn.Synthetic == "" {
			c.modFuncs = append(c.modFuncs, fn)
			c.modFuncSet[fn] = true
		}
	}
	sort.Slice(c.modFuncs, func(i, j int) bool { return c.FuncKey(c.modFuncs[i]) < c.FuncKey(c.modFuncs[j]) })
	return c, nil
}

func (c *Ctx) inModule(fn *ssa.Function) bool {
	for fn.Parent() != nil {
		fn = fn.Parent()
	}
	if fn.Synthetic != "" && fn.Pkg == nil {
		// wrappers/bound methods: attribute to the object's package
		if o := fn.Object(); o != nil && o.Pkg() != nil {
			p := o.Pkg().Path()
			return p == modPath || strings.HasPrefix(p, modPath+"/")
		}
		return false
	}
	if fn.Pkg == nil || fn.Pkg.Pkg == nil {
		return false
	}
	p := fn.Pkg.Pkg.Path()
	return p == modPath || strings.HasPrefix(p, modPath+"/")
}

// PkgOf returns the short package name of a function ("parser").
func (c *Ctx) PkgOf(fn *ssa.Function) string {
	for fn.Parent() != nil {
		fn = fn.Parent()
	}
	if fn.Pkg != nil && fn.Pkg.Pkg != nil {
		return short(fn.Pkg.Pkg.Path())
	}
	if o := fn.Object(); o != nil && o.Pkg() != nil {
		return short(o.Pkg().Path())
	}
	return "?"
}

// FuncKey is the stable name of a function: "parser.ndGuard",
// "interpreter.(*sinkRuntime).Eval$1".
func (c *Ctx) FuncKey(fn *ssa.Function) string {
	if k, ok := c.funcKeyMemo[fn]; ok {
		return k
	}
	var k string
	if fn.Parent() != nil {
		k = c.FuncKey(fn.Parent()) + "$" + anonIndex(fn)
	} else if recv := fn.Signature.Recv(); recv != nil {
		k = fmt.Sprintf("%s.(%s).%s", c.PkgOf(fn), recvString(recv.Type()), fn.Name())
	} else {
		k = c.PkgOf(fn) + "." + fn.Name()
	}
	c.funcKeyMemo[fn] = k
	return k
}

func anonIndex(fn *ssa.Function) string {
	for i, a := range fn.Parent().AnonFuncs {
		if a == fn {
			return fmt.Sprint(i + 1)
		}
	}
	return "?"
}

func recvString(t types.Type) string {
	if p, ok := t.(*types.Pointer); ok {
		return "*" + typeShort(p.Elem())
	}
	return typeShort(t)
}

func typeShort(t types.Type) string {
	if n, ok := t.(*types.Named); ok {
		return n.Obj().Name()
	}
	return types.TypeString(t, func(p *types.Package) string { return p.Name() })
}

// ModFuncs returns all functions of the module having a body.
func (c *Ctx) ModFuncs() []*ssa.Function { return c.modFuncs }

// Func resolves a package-level function; nil when it does not exist.
func (c *Ctx) Func(pkg, name string) *ssa.Function {
	sp := c.ssaPkg[pkg]
	if sp == nil {
		return nil
	}
	return sp.Func(name)
}

// Method resolves a method of a named type of the module (pointer or value receiver).
func (c *Ctx) Method(pkg, typ, name string) *ssa.Function {
	sp := c.ssaPkg[pkg]
	if sp == nil {
		return nil
	}
	t := sp.Type(typ)
	if t == nil {
		return nil
	}
	for _, T := range []types.Type{t.Type(), types.NewPointer(t.Type())} {
		ms := c.Prog.MethodSets.MethodSet(T)
		if sel := ms.Lookup(sp.Pkg, name); sel != nil {
			if f := c.Prog.MethodValue(sel); f != nil {
				// promoted methods produce wrappers: resolve to the declared function
				if f.Synthetic != "" {
					if o, ok := sel.Obj().(*types.Func); ok {
						if d := c.Prog.FuncValue(o); d != nil {
							return d
						}
					}
				}
				return f
			}
		}
	}
	return nil
}

// NamedType resolves a named type of the module.
func (c *Ctx) NamedType(pkg, name string) *types.Named {
	p := c.byName[pkg]
	if p == nil {
		return nil
	}
	o := p.Types.Scope().Lookup(name)
	if o == nil {
		return nil
	}
	n, _ := o.Type().(*types.Named)
	return n
}

// Global resolves a package level variable.
func (c *Ctx) Global(pkg, name string) *ssa.Global {
	sp := c.ssaPkg[pkg]
	if sp == nil {
		return nil
	}
	g, _ := sp.Members[name].(*ssa.Global)
	return g
}

// Field resolves a struct field of a named type.
func (c *Ctx) Field(pkg, typ, field string) *types.Var {
	n := c.NamedType(pkg, typ)
	if n == nil {
		return nil
	}
	st, ok := n.Underlying().(*types.Struct)
	if !ok {
		return nil
	}
	for i := 0; i < st.NumFields(); i++ {
		if st.Field(i).Name() == field {
			return st.Field(i)
		}
	}
	return nil
}

// Pos renders a position relative to the repository root.
func (c *Ctx) Pos(p token.Pos) string {
	if !p.IsValid() {
		return "-"
	}
	pos := c.Fset.Position(p)
	rel, err := filepath.Rel(c.Repo, pos.Filename)
	if err != nil || strings.HasPrefix(rel, "..") {
		rel = pos.Filename
	}
	return fmt.Sprintf("%s:%d:%d", rel, pos.Line, pos.Column)
}

// InstrPos finds a usable position for an instruction (go/ssa leaves many NoPos).
func (c *Ctx) InstrPos(in ssa.Instruction) token.Pos {
	if p := in.Pos(); p.IsValid() {
		return p
	}
	for _, op := range in.Operands(nil) {
		if *op != nil && (*op).Pos().IsValid() {
			if _, isFn := (*op).(*ssa.Function); !isFn {
				return (*op).Pos()
			}
		}
	}
	// fall back to the nearest positioned instruction in the block
	b := in.Block()
	if b != nil {
		idx := -1
		for i, x := range b.Instrs {
			if x == in {
				idx = i
			}
		}
		for i := idx; i >= 0; i-- {
			if p := b.Instrs[i].Pos(); p.IsValid() {
				return p
			}
		}
		for i := idx + 1; i < len(b.Instrs) && i > 0; i++ {
			if p := b.Instrs[i].Pos(); p.IsValid() {
				return p
			}
		}
		return b.Parent().Pos()
	}
	return token.NoPos
}

// CHA returns the class-hierarchy call graph (whole program).
func (c *Ctx) CHA() *callgraph.Graph {
	if c.cgCHA == nil {
		c.cgCHA = cha.CallGraph(c.Prog)
	}
	return c.cgCHA
}

// VTA returns the VTA-refined call graph.
func (c *Ctx) VTA() *callgraph.Graph {
	if c.cgVTA == nil {
		c.cgVTA = vta.CallGraph(ssautil.AllFunctions(c.Prog), c.CHA())
	}
	return c.cgVTA
}

// Callees returns the module functions a call instruction may invoke (CHA).
func (c *Ctx) Callees(site ssa.CallInstruction) []*ssa.Function {
	if f := site.Common().StaticCallee(); f != nil {
		return []*ssa.Function{f}
	}
	g := c.CHA()
	if !site.Common().IsInvoke() {
		// call of a function value: CHA resolves it to every address-taken function of
		// that signature in the program; VTA follows the value through fields and maps
		g = c.VTA()
	}
	n := g.Nodes[site.Parent()]
	if n == nil {
		return nil
	}
	var out []*ssa.Function
	seen := map[*ssa.Function]bool{}
	for _, e := range n.Out {
		f := unwrapSynthetic(e.Callee.Func)
		if e.Site == site && !seen[f] {
			seen[f] = true
			out = append(out, f)
		}
	}
	sort.Slice(out, func(i, j int) bool { return c.FuncKey(out[i]) < c.FuncKey(out[j]) })
	return out
}

// unwrapSynthetic looks through a compiler generated wrapper (promoted method, bound method,
// thunk) to the declared function it forwards to.
func unwrapSynthetic(f *ssa.Function) *ssa.Function {
	for d := 0; d < 4 && f != nil && f.Synthetic != "" && f.Blocks != nil; d++ {
		var target *ssa.Function
		n := 0
		for _, b := range f.Blocks {
			for _, in := range b.Instrs {
				if ci, ok := in.(ssa.CallInstruction); ok {
					if t := ci.Common().StaticCallee(); t != nil {
						target = t
						n++
					}
				}
			}
		}
		if n != 1 || target == nil {
			return f
		}
		f = target
	}
	return f
}

// Reach computes the module functions reachable from the entry points, following
// calls (static, CHA for dynamic), go/defer, and closures created in reachable
// functions. parent records one predecessor per function for path reports.
type Reach struct {
	Set    map[*ssa.Function]bool
	Parent map[*ssa.Function]*ssa.Function
	Order  []*ssa.Function
}

func (c *Ctx) Reachable(entries []*ssa.Function, stop func(*ssa.Function) bool) *Reach {
	return c.reachable(c.CHA(), entries, stop)
}

func (c *Ctx) reachable(g *callgraph.Graph, entries []*ssa.Function, stop func(*ssa.Function) bool) *Reach {
	r := &Reach{Set: map[*ssa.Function]bool{}, Parent: map[*ssa.Function]*ssa.Function{}}
	var work []*ssa.Function
	add := func(f, from *ssa.Function) {
		f = unwrapSynthetic(f)
		if f == nil || r.Set[f] || !c.modFuncSet[f] {
			return
		}
		if stop != nil && stop(f) {
			return
		}
		r.Set[f] = true
		r.Parent[f] = from
		r.Order = append(r.Order, f)
		work = append(work, f)
	}
	for _, e := range entries {
		add(e, nil)
	}
	for len(work) > 0 {
		f := work[0]
		work = work[1:]
		if n := g.Nodes[f]; n != nil {
			outs := make([]*ssa.Function, 0, len(n.Out))
			for _, e := range n.Out {
				outs = append(outs, e.Callee.Func)
			}
			sort.Slice(outs, func(i, j int) bool { return c.FuncKey(outs[i]) < c.FuncKey(outs[j]) })
			for _, o := range outs {
				if c.modFuncSet[o] {
					add(o, f)
				} else if o.Synthetic != "" {
					// wrapper / bound method / thunk: look through it
					if n2 := g.Nodes[o]; n2 != nil {
						for _, e2 := range n2.Out {
							add(e2.Callee.Func, f)
						}
					}
				}
			}
		}
		for _, a := range f.AnonFuncs {
			add(a, f)
		}
	}
	return r
}

// PathTo renders the chain of functions from an entry point to f.
func (r *Reach) PathTo(c *Ctx, f *ssa.Function) []string {
	var out []string
	for x := f; x != nil; x = r.Parent[x] {
		out = append([]string{c.FuncKey(x)}, out...)
		if len(out) > 40 {
			break
		}
	}
	return out
}

// Implementations returns the module functions implementing method `name` of
// interface `iface` (declared methods, not wrappers).
func (c *Ctx) Implementations(iface *types.Interface, name string) []*ssa.Function {
	var out []*ssa.Function
	seen := map[*ssa.Function]bool{}
	for _, p := range c.Pkgs {
		sc := p.Types.Scope()
		for _, n := range sc.Names() {
			tn, ok := sc.Lookup(n).(*types.TypeName)
			if !ok || tn.IsAlias() {
				continue
			}
			if _, isIface := tn.Type().Underlying().(*types.Interface); isIface {
				continue
			}
			for _, T := range []types.Type{tn.Type(), types.NewPointer(tn.Type())} {
				if !types.Implements(T, iface) {
					continue
				}
				sel := c.Prog.MethodSets.MethodSet(T).Lookup(p.Types, name)
				if sel == nil {
					// exported method looked up from another package
					sel = c.Prog.MethodSets.MethodSet(T).Lookup(nil, name)
				}
				if sel == nil {
					continue
				}
				fo, _ := sel.Obj().(*types.Func)
				if fo == nil {
					continue
				}
				f := c.Prog.FuncValue(fo)
				if f != nil && c.modFuncSet[f] && !seen[f] {
					seen[f] = true
					out = append(out, f)
				}
				break
			}
		}
	}
	sort.Slice(out, func(i, j int) bool { return c.FuncKey(out[i]) < c.FuncKey(out[j]) })
	return out
}

// Interface resolves a named interface type of the module.
func (c *Ctx) Interface(pkg, name string) *types.Interface {
	n := c.NamedType(pkg, name)
	if n == nil {
		return nil
	}
	i, _ := n.Underlying().(*types.Interface)
	return i
}

// Syntax returns the declaration syntax of a function (FuncDecl or FuncLit).
func (c *Ctx) Syntax(fn *ssa.Function) ast.Node { return fn.Syntax() }

// TypesInfo returns the types.Info of the package of fn.
func (c *Ctx) TypesInfo(fn *ssa.Function) *types.Info {
	if p := c.byName[c.PkgOf(fn)]; p != nil {
		return p.TypesInfo
	}
	return nil
}
