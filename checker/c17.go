package main

// C17 — file imports cannot escape the configured root directory.

import (
	"fmt"
	"go/token"
	"strings"

	"golang.org/x/tools/go/ssa"
)

func init() { register("C17", checkC17) }

// fileAPIs: functions that open / read / create a file by path (argument index of the path).
var fileAPIs = map[string]int{
	"os.Open": 0, "os.OpenFile": 0, "os.ReadFile": 0, "os.Create": 0, "os.ReadDir": 0, "os.Stat": 0, "os.Lstat": 0,
	"io/ioutil.ReadFile": 0, "io/ioutil.ReadDir": 0, "os.WriteFile": 0, "io/ioutil.WriteFile": 0, "os.Readlink": 0,
}

func checkC17(c *Ctx, r *Result, tier string) {
	r.Explanation = "Decides the check→use discipline of the file import locator on every path: (R17a) every file-system call reachable from an ECALImportLocator.Resolve implementation takes as path the same SSA value that was handed to the containment predicate, on a path where the predicate's boolean is true and its error nil (path-sensitive abstract interpretation); " +
		"(R17b) the import runtime reaches the file system only through Resolve; (R17c) the predicate returns true only if err == nil ∧ ¬HasPrefix(rel, \"..\"+sep) ∧ rel ≠ \"..\" for rel = filepath.Rel of its own parameters in order."
	r.RuleText = "R17a check→use on the same value under (ok=true, err=nil), every path; R17b who-may-open; R17c enumeration of the predicate's paths: result may be true ⇒ the three conjuncts are established"
	r.NotCovered = "That filepath.Clean/Join/Rel normalise every string as intended (the standard library's contract; enumerating path strings is a different technique); symbolic links (the property is lexical)."
	r.Assumptions = []string{"path/filepath semantics", "callee contract: none needed (the predicate is analysed itself)"}

	locIface := c.Interface("util", "ECALImportLocator")
	if locIface == nil {
		r.Undecide("util.ECALImportLocator not found")
		return
	}
	impls := c.Implementations(locIface, "Resolve")
	r.Floor("R17-resolve-impls", len(impls), 2)

	// the containment predicate: module function (string,string) -> (bool,error) calling filepath.Rel
	var pred *ssa.Function
	for _, fn := range c.ModFuncs() {
		if fn.Parent() != nil || fn.Signature.Results().Len() != 2 || fn.Signature.Params().Len() != 2 {
			continue
		}
		if fn.Signature.Results().At(0).Type().String() != "bool" || fn.Signature.Results().At(1).Type().String() != "error" {
			continue
		}
		if len(callSites(fn, func(name string, _ ssa.CallInstruction) bool { return name == "path/filepath.Rel" })) > 0 {
			pred = fn
		}
	}
	if pred == nil {
		// diagnose the candidates: functions of package util taking two strings and returning a bool first
		for _, fn := range c.ModFuncs() {
			if c.PkgOf(fn) != "util" || fn.Parent() != nil || fn.Signature.Params().Len() != 2 || fn.Signature.Results().Len() == 0 ||
				fn.Signature.Results().At(0).Type().String() != "bool" || fn.Signature.Params().At(0).Type().String() != "string" || fn.Signature.Params().At(1).Type().String() != "string" {
				continue
			}
			key := c.FuncKey(fn)
			pos := c.Pos(fn.Pos())
			rels := callSites(fn, func(name string, _ ssa.CallInstruction) bool { return name == "path/filepath.Rel" })
			prefix := callSites(fn, func(name string, _ ssa.CallInstruction) bool { return name == "strings.HasPrefix" })
			switch {
			case len(rels) > 0 && fn.Signature.Results().Len() == 1:
				r.Instance("R17b", key+"#rel-error", pos, "finding", "error of filepath.Rel dropped", true)
				r.Report(Finding{Rule: "R17b", Site: key + "#rel-error", Pos: pos,
					Msg: key + ": the containment test calls filepath.Rel but cannot report its error (it returns only a bool): when Rel fails it returns \"\", which does not start with `..`, so the path counts as inside the root — an empty root with a rooted import path reads any absolute file"})
			case len(rels) == 0 && len(prefix) > 0:
				r.Instance("R17b", key+"#string-prefix", pos, "finding", "containment by string prefix", true)
				r.Report(Finding{Rule: "R17b", Site: key + "#string-prefix", Pos: pos,
					Msg: key + ": containment is decided by strings.HasPrefix on path strings instead of on the relative path's first component: the separator boundary is lost — root `code` contains `code.bak/secret` and `code2/x`, reachable with `..` segments"})
			}
		}
		// the test may be written out in the Resolve implementation itself
		inline := false
		for _, impl := range impls {
			if len(callSites(impl, func(name string, _ ssa.CallInstruction) bool { return name == "path/filepath.Rel" })) > 0 {
				inline = true
				r.Instance("R17-anchor", c.FuncKey(impl), c.Pos(impl.Pos()), "found", "containment test written out in the Resolve implementation (filepath.Rel and its conjuncts)", false)
			}
		}
		if !inline {
			r.Undecide("no containment predicate (func(string,string)(bool,error) using filepath.Rel) and no filepath.Rel in a Resolve implementation found")
			return
		}
	} else {
		r.Instance("R17-anchor", c.FuncKey(pred), c.Pos(pred.Pos()), "found", "containment predicate", false)
	}

	// confining helpers: functions returning (string, error) whose string, whenever the error is nil,
	// is the very value the predicate accepted on that path
	confiners := map[*ssa.Function]bool{}
	for _, h := range c.ModFuncs() {
		if h.Parent() != nil || h.Signature.Results().Len() != 2 || h.Signature.Results().At(0).Type().String() != "string" || h.Signature.Results().At(1).Type().String() != "error" {
			continue
		}
		if pred == nil || len(callSites(h, func(_ string, ci ssa.CallInstruction) bool { return ci.Common().StaticCallee() == pred })) == 0 {
			continue
		}
		good, seenOK := true, false
		ho := &PathOracle{}
		ho.AtReturn = func(st *PState, ret *ssa.Return) {
			if len(ret.Results) != 2 || st.Get(ret.Results[1], ho) == AvNonNil {
				return // error path
			}
			if st.Get(ret.Results[1], ho) != AvNil {
				good = false
				return
			}
			val := st.canon(ret.Results[0])
			accepted := false
			allInstrs(h, func(x ssa.Instruction) {
				pc, ok := x.(*ssa.Call)
				if !ok || pc.Call.StaticCallee() != pred || st.canon(pc.Call.Args[1]) != val {
					return
				}
				var okV, errV ssa.Value
				for _, ref := range *pc.Referrers() {
					if e, isE := ref.(*ssa.Extract); isE {
						if e.Index == 0 {
							okV = e
						} else {
							errV = e
						}
					}
				}
				if okV != nil && errV != nil && st.Get(okV, ho) == AvNonNil && st.Get(errV, ho) == AvNil {
					accepted = true
				}
			})
			if accepted {
				seenOK = true
			} else {
				good = false
			}
		}
		if ExplorePaths(h, ho) && good && seenOK {
			confiners[h] = true
			r.Instance("R17a", c.FuncKey(h)+"#confines", c.Pos(h.Pos()), "ok", "whenever it returns a nil error, the returned path is the value the containment predicate accepted on that path", true)
		}
	}

	// ---- R17a -----------------------------------------------------------------------------------
	nFile := 0
	nInline := map[*ssa.Call]bool{}
	for _, impl := range impls {
		reach := c.Reachable([]*ssa.Function{impl}, func(f *ssa.Function) bool { return pred != nil && f == pred })
		for _, fn := range reach.Order {
			key := c.FuncKey(fn)
			sites := callSites(fn, func(name string, _ ssa.CallInstruction) bool { _, ok := fileAPIs[name]; return ok })
			if len(sites) == 0 {
				r.Instance("R17a", key, c.Pos(fn.Pos()), "clean", "no file-system call", false)
				continue
			}
			bad := map[ssa.Instruction]string{}
			okSites := map[ssa.Instruction]bool{}
			type chk struct {
				call *ssa.Call
				sub  ssa.Value
			}
			o := &PathOracle{}
			o.Visit = func(st *PState, in ssa.Instruction) {
				ci, isCall := in.(ssa.CallInstruction)
				if !isCall {
					return
				}
				idx, isFile := fileAPIs[callName(in)]
				if !isFile {
					return
				}
				path := st.canon(ci.Common().Args[idx])
				// find a predicate call on this function whose sub argument is this value and whose results are (true, nil)
				found := false
				why := "the path was never handed to the containment predicate"
				// the result of a confining helper, on a path where its error is nil
				if e, isE := path.(*ssa.Extract); isE && e.Index == 0 {
					if hc, isCall := e.Tuple.(*ssa.Call); isCall && hc.Call.StaticCallee() != nil && confiners[hc.Call.StaticCallee()] {
						for _, ref := range *hc.Referrers() {
							if e1, ok := ref.(*ssa.Extract); ok && e1.Index == 1 {
								if st.Get(e1, o) == AvNil {
									found = true
								} else {
									why = "reached on a path where the error of " + hc.Call.StaticCallee().Name() + "() is not known to be nil"
								}
							}
						}
					}
				}
				// the test written out: rel, err := filepath.Rel(root, p) with err == nil,
				// ¬HasPrefix(rel, ".."+separator) and rel ≠ ".." known on this path
				allInstrs(fn, func(x ssa.Instruction) {
					rc, ok := x.(*ssa.Call)
					if !ok || callName(rc) != "path/filepath.Rel" || len(rc.Call.Args) != 2 || !dominates(rc, in) || found {
						return
					}
					nInline[rc] = true
					if st.canon(rc.Call.Args[1]) != path {
						why = fmt.Sprintf("the value checked (%s) is not the value opened (%s)", accessPath(rc.Call.Args[1]), accessPath(ci.Common().Args[idx]))
						return
					}
					if rootOf(rc.Call.Args[0]) == rootOf(rc.Call.Args[1]) || st.canon(rc.Call.Args[0]) == path {
						why = "filepath.Rel is not applied to (root, path)"
						return
					}
					var relV, errV ssa.Value
					for _, ref := range *rc.Referrers() {
						if e, isE := ref.(*ssa.Extract); isE {
							if e.Index == 0 {
								relV = e
							} else {
								errV = e
							}
						}
					}
					if relV == nil || errV == nil {
						why = "a result of filepath.Rel is ignored"
						return
					}
					if st.Get(errV, o) != AvNil {
						why = "reached on a path where the error of filepath.Rel is not known to be nil (Rel returns \"\" when it fails, which passes the prefix test)"
						return
					}
					prefOK, dotsOK := false, false
					allInstrs(fn, func(y ssa.Instruction) {
						switch z := y.(type) {
						case *ssa.Call:
							if callName(z) == "strings.HasPrefix" && len(z.Call.Args) == 2 && st.canon(z.Call.Args[0]) == st.canon(relV) && prefixIsDotDotSep(z.Call.Args[1]) && st.Get(z, o) == AvNil {
								prefOK = true
							}
						case *ssa.BinOp:
							if (z.Op == token.NEQ || z.Op == token.EQL) && st.canon(z.X) == st.canon(relV) {
								if cs, isC := constString(z.Y); isC && cs == ".." {
									want := AvNonNil
									if z.Op == token.EQL {
										want = AvNil
									}
									if st.Get(z, o) == want {
										dotsOK = true
									}
								}
							}
						}
					})
					switch {
					case !prefOK:
						why = "reached on a path where the relative path is not known not to start with \"..\"+separator"
					case !dotsOK:
						why = "reached on a path where the relative path is not known to differ from \"..\""
					default:
						found = true
					}
				})
				allInstrs(fn, func(x ssa.Instruction) {
					pc, ok := x.(*ssa.Call)
					if !ok || pred == nil || pc.Call.StaticCallee() != pred || !dominates(pc, in) {
						return
					}
					if st.canon(pc.Call.Args[1]) != path {
						why = fmt.Sprintf("the value checked (%s) is not the value opened (%s)", accessPath(pc.Call.Args[1]), accessPath(ci.Common().Args[idx]))
						return
					}
					var okV, errV ssa.Value
					for _, ref := range *pc.Referrers() {
						if e, isE := ref.(*ssa.Extract); isE {
							if e.Index == 0 {
								okV = e
							} else {
								errV = e
							}
						}
					}
					if okV == nil || errV == nil {
						why = "a result of the containment predicate is ignored"
						return
					}
					if st.Get(okV, o) != AvNonNil {
						why = "reached on a path where the predicate's boolean is not known to be true"
						return
					}
					if st.Get(errV, o) != AvNil {
						why = "reached on a path where the predicate's error is not known to be nil"
						return
					}
					found = true
				})
				if found {
					okSites[in] = true
				} else if _, dup := bad[in]; !dup {
					bad[in] = why
				}
			}
			if !ExplorePaths(fn, o) {
				r.Undecide("R17a: path exploration of %s exceeded its state bound", key)
			}
			for i, s := range sites {
				nFile++
				site := fmt.Sprintf("%s#file-call#%d:%s", key, i, callName(s))
				pos := c.Pos(c.InstrPos(s))
				if why, isBad := bad[s]; isBad {
					r.Instance("R17a", site, pos, "finding", why, true)
					r.Report(Finding{Rule: "R17a", Site: site, Pos: pos, Path: reach.PathTo(c, fn),
						Msg: fmt.Sprintf("%s calls %s on the import path: %s — a path outside the root could be opened", key, callName(s), why)})
				} else if okSites[s] {
					r.Instance("R17a", site, pos, "ok", "same SSA value as checked; on every path here ok=true ∧ err=nil", true)
				} else {
					r.Instance("R17a", site, pos, "unreachable", "no explored path reaches this call", false)
				}
			}
		}
	}
	r.Floor("R17a-file-calls", nFile, 1)

	// ---- R17b -----------------------------------------------------------------------------------
	n := 0
	for _, fn := range c.ModFuncs() {
		if c.PkgOf(fn) != "interpreter" {
			continue
		}
		res := callSites(fn, func(_ string, ci ssa.CallInstruction) bool {
			return ci.Common().IsInvoke() && ci.Common().Method.Name() == "Resolve"
		})
		if len(res) == 0 {
			continue
		}
		n++
		key := c.FuncKey(fn)
		files := callSites(fn, func(name string, _ ssa.CallInstruction) bool {
			if _, ok := fileAPIs[name]; ok {
				return true
			}
			return false
		})
		if len(files) > 0 {
			r.Instance("R17b", key, c.Pos(c.InstrPos(files[0])), "finding", "file access next to Resolve", true)
			r.Report(Finding{Rule: "R17b", Site: key + "#file-call", Pos: c.Pos(c.InstrPos(files[0])),
				Msg: key + " resolves imports through the locator but also calls " + callName(files[0]) + " itself: the import path reaches the file system without the containment check"})
		} else {
			r.Instance("R17b", key, c.Pos(fn.Pos()), "ok", "reaches the file system only through ECALImportLocator.Resolve", true)
		}
	}
	r.Floor("R17b", n, 1)

	// ---- R17c -----------------------------------------------------------------------------------
	if pred != nil {
		c17Predicate(c, r, pred)
	} else {
		// written out: the conjuncts are part of R17a at every file call
		r.Floor("R17c-inline-tests", len(nInline), 1)
		for rc := range nInline {
			r.Instance("R17c", c.FuncKey(rc.Parent())+"#inline", c.Pos(c.InstrPos(rc)), "ok", "the three conjuncts (err = nil, ¬HasPrefix(rel, \"..\"+sep), rel ≠ \"..\") are required path by path at every file call (R17a)", true)
		}
	}
}

func c17Predicate(c *Ctx, r *Result, pred *ssa.Function) {
	key := c.FuncKey(pred)
	rels := callSites(pred, func(name string, _ ssa.CallInstruction) bool { return name == "path/filepath.Rel" })
	if len(rels) != 1 {
		r.Report(Finding{Rule: "R17c", Site: key + "#rel", Pos: c.Pos(pred.Pos()), Msg: key + ": expected exactly one filepath.Rel call"})
		return
	}
	rel := rels[0].(*ssa.Call)
	if len(pred.Params) != 2 || rel.Call.Args[0] != ssa.Value(pred.Params[0]) || rel.Call.Args[1] != ssa.Value(pred.Params[1]) {
		r.Instance("R17c", key+"#rel-args", c.Pos(c.InstrPos(rel)), "finding", "Rel arguments are not (root, sub) in order", true)
		r.Report(Finding{Rule: "R17c", Site: key + "#rel-args", Pos: c.Pos(c.InstrPos(rel)),
			Msg: key + ": filepath.Rel is not applied to the predicate's own parameters (root, sub) in this order"})
		return
	}
	var relV, errV ssa.Value
	for _, ref := range *rel.Referrers() {
		if e, ok := ref.(*ssa.Extract); ok {
			if e.Index == 0 {
				relV = e
			} else {
				errV = e
			}
		}
	}
	// the conjunct conditions
	var hasPrefix *ssa.Call
	var neqDots *ssa.BinOp
	allInstrs(pred, func(in ssa.Instruction) {
		switch x := in.(type) {
		case *ssa.Call:
			if callName(x) == "strings.HasPrefix" && len(x.Call.Args) == 2 && x.Call.Args[0] == relV {
				if prefixIsDotDotSep(x.Call.Args[1]) {
					hasPrefix = x
				}
			}
		case *ssa.BinOp:
			if (x.Op == token.NEQ || x.Op == token.EQL) && x.X == relV {
				if s, ok := constString(x.Y); ok && s == ".." {
					neqDots = x
				}
			}
		}
	})
	if hasPrefix == nil || neqDots == nil || relV == nil || errV == nil {
		r.Instance("R17c", key+"#conjuncts", c.Pos(pred.Pos()), "finding", "conjunct missing", true)
		r.Report(Finding{Rule: "R17c", Site: key + "#conjuncts", Pos: c.Pos(pred.Pos()),
			Msg: fmt.Sprintf("%s: the containment test lacks a conjunct (HasPrefix(rel, \"..\"+separator): %v, rel compared with \"..\": %v)", key, hasPrefix != nil, neqDots != nil)})
		return
	}
	bad := ""
	nret := 0
	o := &PathOracle{}
	o.AtReturn = func(st *PState, ret *ssa.Return) {
		nret++
		s2 := st.clone()
		if !s2.refineCond(ret.Results[0], true, o) {
			return // cannot return true on this path
		}
		if s2.Get(errV, o) != AvNil {
			bad = "can return true although filepath.Rel failed (err not known nil)"
		}
		if s2.Get(hasPrefix, o) != AvNil {
			bad = "can return true although rel starts with \"..\"+separator"
		}
		want := AvNonNil
		if neqDots.Op == token.EQL {
			want = AvNil
		}
		if s2.Get(neqDots, o) != want {
			bad = "can return true although rel is \"..\""
		}
	}
	if !ExplorePaths(pred, o) {
		r.Undecide("R17c: path exploration of %s exceeded its bound", key)
	}
	if bad != "" {
		r.Instance("R17c", key+"#result", c.Pos(pred.Pos()), "finding", bad, true)
		r.Report(Finding{Rule: "R17c", Site: key + "#result", Pos: c.Pos(pred.Pos()), Msg: key + " " + bad})
	} else {
		r.Instance("R17c", key+"#result", c.Pos(pred.Pos()), "ok", fmt.Sprintf("on all %d return paths: result may be true ⇒ err=nil ∧ ¬HasPrefix(rel,\"..\"+sep) ∧ rel≠\"..\"", nret), true)
	}
}

// prefixIsDotDotSep: the value is ".." followed by the path separator.
func prefixIsDotDotSep(v ssa.Value) bool {
	if s, ok := constString(v); ok {
		return s == "../" || s == "..\\"
	}
	hasDots, hasSep := false, false
	seen := map[ssa.Value]bool{}
	var walk func(v ssa.Value, d int)
	walk = func(v ssa.Value, d int) {
		if v == nil || seen[v] || d > 12 {
			return
		}
		seen[v] = true
		if s, ok := constString(v); ok {
			if strings.HasPrefix(s, "..") {
				hasDots = true
			}
			if s == "/" || s == "\\" {
				hasSep = true
			}
		}
		if k, ok := constInt(v); ok && (k == '/' || k == '\\') {
			hasSep = true // os.PathSeparator is a constant
		}
		switch x := v.(type) {
		case *ssa.Alloc:
			for _, ref := range *x.Referrers() {
				switch r := ref.(type) {
				case *ssa.Store:
					walk(r.Val, d+1)
				case *ssa.IndexAddr:
					for _, ref2 := range *r.Referrers() {
						if st, ok := ref2.(*ssa.Store); ok {
							walk(st.Val, d+1)
						}
					}
				}
			}
		default:
			if in, ok := v.(ssa.Instruction); ok {
				for _, op := range in.Operands(nil) {
					if *op != nil {
						walk(*op, d+1)
					}
				}
			}
		}
	}
	walk(v, 0)
	return hasDots && hasSep
}
