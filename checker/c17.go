package main

// C17 — file imports cannot escape the configured root directory.

import (
	"fmt"
	"sort"
	"strings"

	"golang.org/x/tools/go/ssa"
)

func init() { register("C17", checkC17) }

// fileAPIs: functions that open / read / create a file by path (argument index of the path).
var fileAPIs = map[string]int{
	"os.Open": 0, "os.OpenFile": 0, "os.ReadFile": 0, "os.Create": 0, "os.ReadDir": 0, "os.Stat": 0, "os.Lstat": 0,
	"io/ioutil.ReadFile": 0, "io/ioutil.ReadDir": 0, "os.WriteFile": 0, "io/ioutil.WriteFile": 0, "os.Readlink": 0,
}

func checkC17(c *Ctx, r *Result, tier string) {
	r.Explanation = "Decides the check→use discipline of the file import locator on every path: (R17a) every file-system call reachable from an ECALImportLocator.Resolve implementation takes as path the same SSA value that was handed to the containment predicate, on a path where the predicate's boolean is true and its error nil (path-sensitive abstract interpretation); " +
		"(R17b) the import runtime reaches the file system only through Resolve; (R17c) the predicate returns true only if err == nil ∧ ¬HasPrefix(rel, \"..\"+sep) ∧ rel ≠ \"..\" for rel = filepath.Rel of its own parameters in order."
	r.RuleText = "R17a check→use on the same value under (ok=true, err=nil), every path; R17b who-may-open; R17c enumeration of the predicate's paths: result may be true ⇒ the three conjuncts are established"
	r.NotCovered = "That filepath.Clean/Join/Rel normalise every string as intended (the standard library's contract; enumerating path strings is a different technique); symbolic links (the property is lexical)."
	r.Assumptions = []string{"path/filepath semantics", "callee contract: none needed (the predicate is analysed itself)"}

	locIface := c.Interface("util", "ECALImportLocator")
	if locIface == nil {
		r.Undecide("util.ECALImportLocator not found")
		return
	}
	impls := c.Implementations(locIface, "Resolve")
	r.Floor("R17-resolve-impls", len(impls), 2)

	// ---- R17a / R17c: containment engine ----------------------------------------------------------
	ce := newContainment(c)
	nFile := 0
	anyBad := false
	for _, impl := range impls {
		reach := c.Reachable([]*ssa.Function{impl}, func(f *ssa.Function) bool { return ce.summary(f) != nil })
		for _, fn := range reach.Order {
			key := c.FuncKey(fn)
			sites := callSites(fn, func(name string, _ ssa.CallInstruction) bool { _, ok := fileAPIs[name]; return ok })
			if len(sites) == 0 {
				r.Instance("R17a", key, c.Pos(fn.Pos()), "clean", "no file-system call", false)
				continue
			}
			bad := map[ssa.Instruction]string{}
			okSites := map[ssa.Instruction]string{}
			o := &PathOracle{}
			o.Visit = func(st *PState, in ssa.Instruction) {
				ci, isCall := in.(ssa.CallInstruction)
				if !isCall {
					return
				}
				idx, isFile := fileAPIs[callName(in)]
				if !isFile {
					return
				}
				okc, why := ce.contained(fn, st, o, in, ci.Common().Args[idx], 0)
				if !okc {
					// the file call in a helper that is handed the path (readImport(path, importPath)): the
					// containment is owed, path by path, at every call of the helper
					if p, isParam := st.canon(ci.Common().Args[idx]).(*ssa.Parameter); isParam && p.Parent() == fn {
						if ok2, why2 := c17OwedAtCallSites(c, ce, fn, p); ok2 {
							okc, why = true, why2
						}
					}
				}
				if okc {
					okSites[in] = why
				} else if _, dup := bad[in]; !dup {
					bad[in] = why
				}
			}
			if !ExplorePaths(fn, o) {
				r.Undecide("R17a: path exploration of %s exceeded its state bound", key)
			}
			for i, s := range sites {
				nFile++
				site := fmt.Sprintf("%s#file-call#%d:%s", key, i, callName(s))
				pos := c.Pos(c.InstrPos(s))
				if why, isBad := bad[s]; isBad {
					anyBad = true
					r.Instance("R17a", site, pos, "finding", why, true)
					r.Report(Finding{Rule: "R17a", Site: site, Pos: pos, Path: reach.PathTo(c, fn),
						Msg: fmt.Sprintf("%s calls %s on the import path: %s — a path outside the root could be opened", key, callName(s), why)})
				} else if why, isOK := okSites[s]; isOK {
					r.Instance("R17a", site, pos, "ok", why, true)
				} else {
					r.Instance("R17a", site, pos, "unreachable", "no explored path reaches this call", false)
				}
			}
		}
	}
	r.Floor("R17a-file-calls", nFile, 1)
	// what establishes containment: the functions with a summary that were used, and tests written out
	nTests := 0
	var used []*ssa.Function
	for f, sm := range ce.memo {
		if sm != nil && ce.usedSummary[f] {
			used = append(used, f)
		}
	}
	sort.Slice(used, func(i, j int) bool { return c.FuncKey(used[i]) < c.FuncKey(used[j]) })
	for _, f := range used {
		nTests++
		sm := ce.memo[f]
		r.Instance("R17c", c.FuncKey(f)+"#result", c.Pos(f.Pos()), "ok", fmt.Sprintf("%s: on all %d return paths that can signal success (%s) the argument %s is established to lie inside the root: filepath.Rel(root, p) succeeded and its first element is not `..`", sm.kind, sm.successPaths, sm.signal, f.Params[sm.param].Name()), true)
	}
	var inl []*ssa.Call
	for rc := range ce.usedInline {
		inl = append(inl, rc)
	}
	sort.Slice(inl, func(i, j int) bool { return c.Pos(c.InstrPos(inl[i])) < c.Pos(c.InstrPos(inl[j])) })
	for _, rc := range inl {
		if ce.memo[rc.Parent()] != nil && ce.usedSummary[rc.Parent()] {
			continue
		}
		nTests++
		r.Instance("R17c", c.FuncKey(rc.Parent())+"#inline", c.Pos(c.InstrPos(rc)), "ok", "the test is written out next to the file call: required path by path there (R17a)", true)
	}
	if anyBad || nTests == 0 {
		c17Diagnose(c, r)
	}
	if nTests == 0 && !anyBad {
		r.Undecide("no containment test (filepath.Rel of the opened path against the root, with its first element compared with `..`) found on the way to a file call")
	}
	r.Extra["containment_tests"] = nTests

	// ---- R17b -----------------------------------------------------------------------------------
	n := 0
	for _, fn := range c.ModFuncs() {
		if c.PkgOf(fn) != "interpreter" {
			continue
		}
		res := callSites(fn, func(_ string, ci ssa.CallInstruction) bool {
			return ci.Common().IsInvoke() && ci.Common().Method.Name() == "Resolve"
		})
		if len(res) == 0 {
			continue
		}
		n++
		key := c.FuncKey(fn)
		files := callSites(fn, func(name string, _ ssa.CallInstruction) bool {
			if _, ok := fileAPIs[name]; ok {
				return true
			}
			return false
		})
		if len(files) > 0 {
			r.Instance("R17b", key, c.Pos(c.InstrPos(files[0])), "finding", "file access next to Resolve", true)
			r.Report(Finding{Rule: "R17b", Site: key + "#file-call", Pos: c.Pos(c.InstrPos(files[0])),
				Msg: key + " resolves imports through the locator but also calls " + callName(files[0]) + " itself: the import path reaches the file system without the containment check"})
		} else {
			r.Instance("R17b", key, c.Pos(fn.Pos()), "ok", "reaches the file system only through ECALImportLocator.Resolve", true)
		}
	}
	r.Floor("R17b", n, 1)

}

// prefixIsDotDotSep: the value is ".." followed by the path separator.
func prefixIsDotDotSep(v ssa.Value) bool {
	if s, ok := constString(v); ok {
		return s == "../" || s == "..\\"
	}
	hasDots, hasSep := false, false
	seen := map[ssa.Value]bool{}
	var walk func(v ssa.Value, d int)
	walk = func(v ssa.Value, d int) {
		if v == nil || seen[v] || d > 12 {
			return
		}
		seen[v] = true
		if s, ok := constString(v); ok {
			if strings.HasPrefix(s, "..") {
				hasDots = true
			}
			if s == "/" || s == "\\" {
				hasSep = true
			}
		}
		if k, ok := constInt(v); ok && (k == '/' || k == '\\') {
			hasSep = true // os.PathSeparator is a constant
		}
		switch x := v.(type) {
		case *ssa.Alloc:
			for _, ref := range *x.Referrers() {
				switch r := ref.(type) {
				case *ssa.Store:
					walk(r.Val, d+1)
				case *ssa.IndexAddr:
					for _, ref2 := range *r.Referrers() {
						if st, ok := ref2.(*ssa.Store); ok {
							walk(st.Val, d+1)
						}
					}
				}
			}
		default:
			if in, ok := v.(ssa.Instruction); ok {
				for _, op := range in.Operands(nil) {
					if *op != nil {
						walk(*op, d+1)
					}
				}
			}
		}
	}
	walk(v, 0)
	return hasDots && hasSep
}

// c17OwedAtCallSites: fn is not exported, every call of it is a static call inside the module, and at each of
// them the argument bound to p is established to lie inside the root on every path that reaches the call.
func c17OwedAtCallSites(c *Ctx, ce *containment, fn *ssa.Function, p *ssa.Parameter) (bool, string) {
	if o := fn.Object(); o == nil || o.Exported() {
		return false, ""
	}
	idx := paramIndex(fn, p)
	node := c.CHA().Nodes[fn]
	if idx < 0 || node == nil {
		return false, ""
	}
	sites := 0
	for _, e := range node.In {
		if e.Caller.Func != nil && e.Caller.Func.Synthetic != "" {
			continue
		}
		if e.Site == nil || e.Caller.Func == nil || !c.inModule(e.Caller.Func) || e.Site.Common().StaticCallee() != fn {
			return false, ""
		}
		if _, isCall := e.Site.(*ssa.Call); !isCall {
			return false, "" // go / defer: not at a point of a path
		}
		args := e.Site.Common().Args
		if idx >= len(args) {
			return false, ""
		}
		caller, site := e.Caller.Func, e.Site
		good, reached := true, false
		o := &PathOracle{}
		o.Visit = func(st *PState, in ssa.Instruction) {
			if in != ssa.Instruction(site) {
				return
			}
			reached = true
			if ok, _ := ce.contained(caller, st, o, in, args[idx], 0); !ok {
				good = false
			}
		}
		if !ExplorePaths(caller, o) || !good || !reached {
			return false, ""
		}
		sites++
	}
	if sites == 0 {
		return false, ""
	}
	return true, fmt.Sprintf("the path is the parameter %s of an unexported helper; at each of its %d call site(s) the argument is established to lie inside the root on every path", p.Name(), sites)
}
