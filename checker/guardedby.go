package main

// guarded-by and lock-order rules on top of lockflow.

import (
	"fmt"
	"go/token"
	"go/types"
	"sort"
	"strings"

	"golang.org/x/tools/go/ssa"
)

// GuardSpec: accesses to Field need a lock of class Lock to be held.
type GuardSpec struct {
	Field      *types.Var
	FieldName  string          // for reports: "ThreadPool.queue"
	Lock       string          // lock class
	OnlyMethod map[string]bool // if set: only these method calls on the field value need the guard
	WritesOnly bool            // only writes (stores, map updates, deletes) need the guard
	ReadLockOK bool            // a read lock suffices for reads (writes always need the exclusive lock)
	SameBase   bool            // the lock must be a field of the same object as the accessed field
	AnyModeOK  bool            // a read lock suffices for writes too (the field has a second, exclusive guard)
}

// fieldAccess is one access to a struct field.
type fieldAccess struct {
	Instr  ssa.Instruction // the instruction performing the access (load, store, call ...)
	Addr   ssa.Value       // the FieldAddr / Field
	Write  bool
	Method string // method called on the value (if any)
	Kind   string
}

// accessesOf enumerates the accesses to a field in a function.
func accessesOf(fn *ssa.Function, f *types.Var) []fieldAccess {
	var out []fieldAccess
	allInstrs(fn, func(in ssa.Instruction) {
		switch x := in.(type) {
		case *ssa.Field:
			if fieldVar(x) == f {
				out = append(out, fieldAccess{Instr: in, Addr: x, Kind: "read"})
			}
		case *ssa.FieldAddr:
			if fieldVar(x) != f {
				return
			}
			for _, ref := range *x.Referrers() {
				switch r := ref.(type) {
				case *ssa.Store:
					if r.Addr == x {
						out = append(out, fieldAccess{Instr: r, Addr: x, Write: true, Kind: "store"})
					} else {
						out = append(out, fieldAccess{Instr: r, Addr: x, Kind: "addr-escapes"})
					}
				case *ssa.UnOp:
					if r.Op != token.MUL {
						continue
					}
					used := false
					for _, ref2 := range *r.Referrers() {
						switch r2 := ref2.(type) {
						case *ssa.MapUpdate:
							if r2.Map == r {
								out = append(out, fieldAccess{Instr: r2, Addr: x, Write: true, Kind: "mapupdate"})
								used = true
							}
						case ssa.CallInstruction:
							if isBuiltinCall(r2, "delete") && r2.Common().Args[0] == r {
								out = append(out, fieldAccess{Instr: r2, Addr: x, Write: true, Kind: "delete"})
								used = true
							} else if o := calleeObj(r2.Common()); o != nil {
								as := callArgs(r2.Common())
								if len(as) > 0 && as[0] == r && o.Type().(*types.Signature).Recv() != nil {
									out = append(out, fieldAccess{Instr: r2, Addr: x, Method: o.Name(), Kind: "call:" + o.Name()})
									used = true
								}
							}
						}
					}
					if !used || len(*r.Referrers()) > 1 {
						out = append(out, fieldAccess{Instr: r, Addr: x, Kind: "read"})
					}
				case ssa.CallInstruction:
					if o := calleeObj(r.Common()); o != nil {
						if o.Pkg() != nil && o.Pkg().Path() == "sync/atomic" {
							out = append(out, fieldAccess{Instr: r, Addr: x, Kind: "atomic"})
							continue
						}
						as := callArgs(r.Common())
						if len(as) > 0 && as[0] == x {
							out = append(out, fieldAccess{Instr: r, Addr: x, Method: o.Name(), Kind: "call:" + o.Name()})
							continue
						}
					}
					out = append(out, fieldAccess{Instr: r, Addr: x, Kind: "addr-escapes"})
				default:
					out = append(out, fieldAccess{Instr: ref, Addr: x, Kind: "read"})
				}
			}
		}
	})
	return out
}

// baseOf returns the object whose field is selected.
func baseOf(addr ssa.Value) ssa.Value {
	switch x := addr.(type) {
	case *ssa.FieldAddr:
		return x.X
	case *ssa.Field:
		return x.X
	}
	return nil
}

// freshIn: the object is allocated in this function (constructor / not yet shared).
func freshIn(v ssa.Value) bool {
	r := rootOf(v)
	switch x := r.(type) {
	case *ssa.Alloc:
		// a local cell holding a pointer is not itself the object
		if v == r {
			return true
		}
		if !loadsBetween(v, x) {
			return true
		}
		// the cell holds a pointer: fresh if every value stored in the cell is fresh
		srcs := cellSources(x)
		if len(srcs) == 0 {
			return false
		}
		for _, s := range srcs {
			if !freshIn(s) {
				return false
			}
		}
		return true
	case *ssa.Call:
		// result of a constructor of the module returning a fresh object: New*/new*
		if f := x.Call.StaticCallee(); f != nil {
			n := f.Name()
			return strings.HasPrefix(n, "New") || strings.HasPrefix(n, "new")
		}
	}
	return false
}

type guardChecker struct {
	c    *Ctx
	lfs  *LockFlows
	memo map[string]int // fn|class -> 0 unknown(in progress) 1 held 2 not held
}

func newGuardChecker(c *Ctx, lfs *LockFlows) *guardChecker {
	return &guardChecker{c: c, lfs: lfs, memo: map[string]int{}}
}

// callersHold: every call site of fn in the module holds a lock of the class
// (recursively; recursion is assumed fine co-inductively). witness = an offending caller.
func (g *guardChecker) callersHold(fn *ssa.Function, class string, readOK bool, depth int) (bool, string) {
	key := g.c.FuncKey(fn) + "|" + class + fmt.Sprintf("|%v", readOK)
	switch g.memo[key] {
	case 1:
		return true, ""
	case 2:
		return false, "(see earlier)"
	case 3:
		return true, "" // in progress: co-inductive assumption
	}
	g.memo[key] = 3
	ok, wit := g.callersHold1(fn, class, readOK, depth)
	if ok {
		g.memo[key] = 1
	} else {
		g.memo[key] = 2
	}
	return ok, wit
}

func (g *guardChecker) callersHold1(fn *ssa.Function, class string, readOK bool, depth int) (bool, string) {
	if depth <= 0 {
		return false, "call chain too deep"
	}
	type site struct {
		caller *ssa.Function
		instr  ssa.Instruction
	}
	var sites []site
	if fn.Parent() != nil {
		// closure: where is it created / called?
		par := fn.Parent()
		allInstrs(par, func(in ssa.Instruction) {
			if mc, ok := in.(*ssa.MakeClosure); ok && mc.Fn == fn {
				for _, ref := range *mc.Referrers() {
					if ci, ok := ref.(ssa.CallInstruction); ok && ci.Common().Value == mc {
						sites = append(sites, site{par, ref})
					} else {
						// stored or passed: called from elsewhere, unknown lock context
						sites = append(sites, site{nil, ref})
					}
				}
			}
		})
	} else {
		n := g.c.CHA().Nodes[fn]
		if n != nil {
			for _, e := range n.In {
				if e.Site == nil {
					continue
				}
				if !g.c.modFuncSet[e.Caller.Func] {
					if e.Caller.Func.Synthetic != "" {
						// wrapper: callers of the wrapper are unknown -> treat as API
						sites = append(sites, site{nil, nil})
					}
					continue
				}
				sites = append(sites, site{e.Caller.Func, e.Site})
			}
		}
		if o := fn.Object(); o != nil && o.Exported() {
			// exported API: callable from outside without the lock
			if recvExported(fn) {
				return false, "exported API " + g.c.FuncKey(fn) + " can be called without the lock"
			}
		}
	}
	if len(sites) == 0 {
		return false, "no caller found for " + g.c.FuncKey(fn)
	}
	for _, s := range sites {
		if s.caller == nil {
			return false, "function value of " + g.c.FuncKey(fn) + " escapes (unknown lock context)"
		}
		lf := g.lfs.Of(s.caller)
		if lf != nil {
			if _, isDefer := s.instr.(*ssa.Defer); isDefer {
				// runs at function exit: holds whose release was registered earlier are still held (LIFO)
				held := false
				for p, cl := range lf.ClassOf {
					if cl != class {
						continue
					}
					st := lf.Before[s.instr]
					if st != nil && st.get("HD:"+p)&c0 == 0 {
						held = true
					}
				}
				if held {
					continue
				}
			} else if _, ok := lf.MustHoldClass(s.instr, class, readOK); ok {
				continue
			}
		}
		if ok, _ := g.callersHold(s.caller, class, readOK, depth-1); ok {
			continue
		}
		return false, fmt.Sprintf("caller %s (%s) does not hold %s", g.c.FuncKey(s.caller), g.c.Pos(g.c.InstrPos(s.instr)), class)
	}
	return true, ""
}

func recvExported(fn *ssa.Function) bool {
	r := fn.Signature.Recv()
	if r == nil {
		return true
	}
	n := namedOf(r.Type())
	return n == nil || n.Obj().Exported() || true
}

// checkGuardedBy checks one spec over the given functions.
func (g *guardChecker) check(r *Result, rule string, spec GuardSpec, funcs []*ssa.Function, exempt func(fn *ssa.Function) string) int {
	n := 0
	for _, fn := range funcs {
		accs := accessesOf(fn, spec.Field)
		if len(accs) == 0 {
			continue
		}
		key := g.c.FuncKey(fn)
		ord := newOrdinals()
		lf := g.lfs.Of(fn)
		for _, a := range accs {
			if spec.OnlyMethod != nil && !spec.OnlyMethod[a.Method] {
				continue
			}
			if spec.WritesOnly && !a.Write {
				continue
			}
			if a.Kind == "addr-escapes" && isLockType(spec.Field.Type()) {
				continue
			}
			if a.Kind == "atomic" {
				n++
				r.Instance(rule, ord.key(key, a.Kind, spec.FieldName), g.c.Pos(g.c.InstrPos(a.Instr)), "ok", "accessed through sync/atomic", true)
				continue
			}
			n++
			site := ord.key(key, a.Kind, spec.FieldName)
			pos := g.c.Pos(g.c.InstrPos(a.Instr))
			if why := exempt(fn); why != "" {
				r.Instance(rule, site, pos, "exempt", why, false)
				continue
			}
			if freshIn(baseOf(a.Addr)) {
				r.Instance(rule, site, pos, "exempt", "object allocated in this function (not yet shared)", false)
				continue
			}
			readOK := (spec.ReadLockOK && !a.Write) || spec.AnyModeOK
			if lf != nil {
				if spec.SameBase {
					lp := accessPath(baseOf(a.Addr)) + "." + lastSeg(spec.Lock)
					if lf.MustHoldPath(a.Instr, lp, readOK) {
						r.Instance(rule, site, pos, "ok", "holds "+lp, true)
						continue
					}
				} else if p, ok := lf.MustHoldClass(a.Instr, spec.Lock, readOK); ok {
					r.Instance(rule, site, pos, "ok", "holds "+p, true)
					continue
				}
			}
			ok, wit := g.callersHold(fn, spec.Lock, readOK, 4)
			if ok {
				r.Instance(rule, site, pos, "ok", "every caller holds "+spec.Lock, true)
				continue
			}
			r.Instance(rule, site, pos, "finding", "unguarded access", true)
			r.Report(Finding{Rule: rule, Site: site, Pos: pos,
				Msg: fmt.Sprintf("%s: %s of %s without %s held (%s)", key, a.Kind, spec.FieldName, spec.Lock, wit)})
		}
	}
	return n
}

func lastSeg(s string) string {
	if i := strings.LastIndex(s, "."); i >= 0 {
		return s[i+1:]
	}
	return s
}

// ---- lock order ------------------------------------------------------------------------------

type orderEdge struct {
	From, To string
	Fn       *ssa.Function
	Instr    ssa.Instruction
	Via      string
}

// lockOrderGraph builds the module-wide lock-order graph.
func lockOrderGraph(c *Ctx, lfs *LockFlows) (edges []orderEdge, nLockSites int) {
	seen := map[string]bool{}
	add := func(e orderEdge) {
		if e.From == e.To {
			return
		}
		k := e.From + ">" + e.To
		if !seen[k] {
			seen[k] = true
			edges = append(edges, e)
		}
	}
	for _, fn := range c.ModFuncs() {
		lf := lfs.Of(fn)
		if lf == nil {
			continue
		}
		hasLocks := len(lf.Ops) > 0
		for _, op := range lf.Ops {
			if op.acquire() && !op.Deferred {
				nLockSites++
				for _, h := range lf.MayHoldClasses(op.Instr) {
					add(orderEdge{h, op.Class, fn, op.Instr, ""})
				}
			}
		}
		if !hasLocks {
			continue
		}
		allInstrs(fn, func(in ssa.Instruction) {
			ci, ok := in.(ssa.CallInstruction)
			if !ok {
				return
			}
			if _, isGo := in.(*ssa.Go); isGo {
				return
			}
			if _, isLock := lockOpOf(in); isLock {
				return
			}
			held := lf.MayHoldClasses(in)
			if len(held) == 0 {
				return
			}
			if _, isDefer := in.(*ssa.Defer); isDefer {
				return
			}
			for _, callee := range c.Callees(ci) {
				if !c.modFuncSet[callee] {
					continue
				}
				var acq []string
				for a := range lfs.Acquires(callee) {
					acq = append(acq, a)
				}
				sort.Strings(acq)
				for _, a := range acq {
					for _, h := range held {
						add(orderEdge{h, a, fn, in, c.FuncKey(callee)})
					}
				}
			}
		})
	}
	sort.Slice(edges, func(i, j int) bool {
		if edges[i].From != edges[j].From {
			return edges[i].From < edges[j].From
		}
		return edges[i].To < edges[j].To
	})
	return
}

// findCycles returns elementary cycles (as lists of classes) in the order graph.
func findCycles(edges []orderEdge) [][]string {
	adj := map[string][]string{}
	for _, e := range edges {
		adj[e.From] = append(adj[e.From], e.To)
	}
	var nodes []string
	for n := range adj {
		nodes = append(nodes, n)
	}
	sort.Strings(nodes)
	var cycles [][]string
	seenCycle := map[string]bool{}
	for _, start := range nodes {
		var path []string
		onPath := map[string]bool{}
		var dfs func(n string, depth int)
		dfs = func(n string, depth int) {
			if depth > 8 {
				return
			}
			path = append(path, n)
			onPath[n] = true
			for _, m := range adj[n] {
				if m == start {
					cyc := append([]string{}, path...)
					// canonical form: rotate so that the smallest is first
					min := 0
					for i := range cyc {
						if cyc[i] < cyc[min] {
							min = i
						}
					}
					can := append(append([]string{}, cyc[min:]...), cyc[:min]...)
					k := strings.Join(can, ">")
					if !seenCycle[k] {
						seenCycle[k] = true
						cycles = append(cycles, can)
					}
				} else if !onPath[m] && m > start {
					dfs(m, depth+1)
				}
			}
			path = path[:len(path)-1]
			delete(onPath, n)
		}
		dfs(start, 0)
	}
	return cycles
}

// checkLockOrder reports cycles of the lock-order graph.
func checkLockOrder(c *Ctx, r *Result, lfs *LockFlows, rule string, relevant func(class string) bool) {
	edges, nSites := lockOrderGraph(c, lfs)
	var es []string
	for _, e := range edges {
		s := fmt.Sprintf("%s -> %s in %s", e.From, e.To, c.FuncKey(e.Fn))
		if e.Via != "" {
			s += " via " + e.Via
		}
		es = append(es, s)
		r.Instance(rule, sanitizeSite(e.From+">"+e.To), c.Pos(c.InstrPos(e.Instr)), "edge", s, true)
	}
	r.Extra["lock_order_edges"] = es
	r.Extra["lock_sites"] = nSites
	for _, cyc := range findCycles(edges) {
		rel := false
		for _, cl := range cyc {
			if relevant(cl) {
				rel = true
			}
		}
		if !rel {
			continue // reported by the property that owns these locks
		}
		var wit []string
		for i := range cyc {
			from, to := cyc[i], cyc[(i+1)%len(cyc)]
			for _, e := range edges {
				if e.From == from && e.To == to {
					w := fmt.Sprintf("%s->%s at %s (%s)", from, to, c.FuncKey(e.Fn), c.Pos(c.InstrPos(e.Instr)))
					if e.Via != "" {
						w += " via " + e.Via
					}
					wit = append(wit, w)
				}
			}
		}
		r.Report(Finding{Rule: rule, Site: sanitizeSite("cycle:" + strings.Join(cyc, ">")),
			Msg:  "lock-order cycle (possible deadlock): " + strings.Join(cyc, " -> ") + " -> " + cyc[0],
			Path: wit})
	}
	r.Floor(rule+"-locksites", nSites, 40)
}

// ---- re-entrance: a lock of the receiver is not acquired again while held ------------------------

// recvLockAcquires: lock paths relative to the receiver ("lock", "newTaskCond.L") that fn acquires
// itself or through static calls of methods on the same receiver.
func recvLockAcquires(c *Ctx, fn *ssa.Function, memo map[*ssa.Function]map[string]string, depth int) map[string]string {
	if m, ok := memo[fn]; ok {
		return m
	}
	out := map[string]string{}
	memo[fn] = out
	if fn.Signature.Recv() == nil || len(fn.Params) == 0 || depth > 6 {
		return out
	}
	prefix := fn.Params[0].Name() + "."
	allInstrs(fn, func(in ssa.Instruction) {
		if op, ok := lockOpOf(in); ok {
			if op.acquire() && strings.HasPrefix(op.Path, prefix) {
				out[strings.TrimPrefix(op.Path, prefix)] = op.Kind + " in " + c.FuncKey(fn)
			}
			return
		}
		ci, ok := in.(ssa.CallInstruction)
		if !ok {
			return
		}
		if _, isGo := in.(*ssa.Go); isGo {
			return
		}
		callee := ci.Common().StaticCallee()
		if callee == nil || !c.modFuncSet[callee] || callee.Signature.Recv() == nil {
			return
		}
		args := callArgs(ci.Common())
		if len(args) == 0 || args[0] != ssa.Value(fn.Params[0]) {
			return
		}
		for p, why := range recvLockAcquires(c, callee, memo, depth+1) {
			if _, dup := out[p]; !dup {
				out[p] = why
			}
		}
	})
	return out
}

// checkReentrance reports calls of same-receiver methods made while a receiver lock that the
// callee acquires (again) may be held. sync.Mutex is not re-entrant; a recursive RLock deadlocks
// as soon as a writer asks for the lock between the two read locks.
func checkReentrance(c *Ctx, r *Result, lfs *LockFlows, rule string, relevant func(class string) bool) int {
	memo := map[*ssa.Function]map[string]string{}
	n := 0
	for _, fn := range c.ModFuncs() {
		if fn.Signature.Recv() == nil || len(fn.Params) == 0 {
			continue
		}
		lf := lfs.Of(fn)
		if lf == nil || len(lf.Ops) == 0 {
			continue
		}
		prefix := fn.Params[0].Name() + "."
		paths := map[string]string{}
		for _, op := range lf.Ops {
			if op.acquire() && strings.HasPrefix(op.Path, prefix) && relevant(op.Class) {
				paths[op.Path] = op.Class
			}
		}
		if len(paths) == 0 {
			continue
		}
		key := c.FuncKey(fn)
		ord := newOrdinals()
		allInstrs(fn, func(in ssa.Instruction) {
			ci, ok := in.(ssa.CallInstruction)
			if !ok {
				return
			}
			if _, isGo := in.(*ssa.Go); isGo {
				return
			}
			if _, isDefer := in.(*ssa.Defer); isDefer {
				return
			}
			if _, isLock := lockOpOf(in); isLock {
				return
			}
			callee := ci.Common().StaticCallee()
			if callee == nil || !c.modFuncSet[callee] || callee.Signature.Recv() == nil {
				return
			}
			args := callArgs(ci.Common())
			if len(args) == 0 || args[0] != ssa.Value(fn.Params[0]) {
				return
			}
			acq := recvLockAcquires(c, callee, memo, 0)
			for p, class := range paths {
				if !lf.MayHoldPath(in, p) {
					continue
				}
				n++
				rel := strings.TrimPrefix(p, prefix)
				site := ord.key(key, "reentry", class+":"+callee.Name())
				pos := c.Pos(c.InstrPos(in))
				if why, again := acq[rel]; again {
					r.Instance(rule, site, pos, "finding", "re-acquires "+class, true)
					r.Report(Finding{Rule: rule, Site: site, Pos: pos,
						Msg: fmt.Sprintf("%s calls %s while %s may be held, and the callee acquires it again (%s): sync locks are not re-entrant — a second Lock blocks forever, a second RLock blocks as soon as a writer is waiting between the two (every later reader and the writer hang)", key, c.FuncKey(callee), class, why)})
				} else {
					r.Instance(rule, site, pos, "ok", "callee does not acquire "+class+" on the same receiver", true)
				}
			}
		})
	}
	return n
}

// checkSelfDeadlock: for locks of which one instance exists per debugger/processor (the class is
// its own identity), no call made while the lock may be held reaches — over the call graph,
// dynamic calls included — a function that acquires the same lock class.
func checkSelfDeadlock(c *Ctx, r *Result, lfs *LockFlows, rule string, relevant func(class string) bool) int {
	n := 0
	for _, fn := range c.ModFuncs() {
		lf := lfs.Of(fn)
		if lf == nil || len(lf.Ops) == 0 {
			continue
		}
		key := c.FuncKey(fn)
		ord := newOrdinals()
		allInstrs(fn, func(in ssa.Instruction) {
			ci, ok := in.(ssa.CallInstruction)
			if !ok {
				return
			}
			if _, isGo := in.(*ssa.Go); isGo {
				return
			}
			if _, isDefer := in.(*ssa.Defer); isDefer {
				return
			}
			if _, isLock := lockOpOf(in); isLock {
				return
			}
			var held []string
			for _, h := range lf.MayHoldClasses(in) {
				if relevant(h) {
					held = append(held, h)
				}
			}
			if len(held) == 0 {
				return
			}
			for _, callee := range c.Callees(ci) {
				if !c.modFuncSet[callee] {
					continue
				}
				acq := lfs.Acquires(callee)
				for _, h := range held {
					n++
					if !acq[h] {
						continue
					}
					site := ord.key(key, "self-deadlock", h+":"+calleeLabel(ci))
					pos := c.Pos(c.InstrPos(in))
					r.Instance(rule, site, pos, "finding", "callee may re-acquire "+h, true)
					r.Report(Finding{Rule: rule, Site: site, Pos: pos,
						Msg: fmt.Sprintf("%s calls %s while %s may be held, and that call can reach a function acquiring the same lock (through %s): the goroutine blocks on a lock it already holds and every later user of the lock hangs", key, calleeLabel(ci), h, c.FuncKey(callee))})
					return
				}
			}
		})
	}
	return n
}

func calleeLabel(ci ssa.CallInstruction) string {
	if ci.Common().IsInvoke() {
		return accessPath(ci.Common().Value) + "." + ci.Common().Method.Name() + "()"
	}
	if f := ci.Common().StaticCallee(); f != nil {
		return f.Name() + "()"
	}
	return accessPath(ci.Common().Value) + "()"
}
