package main

// Lock pairing: every path from an acquisition to any exit of the function
// passes the release (directly or through a registered deferred call).

import (
	"fmt"
	"sort"
	"strings"

	"golang.org/x/tools/go/ssa"
)

// checkLockPairing checks the given functions; returns the number of acquisitions examined.
func checkLockPairing(c *Ctx, r *Result, lfs *LockFlows, rule string, funcs []*ssa.Function) int {
	n := 0
	// functions that hand the acquired lock back as a release function, and those release functions
	transferred := map[*ssa.Function]bool{}
	for _, fn := range funcs {
		if fn.Parent() != nil {
			continue
		}
		handled, problems, closures := lockTransfer(c, fn)
		if !handled {
			continue
		}
		key := c.FuncKey(fn)
		if len(problems) == 0 {
			transferred[fn] = true
			for cf := range closures {
				transferred[cf] = true
			}
			r.Instance(rule, key+"#release-function", c.Pos(fn.Pos()), "ok", "acquires and returns the matching release function: on every path the returned function releases exactly the locks held, and every caller defers it at the call", true)
			n++
		} else if len(closures) > 0 {
			r.Instance(rule, key+"#release-function", c.Pos(fn.Pos()), "finding", strings.Join(problems, "; "), true)
			r.Report(Finding{Rule: rule, Site: key + "#release-function", Pos: c.Pos(fn.Pos()),
				Msg: key + " returns a function that releases a lock it acquired, but the two do not pair up: " + strings.Join(problems, "; ")})
			transferred[fn] = true
			for cf := range closures {
				transferred[cf] = true
			}
		}
	}
	for _, fn := range funcs {
		if transferred[fn] {
			continue
		}
		lf := lfs.Of(fn)
		if lf == nil || len(lf.Ops) == 0 {
			continue
		}
		key := c.FuncKey(fn)
		if fn.Parent() != nil {
			// closures: their net effect is accounted for in the enclosing function when
			// they are deferred or called there; a closure that escapes is checked like a function
			if closureAccounted(fn) {
				continue
			}
		}
		acq := 0
		for _, op := range lf.Ops {
			if op.acquire() && !op.Deferred {
				acq++
			}
		}
		n += acq
		bad := map[string]ssa.Instruction{}
		pend := map[string]ssa.Instruction{}
		for _, ex := range lf.Exit {
			if ex.Instr.Block() == fn.Recover {
				continue
			}
			var keys []string
			for k := range ex.State {
				keys = append(keys, k)
			}
			sort.Strings(keys)
			for _, k := range keys {
				m := ex.State[k]
				if (strings.HasPrefix(k, "H:") || strings.HasPrefix(k, "RH:")) && m != c0 {
					p := k[strings.Index(k, ":")+1:]
					if _, dup := bad[p]; !dup {
						bad[p] = ex.Instr
					}
				}
				if (strings.HasPrefix(k, "PD:") || strings.HasPrefix(k, "RPD:")) && m != c0 {
					// a registered deferred release will run although the lock is not held here
					p := k[strings.Index(k, ":")+1:]
					if _, dup := pend[p]; !dup {
						pend[p] = ex.Instr
					}
				}
			}
		}
		var paths []string
		for p := range bad {
			paths = append(paths, p)
		}
		sort.Strings(paths)
		for _, p := range paths {
			site := sanitizeSite(key + "#held-at-exit:" + lf.ClassOf[p])
			pos := c.Pos(c.InstrPos(bad[p]))
			r.Instance(rule, site, pos, "finding", "lock may be held at function exit", true)
			r.Report(Finding{Rule: rule, Site: site, Pos: pos,
				Msg: fmt.Sprintf("%s: %s (%s) may still be held when the function exits here — an acquisition without a release on this path", key, p, lf.ClassOf[p])})
		}
		var pps []string
		for p := range pend {
			pps = append(pps, p)
		}
		sort.Strings(pps)
		for _, p := range pps {
			site := sanitizeSite(key + "#deferred-release-unheld:" + lf.ClassOf[p])
			pos := c.Pos(c.InstrPos(pend[p]))
			r.Instance(rule, site, pos, "finding", "deferred release of a lock not held at exit", true)
			r.Report(Finding{Rule: rule, Site: site, Pos: pos,
				Msg: fmt.Sprintf("%s: on a path to this exit the deferred release of %s (%s) runs while the lock is not held (an unlock/relock window that does not relock): unlocking an unlocked mutex is a fatal runtime error", key, p, lf.ClassOf[p])})
		}
		if len(pps) > 0 {
			paths = append(paths, pps...)
		}
		for _, is := range lf.Issues {
			if pe := lfs.paramEffect(fn); pe != nil {
				if _, isParamLock := pe[is.Path]; isParamLock && onlyCalledStatically(c, fn) {
					continue // a release helper: the effect is applied (and checked) at its call sites
				}
			}
			site := sanitizeSite(key + "#" + is.What + ":" + lf.ClassOf[is.Path])
			pos := c.Pos(c.InstrPos(is.Instr))
			r.Instance(rule, site, pos, "finding", "release of a lock not held", true)
			r.Report(Finding{Rule: rule, Site: site, Pos: pos,
				Msg: fmt.Sprintf("%s: %s is released on a path where it is not held", key, is.Path)})
		}
		if len(paths) == 0 && acq > 0 {
			r.Instance(rule, key, c.Pos(fn.Pos()), "ok", fmt.Sprintf("%d acquisition(s), all released on every exit (%d exits)", acq, len(lf.Exit)), true)
		}
	}
	return n
}

// closureAccounted: the closure is only deferred or called directly in its parent.
func closureAccounted(fn *ssa.Function) bool {
	par := fn.Parent()
	ok := false
	bad := false
	allInstrs(par, func(in ssa.Instruction) {
		mc, isMC := in.(*ssa.MakeClosure)
		if !isMC || mc.Fn != fn {
			return
		}
		for _, ref := range *mc.Referrers() {
			switch x := ref.(type) {
			case *ssa.Defer:
				if x.Call.Value == mc {
					ok = true
					continue
				}
				bad = true
			case *ssa.Call:
				if x.Call.Value == mc {
					ok = true
					continue
				}
				bad = true
			default:
				bad = true
			}
		}
	})
	return ok && !bad
}

// onlyCalledStatically: every use of fn in the module is a static call (or defer) of it.
func onlyCalledStatically(c *Ctx, fn *ssa.Function) bool {
	n := c.CHA().Nodes[fn]
	if n == nil || len(n.In) == 0 {
		return false
	}
	for _, e := range n.In {
		if e.Site == nil || e.Site.Common().StaticCallee() != fn {
			return false
		}
	}
	if o := fn.Object(); o != nil && o.Exported() && fn.Signature.Recv() == nil {
		return false
	}
	return true
}
