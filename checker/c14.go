package main

// C14 — string interpolation evaluates only the literal's own expressions, once.

import (
	"fmt"
	"go/token"
	"go/types"
	"strings"

	"golang.org/x/tools/go/ssa"
)

func init() { register("C14", checkC14) }

// taintOf computes the set of SSA values of fn that carry "evaluated data":
// anything derived from the result or error of a Runtime.Eval / Validate / parse call.
// Propagation: phis, string concatenation, slicing, conversions, calls (any tainted
// argument taints the result; a tainted argument of a method call taints the receiver
// object — buffers), local cells.
func taintOf(c *Ctx, fn *ssa.Function, isSource func(in ssa.Instruction) bool) map[ssa.Value]bool {
	t := map[ssa.Value]bool{}
	cellT := map[ssa.Value]bool{} // tainted objects (allocs used as buffers / cells)
	changed := true
	mark := func(v ssa.Value) {
		if v != nil && !t[v] {
			t[v] = true
			changed = true
		}
	}
	markCell := func(v ssa.Value) {
		r := rootOf(v)
		if r != nil && !cellT[r] {
			cellT[r] = true
			changed = true
		}
	}
	for iter := 0; changed && iter < 50; iter++ {
		changed = false
		allInstrs(fn, func(in ssa.Instruction) {
			v, isVal := in.(ssa.Value)
			if isSource(in) && isVal {
				mark(v)
				// tuple results
				for _, ref := range *v.Referrers() {
					if e, ok := ref.(*ssa.Extract); ok {
						mark(e)
					}
				}
			}
			switch x := in.(type) {
			case *ssa.Phi:
				for _, e := range x.Edges {
					if t[e] {
						mark(x)
					}
				}
			case *ssa.BinOp:
				if t[x.X] || t[x.Y] {
					if _, isStr := x.Type().Underlying().(*types.Basic); isStr && x.Op == token.ADD {
						mark(x)
					}
				}
			case *ssa.Slice:
				if t[x.X] {
					mark(x)
				}
			case *ssa.Extract:
				if t[x.Tuple] {
					mark(x)
				}
			case *ssa.MakeInterface:
				if t[x.X] {
					mark(x)
				}
			case *ssa.ChangeType:
				if t[x.X] {
					mark(x)
				}
			case *ssa.Convert:
				if t[x.X] {
					mark(x)
				}
			case *ssa.TypeAssert:
				if t[x.X] {
					mark(x)
				}
			case *ssa.Index:
				if t[x.X] {
					mark(x)
				}
			case *ssa.IndexAddr:
				if t[x.X] || cellT[rootOf(x.X)] {
					mark(x)
				}
			case *ssa.Lookup:
				if t[x.X] {
					mark(x)
				}
			case *ssa.Store:
				if t[x.Val] {
					markCell(x.Addr)
				}
			case *ssa.UnOp:
				if x.Op == token.MUL && (cellT[rootOf(x.X)] || t[x.X]) {
					mark(x)
				}
				if x.Op != token.MUL && t[x.X] {
					mark(x)
				}
			case ssa.CallInstruction:
				if isBuiltinCall(in, "len") || isBuiltinCall(in, "cap") {
					return
				}
				args := callArgs(x.Common())
				anyT := false
				for _, a := range args {
					if t[a] || (isPointerLike(a.Type()) && cellT[rootOf(a)]) {
						anyT = true
					}
				}
				if anyT {
					if isVal {
						mark(v)
					}
					// method call: the receiver object absorbs the data
					if o := calleeObj(x.Common()); o != nil && o.Type().(*types.Signature).Recv() != nil && len(args) > 0 {
						if _, isPtr := args[0].Type().Underlying().(*types.Pointer); isPtr {
							markCell(args[0])
						}
					}
				}
			}
		})
	}
	return t
}

func checkC14(c *Ctx, r *Result, tier string) {
	r.Explanation = "Decides the non-interference clause of C14 on the string runtime's source: (R14a) the text handed to the marker search and to the parser derives only from the literal's token value — no value produced by evaluation (fmt.Sprint of a result, an error message) can flow back into what is scanned or parsed, so data cannot become code and the loop consumes the literal monotonically; " +
		"(R14c) interpolation is control dependent on the token's AllowEscapes flag (raw strings untouched). The slice bounds of the marker arithmetic (R14b) are obligations of C06's engine restricted to this function."
	r.RuleText = "R14a intra-procedural taint: sources = results/errors of Runtime.Eval, Runtime.Validate and parse calls and everything computed from them; sinks = arguments of marker searches (strings.Index/Split*/Cut/Contains and module helpers taking the scanned text) and the source argument of parser.ParseWithRuntime; R14c dominance of the parse call by the AllowEscapes test; R14b slice/index obligations discharged by dominating facts"
	r.NotCovered = "Escape-sequence interpretation (lexer, value dependent); the text of error markers; termination for all literals beyond the monotone-consumption argument."
	r.Assumptions = []string{"taint through the standard library is argument→result (and argument→receiver for methods)"}

	rtIface := c.Interface("parser", "Runtime")
	if rtIface == nil {
		r.Undecide("parser.Runtime not found")
		return
	}
	// the string runtime: Eval methods of runtime components which call the parser
	var targets []*ssa.Function
	// helpers of package interpreter that parse one of their string parameters: function -> parameter index
	parseHelpers := map[*ssa.Function]int{}
	for _, h := range c.ModFuncs() {
		if c.PkgOf(h) != "interpreter" || h.Parent() != nil {
			continue
		}
		for _, pc := range callSites(h, func(name string, _ ssa.CallInstruction) bool {
			return strings.HasSuffix(name, "parser.ParseWithRuntime") || strings.HasSuffix(name, "parser.Parse")
		}) {
			if len(pc.Common().Args) >= 2 {
				if prm, ok := unspill(pc.Common().Args[1]).(*ssa.Parameter); ok {
					for i, p := range h.Params {
						if p == prm {
							parseHelpers[h] = i
						}
					}
				}
			}
		}
	}
	isParseSite := func(name string, ci ssa.CallInstruction) bool {
		if strings.HasSuffix(name, "parser.ParseWithRuntime") || strings.HasSuffix(name, "parser.Parse") {
			return true
		}
		if f := ci.Common().StaticCallee(); f != nil {
			if _, ok := parseHelpers[f]; ok {
				return true
			}
		}
		return false
	}
	// the text argument of a parse site
	parseText := func(ci ssa.CallInstruction) ssa.Value {
		if f := ci.Common().StaticCallee(); f != nil {
			if i, ok := parseHelpers[f]; ok {
				args := callArgs(ci.Common())
				if i < len(args) {
					return args[i]
				}
				return nil
			}
		}
		if len(ci.Common().Args) >= 2 {
			return ci.Common().Args[1]
		}
		return nil
	}
	for _, fn := range c.Implementations(rtIface, "Eval") {
		if _, isHelper := parseHelpers[fn]; isHelper {
			continue
		}
		if len(callSites(fn, isParseSite)) > 0 {
			// the import runtime parses resolved files (C17), not literal text
			if len(callSites(fn, func(_ string, ci ssa.CallInstruction) bool {
				return ci.Common().IsInvoke() && ci.Common().Method.Name() == "Resolve"
			})) > 0 {
				continue
			}
			targets = append(targets, fn)
		}
	}
	r.Floor("R14-string-runtime", len(targets), 1)
	c14RawUntouched(c, r)
	fAllow := c.Field("parser", "LexToken", "AllowEscapes")

	for _, fn := range targets {
		key := c.FuncKey(fn)
		isSource := func(in ssa.Instruction) bool {
			ci, ok := in.(ssa.CallInstruction)
			if !ok {
				return false
			}
			if ci.Common().IsInvoke() {
				m := ci.Common().Method.Name()
				if types.Identical(ci.Common().Value.Type().Underlying(), rtIface) && (m == "Eval" || m == "Validate") {
					return true
				}
				if m == "Error" {
					return true
				}
			}
			n := callName(in)
			if strings.HasSuffix(n, "parser.ParseWithRuntime") || strings.HasSuffix(n, "parser.Parse") {
				return true
			}
			// a helper that parses and evaluates: its result is evaluated data
			if f := ci.Common().StaticCallee(); f != nil {
				if _, ok := parseHelpers[f]; ok {
					return true
				}
			}
			return false
		}
		taint := taintOf(c, fn, isSource)
		ord := newOrdinals()
		nSinks := 0
		allInstrs(fn, func(in ssa.Instruction) {
			ci, ok := in.(ssa.CallInstruction)
			if !ok {
				return
			}
			name := callName(in)
			var sinkArgs []ssa.Value
			what := ""
			switch {
			case isParseSite(name, ci):
				if t := parseText(ci); t != nil {
					sinkArgs = []ssa.Value{t}
					what = "parsed as code"
				}
			case name == "strings.Index" || name == "strings.LastIndex" || name == "strings.Split" || name == "strings.SplitN" ||
				name == "strings.Cut" || name == "strings.Contains" || name == "strings.IndexByte" || name == "strings.SplitAfterN":
				sinkArgs = []ssa.Value{ci.Common().Args[0]}
				what = "scanned for interpolation markers"
			default:
				// module helper receiving the text to scan (e.g. GetInfix): string parameter in first position after the receiver
				if f := ci.Common().StaticCallee(); f != nil && c.modFuncSet[f] && c.PkgOf(f) == "interpreter" {
					usesIndex := len(callSites(f, func(n string, _ ssa.CallInstruction) bool { return markerSearch[n] })) > 0
					if usesIndex {
						for _, a := range ci.Common().Args {
							if b, ok := a.Type().Underlying().(*types.Basic); ok && b.Kind() == types.String {
								sinkArgs = append(sinkArgs, a)
								break
							}
						}
						what = "scanned for interpolation markers (by " + f.Name() + ")"
					}
				}
			}
			for _, a := range sinkArgs {
				nSinks++
				site := ord.key(key, "sink", name)
				pos := c.Pos(c.InstrPos(in))
				if taint[a] {
					r.Instance("R14a", site, pos, "finding", "evaluated data reaches text that is "+what, true)
					r.Report(Finding{Rule: "R14a", Site: site, Pos: pos,
						Msg: fmt.Sprintf("%s: text that is %s (%s) can contain the output of an earlier substitution (values produced by evaluation flow into it): data becomes code — `x := r\"{{1+1}}\"; \"{{x}}\"` evaluates the data, a self-reproducing value never terminates", key, what, accessPath(a))})
				} else {
					r.Instance("R14a", site, pos, "ok", "derives from the literal's token value only ("+accessPath(a)+")", true)
				}
			}
		})
		r.Floor("R14a-sinks:"+key, nSinks, 2)

		// R14c
		for i, p := range callSites(fn, isParseSite) {
			site := fmt.Sprintf("%s#parse#%d", key, i)
			pos := c.Pos(c.InstrPos(p))
			ok := false
			for v := range FactsAt(p).TrueV {
				if ld, isLoad := v.(*ssa.UnOp); isLoad && fAllow != nil && fieldVar(ld.X) == fAllow {
					ok = true
				}
			}
			if ok {
				r.Instance("R14c", site, pos, "ok", "interpolation is control dependent on Token.AllowEscapes", true)
			} else {
				r.Instance("R14c", site, pos, "finding", "raw strings are interpolated", true)
				r.Report(Finding{Rule: "R14c", Site: site, Pos: pos,
					Msg: key + ": the interpolation parse is not dominated by the test of Token.AllowEscapes: raw strings would be interpolated"})
			}
		}

		c14Loop(c, r, fn, rtIface)

		// R14b: slice / index obligations of this function and of the helpers it calls in package interpreter
		fns := []*ssa.Function{fn}
		allInstrs(fn, func(in ssa.Instruction) {
			if ci, ok := in.(ssa.CallInstruction); ok {
				if f := ci.Common().StaticCallee(); f != nil && c.modFuncSet[f] && c.PkgOf(f) == "interpreter" && f.Signature.Recv() != nil &&
					namedOf(f.Signature.Recv().Type()) == namedOf(fn.Signature.Recv().Type()) && f != fn {
					fns = append(fns, f)
				}
			}
		})
		for _, f := range fns {
			for _, ob := range boundsObligations(c, f) {
				if ob.Discharged {
					r.Instance("R14b", ob.Site, ob.Pos, "ok", ob.Why, true)
					r.Obligations++
					r.Discharged++
				} else {
					r.Obligations++
					r.Instance("R14b", ob.Site, ob.Pos, "finding", ob.Why, true)
					r.Report(Finding{Rule: "R14b", Site: ob.Site, Pos: ob.Pos,
						Msg: fmt.Sprintf("%s: %s — an arrangement of `{{` and `}}` in a literal can make this expression panic (`\"}}{{\"`)", c.FuncKey(f), ob.Why)})
				}
			}
		}
	}
}

// ---- R14d / R14e: the scan loop advances; iterations are independent ----------------------------

func isLoopHeaderPhi(p *ssa.Phi) bool {
	b := p.Block()
	for _, pr := range b.Preds {
		if b.Dominates(pr) {
			return true
		}
	}
	return false
}

var markerSearch = map[string]bool{"strings.Index": true, "strings.LastIndex": true, "strings.Split": true, "strings.SplitN": true,
	"strings.Cut": true, "strings.IndexByte": true, "strings.SplitAfterN": true}

// strictSuffix: v is a proper suffix of the text P held at the loop header (0 unknown, 1 equal, 2 strictly shorter).
func suffixRank(v, P ssa.Value, depth int) int {
	if depth > 12 {
		return 0
	}
	v = stripConv(v)
	if v == P {
		return 1
	}
	switch x := v.(type) {
	case *ssa.Phi:
		if isLoopHeaderPhi(x) {
			return 0
		}
		rank := 2
		for _, e := range x.Edges {
			k := suffixRank(e, P, depth+1)
			if k < rank {
				rank = k
			}
		}
		return rank
	case *ssa.UnOp:
		if x.Op != token.MUL {
			return 0
		}
		if ia, ok := x.X.(*ssa.IndexAddr); ok {
			// element 1 of strings.SplitN(base, sep, n≥2) / strings.Split with a non-empty constant separator
			idx, isConst := constInt(ia.Index)
			call, isCall := stripConv(ia.X).(*ssa.Call)
			if isConst && idx == 1 && isCall {
				n := callName(call)
				if (n == "strings.SplitN" || n == "strings.Split") && len(call.Call.Args) >= 2 {
					if sep, ok := constString(call.Call.Args[1]); ok && sep != "" {
						if n == "strings.SplitN" {
							if cnt, ok := constInt(call.Call.Args[2]); !ok || cnt != 2 {
								return 0
							}
						} else {
							return 0 // element 1 of an unbounded split is not a suffix
						}
						if suffixRank(call.Call.Args[0], P, depth+1) >= 1 {
							return 2
						}
					}
				}
			}
		}
		if a, ok := x.X.(*ssa.Alloc); ok {
			rank := 2
			srcs := cellSources(a)
			if len(srcs) == 0 {
				return 0
			}
			for _, s := range srcs {
				if k := suffixRank(s, P, depth+1); k < rank {
					rank = k
				}
			}
			return rank
		}
	case *ssa.Extract:
		// result i of a module helper that cuts its text parameter: every value it returns there is ""
		// or a proper suffix of the parameter (cutInterpolation(rest) → …, remainder, found)
		if call, ok := x.Tuple.(*ssa.Call); ok {
			if h := call.Call.StaticCallee(); h != nil && len(h.Blocks) > 0 && h.Pkg != nil && !strings.HasPrefix(h.Pkg.Pkg.Path(), "strings") && depth < 6 {
				for j, a := range call.Call.Args {
					if j >= len(h.Params) || suffixRank(a, P, depth+1) < 1 {
						continue
					}
					rank := 2
					rvs := returnedValues(h, x.Index)
					if len(rvs) == 0 {
						rank = 0
					}
					for _, rv := range rvs {
						if cs, isC := constString(rv); isC && cs == "" {
							continue
						}
						if k := suffixRank(rv, h.Params[j], depth+1); k < rank {
							rank = k
						}
					}
					if rank > 0 {
						return rank
					}
				}
			}
		}
		if call, ok := x.Tuple.(*ssa.Call); ok && callName(call) == "strings.Cut" && x.Index == 1 {
			if sep, ok := constString(call.Call.Args[1]); ok && sep != "" && suffixRank(call.Call.Args[0], P, depth+1) >= 1 {
				// after is strictly shorter when found; when not found it is "" (also a strict suffix unless base is empty)
				return 2
			}
		}
	case *ssa.Slice:
		if x.High != nil || x.Low == nil {
			return 0
		}
		if suffixRank(x.X, P, depth+1) < 1 {
			return 0
		}
		// low = strings.Index(..) + k with k ≥ 2 (Index ≥ -1), or a positive constant
		if k, ok := constInt(x.Low); ok && k > 0 {
			return 2
		}
		// 1 ≤ low by linear reasoning over Index results known non-negative here
		if linLeq(FactsAt(x), linConst(1), linVal(x.Low)) {
			return 2
		}
		if bo, ok := x.Low.(*ssa.BinOp); ok && bo.Op == token.ADD {
			for _, pair := range [][2]ssa.Value{{bo.X, bo.Y}, {bo.Y, bo.X}} {
				if k, ok := constInt(pair[1]); ok && k >= 2 {
					if call, ok := stripConv(pair[0]).(*ssa.Call); ok && strings.HasPrefix(callName(call), "strings.Index") {
						return 2
					}
				}
			}
		}
	}
	return 0
}

func c14Loop(c *Ctx, r *Result, fn *ssa.Function, rtIface *types.Interface) {
	key := c.FuncKey(fn)
	// scan positions: loop-header phis that are the text argument of a marker search in the loop
	var positions []*ssa.Phi
	seenP := map[*ssa.Phi]bool{}
	allInstrs(fn, func(in ssa.Instruction) {
		call, ok := in.(*ssa.Call)
		if !ok || !inLoop(in.Block()) {
			return
		}
		var texts []ssa.Value
		if markerSearch[callName(call)] {
			texts = []ssa.Value{call.Call.Args[0]}
		} else if h := call.Call.StaticCallee(); h != nil && c.inModule(h) && c.PkgOf(h) == "interpreter" {
			// a helper that searches one of its string parameters
			for j, prm := range h.Params {
				if j >= len(call.Call.Args) {
					break
				}
				searched := false
				allInstrs(h, func(x ssa.Instruction) {
					if hc, ok := x.(*ssa.Call); ok && markerSearch[callName(hc)] && stripConv(hc.Call.Args[0]) == ssa.Value(prm) {
						searched = true
					}
				})
				if searched {
					texts = append(texts, call.Call.Args[j])
				}
			}
		}
		for _, t := range texts {
			if p, ok := stripConv(t).(*ssa.Phi); ok && isLoopHeaderPhi(p) && !seenP[p] {
				seenP[p] = true
				positions = append(positions, p)
			}
		}
	})
	if len(positions) == 0 {
		r.Undecide("R14d: no scan position (loop-carried text searched for markers) found in %s", key)
		return
	}
	for i, P := range positions {
		site := fmt.Sprintf("%s#scan-position#%d", key, i)
		pos := c.Pos(c.InstrPos(P))
		if P.Pos() == 0 {
			pos = c.Pos(fn.Pos())
		}
		b := P.Block()
		bad := ""
		nBack := 0
		for j, pr := range b.Preds {
			if !b.Dominates(pr) {
				continue
			}
			nBack++
			switch suffixRank(P.Edges[j], P, 0) {
			case 2:
			case 1:
				bad = "a path around the loop leaves the scanned text unchanged (the loop does not advance: endless loop on such a literal)"
			default:
				bad = "a path around the loop continues with text (" + accessPath(P.Edges[j]) + ") that is not provably a proper suffix of the text scanned so far"
			}
		}
		if bad != "" {
			r.Instance("R14d", site, pos, "finding", bad, true)
			r.Report(Finding{Rule: "R14d", Site: site, Pos: pos, Msg: key + ": " + bad})
		} else {
			r.Instance("R14d", site, pos, "ok", fmt.Sprintf("on each of the %d back edge(s) the scanned text is replaced by a proper suffix of itself (what follows a found marker)", nBack), true)
		}
	}
	r.Floor("R14d", len(positions), 1)

	// R14e: what an iteration writes to the output depends only on the literal, on constants and
	// on evaluations made in this iteration — not on anything an earlier iteration left behind
	isPos := func(v ssa.Value) bool {
		for _, P := range positions {
			if v == ssa.Value(P) {
				return true
			}
		}
		return false
	}
	var writeLoop map[*ssa.BasicBlock]bool
	var stale func(v ssa.Value, seen map[ssa.Value]bool, d int) string
	stale = func(v ssa.Value, seen map[ssa.Value]bool, d int) string {
		if v == nil || seen[v] || d > 40 {
			return ""
		}
		seen[v] = true
		switch x := v.(type) {
		case *ssa.Const, *ssa.Parameter, *ssa.Function, *ssa.Global:
			return ""
		case *ssa.Phi:
			if isPos(x) {
				return ""
			}
			// carried around the loop that writes — a variable of an earlier, finished loop (the
			// literal cut into pieces first) is followed to what was put into it
			// a pure counter (i, i+1, …) is a position, not data
			pureCounter := true
			for _, e := range x.Edges {
				if _, isC := e.(*ssa.Const); isC {
					continue
				}
				if bo, isBO := e.(*ssa.BinOp); isBO && bo.Op == token.ADD && bo.X == ssa.Value(x) {
					if _, isC := bo.Y.(*ssa.Const); isC {
						continue
					}
				}
				pureCounter = false
			}
			if pureCounter {
				return ""
			}
			if isLoopHeaderPhi(x) && inLoop(x.Block()) && (writeLoop == nil || writeLoop[x.Block()]) {
				b := x.Block()
				for j, pr := range b.Preds {
					if b.Dominates(pr) {
						if _, isConst := x.Edges[j].(*ssa.Const); !isConst {
							return "variable " + x.Comment + " carried over from the previous iteration"
						}
					}
				}
			}
			for _, e := range x.Edges {
				if s := stale(e, seen, d+1); s != "" {
					return s
				}
			}
		case *ssa.Lookup:
			if _, isMap := x.X.Type().Underlying().(*types.Map); isMap {
				if mm, ok := unspill(x.X).(*ssa.MakeMap); !ok || !inLoop(mm.Block()) {
					return "a lookup in the map " + accessPath(x.X) + " that outlives the iteration"
				}
			}
			if s := stale(x.X, seen, d+1); s != "" {
				return s
			}
			return stale(x.Index, seen, d+1)
		case *ssa.Extract:
			return stale(x.Tuple, seen, d+1)
		case *ssa.Call:
			if x.Call.IsInvoke() {
				return "" // an evaluation / error text of this iteration
			}
			if f := x.Call.StaticCallee(); f != nil && c.inModule(f) {
				return "" // parse / evaluation helpers of this iteration
			}
			for _, a := range x.Call.Args {
				if s := stale(a, seen, d+1); s != "" {
					return s
				}
			}
		case *ssa.UnOp:
			if x.Op == token.MUL {
				switch a := x.X.(type) {
				case *ssa.Alloc:
					if inLoop(x.Block()) && !inLoop(a.Block()) {
						// a cell allocated outside the loop and written inside it carries values around the loop
						for _, ref := range *a.Referrers() {
							if st, ok := ref.(*ssa.Store); ok && st.Addr == ssa.Value(a) && inLoop(st.Block()) && (writeLoop == nil || writeLoop[st.Block()]) && !dominates(st, x) {
								return "a variable written in an earlier iteration (" + a.Comment + ")"
							}
						}
					}
					for _, s := range cellSources(a) {
						if r := stale(s, seen, d+1); r != "" {
							return r
						}
					}
					return ""
				case *ssa.IndexAddr:
					if s := stale(a.X, seen, d+1); s != "" {
						return s
					}
					return stale(a.Index, seen, d+1)
				case *ssa.FieldAddr:
					return "" // fields of the runtime component / node: not written by the loop (R11c)
				}
				return ""
			}
			return stale(x.X, seen, d+1)
		case *ssa.BinOp:
			if s := stale(x.X, seen, d+1); s != "" {
				return s
			}
			return stale(x.Y, seen, d+1)
		case *ssa.Slice:
			return stale(x.X, seen, d+1)
		case *ssa.MakeInterface:
			return stale(x.X, seen, d+1)
		case *ssa.ChangeType:
			return stale(x.X, seen, d+1)
		case *ssa.Convert:
			return stale(x.X, seen, d+1)
		case *ssa.ChangeInterface:
			return stale(x.X, seen, d+1)
		case *ssa.TypeAssert:
			return stale(x.X, seen, d+1)
		case *ssa.Alloc:
			// varargs array: its stored elements
			for _, ref := range *x.Referrers() {
				if ia, ok := ref.(*ssa.IndexAddr); ok {
					for _, ref2 := range *ia.Referrers() {
						if st, ok := ref2.(*ssa.Store); ok && st.Addr == ssa.Value(ia) {
							if s := stale(st.Val, seen, d+1); s != "" {
								return s
							}
						}
					}
				}
			}
		}
		return ""
	}
	nOut := 0
	ord := newOrdinals()
	allInstrs(fn, func(in ssa.Instruction) {
		call, ok := in.(*ssa.Call)
		if !ok || !inLoop(in.Block()) {
			return
		}
		n := callName(call)
		var outVals []ssa.Value
		if isBuiltinCall(call, "append") {
			// the result collected as a list of pieces: parts = append(parts, text, value)
			if sl, isSl := call.Type().Underlying().(*types.Slice); isSl {
				if b, isB := sl.Elem().Underlying().(*types.Basic); isB && b.Kind() == types.String {
					outVals = appendedElems(call)
					n = "append"
				}
			}
		} else if strings.HasPrefix(n, "bytes.Buffer.Write") || strings.HasPrefix(n, "strings.Builder.Write") || strings.HasPrefix(n, "bytes.*Buffer.Write") || strings.HasPrefix(n, "strings.*Builder.Write") {
			if len(call.Call.Args) >= 2 {
				outVals = []ssa.Value{call.Call.Args[1]}
			}
		}
		for _, ov := range outVals {
			nOut++
			site := ord.key(key, "output", n)
			pos := c.Pos(c.InstrPos(in))
			writeLoop = sccOf(in.Block())
			if s := stale(ov, map[ssa.Value]bool{}, 0); s != "" {
				r.Instance("R14e", site, pos, "finding", "output depends on "+s, true)
				r.Report(Finding{Rule: "R14e", Site: site, Pos: pos,
					Msg: key + ": text written to the result inside the scan loop depends on " + s + " — an occurrence of {{expr}} is then not replaced by the value of evaluating it at that position (a repeated expression is evaluated once, a stale value is substituted)"})
			} else {
				r.Instance("R14e", site, pos, "ok", "written text derives from the literal, constants and calls made in this iteration only", true)
			}
		}
	})
	r.Floor("R14e", nOut, 2)
}

// ---- R14g: the lexer hands a raw string over as a substring of the input -------------------------

// "A raw string is returned untouched": for a token emitted with AllowEscapes = false the value
// must be cut out of the input and nothing else — no replacement, unquoting or concatenation on
// any path that emits it.
func c14RawUntouched(c *Ctx, r *Result) {
	lexValue := c.Func("parser", "lexValue")
	fInput := c.Field("parser", "lexer", "input")
	if lexValue == nil || fInput == nil {
		r.Undecide("R14g: parser.lexValue / lexer.input not found")
		return
	}
	key := c.FuncKey(lexValue)
	n := 0
	ord := newOrdinals()
	isInputSlice := func(v ssa.Value) bool {
		sl, ok := v.(*ssa.Slice)
		if !ok {
			return false
		}
		ld, ok := sl.X.(*ssa.UnOp)
		if !ok {
			return false
		}
		fa, ok := ld.X.(*ssa.FieldAddr)
		return ok && fieldVar(fa) == fInput
	}
	type emit struct {
		call *ssa.Call
		val  ssa.Value
		raw  ssa.Value // the allowEscapes argument
	}
	var emits []emit
	allInstrs(lexValue, func(in ssa.Instruction) {
		call, ok := in.(*ssa.Call)
		if !ok {
			return
		}
		f := call.Call.StaticCallee()
		if f == nil || f.Name() != "emitTokenAndValue" {
			return
		}
		args := call.Call.Args // receiver, token id, value, identifier, allowEscapes
		if len(args) < 5 {
			return
		}
		emits = append(emits, emit{call, args[2], args[4]})
	})
	if len(emits) == 0 {
		r.Undecide("R14g: no emitTokenAndValue call in %s", key)
		return
	}
	bad := map[int]string{}
	reached := map[int]bool{}
	o := &PathOracle{}
	o.Visit = func(st *PState, in ssa.Instruction) {
		for i, e := range emits {
			if in != ssa.Instruction(e.call) {
				continue
			}
			// raw on this path?
			if st.Get(e.raw, o) != AvNil {
				continue // interpolating (or unknown: decided by the paths where it is known)
			}
			reached[i] = true
			v := st.canon(e.val)
			if !isInputSlice(v) {
				if _, dup := bad[i]; !dup {
					bad[i] = accessPath(v)
				}
			}
		}
	}
	if !ExplorePaths(lexValue, o) {
		r.Undecide("R14g: path exploration of %s exceeded its state bound", key)
		return
	}
	for i, e := range emits {
		if !reached[i] {
			continue
		}
		n++
		site := ord.key(key, "raw-emit", "")
		pos := c.Pos(c.InstrPos(e.call))
		if why, isBad := bad[i]; isBad {
			r.Instance("R14g", site, pos, "finding", "raw value is "+why, true)
			r.Report(Finding{Rule: "R14g", Site: site, Pos: pos,
				Msg: key + ": on a path that emits a raw string (AllowEscapes = false) the value is " + why + ", not a plain substring of the input: the text of a raw literal is altered by the lexer (e.g. backslashes inserted before double quotes)"})
		} else {
			r.Instance("R14g", site, pos, "ok", "on every path emitting a raw string the value is a substring of the input", true)
		}
	}
	r.Floor("R14g", n, 1)
}
