package main

// C14 — string interpolation evaluates only the literal's own expressions, once.

import (
	"fmt"
	"go/token"
	"go/types"
	"strings"

	"golang.org/x/tools/go/ssa"
)

func init() { register("C14", checkC14) }

// taintOf computes the set of SSA values of fn that carry "evaluated data":
// anything derived from the result or error of a Runtime.Eval / Validate / parse call.
// Propagation: phis, string concatenation, slicing, conversions, calls (any tainted
// argument taints the result; a tainted argument of a method call taints the receiver
// object — buffers), local cells.
func taintOf(c *Ctx, fn *ssa.Function, isSource func(in ssa.Instruction) bool) map[ssa.Value]bool {
	t := map[ssa.Value]bool{}
	cellT := map[ssa.Value]bool{} // tainted objects (allocs used as buffers / cells)
	changed := true
	mark := func(v ssa.Value) {
		if v != nil && !t[v] {
			t[v] = true
			changed = true
		}
	}
	markCell := func(v ssa.Value) {
		r := rootOf(v)
		if r != nil && !cellT[r] {
			cellT[r] = true
			changed = true
		}
	}
	for iter := 0; changed && iter < 50; iter++ {
		changed = false
		allInstrs(fn, func(in ssa.Instruction) {
			v, isVal := in.(ssa.Value)
			if isSource(in) && isVal {
				mark(v)
				// tuple results
				for _, ref := range *v.Referrers() {
					if e, ok := ref.(*ssa.Extract); ok {
						mark(e)
					}
				}
			}
			switch x := in.(type) {
			case *ssa.Phi:
				for _, e := range x.Edges {
					if t[e] {
						mark(x)
					}
				}
			case *ssa.BinOp:
				if t[x.X] || t[x.Y] {
					if _, isStr := x.Type().Underlying().(*types.Basic); isStr && x.Op == token.ADD {
						mark(x)
					}
				}
			case *ssa.Slice:
				if t[x.X] {
					mark(x)
				}
			case *ssa.Extract:
				if t[x.Tuple] {
					mark(x)
				}
			case *ssa.MakeInterface:
				if t[x.X] {
					mark(x)
				}
			case *ssa.ChangeType:
				if t[x.X] {
					mark(x)
				}
			case *ssa.Convert:
				if t[x.X] {
					mark(x)
				}
			case *ssa.TypeAssert:
				if t[x.X] {
					mark(x)
				}
			case *ssa.Index:
				if t[x.X] {
					mark(x)
				}
			case *ssa.IndexAddr:
				if t[x.X] || cellT[rootOf(x.X)] {
					mark(x)
				}
			case *ssa.Lookup:
				if t[x.X] {
					mark(x)
				}
			case *ssa.Store:
				if t[x.Val] {
					markCell(x.Addr)
				}
			case *ssa.UnOp:
				if x.Op == token.MUL && (cellT[rootOf(x.X)] || t[x.X]) {
					mark(x)
				}
				if x.Op != token.MUL && t[x.X] {
					mark(x)
				}
			case ssa.CallInstruction:
				if isBuiltinCall(in, "len") || isBuiltinCall(in, "cap") {
					return
				}
				args := callArgs(x.Common())
				anyT := false
				for _, a := range args {
					if t[a] || (isPointerLike(a.Type()) && cellT[rootOf(a)]) {
						anyT = true
					}
				}
				if anyT {
					if isVal {
						mark(v)
					}
					// method call: the receiver object absorbs the data
					if o := calleeObj(x.Common()); o != nil && o.Type().(*types.Signature).Recv() != nil && len(args) > 0 {
						if _, isPtr := args[0].Type().Underlying().(*types.Pointer); isPtr {
							markCell(args[0])
						}
					}
				}
			}
		})
	}
	return t
}

func checkC14(c *Ctx, r *Result, tier string) {
	r.Explanation = "Decides the non-interference clause of C14 on the string runtime's source: (R14a) the text handed to the marker search and to the parser derives only from the literal's token value — no value produced by evaluation (fmt.Sprint of a result, an error message) can flow back into what is scanned or parsed, so data cannot become code and the loop consumes the literal monotonically; " +
		"(R14c) interpolation is control dependent on the token's AllowEscapes flag (raw strings untouched). The slice bounds of the marker arithmetic (R14b) are obligations of C06's engine restricted to this function."
	r.RuleText = "R14a intra-procedural taint: sources = results/errors of Runtime.Eval, Runtime.Validate and parse calls and everything computed from them; sinks = arguments of marker searches (strings.Index/Split*/Cut/Contains and module helpers taking the scanned text) and the source argument of parser.ParseWithRuntime; R14c dominance of the parse call by the AllowEscapes test; R14b slice/index obligations discharged by dominating facts"
	r.NotCovered = "Escape-sequence interpretation (lexer, value dependent); the text of error markers; termination for all literals beyond the monotone-consumption argument."
	r.Assumptions = []string{"taint through the standard library is argument→result (and argument→receiver for methods)"}

	rtIface := c.Interface("parser", "Runtime")
	if rtIface == nil {
		r.Undecide("parser.Runtime not found")
		return
	}
	// the string runtime: Eval methods of runtime components which call the parser
	var targets []*ssa.Function
	for _, fn := range c.Implementations(rtIface, "Eval") {
		if len(callSites(fn, func(name string, _ ssa.CallInstruction) bool {
			return strings.HasSuffix(name, "parser.ParseWithRuntime") || strings.HasSuffix(name, "parser.Parse")
		})) > 0 {
			// the import runtime parses resolved files (C17), not literal text
			if len(callSites(fn, func(_ string, ci ssa.CallInstruction) bool {
				return ci.Common().IsInvoke() && ci.Common().Method.Name() == "Resolve"
			})) > 0 {
				continue
			}
			targets = append(targets, fn)
		}
	}
	r.Floor("R14-string-runtime", len(targets), 1)
	fAllow := c.Field("parser", "LexToken", "AllowEscapes")

	for _, fn := range targets {
		key := c.FuncKey(fn)
		isSource := func(in ssa.Instruction) bool {
			ci, ok := in.(ssa.CallInstruction)
			if !ok {
				return false
			}
			if ci.Common().IsInvoke() {
				m := ci.Common().Method.Name()
				if types.Identical(ci.Common().Value.Type().Underlying(), rtIface) && (m == "Eval" || m == "Validate") {
					return true
				}
				if m == "Error" {
					return true
				}
			}
			n := callName(in)
			return strings.HasSuffix(n, "parser.ParseWithRuntime") || strings.HasSuffix(n, "parser.Parse")
		}
		taint := taintOf(c, fn, isSource)
		ord := newOrdinals()
		nSinks := 0
		allInstrs(fn, func(in ssa.Instruction) {
			ci, ok := in.(ssa.CallInstruction)
			if !ok {
				return
			}
			name := callName(in)
			var sinkArgs []ssa.Value
			what := ""
			switch {
			case strings.HasSuffix(name, "parser.ParseWithRuntime") || strings.HasSuffix(name, "parser.Parse"):
				if len(ci.Common().Args) >= 2 {
					sinkArgs = []ssa.Value{ci.Common().Args[1]}
					what = "parsed as code"
				}
			case name == "strings.Index" || name == "strings.LastIndex" || name == "strings.Split" || name == "strings.SplitN" ||
				name == "strings.Cut" || name == "strings.Contains" || name == "strings.IndexByte" || name == "strings.SplitAfterN":
				sinkArgs = []ssa.Value{ci.Common().Args[0]}
				what = "scanned for interpolation markers"
			default:
				// module helper receiving the text to scan (e.g. GetInfix): string parameter in first position after the receiver
				if f := ci.Common().StaticCallee(); f != nil && c.modFuncSet[f] && c.PkgOf(f) == "interpreter" {
					usesIndex := len(callSites(f, func(n string, _ ssa.CallInstruction) bool { return n == "strings.Index" })) > 0
					if usesIndex {
						for _, a := range ci.Common().Args {
							if b, ok := a.Type().Underlying().(*types.Basic); ok && b.Kind() == types.String {
								sinkArgs = append(sinkArgs, a)
								break
							}
						}
						what = "scanned for interpolation markers (by " + f.Name() + ")"
					}
				}
			}
			for _, a := range sinkArgs {
				nSinks++
				site := ord.key(key, "sink", name)
				pos := c.Pos(c.InstrPos(in))
				if taint[a] {
					r.Instance("R14a", site, pos, "finding", "evaluated data reaches text that is "+what, true)
					r.Report(Finding{Rule: "R14a", Site: site, Pos: pos,
						Msg: fmt.Sprintf("%s: text that is %s (%s) can contain the output of an earlier substitution (values produced by evaluation flow into it): data becomes code — `x := r\"{{1+1}}\"; \"{{x}}\"` evaluates the data, a self-reproducing value never terminates", key, what, accessPath(a))})
				} else {
					r.Instance("R14a", site, pos, "ok", "derives from the literal's token value only ("+accessPath(a)+")", true)
				}
			}
		})
		r.Floor("R14a-sinks:"+key, nSinks, 2)

		// R14c
		for i, p := range callSites(fn, func(name string, _ ssa.CallInstruction) bool {
			return strings.HasSuffix(name, "parser.ParseWithRuntime")
		}) {
			site := fmt.Sprintf("%s#parse#%d", key, i)
			pos := c.Pos(c.InstrPos(p))
			ok := false
			for v := range FactsAt(p).TrueV {
				if ld, isLoad := v.(*ssa.UnOp); isLoad && fAllow != nil && fieldVar(ld.X) == fAllow {
					ok = true
				}
			}
			if ok {
				r.Instance("R14c", site, pos, "ok", "interpolation is control dependent on Token.AllowEscapes", true)
			} else {
				r.Instance("R14c", site, pos, "finding", "raw strings are interpolated", true)
				r.Report(Finding{Rule: "R14c", Site: site, Pos: pos,
					Msg: key + ": the interpolation parse is not dominated by the test of Token.AllowEscapes: raw strings would be interpolated"})
			}
		}

		// R14b: slice / index obligations of this function and of the helpers it calls in package interpreter
		fns := []*ssa.Function{fn}
		allInstrs(fn, func(in ssa.Instruction) {
			if ci, ok := in.(ssa.CallInstruction); ok {
				if f := ci.Common().StaticCallee(); f != nil && c.modFuncSet[f] && c.PkgOf(f) == "interpreter" && f.Signature.Recv() != nil &&
					namedOf(f.Signature.Recv().Type()) == namedOf(fn.Signature.Recv().Type()) && f != fn {
					fns = append(fns, f)
				}
			}
		})
		for _, f := range fns {
			for _, ob := range boundsObligations(c, f) {
				if ob.Discharged {
					r.Instance("R14b", ob.Site, ob.Pos, "ok", ob.Why, true)
					r.Obligations++
					r.Discharged++
				} else {
					r.Obligations++
					r.Instance("R14b", ob.Site, ob.Pos, "finding", ob.Why, true)
					r.Report(Finding{Rule: "R14b", Site: ob.Site, Pos: ob.Pos,
						Msg: fmt.Sprintf("%s: %s — an arrangement of `{{` and `}}` in a literal can make this expression panic (`\"}}{{\"`)", c.FuncKey(f), ob.Why)})
				}
			}
		}
	}
}
