package main

// R16e — what a debugger command returns can always be encoded as JSON.
//
// encoding/json fails on: non-finite floats, maps with non-string keys, channels, functions,
// complex numbers — and on whatever a MarshalJSON method fails on. The command results are
// map[string]interface{} trees built by the debugger's methods and by the ToJSONObject methods
// they call. The rule classifies every value stored into such a map (or returned as a result):
//   - by its static type when it has one (before boxing): types whose reflective encoding
//     cannot fail (strings, booleans, integers, floats converted from integers, structs /
//     pointers / slices / string-keyed maps of such, interfaces whose module implementations
//     all qualify, types with a MarshalJSON that goes through a checked ToJSONObject);
//   - by its origin when it is already an interface value: nil, the result of the JSON round
//     trip (json.Unmarshal target), fmt.Sprint*, a checked function's result.
// An ECAL runtime value (loaded from a scope, an error's data, a parameter) that reaches a result
// without the round trip is a finding.

import (
	"fmt"
	"go/token"
	"go/types"
	"os"
	"sort"
	"strings"

	"golang.org/x/tools/go/ssa"
)

type jsonSafety struct {
	c         *Ctx
	typeMemo  map[types.Type]int // 1 in progress / safe, 2 safe, 3 unsafe
	typeWhy   map[types.Type]string
	fnMemo    map[*ssa.Function]int
	valMemo   map[ssa.Value]int
	checked   map[*ssa.Function]bool // functions whose map stores are checked by the rule
	fieldMemo map[*types.Var]int
	errTypes  []types.Type
}

func (j *jsonSafety) typeSafe(t types.Type) (bool, string) {
	switch j.typeMemo[t] {
	case 1, 2:
		return true, ""
	case 3:
		return false, j.typeWhy[t]
	}
	j.typeMemo[t] = 1
	ok, why := j.typeSafe1(t)
	if ok {
		j.typeMemo[t] = 2
	} else {
		j.typeMemo[t] = 3
		j.typeWhy[t] = why
	}
	return ok, why
}

func (j *jsonSafety) hasMarshalJSON(t types.Type) *ssa.Function {
	for _, tt := range []types.Type{t, types.NewPointer(t)} {
		ms := j.c.Prog.MethodSets.MethodSet(tt)
		if sel := ms.Lookup(nil, "MarshalJSON"); sel != nil {
			return j.c.Prog.MethodValue(sel)
		}
	}
	return nil
}

func (j *jsonSafety) typeSafe1(t types.Type) (bool, string) {
	if n, ok := t.(*types.Named); ok && n.Obj().Pkg() != nil && strings.HasPrefix(n.Obj().Pkg().Path(), modPath) {
		if mj := j.hasMarshalJSON(t); mj != nil {
			if j.c.inModule(mj) {
				if ok, why := j.fnSafe(mj, 0); !ok {
					return false, "MarshalJSON of " + typeShort(t) + ": " + why
				}
				return true, ""
			}
		}
	}
	switch u := t.Underlying().(type) {
	case *types.Basic:
		switch {
		case u.Info()&types.IsFloat != 0:
			return false, "a floating point number that may be infinite or NaN"
		case u.Info()&types.IsComplex != 0:
			return false, "a complex number"
		case u.Kind() == types.UnsafePointer:
			return false, "an unsafe pointer"
		}
		return true, ""
	case *types.Pointer:
		return j.typeSafe(u.Elem())
	case *types.Slice:
		return j.typeSafe(u.Elem())
	case *types.Array:
		return j.typeSafe(u.Elem())
	case *types.Map:
		if b, ok := u.Key().Underlying().(*types.Basic); !ok || (b.Info()&types.IsString == 0 && b.Info()&types.IsInteger == 0) {
			return false, "a map with keys of type " + u.Key().String()
		}
		return j.typeSafe(u.Elem())
	case *types.Struct:
		for i := 0; i < u.NumFields(); i++ {
			f := u.Field(i)
			if !f.Exported() && !f.Embedded() {
				continue
			}
			if f.Embedded() && !f.Exported() {
				// embedded unexported struct: its exported fields are encoded
				if _, isStruct := derefType(f.Type()).Underlying().(*types.Struct); !isStruct {
					continue
				}
			}
			if ok, why := j.typeSafe(f.Type()); !ok {
				return false, "field " + f.Name() + ": " + why
			}
		}
		return true, ""
	case *types.Interface:
		if u.NumMethods() == 0 {
			return false, "a value of unknown dynamic type (interface{})"
		}
		errIface := types.Universe.Lookup("error").Type().Underlying().(*types.Interface)
		if types.Implements(t, errIface) || types.Identical(u, errIface) {
			// error values: the concrete types boxed into an error on the evaluation side of the
			// module (the engine's task errors never travel as Go errors into the interpreter);
			// error types of other modules have no exported fields and encode as {}
			for _, n := range j.errorTypesOfEvaluation() {
				if ok, why := j.typeSafe(n); !ok {
					return false, "error type " + typeShort(n) + ": " + why
				}
			}
			return true, ""
		}
		// all implementations in the module
		nImpl := 0
		for _, n := range j.c.allNamed() {
			for _, tt := range []types.Type{n, types.NewPointer(n)} {
				if _, isIface := n.Underlying().(*types.Interface); isIface {
					continue
				}
				if types.Implements(tt, u) {
					nImpl++
					if ok, why := j.typeSafe(tt); !ok {
						return false, "implementation " + typeShort(n) + ": " + why
					}
					break
				}
			}
		}
		return true, ""
	case *types.Chan:
		return false, "a channel"
	case *types.Signature:
		return false, "a function value"
	}
	return false, "type " + t.String()
}

// errorTypesOfEvaluation: concrete module types converted to an error-like interface in the
// packages evaluation runs in.
func (j *jsonSafety) errorTypesOfEvaluation() []types.Type {
	if j.errTypes != nil {
		return j.errTypes
	}
	errIface := types.Universe.Lookup("error").Type().Underlying().(*types.Interface)
	seen := map[string]bool{}
	out := []types.Type{}
	for _, fn := range j.c.ModFuncs() {
		switch j.c.PkgOf(fn) {
		case "interpreter", "util", "parser", "scope", "stdlib", "config":
		default:
			continue
		}
		allInstrs(fn, func(in ssa.Instruction) {
			mi, ok := in.(*ssa.MakeInterface)
			if !ok || !types.Implements(mi.Type(), errIface) && !types.Identical(mi.Type().Underlying(), errIface) {
				return
			}
			n := namedOf(mi.X.Type())
			if n == nil || n.Obj().Pkg() == nil || !strings.HasPrefix(n.Obj().Pkg().Path(), modPath) {
				return
			}
			if !seen[mi.X.Type().String()] {
				seen[mi.X.Type().String()] = true
				out = append(out, mi.X.Type())
			}
		})
	}
	sort.Slice(out, func(a, b int) bool { return out[a].String() < out[b].String() })
	j.errTypes = out
	return out
}

// fnSafe: every value the function returns at result idx is JSON safe.
func (j *jsonSafety) fnSafe(fn *ssa.Function, idx int) (bool, string) {
	switch j.fnMemo[fn] {
	case 1, 2:
		return true, ""
	case 3:
		return false, "result of " + j.c.FuncKey(fn)
	}
	if len(fn.Blocks) == 0 {
		return false, "result of " + j.c.FuncKey(fn) + " (no body)"
	}
	j.fnMemo[fn] = 1
	// a MarshalJSON implemented as json.Marshal(x.ToJSONObject()): safe iff the argument is
	if fn.Name() == "MarshalJSON" {
		okAll, why := true, ""
		found := false
		allInstrs(fn, func(in ssa.Instruction) {
			if call, ok := in.(*ssa.Call); ok && callName(call) == "encoding/json.Marshal" {
				found = true
				if ok, w := j.valSafe(call.Call.Args[0], 0); !ok {
					okAll, why = false, w
				}
			}
		})
		if found {
			if okAll {
				j.fnMemo[fn] = 2
			} else {
				j.fnMemo[fn] = 3
			}
			return okAll, why
		}
	}
	for _, rv := range returnedValues(fn, idx) {
		if ok, why := j.valSafe(rv, 0); !ok {
			j.fnMemo[fn] = 3
			return false, why
		}
	}
	j.fnMemo[fn] = 2
	return true, ""
}

func (j *jsonSafety) valSafe(v ssa.Value, d int) (bool, string) {
	if d > 40 {
		return false, "value too deep to classify"
	}
	switch j.valMemo[v] {
	case 1, 2:
		return true, ""
	}
	j.valMemo[v] = 1
	ok, why := j.valSafe1(v, d)
	if ok {
		j.valMemo[v] = 2
	} else {
		delete(j.valMemo, v)
	}
	return ok, why
}

// storedElems: values stored into the elements of a local array / slice allocation.
func storedElems(a ssa.Value) []ssa.Value {
	var out []ssa.Value
	refs := a.Referrers()
	if refs == nil {
		return nil
	}
	for _, ref := range *refs {
		switch x := ref.(type) {
		case *ssa.IndexAddr:
			for _, ref2 := range *x.Referrers() {
				if st, ok := ref2.(*ssa.Store); ok && st.Addr == ssa.Value(x) {
					out = append(out, st.Val)
				}
			}
		}
	}
	return out
}

func (j *jsonSafety) fieldSafe(f *types.Var) (bool, string) {
	if f == nil {
		return false, "an unknown field"
	}
	switch j.fieldMemo[f] {
	case 1, 2:
		return true, ""
	case 3:
		return false, "the content of field " + f.Name()
	}
	j.fieldMemo[f] = 1
	for _, fn := range j.c.ModFuncs() {
		var bad string
		allInstrs(fn, func(in ssa.Instruction) {
			if bad != "" {
				return
			}
			switch x := in.(type) {
			case *ssa.Store:
				if fa, ok := x.Addr.(*ssa.FieldAddr); ok && fieldVar(fa) == f {
					if ok, why := j.valSafe(x.Val, 1); !ok {
						bad = why
					}
				}
			case *ssa.MapUpdate:
				if ld, ok := stripConv(x.Map).(*ssa.UnOp); ok {
					if fa, ok := ld.X.(*ssa.FieldAddr); ok && fieldVar(fa) == f {
						if ok, why := j.valSafe(x.Value, 1); !ok {
							bad = why
						}
					}
				}
			}
		})
		if bad != "" {
			j.fieldMemo[f] = 3
			return false, "field " + f.Name() + " can hold (stored in " + j.c.FuncKey(fn) + ") " + bad
		}
	}
	j.fieldMemo[f] = 2
	return true, ""
}

var jsonPureContainerFuncs = map[string]bool{
	"github.com/krotik/common/datautil.MergeMaps": true,
	"github.com/krotik/common/datautil.CopyMap":   true,
}

func (j *jsonSafety) valSafe1(v ssa.Value, d int) (bool, string) {
	c := j.c
	switch x := v.(type) {
	case *ssa.Const:
		return true, ""
	case *ssa.MakeInterface:
		return j.valSafe(x.X, d+1)
	case *ssa.ChangeInterface:
		return j.valSafe(x.X, d+1)
	case *ssa.ChangeType:
		return j.valSafe(x.X, d+1)
	case *ssa.Phi:
		for _, e := range x.Edges {
			if ok, why := j.valSafe(e, d+1); !ok {
				return false, why
			}
		}
		return true, ""
	case *ssa.Convert:
		if b, ok := x.Type().Underlying().(*types.Basic); ok && b.Info()&types.IsFloat != 0 {
			if sb, ok := x.X.Type().Underlying().(*types.Basic); ok && sb.Info()&types.IsInteger != 0 {
				return true, "" // finite
			}
		}
	}
	// purely by type
	if ok, _ := j.typeSafe(v.Type()); ok {
		return true, ""
	}
	// by origin
	switch x := v.(type) {
	case *ssa.MakeMap:
		if mt, ok := x.Type().Underlying().(*types.Map); ok {
			if b, ok := mt.Key().Underlying().(*types.Basic); !ok || (b.Info()&types.IsString == 0 && b.Info()&types.IsInteger == 0) {
				return false, "a map with keys of type " + mt.Key().String()
			}
		}
		for _, ref := range *x.Referrers() {
			if mu, ok := ref.(*ssa.MapUpdate); ok && mu.Map == ssa.Value(x) {
				if ok, why := j.valSafe(mu.Value, d+1); !ok {
					return false, why
				}
			}
		}
		return true, ""
	case *ssa.MakeSlice:
		for _, el := range storedElems(x) {
			if ok, why := j.valSafe(el, d+1); !ok {
				return false, why
			}
		}
		return true, ""
	case *ssa.Slice:
		if a, ok := x.X.(*ssa.Alloc); ok {
			for _, el := range storedElems(a) {
				if ok, why := j.valSafe(el, d+1); !ok {
					return false, why
				}
			}
			return true, ""
		}
		return j.valSafe(x.X, d+1)
	case *ssa.Lookup:
		return j.valSafe(x.X, d+1)
	case *ssa.Index:
		return j.valSafe(x.X, d+1)
	case *ssa.TypeAssert:
		return j.valSafe(x.X, d+1)
	case *ssa.Extract:
		switch t := x.Tuple.(type) {
		case *ssa.Next:
			if rg, ok := t.Iter.(*ssa.Range); ok {
				return j.valSafe(rg.X, d+1)
			}
		case *ssa.Lookup:
			return j.valSafe(t.X, d+1)
		case *ssa.TypeAssert:
			return j.valSafe(t.X, d+1)
		case *ssa.Call:
			cs := c.Callees(t)
			if len(cs) == 0 {
				return false, "a result of an unresolved call"
			}
			for _, callee := range cs {
				if !c.inModule(callee) || len(callee.Blocks) == 0 {
					return false, "a result of " + c.FuncKey(callee)
				}
				if ok, why := j.fnSafe(callee, x.Index); !ok {
					return false, why
				}
			}
			return true, ""
		}
	case *ssa.UnOp:
		if x.Op != token.MUL {
			break
		}
		switch a := x.X.(type) {
		case *ssa.Alloc:
			unm := false
			for _, ref := range *a.Referrers() {
				if mi, ok := ref.(*ssa.MakeInterface); ok {
					for _, ref2 := range *mi.Referrers() {
						if call, ok := ref2.(*ssa.Call); ok && callName(call) == "encoding/json.Unmarshal" {
							unm = true
						}
					}
				}
			}
			srcs := cellSources(a)
			for _, s := range srcs {
				if ok, why := j.valSafe(s, d+1); !ok {
					return false, why
				}
			}
			if unm || len(srcs) > 0 {
				return true, ""
			}
		case *ssa.FieldAddr:
			return j.fieldSafe(fieldVar(a))
		case *ssa.IndexAddr:
			return j.valSafe(a.X, d+1)
		case *ssa.FreeVar:
			// captured variable: the cell bound by the enclosing function
			fn := a.Parent()
			for i, fv := range fn.FreeVars {
				if fv != a {
					continue
				}
				ok := false
				if par := fn.Parent(); par != nil {
					allInstrs(par, func(in ssa.Instruction) {
						if mc, isMC := in.(*ssa.MakeClosure); isMC && mc.Fn == ssa.Value(fn) && i < len(mc.Bindings) {
							if cell, isAlloc := mc.Bindings[i].(*ssa.Alloc); isAlloc {
								ok = true
								for _, s := range cellSources(cell) {
									if o, _ := j.valSafe(s, d+1); !o {
										ok = false
									}
								}
							}
						}
					})
				}
				if ok {
					return true, ""
				}
			}
		}
	case *ssa.Parameter:
		fn := x.Parent()
		idx := -1
		for i, p := range fn.Params {
			if p == x {
				idx = i
			}
		}
		node := c.CHA().Nodes[fn]
		if node == nil || len(node.In) == 0 || idx < 0 {
			return false, "parameter " + x.Name() + " of " + c.FuncKey(fn) + " (no caller in the module)"
		}
		for _, e := range node.In {
			if e.Site == nil || !c.modFuncSet[e.Caller.Func] {
				continue
			}
			args := callArgs(e.Site.Common())
			if idx >= len(args) {
				return false, "parameter " + x.Name() + " of " + c.FuncKey(fn)
			}
			if ok, why := j.valSafe(args[idx], d+1); !ok {
				return false, why
			}
		}
		return true, ""
	case *ssa.Call:
		if isBuiltinCall(x, "append") {
			if ok, why := j.valSafe(x.Call.Args[0], d+1); !ok {
				return false, why
			}
			if len(x.Call.Args) == 2 {
				return j.valSafe(x.Call.Args[1], d+1)
			}
			return true, ""
		}
		n := callName(x)
		if n == "fmt.Sprint" || n == "fmt.Sprintf" || n == "fmt.Sprintln" {
			return true, ""
		}
		if jsonPureContainerFuncs[n] {
			for _, a := range x.Call.Args {
				if ok, why := j.valSafe(a, d+1); !ok {
					return false, why
				}
			}
			return true, ""
		}
		cs := c.Callees(x)
		if len(cs) == 0 {
			return false, "the result of an unresolved call"
		}
		for _, callee := range cs {
			if !c.inModule(callee) || len(callee.Blocks) == 0 {
				return false, "the result of " + c.FuncKey(callee)
			}
			if ok, why := j.fnSafe(callee, 0); !ok {
				return false, why
			}
		}
		return true, ""
	}
	_, why := j.typeSafe(v.Type())
	if _, isIface := v.Type().Underlying().(*types.Interface); isIface {
		why = "a runtime value of unknown dynamic type that did not pass the JSON round trip"
	}
	return false, accessPath(v) + " is " + why
}

// allNamed lists the named types of the module.
func (c *Ctx) allNamed() []*types.Named {
	if c.namedCache != nil {
		return c.namedCache
	}
	var out []*types.Named
	for _, p := range c.Pkgs {
		if p.Types == nil {
			continue
		}
		sc := p.Types.Scope()
		for _, name := range sc.Names() {
			if tn, ok := sc.Lookup(name).(*types.TypeName); ok {
				if n, ok := tn.Type().(*types.Named); ok {
					out = append(out, n)
				}
			}
		}
	}
	sort.Slice(out, func(i, k int) bool { return out[i].String() < out[k].String() })
	c.namedCache = out
	return out
}

func c16JSONSafe(c *Ctx, r *Result, reach *Reach) {
	j := &jsonSafety{c: c, typeMemo: map[types.Type]int{}, typeWhy: map[types.Type]string{}, fnMemo: map[*ssa.Function]int{}, valMemo: map[ssa.Value]int{}, checked: map[*ssa.Function]bool{}, fieldMemo: map[*types.Var]int{}}
	// checked functions: the debugger's own methods + every ToJSONObject / MarshalJSON of the module
	var funcs []*ssa.Function
	for _, fn := range reach.Order {
		funcs = append(funcs, fn)
	}
	for _, fn := range c.ModFuncs() {
		if (fn.Name() == "ToJSONObject" || fn.Name() == "MarshalJSON") && fn.Signature.Recv() != nil && !reach.Set[fn] {
			p := c.PkgOf(fn)
			if p == "util" || p == "scope" || p == "parser" || p == "interpreter" {
				funcs = append(funcs, fn)
			}
		}
	}
	for _, fn := range funcs {
		j.checked[fn] = true
	}
	sort.Slice(funcs, func(a, b int) bool { return c.FuncKey(funcs[a]) < c.FuncKey(funcs[b]) })
	n := 0
	for _, fn := range funcs {
		key := c.FuncKey(fn)
		ord := newOrdinals()
		allInstrs(fn, func(in ssa.Instruction) {
			mu, ok := in.(*ssa.MapUpdate)
			if !ok {
				return
			}
			mt, ok := mu.Map.Type().Underlying().(*types.Map)
			if !ok {
				return
			}
			if kb, ok := mt.Key().Underlying().(*types.Basic); !ok || kb.Info()&types.IsString == 0 {
				return
			}
			if _, isIface := mt.Elem().Underlying().(*types.Interface); !isIface {
				if _, isMap := mt.Elem().Underlying().(*types.Map); !isMap {
					return
				}
			}
			n++
			kname := accessPath(mu.Key)
			if s, ok := constString(mu.Key); ok {
				kname = s
			}
			site := ord.key(key, "json", kname)
			pos := c.Pos(c.InstrPos(in))
			if ok, why := j.valSafe(mu.Value, 0); !ok {
				r.Instance("R16e", site, pos, "finding", why, true)
				r.Report(Finding{Rule: "R16e", Site: site, Pos: pos,
					Msg: fmt.Sprintf("%s stores under %q a value that encoding/json can reject: %s — the command result cannot be encoded (e.g. +Inf from 1/0, a map with general keys) and the debug console answers every such command with an encoding error", key, kname, why)})
				return
			}
			r.Instance("R16e", site, pos, "ok", "JSON-encodable by static type or sanitised (JSON round trip / Sprint / checked constructor)", true)
		})
	}
	r.Floor("R16e", n, 15)
	if os.Getenv("ECALCHECK_DUMP") != "" {
		et := types.Universe.Lookup("error").Type()
		ok, why := j.typeSafe(et)
		fmt.Println("DUMP typeSafe(error):", ok, why, j.errorTypesOfEvaluation())
	}
}

// ---- R16f: results do not hand out live references to shared tables -----------------------------

// A command result is read (JSON-encoded) by the console after the debugger method has returned
// and released its lock. A map or slice inside the result that *is* one of the debugger's tables
// (loaded from a field, not copied) is then iterated while interpreter threads write it: the Go
// runtime aborts the process on concurrent map iteration and write.
func liveReference(c *Ctx, v ssa.Value, d int) string {
	if d > 12 {
		return ""
	}
	v = stripConv(v)
	switch t := v.Type().Underlying().(type) {
	case *types.Map, *types.Slice:
		_ = t
	default:
		return ""
	}
	switch x := v.(type) {
	case *ssa.Phi:
		for _, e := range x.Edges {
			if s := liveReference(c, e, d+1); s != "" {
				return s
			}
		}
	case *ssa.UnOp:
		if x.Op != token.MUL {
			return ""
		}
		switch a := x.X.(type) {
		case *ssa.FieldAddr:
			if f := fieldVar(a); f != nil {
				return "field " + typeShort(derefType(a.X.Type())) + "." + f.Name()
			}
		case *ssa.Alloc:
			for _, s := range cellSources(a) {
				if r := liveReference(c, s, d+1); r != "" {
					return r
				}
			}
		case *ssa.IndexAddr:
			return liveReference(c, a.X, d+1)
		}
	case *ssa.Lookup:
		// an element of a table that is itself a map / slice
		if s := liveReference(c, x.X, d+1); s != "" {
			return "an element of " + s
		}
	case *ssa.Extract:
		if lk, ok := x.Tuple.(*ssa.Lookup); ok && x.Index == 0 {
			if s := liveReference(c, lk.X, d+1); s != "" {
				return "an element of " + s
			}
		}
	case *ssa.Slice:
		if _, ok := x.X.(*ssa.Alloc); ok {
			return ""
		}
		return liveReference(c, x.X, d+1)
	}
	return ""
}

func c16NoLiveReferences(c *Ctx, r *Result, dbgIface *types.Interface) {
	n := 0
	for i := 0; i < dbgIface.NumMethods(); i++ {
		m := dbgIface.Method(i)
		sig := m.Type().(*types.Signature)
		if sig.Results().Len() == 0 {
			continue
		}
		for _, fn := range c.Implementations(dbgIface, m.Name()) {
			if c.PkgOf(fn) != "interpreter" {
				continue
			}
			key := c.FuncKey(fn)
			ord := newOrdinals()
			check := func(v ssa.Value, what string, in ssa.Instruction) {
				n++
				site := ord.key(key, "live-ref", what)
				pos := c.Pos(c.InstrPos(in))
				if s := liveReference(c, v, 0); s != "" {
					r.Instance("R16f", site, pos, "finding", "result contains "+s+" itself", true)
					r.Report(Finding{Rule: "R16f", Site: site, Pos: pos,
						Msg: fmt.Sprintf("%s puts %s itself (not a copy) into its result under %q: the console encodes the result after the method returned, while interpreter threads keep writing that table — concurrent map iteration and write aborts the process, a slice is read while it is appended to", key, s, what)})
					return
				}
				r.Instance("R16f", site, pos, "ok", "built for this result (copy / fresh container / scalar)", true)
			}
			allInstrs(fn, func(in ssa.Instruction) {
				switch x := in.(type) {
				case *ssa.MapUpdate:
					if mt, ok := x.Map.Type().Underlying().(*types.Map); ok {
						if _, isIface := mt.Elem().Underlying().(*types.Interface); isIface {
							k := accessPath(x.Key)
							if s, ok := constString(x.Key); ok {
								k = s
							}
							check(x.Value, k, in)
						}
					}
				case *ssa.Return:
					for _, rv := range x.Results {
						check(rv, "return", in)
					}
				}
			})
		}
	}
	r.Floor("R16f", n, 15)
}
