package main

// C15 — debugging only observes; every suspended thread can be resumed.

import (
	"fmt"
	"go/token"
	"go/types"
	"sort"
	"strings"

	"golang.org/x/tools/go/ssa"
)

func init() { register("C15", checkC15) }

var c15Hooks = []string{"VisitState", "VisitStepInState", "VisitStepOutState", "SetLockingState", "SetThreadPool", "RecordThreadFinished"}

// read-only methods of parser.Scope; every other method of the interface mutates
var scopeReadOnly = map[string]bool{"Name": true, "Parent": true, "GetValue": true, "String": true, "ToJSONObject": true}

func checkC15(c *Ctx, r *Result, tier string) {
	r.Explanation = "Decides three structural necessary conditions of C15: (R15a) the debugger hooks called on the evaluation path are observers — nothing reachable from them mutates a scope, evaluates/validates code or writes AST/runtime fields, " +
		"the visit hooks return nil, and every hook call in the evaluator is under a nil test of the debugger; (R15b) the suspend/continue hand-shake obeys the condition-variable protocol (no wake-up can be lost under any timing of continue vs. wait); " +
		"(R15c) the debugger's tables are accessed only with its lock held (exclusive for writes)."
	r.RuleText = "R15a observer purity over Reach(hooks) + nil-tested hook calls; R15b cond protocol (W),(S),(S') for interrogationState.cond; R15c guarded-by ecalDebugger.lock"
	r.NotCovered = "Equality of program outcomes over programs × command histories; timing behaviour of StopThreads' quiescence loop; that breakpoints trigger on the right line (value dependent)."
	r.Assumptions = []string{"sync.Cond semantics", "interface calls resolved by CHA", "functions outside the module called by the hooks (fmt, json, krotik/common) do not mutate interpreter state"}

	dbgIface := c.Interface("util", "ECALDebugger")
	scopeIface := c.Interface("parser", "Scope")
	rtIface := c.Interface("parser", "Runtime")
	if dbgIface == nil || scopeIface == nil || rtIface == nil {
		r.Undecide("interfaces util.ECALDebugger / parser.Scope / parser.Runtime not found")
		return
	}
	lfs := NewLockFlows(c)

	// ---- R15a -------------------------------------------------------------------------------
	var hooks []*ssa.Function
	for _, h := range c15Hooks {
		impls := c.Implementations(dbgIface, h)
		if len(impls) == 0 {
			r.Undecide("no implementation of ECALDebugger.%s", h)
		}
		hooks = append(hooks, impls...)
	}
	astNode := c.NamedType("parser", "ASTNode")
	lexToken := c.NamedType("parser", "LexToken")
	reach := c.Reachable(hooks, nil)
	funcs := append([]*ssa.Function{}, reach.Order...)
	sort.Slice(funcs, func(i, j int) bool { return c.FuncKey(funcs[i]) < c.FuncKey(funcs[j]) })
	for _, fn := range funcs {
		key := c.FuncKey(fn)
		ord := newOrdinals()
		clean := true
		allInstrs(fn, func(in ssa.Instruction) {
			pos := c.Pos(c.InstrPos(in))
			if ci, ok := in.(ssa.CallInstruction); ok && ci.Common().IsInvoke() {
				m := ci.Common().Method
				rt := ci.Common().Value.Type().Underlying()
				if types.Identical(rt, scopeIface) && !scopeReadOnly[m.Name()] {
					clean = false
					site := ord.key(key, "scope-mutator", m.Name())
					r.Instance("R15a", site, pos, "finding", "scope mutated from a debugger hook", true)
					r.Report(Finding{Rule: "R15a", Site: site, Pos: pos, Path: reach.PathTo(c, fn),
						Msg: fmt.Sprintf("%s calls parser.Scope.%s on the path of a debugger hook: debugging would change the program's variables", key, m.Name())})
				}
				if types.Identical(rt, rtIface) && (m.Name() == "Eval" || m.Name() == "Validate") {
					clean = false
					site := ord.key(key, "eval", m.Name())
					r.Instance("R15a", site, pos, "finding", "code evaluated from a debugger hook", true)
					r.Report(Finding{Rule: "R15a", Site: site, Pos: pos, Path: reach.PathTo(c, fn),
						Msg: fmt.Sprintf("%s calls Runtime.%s on the path of a debugger hook", key, m.Name())})
				}
			}
		})
		for _, w := range WritesOf(fn) {
			fa, ok := w.Target.(*ssa.FieldAddr)
			if !ok || w.What != "store" {
				continue
			}
			owner := namedOf(fa.X.Type())
			if owner == nil {
				continue
			}
			isRT := types.Implements(types.NewPointer(owner), rtIface) || types.Implements(owner, rtIface)
			if owner == astNode || owner == lexToken || isRT {
				if freshIn(fa.X) {
					continue
				}
				clean = false
				site := ord.key(key, "ast-write", owner.Obj().Name()+"."+fieldName(fa.X.Type(), fa.Field))
				pos := c.Pos(c.InstrPos(w.Instr))
				r.Instance("R15a", site, pos, "finding", "AST/runtime field written from a debugger hook", true)
				r.Report(Finding{Rule: "R15a", Site: site, Pos: pos, Path: reach.PathTo(c, fn),
					Msg: fmt.Sprintf("%s writes %s.%s on the path of a debugger hook", key, owner.Obj().Name(), fieldName(fa.X.Type(), fa.Field))})
			}
		}
		if clean {
			r.Instance("R15a", key, c.Pos(fn.Pos()), "clean", "no scope mutator, no Eval/Validate, no AST/runtime field write", false)
		}
	}
	r.Floor("R15a-reach", len(funcs), 8)
	// visit hooks return nil (or the result of another visit hook)
	visit := map[*ssa.Function]bool{}
	for _, h := range []string{"VisitState", "VisitStepInState", "VisitStepOutState"} {
		for _, f := range c.Implementations(dbgIface, h) {
			visit[f] = true
		}
	}
	for f := range visit {
		key := c.FuncKey(f)
		nret := 0
		allInstrs(f, func(in ssa.Instruction) {
			ret, ok := in.(*ssa.Return)
			if !ok || in.Block() == f.Recover || len(ret.Results) != 1 {
				return
			}
			nret++
			if !c15NilOrVisit(ret.Results[0], visit, 0) {
				site := sanitizeSite(fmt.Sprintf("%s#return#%d", key, nret))
				pos := c.Pos(c.InstrPos(in))
				r.Instance("R15a-ret", site, pos, "finding", "hook can return a non-nil error", true)
				r.Report(Finding{Rule: "R15a-ret", Site: site, Pos: pos,
					Msg: key + ": a visit hook can return a non-nil error, which the evaluator returns as the result of the visited node (debugging changes the outcome)"})
			} else {
				r.Instance("R15a-ret", fmt.Sprintf("%s#return#%d", key, nret), c.Pos(c.InstrPos(in)), "ok", "returns nil (or the result of a visit hook)", true)
			}
		})
	}
	// hook calls on the evaluation path are nil tested
	nHookCalls := 0
	for _, fn := range c.ModFuncs() {
		if c.PkgOf(fn) != "interpreter" {
			continue
		}
		if recv := fn.Signature.Recv(); recv != nil && types.Implements(recv.Type(), dbgIface) {
			continue
		}
		ord := newOrdinals()
		allInstrs(fn, func(in ssa.Instruction) {
			ci, ok := in.(ssa.CallInstruction)
			if !ok || !ci.Common().IsInvoke() || !types.Identical(ci.Common().Value.Type().Underlying(), dbgIface) {
				return
			}
			if !types.Implements(fn.Signature.Recv().Type(), rtIface) && !isRuntimeHelper(fn, rtIface) {
				return // debug commands etc. receive the debugger as an argument
			}
			nHookCalls++
			site := ord.key(c.FuncKey(fn), "hook", ci.Common().Method.Name())
			pos := c.Pos(c.InstrPos(in))
			if nilTested(ci.Common().Value, in) {
				r.Instance("R15a-nil", site, pos, "ok", "dominated by a nil test of the debugger", true)
			} else {
				r.Instance("R15a-nil", site, pos, "finding", "hook call without nil test", true)
				r.Report(Finding{Rule: "R15a-nil", Site: site, Pos: pos,
					Msg: fmt.Sprintf("%s calls ECALDebugger.%s without a dominating nil test of the debugger (an undebugged run would crash)", c.FuncKey(fn), ci.Common().Method.Name())})
			}
		})
	}
	r.Floor("R15a-nil", nHookCalls, 3)

	// ---- R15b -------------------------------------------------------------------------------
	nc, nw, ns := checkCondProtocol(c, r, lfs, "R15b", func(class string) bool { return strings.HasPrefix(class, "interpreter.interrogationState") })
	r.Floor("R15b-conds", nc, 1)
	r.Floor("R15b-waits", nw, 1)
	r.Floor("R15b-signals", ns, 1)

	// ---- R15c -------------------------------------------------------------------------------
	g := newGuardChecker(c, lfs)
	var ifuncs []*ssa.Function
	for _, fn := range c.ModFuncs() {
		if c.PkgOf(fn) == "interpreter" {
			ifuncs = append(ifuncs, fn)
		}
	}
	total := debuggerGuardedBy(c, r, g, "R15c", ifuncs)
	r.Floor("R15c", total, 40)

	// R15g: once a thread's state is visible as suspended (running == false published under the
	// debugger lock: stored under it, or a fresh state entered into the table) and the debugger
	// lock has been released, a continue command may arrive at any moment. The thread must not
	// write running = false again before it waits — that overwrites the command and the thread
	// waits for something that was already given.
	c15NoPredicateReset(c, r, lfs)

	// ---- R15e ---------------------------------------------------------------------------------
	c15BreakOnError(c, r, dbgIface)
	c15StopAll(c, r, dbgIface)
	c15ReexamineAfterResume(c, r, dbgIface)
	c15ContinueWakes(c, r, dbgIface)
	c15NoLockAcrossSuspension(c, r, lfs)

	// ---- R15d: the debugger lock is never re-acquired while held -------------------------------
	nRe := checkReentrance(c, r, lfs, "R15d", func(class string) bool { return strings.HasPrefix(class, "interpreter.ecalDebugger") })
	r.Extra["reentrance_call_sites"] = nRe
}

func c15NilOrVisit(v ssa.Value, visit map[*ssa.Function]bool, d int) bool {
	if d > 6 {
		return false
	}
	v = unspill(v)
	switch x := v.(type) {
	case *ssa.Const:
		return x.Value == nil
	case *ssa.Call:
		if f := x.Call.StaticCallee(); f != nil && visit[f] {
			return true
		}
		return false
	case *ssa.Phi:
		for _, e := range x.Edges {
			if !c15NilOrVisit(e, visit, d+1) {
				return false
			}
		}
		return true
	case *ssa.UnOp:
		// load of a local cell stored several times: all stored values
		if a, ok := x.X.(*ssa.Alloc); ok && x.Op == token.MUL {
			srcs := cellSources(a)
			for _, s := range srcs {
				if !c15NilOrVisit(s, visit, d+1) {
					return false
				}
			}
			return true
		}
	}
	return false
}

// isRuntimeHelper: a method or closure belonging to a runtime component.
func isRuntimeHelper(fn *ssa.Function, rtIface *types.Interface) bool {
	for f := fn; f != nil; f = f.Parent() {
		if recv := f.Signature.Recv(); recv != nil && types.Implements(recv.Type(), rtIface) {
			return true
		}
	}
	return false
}

// nilTested: instruction `at` is dominated by the true branch of a test v' != nil
// where v' has the same access path as v.
func nilTested(v ssa.Value, at ssa.Instruction) bool {
	want := accessPath(v)
	fn := at.Parent()
	for _, b := range fn.Blocks {
		ifi, ok := b.Instrs[len(b.Instrs)-1].(*ssa.If)
		if !ok {
			continue
		}
		bo, ok := ifi.Cond.(*ssa.BinOp)
		if !ok {
			continue
		}
		var tested ssa.Value
		if isNilConst(bo.Y) {
			tested = bo.X
		} else if isNilConst(bo.X) {
			tested = bo.Y
		} else {
			continue
		}
		if accessPath(tested) != want {
			continue
		}
		var branch *ssa.BasicBlock
		if bo.Op == token.NEQ {
			branch = b.Succs[0]
		} else if bo.Op == token.EQL {
			branch = b.Succs[1]
		}
		if branch != nil && len(branch.Preds) == 1 && (branch == at.Block() || branch.Dominates(at.Block())) {
			return true
		}
	}
	return false
}

// ---- R15e: break-on-error applies to errors, not to control signals ------------------------------

// The evaluator reports the error of every function call to the debugger. Return values, loop
// control and the iterator protocol of range() travel the same error channel. A suspension taken
// because "break on error is set and the error is non-nil" must therefore be gated by the
// classification of the error (the same classifier that keeps these signals away from `except`).
func c15BreakOnError(c *Ctx, r *Result, dbgIface *types.Interface) {
	fBoE := c.Field("interpreter", "ecalDebugger", "breakOnError")
	if fBoE == nil {
		r.Undecide("R15e: ecalDebugger.breakOnError not found")
		return
	}
	classifiers := errorClassifiers(c)
	n := 0
	for i := 0; i < dbgIface.NumMethods(); i++ {
		for _, fn := range c.Implementations(dbgIface, dbgIface.Method(i).Name()) {
			if c.PkgOf(fn) != "interpreter" {
				continue
			}
			var errParam *ssa.Parameter
			for _, p := range fn.Params {
				if p.Type().String() == "error" {
					errParam = p
				}
			}
			if errParam == nil {
				continue
			}
			var waits []ssa.Instruction
			allInstrs(fn, func(in ssa.Instruction) {
				if op, ok := condOpOf(in); ok && op.Kind == "Wait" {
					waits = append(waits, in)
				}
				// a helper that waits
				if call, ok := in.(*ssa.Call); ok {
					if f := call.Call.StaticCallee(); f != nil && c.modFuncSet[f] && c.PkgOf(f) == "interpreter" && f != fn {
						has := false
						allInstrs(f, func(x ssa.Instruction) {
							if op, ok := condOpOf(x); ok && op.Kind == "Wait" {
								has = true
							}
						})
						if has {
							waits = append(waits, in)
						}
					}
				}
			})
			if len(waits) == 0 {
				continue
			}
			key := c.FuncKey(fn)
			isWait := map[ssa.Instruction]int{}
			for i, w := range waits {
				isWait[w] = i
			}
			ungated := map[int]bool{}
			onErrPath := map[int]bool{}
			o := &PathOracle{NonNilParams: false}
			o.Visit = func(st *PState, in ssa.Instruction) {
				i, ok := isWait[in]
				if !ok {
					return
				}
				// is this wait reached because break-on-error is set and the error is non-nil?
				if st.Get(errParam, o) != AvNonNil {
					return
				}
				boe := false
				for v, a := range st.vals {
					if ld, isLoad := v.(*ssa.UnOp); isLoad && a == AvNonNil {
						if fa, isFA := ld.X.(*ssa.FieldAddr); isFA && fieldVar(fa) == fBoE {
							boe = true
						}
					}
				}
				if !boe {
					return
				}
				onErrPath[i] = true
				gated := false
				allInstrs(fn, func(x ssa.Instruction) {
					if call, isCall := x.(*ssa.Call); isCall {
						if cf := call.Call.StaticCallee(); cf != nil && classifiers[cf] && len(call.Call.Args) == 1 &&
							st.canon(call.Call.Args[0]) == st.canon(errParam) && st.Get(call, o) == AvNil {
							gated = true
						}
					}
				})
				if !gated {
					ungated[i] = true
				}
			}
			if !ExplorePaths(fn, o) {
				r.Undecide("R15e: path exploration of %s exceeded its state bound", key)
				continue
			}
			for i, w := range waits {
				if !onErrPath[i] {
					continue
				}
				n++
				site := fmt.Sprintf("%s#break-on-error#%d", key, i)
				pos := c.Pos(c.InstrPos(w))
				if ungated[i] {
					r.Instance("R15e", site, pos, "finding", "suspension on an unclassified error", true)
					r.Report(Finding{Rule: "R15e", Site: site, Pos: pos,
						Msg: key + ": a thread is suspended because break-on-error is set and the reported error is non-nil, without the error having been classified: the iterator signal of range(), `return`, `break` and `continue` travel the same channel — a program with `for i in range(..)` stops under the debugger's default settings although no break point, step command or error applies"})
				} else {
					r.Instance("R15e", site, pos, "ok", "on every such path the error was classified as not being a control signal", true)
				}
			}
		}
	}
	r.Floor("R15e", n, 1)
}

// ---- R15f: StopThreads wakes every suspended thread -----------------------------------------------

// The loop over the interrogation states has to reach the wake-up (running = true + Broadcast,
// directly or through a helper) for every suspended thread: whether it does may depend on that
// thread's own state, but not on anything carried over from earlier rounds of the loop (a result
// flag that short-circuits the call once one thread has been released).
func c15StopAll(c *Ctx, r *Result, dbgIface *types.Interface) {
	fStates := c.Field("interpreter", "ecalDebugger", "interrogationStates")
	if fStates == nil {
		r.Undecide("R15f: ecalDebugger.interrogationStates not found")
		return
	}
	broadcasts := map[*ssa.Function]bool{}
	for _, fn := range c.ModFuncs() {
		if c.PkgOf(fn) != "interpreter" {
			continue
		}
		allInstrs(fn, func(in ssa.Instruction) {
			if op, ok := condOpOf(in); ok && (op.Kind == "Broadcast" || op.Kind == "Signal") {
				broadcasts[fn] = true
			}
		})
	}
	n := 0
	for _, fn := range c.Implementations(dbgIface, "StopThreads") {
		if c.PkgOf(fn) != "interpreter" {
			continue
		}
		key := c.FuncKey(fn)
		// the range loop over the states
		var loop map[*ssa.BasicBlock]bool
		allInstrs(fn, func(in ssa.Instruction) {
			rg, ok := in.(*ssa.Range)
			if !ok {
				return
			}
			if ld, ok := rg.X.(*ssa.UnOp); ok {
				if fa, ok := ld.X.(*ssa.FieldAddr); ok && fieldVar(fa) == fStates {
					for _, ref := range *rg.Referrers() {
						if nx, ok := ref.(*ssa.Next); ok {
							loop = sccOf(nx.Block())
						}
					}
				}
			}
		})
		if loop == nil {
			r.Undecide("R15f: no loop over the interrogation states in %s", key)
			continue
		}
		ord := newOrdinals()
		allInstrs(fn, func(in ssa.Instruction) {
			if !loop[in.Block()] {
				return
			}
			wake := false
			if op, ok := condOpOf(in); ok && (op.Kind == "Broadcast" || op.Kind == "Signal") {
				wake = true
			}
			if call, ok := in.(*ssa.Call); ok {
				if f := call.Call.StaticCallee(); f != nil && broadcasts[f] {
					wake = true
				}
			}
			if !wake {
				return
			}
			n++
			site := ord.key(key, "wake", "")
			pos := c.Pos(c.InstrPos(in))
			// conditions this wake-up is control dependent on
			carried := ""
			facts := FactsAt(in)
			check := func(v ssa.Value) {
				seen := map[ssa.Value]bool{}
				var walk func(v ssa.Value, d int)
				walk = func(v ssa.Value, d int) {
					if v == nil || seen[v] || d > 8 {
						return
					}
					seen[v] = true
					switch x := v.(type) {
					case *ssa.Phi:
						if isLoopHeaderPhi(x) && loop[x.Block()] {
							for i, pr := range x.Block().Preds {
								if x.Block().Dominates(pr) {
									if _, isC := x.Edges[i].(*ssa.Const); !isC {
										carried = x.Comment
									}
								}
							}
						}
						for _, e := range x.Edges {
							walk(e, d+1)
						}
					case *ssa.UnOp:
						walk(x.X, d+1)
					case *ssa.BinOp:
						walk(x.X, d+1)
						walk(x.Y, d+1)
					}
				}
				walk(v, 0)
			}
			for v := range facts.TrueV {
				check(v)
			}
			for v := range facts.FalseV {
				check(v)
			}
			if carried != "" {
				r.Instance("R15f", site, pos, "finding", "wake-up depends on loop-carried "+carried, true)
				r.Report(Finding{Rule: "R15f", Site: site, Pos: pos,
					Msg: fmt.Sprintf("%s: whether a suspended thread is woken depends on %q, a value carried over from earlier rounds of the loop over the interrogation states: once it changes (e.g. `ret = ret || release()` short-circuits after the first released thread) the remaining suspended threads are never released", key, carried)})
				return
			}
			r.Instance("R15f", site, pos, "ok", "the wake-up depends on the thread's own state only", true)
		})
	}
	r.Floor("R15f", n, 1)
}

func c15NoPredicateReset(c *Ctx, r *Result, lfs *LockFlows) {
	fRunning := c.Field("interpreter", "interrogationState", "running")
	fStates := c.Field("interpreter", "ecalDebugger", "interrogationStates")
	if fRunning == nil || fStates == nil {
		r.Undecide("R15g: interrogationState.running / ecalDebugger.interrogationStates not found")
		return
	}
	isFalseStore := func(in ssa.Instruction) bool {
		st, ok := in.(*ssa.Store)
		if !ok {
			return false
		}
		fa, ok := st.Addr.(*ssa.FieldAddr)
		if !ok || fieldVar(fa) != fRunning {
			return false
		}
		cv, ok := st.Val.(*ssa.Const)
		return ok && cv.Value != nil && cv.Value.String() == "false"
	}
	// helpers that reset the predicate
	resets := map[*ssa.Function]bool{}
	for _, fn := range c.ModFuncs() {
		if c.PkgOf(fn) != "interpreter" || strings.HasPrefix(fn.Name(), "newInterrogationState") {
			continue
		}
		allInstrs(fn, func(in ssa.Instruction) {
			if isFalseStore(in) {
				resets[fn] = true
			}
		})
	}
	dbgLock := func(lf *LockFlow, in ssa.Instruction) bool {
		if lf == nil {
			return false
		}
		for p, cl := range lf.ClassOf {
			if strings.HasPrefix(cl, "interpreter.ecalDebugger") && lf.MustHoldPath(in, p, false) {
				return true
			}
		}
		return false
	}
	n := 0
	for _, fn := range c.ModFuncs() {
		if c.PkgOf(fn) != "interpreter" {
			continue
		}
		lf := lfs.Of(fn)
		// publications: running = false stored with the debugger lock held exclusively, or a state entered into the table
		var pubs []ssa.Instruction
		allInstrs(fn, func(in ssa.Instruction) {
			if isFalseStore(in) && dbgLock(lf, in) {
				pubs = append(pubs, in)
			}
			if mu, ok := in.(*ssa.MapUpdate); ok {
				if ld, ok := mu.Map.(*ssa.UnOp); ok {
					if fa, ok := ld.X.(*ssa.FieldAddr); ok && fieldVar(fa) == fStates {
						pubs = append(pubs, in)
					}
				}
			}
		})
		if len(pubs) == 0 {
			continue
		}
		key := c.FuncKey(fn)
		ord := newOrdinals()
		bad := false
		isPub := map[ssa.Instruction]bool{}
		for _, p := range pubs {
			isPub[p] = true
		}
		isReset := func(in ssa.Instruction) bool {
			reset := isFalseStore(in)
			if call, ok := in.(*ssa.Call); ok {
				if f := call.Call.StaticCallee(); f != nil && resets[f] && f != fn {
					reset = true
				}
			}
			return reset && !dbgLock(lf, in)
		}
		// path-sensitive (flag variables select the wait site): a reset reached on a path that
		// passed a publication
		flagged := map[ssa.Instruction]ssa.Instruction{}
		o := &PathOracle{}
		o.Visit = func(st *PState, in ssa.Instruction) {
			if isPub[in] {
				st.Flags["pub:"+c.Pos(c.InstrPos(in))] = true
				return
			}
			if !isReset(in) {
				return
			}
			for k, on := range st.Flags {
				if on && strings.HasPrefix(k, "pub:") {
					for _, p := range pubs {
						if "pub:"+c.Pos(c.InstrPos(p)) == k && p != in {
							flagged[in] = p
						}
					}
				}
			}
		}
		if !ExplorePaths(fn, o) {
			r.Undecide("R15g: path exploration of %s exceeded its state bound", key)
			continue
		}
		var ins []ssa.Instruction
		for in := range flagged {
			ins = append(ins, in)
		}
		sort.Slice(ins, func(i, j int) bool { return ins[i].Pos() < ins[j].Pos() })
		for _, in := range ins {
			n++
			bad = true
			site := ord.key(key, "predicate-reset", "")
			pos := c.Pos(c.InstrPos(in))
			r.Instance("R15g", site, pos, "finding", "running reset to false after publication", true)
			r.Report(Finding{Rule: "R15g", Site: site, Pos: pos,
				Msg: fmt.Sprintf("%s: the thread's state is published as suspended at %s, the debugger lock is released, and running is then set to false again before waiting: a continue or stop command that arrives in between is overwritten and the thread waits forever although the command was given", key, c.Pos(c.InstrPos(flagged[in])))})
		}
		if !bad {
			n++
			r.Instance("R15g", key+"#publication", c.Pos(fn.Pos()), "ok", fmt.Sprintf("%d publication(s) of a suspended state; on no path is running written again before the wait", len(pubs)), true)
		}
	}
	r.Floor("R15g", n, 2)
}

// debuggerGuardedFields: the fields of ecalDebugger that its lock protects — the confirmed ones, and
// every other map- or slice-typed field (a table added later is shared by the command handlers and
// the evaluating threads like the others) except those with a lock of their own.
func debuggerGuardedFields(c *Ctx, r *Result) []*types.Var {
	confirmed := []string{"breakPoints", "interrogationStates", "callStacks", "callStackVsSnapshots", "callStackGlobalVsSnapshots", "sources", "breakOnStart", "breakOnError", "lastVisit"}
	ownLock := map[string]bool{"mutexeOwners": true} // guarded by mutexeOwnersLock (C16 R16f / C12)
	var out []*types.Var
	seen := map[string]bool{}
	for _, fname := range confirmed {
		f := c.Field("interpreter", "ecalDebugger", fname)
		if f == nil {
			r.Undecide("field ecalDebugger.%s not found", fname)
			continue
		}
		seen[fname] = true
		out = append(out, f)
	}
	if n := c.NamedType("interpreter", "ecalDebugger"); n != nil {
		if st, ok := n.Underlying().(*types.Struct); ok {
			for i := 0; i < st.NumFields(); i++ {
				f := st.Field(i)
				if seen[f.Name()] || ownLock[f.Name()] {
					continue
				}
				switch f.Type().Underlying().(type) {
				case *types.Map, *types.Slice:
					out = append(out, f)
				}
			}
		}
	}
	return out
}

func debuggerGuardedBy(c *Ctx, r *Result, g *guardChecker, rule string, ifuncs []*ssa.Function) int {
	total := 0
	for _, f := range debuggerGuardedFields(c, r) {
		total += g.check(r, rule, GuardSpec{Field: f, FieldName: "ecalDebugger." + f.Name(), Lock: "interpreter.ecalDebugger.lock", ReadLockOK: true},
			ifuncs, func(*ssa.Function) string { return "" })
	}
	return total
}
