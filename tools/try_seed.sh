#!/bin/bash
# tools/try_seed.sh <patch.diff> [Cxx ...]   apply a seeded change to /repo, run the quick checks
# (all claimed properties when none is named) without touching the evidence, undo the change.
set -u
cd "$(dirname "$0")/.." || exit 2
patch="$1"; shift
props="$*"
[ -z "$props" ] && props="C01 C02 C03 C04 C05 C06 C07 C08 C09 C10 C11 C12 C13 C14 C15 C16 C17 C18 C19"
[ -x bin/ecalcheck ] || ./run.sh build
if [ -n "$(git -C /repo status --porcelain)" ]; then echo "/repo is not clean"; exit 2; fi
git -C /repo apply "$patch" || { echo "patch does not apply"; exit 2; }
trap 'git -C /repo checkout -- . ; git -C /repo clean -fdq' EXIT
hit=""
for p in $props; do
  out=$(bin/ecalcheck -prop $p -tier quick -repo /repo -verif "$PWD" -no-evidence 2>&1)
  if echo "$out" | grep -q "VIOLATION property="; then
    hit="$hit $p"
    echo "== $p REPORTS:"; echo "$out" | grep -E "^$p (R|UNDEC)" | cut -c1-330 | head -6
  fi
done
echo "SUMMARY patch=$patch reported_by:${hit:- NONE}"
