#!/usr/bin/env python3
"""Regenerates refactors/README.md from the meta.json files."""
import json, glob
rows=[json.load(open(mf)) for mf in sorted(glob.glob('/verif/refactors/*/meta.json'))]
def rnd(m): return m.get('round', 1)
out=[]
out.append("# Behaviour-preserving restructurings (false-alarm measurement)\n\n")
out.append("Each directory holds one change to krotik/ecal written by a fresh sub-agent that was given only the text of one\n"
"property and its own scratch git worktree (nothing from /verif), and was asked for a *behaviour-preserving* maintenance\n"
"edit of the code the property depends on, with an equivalence argument (`ARGUMENT.md`) and, mostly, a differential test\n"
"against the untouched tree. All compile and pass the unedited suite. `meta.json` records the alarms the checker raised\n"
"when it first saw the change (`alarms_at_first_contact`: property:rule) — every one of those was a false alarm and was\n"
"repaired in the checker, never by touching the change. `tools/try_refactor.sh <patch>` applies one to /repo, runs the\n"
"quick checks of all 19 claimed properties, lists every report and undoes it; every thorough run applies to scratch\n"
"copies all restructurings made for its property and all that ever raised one of its alarms (`refactor` variants must\n"
"stay silent). None of these changes was ever committed to /repo.\n")
tot=len(rows)
for r in sorted(set(rnd(m) for m in rows)):
    rs=[m for m in rows if rnd(m)==r]
    first=sum(1 for m in rs if m.get('alarms_at_first_contact'))
    now=sum(1 for m in rs if m.get('status')!='silent')
    out.append(f"\n## Round {r}: {len(rs)} changes — {first} raised an alarm at first contact ({100*first//len(rs)} %), {now} raise one with the committed checker\n\n")
    if r==1:
        out.append("Round 1 met the checker as it stood after the two seeding rounds: rules written against one spelling of the code.\n")
    elif r==2:
        out.append("Round 2 met the checker after the repairs of round 1 (DESIGN 7.4), with fresh sub-agents that were told which\n"
                   "restructurings had been tried already. It is the unbiased measurement of those repairs — and it is not good: the\n"
                   "repairs of round 1 generalised along the axes round 1 happened to exercise, and round 2 found others (a type\n"
                   "switch instead of two assertions, a bulk library call instead of a loop, the predicate written out at its only call\n"
                   "site, a helper with several results, `sort.Slice`, `!=` loop conditions).\n")
    elif r==3:
        out.append("Round 3 met the checker after the repairs of rounds 1 and 2 and after the rules added for the third seeding round\n"
                   "(R01h, R02g, R03g/h, R05i, R08f, R10g, R13d/e, R15h/i, R16g/h, R19e/f). The rate did not fall: each round finds\n"
                   "spellings the earlier ones did not (recursion for a loop, a release function returned by the acquiring function, a\n"
                   "table for an or-chain, a named deferred function, a single exit through a named result, two loops for one).\n")
    elif r==4:
        out.append("Round 4 met the checker after the repairs of round 3, several of which had replaced a matcher by an analysis\n"
                   "(R03c on SSA, the containment engine of C17, the release-function idiom, path-by-path decisions). First time\n"
                   "below a quarter.\n")
    elif r==5:
        out.append("Round 5 was small and aimed: ten properties, two restructurings each, of exactly the functions that the rules\n"
                   "written in the last hours inspect (R01i, R02h, R04i, R09e, R11g/R12f, R13f, R15j, R16i, R18g, R19g) — the agents\n"
                   "were given function names, not rules. The three newest rules stayed silent; the alarms came from the round-4\n"
                   "rules that were anchored on one function (the action literal, `NewRootMonitor`, a loop-carried flag) and, again,\n"
                   "from older rules meeting a helper split (R09d polling loop in a helper, R15i lookup helper, R02b-post posting\n"
                   "helper, R10a-dec guard at the call site, reviewed C06 entries two calls away). The rate is back above a third:\n"
                   "a rule is only as general as the restructurings it has met.\n")
    elif r==6:
        out.append("Round 6 was made in the last hour, in the same aimed way (six properties, helper splits and control-flow rewrites\n"
                   "of functions that older rules are anchored on). Seven of twelve raised an alarm — the worst rate of all rounds,\n"
                   "because helper splits are exactly what anchored rules cannot take. Three were repaired in the time left (C17-15,\n"
                   "C17-16, C05-15); **four are open false alarms of the committed checker** and are listed as such: C03-15 (operand\n"
                   "helpers rebuilt: R03d finds none of its five instances, and C06 cannot bound two index parameters that every call\n"
                   "site passes as constants), C03-16 (the comparison functions taken from a table of function values: R03c cannot\n"
                   "resolve them), C10-15 (ProcessEvent split: R01e does not follow the rule list through `rulesInScope` /\n"
                   "`runRules`), C12-15 (the lock of the named mutex in a helper that is handed the mutex: the anchor of R12b/R12c is\n"
                   "not found). Every thorough run applies them and reports them as documented open false alarms, not as passes.\n")
    out.append("\n| id | restructuring | alarms at first contact |\n|---|---|---|\n")
    for m in rs:
        a=', '.join(m.get('alarms_at_first_contact',[])) or '—'
        if m.get('status','silent')!='silent':
            a+=' — **open (not repaired)**'
        t=m['title'].replace('|','/')
        out.append(f"| {m['id']} | {t} | {a} |\n")
open('/verif/refactors/README.md','w').write(''.join(out))
print("ok", tot)
