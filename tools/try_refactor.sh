#!/bin/bash
# tools/try_refactor.sh <patch.diff>   apply a behaviour-preserving change to /repo, run all quick checks, list every report
cd "$(dirname "$0")/.." || exit 2
out=$(./tools/try_seed.sh "$1" 2>&1)
echo "$out" | grep -E "^(== |C[0-9]+ (R|UNDEC)|SUMMARY|patch does not apply|/repo is not clean)" | cut -c1-${2:-260}
